"""pyvc symbolic executor / VC generator (DESIGN.md section 2).

Forward symbolic execution of the real function body, path-splitting at branches, loops
cut by the invariants of the sidecar contract, calls replaced by callee contracts.
Every proof obligation is an (assumptions |- goal) pair discharged by z3 in solve.py.
"""
import ast
import hashlib
import os
import z3

from .values import *  # noqa
from . import contracts as C

INT64_MIN = -(2 ** 63)
INT64_MAX = 2 ** 63 - 1
MAX_DIM = 2 ** 48


class VerifError(Exception):
    """The engine cannot process the function (construct outside the subset, stale
    contract ...).  This is exit code 3 (tool failure), never a violation."""


class Obligation:
    __slots__ = ("oid", "kind", "assumes", "goal", "func", "lineno", "text", "variant", "extra")

    def __init__(self, oid, kind, assumes, goal, func, lineno, text, variant):
        self.oid = oid
        self.kind = kind
        self.assumes = assumes
        self.goal = goal
        self.func = func
        self.lineno = lineno
        self.text = text
        self.variant = variant
        self.extra = {}


class State:
    def __init__(self):
        self.env = {}
        self.heap = {}
        self.assumes = []
        self.guards = []
        self.old = None
        self.funcs = {}  # ghost function symbols
        self.pending_ovf = []
        self.labels = {}

    def fork(self):
        s = State()
        s.env = dict(self.env)
        s.heap = dict(self.heap)
        s.assumes = list(self.assumes)
        s.guards = list(self.guards)
        s.old = self.old
        s.funcs = dict(self.funcs)
        s.pending_ovf = list(self.pending_ovf)
        s.labels = dict(self.labels)
        return s

    def snapshot(self):
        s = State()
        s.env = dict(self.env)
        s.heap = dict(self.heap)
        s.old = self.old
        s.funcs = self.funcs
        s.labels = self.labels
        return s

    def facts(self):
        return list(self.assumes) + list(self.guards)

    def assume(self, e):
        if self.guards:
            e = z3.Implies(z3.And(*self.guards), e)
        self.assumes.append(e)


class SourceIndex:
    """Finds real functions in the repository source and resolves names through imports."""

    def __init__(self, repo):
        self.repo = repo
        self.modules = {}

    def module(self, modname):
        if modname not in self.modules:
            path = os.path.join(self.repo, *modname.split(".")) + ".py"
            if not os.path.exists(path):
                path = os.path.join(self.repo, *modname.split("."), "__init__.py")
            if not os.path.exists(path):
                raise VerifError("module %s not found under %s" % (modname, self.repo))
            src = open(path).read()
            tree = ast.parse(src, path)
            imports = {}
            funcs = {}
            for node in tree.body:
                if isinstance(node, ast.ImportFrom) and (node.module or node.level):
                    base = node.module or ""
                    if node.level:
                        # relative import: resolve against this module's package
                        pkg = modname.split(".")
                        if not path.endswith("__init__.py"):
                            pkg = pkg[:-1]
                        pkg = pkg[: len(pkg) - (node.level - 1)]
                        base = ".".join(pkg + ([node.module] if node.module else []))
                    for a in node.names:
                        imports[a.asname or a.name] = base + "." + a.name
                elif isinstance(node, ast.Import):
                    for a in node.names:
                        imports[a.asname or a.name.split(".")[0]] = a.name
                elif isinstance(node, ast.FunctionDef):
                    funcs[node.name] = node
            self.modules[modname] = (path, src, tree, imports, funcs)
        return self.modules[modname]

    def function(self, qualname):
        if ".__init__" in qualname:
            return self.initialiser(qualname)
        modname, fname = qualname.rsplit(".", 1)
        path, src, tree, imports, funcs = self.module(modname)
        if fname not in funcs:
            raise VerifError("function %s not found in %s" % (fname, path))
        node = funcs[fname]
        seg = ast.get_source_segment(src, node)
        sha = hashlib.sha256(seg.encode()).hexdigest()
        return node, imports, sha, path

    def initialiser(self, qualname):
        """synthesise a parameterless function from the module-level initialiser of a global:
        `NAME = <expr>` followed by the consecutive `for` statements that mention NAME"""
        modname, gname = qualname.split(".__init__")
        path, src, tree, imports, funcs = self.module(modname)
        body = []
        it = iter(tree.body)
        for node in it:
            if isinstance(node, ast.Assign) and len(node.targets) == 1 and isinstance(node.targets[0], ast.Name) and node.targets[0].id == gname:
                body.append(node)
                for nxt in it:
                    if isinstance(nxt, ast.For) and any(isinstance(n, ast.Name) and n.id == gname for n in ast.walk(nxt)):
                        body.append(nxt)
                    else:
                        break
                break
        if not body:
            raise VerifError("module-level initialiser of %s not found" % qualname)
        seg = "\n".join(ast.get_source_segment(src, b) for b in body)
        sha = hashlib.sha256(seg.encode()).hexdigest()
        ret = ast.Return(value=ast.Name(id=gname, ctx=ast.Load()))
        ast.copy_location(ret, body[-1])
        ast.fix_missing_locations(ret)
        fn = ast.FunctionDef(name="__init__" + gname, args=ast.arguments(posonlyargs=[], args=[], kwonlyargs=[], kw_defaults=[], defaults=[]), body=body + [ret], decorator_list=[])
        ast.copy_location(fn, body[0])
        return fn, imports, sha, path

    def resolve(self, modname, name_parts):
        """Resolve a dotted name used inside module `modname` to a qualified name."""
        path, src, tree, imports, funcs = self.module(modname)
        head = name_parts[0]
        if head in funcs and len(name_parts) == 1:
            return modname + "." + head
        if head in imports:
            return ".".join([imports[head]] + list(name_parts[1:]))
        return ".".join(name_parts)


def _strip_doc(body):
    if body and isinstance(body[0], ast.Expr) and isinstance(body[0].value, ast.Constant) and isinstance(body[0].value.value, str):
        return body[1:]
    return body


def arrays_of(v):
    """the heap array references inside a symbolic value"""
    if isinstance(v, SArr):
        return [v]
    if isinstance(v, STuple):
        return [a for it in v.items for a in arrays_of(it)]
    return []


def assigned_names(stmts):
    """Names syntactically assigned in stmts, and names of arrays stored into."""
    names, stores = set(), set()

    def tgt(t):
        if isinstance(t, ast.Name):
            names.add(t.id)
        elif isinstance(t, (ast.Tuple, ast.List)):
            for e in t.elts:
                tgt(e)
        elif isinstance(t, ast.Subscript):
            b = t.value
            while isinstance(b, ast.Subscript):
                b = b.value
            if isinstance(b, ast.Name):
                stores.add(b.id)

    for st in stmts:
        for n in ast.walk(st):
            if isinstance(n, ast.Assign):
                for t in n.targets:
                    tgt(t)
            elif isinstance(n, ast.AugAssign):
                tgt(n.target)
            elif isinstance(n, ast.For):
                tgt(n.target)
            elif isinstance(n, ast.NamedExpr):
                tgt(n.target)
    return names, stores


def _trivial_side(stmts):
    for s in stmts:
        if isinstance(s, (ast.Raise, ast.Pass)):
            continue
        if isinstance(s, ast.If) and _trivial_side(s.body) and _trivial_side(s.orelse):
            continue
        return False
    return True


class Ret:
    def __init__(self, value):
        self.value = value


FALL, BREAK, CONTINUE, RAISE = "fall", "break", "continue", "raise"


class FunctionVerifier:
    def __init__(self, engine, cd, variant=None):
        self.E = engine
        self.cd = cd
        self.db = engine.db
        self.variant = variant or {}
        self.obls = []
        self.counter = 0
        self.anchor_counts = {}
        self.dry = 0
        self.machine_ints = cd.options.get("machine_ints", False)
        self.modname = None
        self.loop_ids = {}
        self.call_counts = {}
        self.is_lemma = cd.kind == "lemma"
        self.ghost_mode = 0
        self.uf_cache = engine.uf_cache
        self.spec_depth = 0
        self.exists_mode = "witness"
        self.checking_spec = None
        self.spec_measure0 = None
        self.lemma_measure0 = None
        self.call_sites = {}
        self.real_assigned = set()
        self.stmt_keys = {}
        self.missing_anchors = []
        self.view_copies = set()  # locations that model a NumPy slice view as a copy: must never be written
        self.view_src = {}  # ... and must not be read after their base array has been written
        self.used_anchors = set()
        self.computing = False
        self.skolems = []
        self.branches = {}
        self.if_ids = {}

    # ------------------------------------------------------------------ utilities
    def fresh(self, name, sort):
        self.counter += 1
        return z3.Const("%s!%d" % (name, self.counter), sort)

    def fresh_int(self, name):
        return self.fresh(name, I)

    def vname(self):
        if not self.variant:
            return ""
        return "[" + ",".join("%s=%s" % (k, v) for k, v in sorted(self.variant.items())) + "]"

    def oblige(self, kind, anchor, goal, st, node=None, extra_assumes=()):
        if self.dry:
            return
        goal_s = z3.simplify(goal) if z3.is_expr(goal) else goal
        if z3.is_true(goal_s):
            # trivially true after simplification: still count it, but no solver call needed
            pass
        base = "%s/%s/%s" % (self.cd.qualname or ("lemma." + self.cd.name), kind, anchor)
        n = self.anchor_counts.get(base, 0)
        self.anchor_counts[base] = n + 1
        oid = base + self.vname() + ("#%d" % n if n else "")
        o = Obligation(
            oid,
            kind,
            st.facts() + list(extra_assumes),
            goal,
            self.cd.qualname or self.cd.name,
            getattr(node, "lineno", 0),
            ast.unparse(node)[:80] if node is not None else "",
            self.vname(),
        )
        self.obls.append(o)
        if kind in ("index-in-bounds", "store-fits-dtype", "div-positive", "alloc-nonneg", "shape-match"):
            st.assume(goal)

    def stmt_anchor(self, node):
        t = ast.unparse(node).split("\n")[0]
        return t[:48]

    # ------------------------------------------------------------------ heap helpers
    def new_loc(self, st, dtype, shape, comps=None, name="arr"):
        self.counter += 1
        loc = "%s@%d" % (name, self.counter)
        if comps is None:
            comps = {}
            for cn, srt in elem_sorts(dtype).items():
                comps[cn] = self.fresh("%s_%s" % (name, cn), arr_sort(srt, len(shape)))
        st.heap[loc] = ArrObj(dtype, shape, comps)
        return SArr(loc)

    def fresh_array(self, st, name, dtype, ndim):
        shape = []
        for d in range(ndim):
            s = self.fresh_int("%s_shape%d" % (name, d))
            st.assume(z3.And(s >= 0, s <= MAX_DIM))  # assumption A7: array axes have at most 2^48 entries
            shape.append(s)
        a = self.new_loc(st, dtype, shape, name=name)
        self.assume_dtype_range(st, dtype, st.heap[a.loc].comps["v"], ndim)
        return a

    def assume_dtype_range(self, st, dtype, term, ndim):
        """elements of a narrow integer array are in the dtype's range (every store is checked)"""
        rng = DTYPES.get(dtype)
        if rng is None or ndim == 0 or ndim > 3:
            return
        ks = [self.fresh_int("r%d" % d) for d in range(ndim)]
        e = nested_select(term, ks)
        st.assume(z3.ForAll(ks, z3.And(e >= rng[0], e <= rng[1]), patterns=[e]))

    def arr_shape(self, st, a):
        o = st.heap[a.loc]
        return o.shape[len(a.prefix):]

    def arr_ndim(self, st, a):
        return len(self.arr_shape(st, a))

    def arr_term(self, st, a, comp="v"):
        o = st.heap[a.loc]
        return nested_select(o.comps[comp], a.prefix)

    def arr_value(self, st, a):
        self.check_view_fresh(st, a)
        o = st.heap[a.loc]
        return SArrVal(o.dtype, self.arr_shape(st, a), {c: nested_select(t, a.prefix) for c, t in o.comps.items()})

    def elem_from_terms(self, st, dtype, terms, add_range=True):
        if is_float_dtype(dtype) or dtype == "fdict":
            return SFloat(terms["v"], terms["ninf"], terms["nan"])
        if is_bool_dtype(dtype):
            return SBool(terms["v"])
        v = terms["v"]
        rng = DTYPES[dtype]
        if add_range and rng is not None and not z3.is_int_value(v):
            st.assume(z3.And(v >= rng[0], v <= rng[1]))
        return SInt(v)

    def check_view_fresh(self, st, a):
        src = self.view_src.get(a.loc)
        if src is not None and st.heap.get(src[0]) is not src[1]:
            cur = st.heap.get(src[0])
            if cur is None or any(not cur.comps[c].eq(src[1].comps[c]) for c in cur.comps):
                raise VerifError("a slice view is read after its base array was written (views are modelled as copies)")

    def load(self, st, a, idxs, node=None, prog=True):
        self.check_view_fresh(st, a)
        o = st.heap[a.loc]
        full = a.prefix + tuple(idxs)
        if o.dtype == "fdict":
            if len(idxs) != o.ndim:
                raise VerifError("dict subscript")
            if prog:
                self.oblige("key-present", self.stmt_anchor(node) if node is not None else "load", nested_select(o.comps["has"], idxs), st, node)
            terms = {c: z3.simplify(nested_select(t, idxs)) for c, t in o.comps.items()}
            return SFloat(terms["v"], terms["ninf"], terms["nan"])
        if prog and self.cd.options.get("neg_index"):
            # Python / numba wrap-around of negative indices (opt-in per contract: the obligation then only
            # excludes indices outside [-dim, dim))
            idxs = list(idxs)
            for k, ix in enumerate(idxs):
                dim = o.shape[len(a.prefix) + k]
                idxs[k] = z3.simplify(z3.If(ix < 0, ix + dim, ix))
            full = a.prefix + tuple(idxs)
        if prog:
            for k, ix in enumerate(idxs):
                dim = o.shape[len(a.prefix) + k]
                self.oblige("index-in-bounds", self.stmt_anchor(node) if node is not None else "load", z3.And(ix >= 0, ix < dim), st, node)
        if len(full) < o.ndim:
            return SArr(a.loc, full)
        # simplify beta-reduces select-of-lambda (lambda terms may not occur inside quantifier patterns)
        terms = {c: z3.simplify(nested_select(t, full)) for c, t in o.comps.items()}
        return self.elem_from_terms(st, o.dtype, terms, add_range=prog)

    def coerce_elem(self, st, dtype, val, node, prog=True):
        """Convert a scalar value to the component terms of an element of `dtype`."""
        if is_float_dtype(dtype):
            f = self.to_float(val)
            return {"v": f.v, "ninf": f.ninf, "nan": f.nan}
        if is_bool_dtype(dtype):
            if isinstance(val, SBool):
                return {"v": val.e}
            if isinstance(val, SInt):
                return {"v": val.e != 0}
            raise VerifError("cannot store %r into bool array" % (val,))
        if isinstance(val, SBool):
            val = SInt(z3.If(val.e, 1, 0))
        if not isinstance(val, SInt):
            raise VerifError("cannot store %r into int array (%s)" % (val, ast.unparse(node) if node else ""))
        rng = DTYPES[dtype]
        if prog:
            self.oblige("store-fits-dtype", self.stmt_anchor(node) if node is not None else "store", z3.And(val.e >= rng[0], val.e <= rng[1]), st, node)
        return {"v": val.e}

    def store(self, st, a, idxs, val, node=None, prog=True):
        if a.loc in self.view_copies and prog:
            raise VerifError("store through a slice view is not modelled (views are read-only copies)")
        o = st.heap[a.loc]
        full = a.prefix + tuple(idxs)
        if o.dtype == "fdict":
            if len(idxs) != o.ndim:
                raise VerifError("dict subscript")
            f = self.to_float(val)
            new = {"v": f.v, "ninf": f.ninf, "nan": f.nan, "has": TRUE}
            st.heap[a.loc] = o.with_comps({c: nested_store(t, list(idxs), new[c]) for c, t in o.comps.items()})
            return
        if prog:
            for k, ix in enumerate(idxs):
                dim = o.shape[len(a.prefix) + k]
                self.oblige("index-in-bounds", self.stmt_anchor(node) if node is not None else "store", z3.And(ix >= 0, ix < dim), st, node)
        if len(full) == o.ndim:
            terms = self.coerce_elem(st, o.dtype, val, node, prog)
            comps = {c: nested_store(t, full, terms[c]) for c, t in o.comps.items()}
            st.heap[a.loc] = o.with_comps(comps)
            return
        # sub-array assignment a[i] = other_array / scalar
        self.store_slice(st, SArr(a.loc, full), None, None, val, node, prog)

    def column_mask_select(self, st, base, mask, node, prog):
        """a[:, mask] on a 2-D array with a 1-D boolean mask over the columns: the selected columns in order
        (column BCOUNT(mask, 0, c) of the result is column c of a).  A copy."""
        from . import externals as X

        X.USED.add("boolean mask selection a[:, mask] along axis 1 of a 2-D array: the selected columns in order")
        if self.arr_ndim(st, mask) != 1:
            raise VerifError("column mask selection needs a 1-D mask")
        shp = self.arr_shape(st, base)
        n = self.arr_shape(st, mask)[0]
        if prog:
            self.oblige("shape-match", self.stmt_anchor(node), shp[1] == n, st, node)
        sd = self.E.db.specs.get("BCOUNT")
        if sd is None:
            raise VerifError("spec BCOUNT missing")
        mt0 = self.arr_term(st, mask)
        mt = self.fresh("cmask", z3.ArraySort(I, B))
        p_ = self.fresh_int("p")
        st.assume(z3.ForAll([p_], z3.Select(mt, p_) == z3.Select(mt0, p_), patterns=[z3.Select(mt, p_)]))
        named_mask = SArrVal("b1", [n], {"v": mt})
        cnt = self.E.spec_app(self, st, sd, [named_mask, SInt(0), SInt(n)]).e
        st.assume(z3.And(cnt >= 0, cnt <= n))
        o = st.heap[base.loc]
        x = self.fresh_int("x")
        comps = {}
        rank = self.E.spec_app(self, st, sd, [named_mask, SInt(0), SInt(p_)]).e
        for c, t in o.comps.items():
            src = nested_select(t, base.prefix)
            r = self.fresh("cmsel_" + c, src.sort())
            st.assume(z3.ForAll([x, p_], z3.Implies(z3.And(p_ >= 0, p_ < n, z3.Select(mt, p_)), z3.Select(z3.Select(r, x), rank) == z3.Select(z3.Select(src, x), p_)), patterns=[z3.Select(z3.Select(src, x), p_)]))
            comps[c] = r
        res = self.new_loc(st, o.dtype, [shp[0], cnt], comps, name="cmsel")
        if "v" in comps and not is_float_dtype(o.dtype) and not is_bool_dtype(o.dtype):
            self.assume_dtype_range(st, o.dtype, comps["v"], 2)
        self.view_copies.add(res.loc)
        self.view_src[res.loc] = (base.loc, o)
        return res

    def write_back_column(self, st, view):
        """after a callee modified the column view  base[:, j]  (modelled as a copy): base[x, j] := view[x] for all rows x,
        every other cell of base unchanged.  The new contents of base are a named array with a pointwise definition."""
        base, j = self.view_col[view.loc]
        src = self.view_src.get(view.loc)
        cur = st.heap.get(base.loc)
        if src is None or cur is None or any(not cur.comps[c].eq(src[1].comps[c]) for c in cur.comps):
            raise VerifError("column view written by a callee after its base array changed")
        vo = st.heap[view.loc]
        x = self.fresh_int("x")
        c_ = self.fresh_int("c")
        comps = {}
        for c, t in cur.comps.items():
            nb = self.fresh("colwb_%s" % c, t.sort())
            st.assume(z3.ForAll([x, c_], z3.Select(z3.Select(nb, x), c_) == z3.If(c_ == j, z3.Select(vo.comps[c], x), z3.Select(z3.Select(t, x), c_)), patterns=[z3.Select(z3.Select(nb, x), c_)]))
            comps[c] = nb
        st.heap[base.loc] = cur.with_comps(comps)
        self.view_src[view.loc] = (base.loc, st.heap[base.loc])

    def store_slice(self, st, a, lo, hi, val, node=None, prog=True):
        if a.loc in self.view_copies and prog:
            raise VerifError("store through a slice view is not modelled (views are read-only copies)")
        """a[lo:hi] = val  (first remaining axis; lo/hi None = whole axis).
        val is a scalar (broadcast) or an array of matching shape."""
        o = st.heap[a.loc]
        shp = self.arr_shape(st, a)
        nd = len(shp)
        if nd == 0:
            raise VerifError("slice store into scalar")
        n0 = shp[0]
        lo_e = z3.IntVal(0) if lo is None else lo
        hi_e = n0 if hi is None else hi
        whole = lo is None and hi is None
        if prog and not whole:
            # python clips slices; numba too.  We require in-range slices (true at every use).
            self.oblige("index-in-bounds", self.stmt_anchor(node) if node is not None else "slice", z3.And(lo_e >= 0, hi_e <= n0), st, node)
        ks = [self.fresh_int("k%d" % d) for d in range(nd)]
        comps = {}
        if isinstance(val, SArr):
            so = st.heap[val.loc]
            sshp = self.arr_shape(st, val)
            if len(sshp) != nd:
                if len(sshp) == nd - 1:
                    # broadcast rows
                    src_idx = lambda ks: ks[1:]
                else:
                    raise VerifError("slice store rank mismatch")
            else:
                src_idx = lambda ks: [ks[0] - lo_e] + ks[1:]
                if prog:
                    goal = z3.And(*[sshp[d] == (shp[d] if d else hi_e - lo_e) for d in range(nd)])
                    self.oblige("shape-match", self.stmt_anchor(node) if node is not None else "slice", goal, st, node)
            for c, t in o.comps.items():
                if c in so.comps:
                    sval = nested_select(nested_select(so.comps[c], val.prefix), src_idx(ks))
                else:
                    sval = FALSE
                if c == "v" and is_float_dtype(o.dtype) and not is_float_dtype(so.dtype):
                    sval = z3.ToReal(sval)
                comps[c] = sval
            if not is_float_dtype(o.dtype) and not is_bool_dtype(o.dtype) and prog:
                srng, drng = DTYPES[so.dtype], DTYPES[o.dtype]
                if so.dtype == o.dtype or (so.dtype == "iN" and o.dtype == "i8") or (so.dtype == "i1" and o.dtype == "iN"):
                    pass
                elif srng is None or "iN" in (so.dtype, o.dtype) or srng[0] < drng[0] or srng[1] > drng[1]:
                    raise VerifError("narrowing array copy not supported")
        else:
            terms = self.coerce_elem(st, o.dtype, val, node, prog)
            comps = dict(terms)
        new = {}
        for c, t in o.comps.items():
            sub = nested_select(t, a.prefix)
            cur = nested_select(sub, ks)
            if whole:
                body = comps[c]
            else:
                body = z3.If(z3.And(ks[0] >= lo_e, ks[0] < hi_e), comps[c], cur)
            lam = body
            for k in reversed(ks):
                lam = z3.Lambda([k], lam)
            new[c] = nested_store(t, a.prefix, lam) if a.prefix else lam
        st.heap[a.loc] = o.with_comps(new)

    # ------------------------------------------------------------------ scalars
    def to_float(self, v):
        if isinstance(v, SFloat):
            return v
        if isinstance(v, SInt):
            return SFloat(z3.ToReal(v.e))
        if isinstance(v, SBool):
            return SFloat(z3.If(v.e, z3.RealVal(1), z3.RealVal(0)))
        raise VerifError("expected number, got %r" % (v,))

    def to_bool(self, v):
        if isinstance(v, SBool):
            return v.e
        if isinstance(v, SInt):
            return v.e != 0
        raise VerifError("expected bool, got %r" % (v,))

    def ovf(self, st, e, prog):
        if prog and self.machine_ints and not self.dry and not z3.is_int_value(e):
            st.pending_ovf.append((list(st.guards), e))

    def flush_ovf(self, st, node):
        if st.pending_ovf:
            goals = []
            for guards, e in st.pending_ovf:
                g = z3.And(e >= INT64_MIN, e <= INT64_MAX)
                if guards:
                    g = z3.Implies(z3.And(*guards), g)
                goals.append(g)
            st.pending_ovf = []
            self.oblige("int64-no-overflow", self.stmt_anchor(node), z3.And(*goals), st, node)
            # reported once: later obligations on this path may rely on it
            if not self.dry:
                st.assume(z3.And(*goals))

    def float_defined(self, st, cond, node, prog):
        if prog:
            self.oblige("float-defined", self.stmt_anchor(node), cond, st, node)
            if not self.dry:
                st.assume(cond)

    def binop(self, st, op, a, b, node, prog):
        if isinstance(a, SBool) and not isinstance(op, (ast.BitAnd, ast.BitOr)):
            a = SInt(z3.If(a.e, 1, 0))
        if isinstance(b, SBool) and not isinstance(op, (ast.BitAnd, ast.BitOr)):
            b = SInt(z3.If(b.e, 1, 0))
        if isinstance(a, SInt) and isinstance(b, SInt):
            if isinstance(op, ast.Add):
                r = a.e + b.e
            elif isinstance(op, ast.Sub):
                r = a.e - b.e
            elif isinstance(op, ast.Mult):
                r = a.e * b.e
            elif isinstance(op, ast.FloorDiv):
                if prog:
                    self.oblige("div-positive", self.stmt_anchor(node), b.e > 0, st, node)
                r = a.e / b.e  # z3 Int '/' is SMT div = floor for positive divisor
            elif isinstance(op, ast.Mod):
                if prog:
                    self.oblige("div-positive", self.stmt_anchor(node), b.e > 0, st, node)
                r = a.e % b.e
            elif isinstance(op, ast.Div):
                fa, fb = self.to_float(a), self.to_float(b)
                return self.binop(st, op, fa, fb, node, prog)
            elif isinstance(op, ast.Pow):
                sa, sb = z3.simplify(a.e), z3.simplify(b.e)
                if z3.is_int_value(sa) and z3.is_int_value(sb) and sb.as_long() >= 0:
                    return SInt(sa.as_long() ** sb.as_long())
                if z3.is_int_value(sb) and 0 <= sb.as_long() <= 4:
                    r = z3.IntVal(1)
                    for _ in range(sb.as_long()):
                        r = r * a.e
                else:
                    raise VerifError("non-constant power")
            else:
                raise VerifError("int operator %s" % type(op).__name__)
            r = z3.simplify(r) if z3.is_int_value(z3.simplify(r)) else r
            self.ovf(st, r, prog)
            return SInt(r)
        if isinstance(a, (SInt, SFloat)) and isinstance(b, (SInt, SFloat)):
            fa, fb = self.to_float(a), self.to_float(b)
            nn = z3.And(z3.Not(fa.nan), z3.Not(fb.nan))
            if isinstance(op, ast.Add):
                self.float_defined(st, nn, node, prog)
                return SFloat(fa.v + fb.v, z3.simplify(z3.Or(fa.ninf, fb.ninf)))
            if isinstance(op, ast.Sub):
                self.float_defined(st, z3.And(nn, z3.Not(fb.ninf)), node, prog)
                return SFloat(fa.v - fb.v, fa.ninf)
            if isinstance(op, ast.Mult):
                ok = z3.And(
                    nn,
                    z3.Implies(fa.ninf, z3.And(z3.Not(fb.ninf), fb.v > 0)),
                    z3.Implies(fb.ninf, z3.And(z3.Not(fa.ninf), fa.v > 0)),
                )
                self.float_defined(st, ok, node, prog)
                return SFloat(fa.v * fb.v, z3.simplify(z3.Or(fa.ninf, fb.ninf)))
            if isinstance(op, ast.Div):
                ok = z3.And(nn, z3.Not(fb.ninf), fb.v != 0, z3.Implies(fa.ninf, fb.v > 0))
                self.float_defined(st, ok, node, prog)
                return SFloat(fa.v / fb.v, fa.ninf)
            raise VerifError("float operator %s" % type(op).__name__)
        if isinstance(a, SArr) or isinstance(b, SArr):
            return self.array_binop(st, op, a, b, node, prog)
        if isinstance(a, STuple) and isinstance(b, STuple) and isinstance(op, ast.Add):
            return STuple(a.items + b.items)
        raise VerifError("binop on %r, %r (%s)" % (a, b, ast.unparse(node)))

    def array_binop(self, st, op, a, b, node, prog):
        """elementwise op on 1-D arrays / scalar broadcast -> new array"""
        arr = a if isinstance(a, SArr) else b
        shp = self.arr_shape(st, arr)
        if len(shp) != 1:
            raise VerifError("elementwise op on non-1-D array")
        k = self.fresh_int("k")

        def elem(x):
            if isinstance(x, SArr):
                if prog and x is not arr:
                    self.oblige("shape-match", self.stmt_anchor(node), self.arr_shape(st, x)[0] == shp[0], st, node)
                return self.load(st, x, [k], node, prog=False)
            return x

        ea, eb = elem(a), elem(b)
        # definedness of the element operation is required for all in-range k
        sub = st.fork()
        sub.guards = st.guards + [k >= 0, k < shp[0]]
        saved = self.obls
        r = self.binop(sub, op, ea, eb, node, prog)
        # quantify the obligations generated for the generic element
        st.assumes = sub.assumes
        rf = self.to_float(r) if isinstance(r, (SFloat,)) or is_float_dtype(st.heap[arr.loc].dtype) else r
        if isinstance(rf, SFloat):
            comps = {"v": z3.Lambda([k], rf.v), "ninf": z3.Lambda([k], rf.ninf), "nan": z3.Lambda([k], rf.nan)}
            return self.new_loc(st, "f8", [shp[0]], comps, name="ew")
        comps = {"v": z3.Lambda([k], rf.e)}
        return self.new_loc(st, "i8", [shp[0]], comps, name="ew")

    def compare(self, st, op, a, b, node, prog):
        if isinstance(op, (ast.Is, ast.IsNot)):
            r = isinstance(a, SNone) and isinstance(b, SNone)
            if not (isinstance(a, SNone) or isinstance(b, SNone)):
                raise VerifError("`is` only supported against None")
            return SBool(r if isinstance(op, ast.Is) else not r)
        if isinstance(op, (ast.In, ast.NotIn)):
            if isinstance(b, SRange):
                a = self.as_int(a)
                r = z3.And(a.e >= b.lo, a.e < b.hi)
                return SBool(r if isinstance(op, ast.In) else z3.Not(r))
            if (isinstance(b, SArr) and st.heap[b.loc].dtype == "fdict") or (isinstance(b, SArrVal) and b.dtype == "fdict"):
                has = st.heap[b.loc].comps["has"] if isinstance(b, SArr) else b.comps["has"]
                keys = [self.as_int(x).e for x in a.items] if isinstance(a, STuple) else [self.as_int(a).e]
                r = nested_select(has, keys)
                return SBool(r if isinstance(op, ast.In) else z3.Not(r))
            raise VerifError("`in` only supported on ranges and dicts")
        if isinstance(a, SNone) or isinstance(b, SNone):
            r = isinstance(a, SNone) and isinstance(b, SNone)
            if isinstance(op, ast.Eq):
                return SBool(r)
            if isinstance(op, ast.NotEq):
                return SBool(not r)
        if isinstance(a, SBool) and isinstance(b, SBool):
            if isinstance(op, ast.Eq):
                return SBool(a.e == b.e)
            if isinstance(op, ast.NotEq):
                return SBool(a.e != b.e)
        if isinstance(a, SBool):
            a = SInt(z3.If(a.e, 1, 0))
        if isinstance(b, SBool):
            b = SInt(z3.If(b.e, 1, 0))
        if isinstance(a, SInt) and isinstance(b, SInt):
            x, y = a.e, b.e
            table = {
                ast.Lt: lambda: x < y,
                ast.LtE: lambda: x <= y,
                ast.Gt: lambda: x > y,
                ast.GtE: lambda: x >= y,
                ast.Eq: lambda: x == y,
                ast.NotEq: lambda: x != y,
            }
            return SBool(table[type(op)]())
        if isinstance(a, (SInt, SFloat)) and isinstance(b, (SInt, SFloat)):
            fa, fb = self.to_float(a), self.to_float(b)
            if prog:
                self.float_defined(st, z3.And(z3.Not(fa.nan), z3.Not(fb.nan)), node, prog)
            nn = z3.And(z3.Not(fa.nan), z3.Not(fb.nan))  # any comparison with NaN is False
            lt = z3.And(nn, z3.Not(fb.ninf), z3.Or(fa.ninf, fa.v < fb.v))
            eq = z3.And(nn, z3.Or(z3.And(fa.ninf, fb.ninf), z3.And(z3.Not(fa.ninf), z3.Not(fb.ninf), fa.v == fb.v)))
            gt = z3.And(nn, z3.Not(fa.ninf), z3.Or(fb.ninf, fa.v > fb.v))
            table = {
                ast.Lt: lambda: lt,
                ast.LtE: lambda: z3.Or(lt, eq),
                ast.Gt: lambda: gt,
                ast.GtE: lambda: z3.Or(gt, eq),
                ast.Eq: lambda: eq,
                ast.NotEq: lambda: z3.Not(eq),
            }
            return SBool(z3.simplify(table[type(op)]()))
        if isinstance(a, STuple) and isinstance(b, STuple) and isinstance(op, (ast.Eq, ast.NotEq)):
            if len(a.items) != len(b.items):
                return SBool(isinstance(op, ast.NotEq))
            parts = [self.to_bool(self.compare(st, ast.Eq(), x, y, node, prog)) for x, y in zip(a.items, b.items)]
            e = z3.And(*parts) if parts else TRUE
            return SBool(e if isinstance(op, ast.Eq) else z3.Not(e))
        if isinstance(a, (SArr, SArrVal)) and isinstance(b, (SArr, SArrVal)) and not prog and isinstance(op, (ast.Eq, ast.NotEq)):
            va = self.arr_value(st, a) if isinstance(a, SArr) else a
            vb = self.arr_value(st, b) if isinstance(b, SArr) else b
            parts = [va.comps[c] == vb.comps[c] for c in va.comps if c in vb.comps]
            e = z3.And(*parts)
            return SBool(e if isinstance(op, ast.Eq) else z3.Not(e))
        raise VerifError("compare %r %s %r" % (a, type(op).__name__, b))

    def as_int(self, v):
        if isinstance(v, SInt):
            return v
        if isinstance(v, SBool):
            return SInt(z3.If(v.e, 1, 0))
        raise VerifError("expected int, got %r" % (v,))

    # ------------------------------------------------------------------ expressions
    def ev(self, node, st, prog=True):
        m = getattr(self, "ev_" + type(node).__name__, None)
        if m is None:
            raise VerifError("unsupported expression %s: %s" % (type(node).__name__, ast.unparse(node)))
        return m(node, st, prog)

    def ev_Constant(self, node, st, prog):
        v = node.value
        if v is None:
            return NONE
        if isinstance(v, bool):
            return SBool(v)
        if isinstance(v, int):
            return SInt(v)
        if isinstance(v, float):
            return SFloat(z3.RealVal(repr(v)))
        if isinstance(v, str):
            return SStr(v)
        raise VerifError("constant %r" % (v,))

    def ev_Name(self, node, st, prog):
        n = node.id
        if n in st.env:
            return st.env[n]
        if n == "True":
            return SBool(True)
        if n == "False":
            return SBool(False)
        if n in st.funcs:
            return SFunc(st.funcs[n])
        if n in ("float", "int", "bool"):
            return SDtype(NP_DTYPE_NAMES[n])
        g = self.E.module_global(self.modname, n, st, self) if self.modname else None
        if g is not None:
            return g
        raise VerifError("unbound name %s in %s" % (n, self.cd.name))

    def ev_Tuple(self, node, st, prog):
        return STuple([self.ev(e, st, prog) for e in node.elts])

    def ev_List(self, node, st, prog):
        return STuple([self.ev(e, st, prog) for e in node.elts])

    def ev_UnaryOp(self, node, st, prog):
        v = self.ev(node.operand, st, prog)
        if isinstance(node.op, ast.Not):
            return SBool(z3.Not(self.to_bool(v)))
        if isinstance(node.op, ast.USub):
            if isinstance(v, SInt):
                r = z3.simplify(-v.e) if z3.is_int_value(v.e) else -v.e
                self.ovf(st, r, prog)
                return SInt(r)
            if isinstance(v, SFloat):
                if v.v is POS_INF_MARK:
                    return SFloat(z3.RealVal(0), TRUE)
                if prog:
                    self.float_defined(st, z3.And(z3.Not(v.ninf), z3.Not(v.nan)), node, prog)
                return SFloat(-v.v)
        if isinstance(node.op, ast.UAdd):
            return v
        if isinstance(node.op, ast.Invert) and isinstance(v, SArr) and is_bool_dtype(st.heap[v.loc].dtype) and self.arr_ndim(st, v) == 1:
            k = self.fresh_int("k")
            t = self.arr_term(st, v)
            return self.new_loc(st, "b1", [self.arr_shape(st, v)[0]], {"v": z3.Lambda([k], z3.Not(z3.Select(t, k)))}, name="not")
        raise VerifError("unary op %s" % ast.unparse(node))

    def ev_BinOp(self, node, st, prog):
        a = self.ev(node.left, st, prog)
        b = self.ev(node.right, st, prog)
        return self.binop(st, node.op, a, b, node, prog)

    def ev_BoolOp(self, node, st, prog):
        vals = []
        saved = list(st.guards)
        try:
            for e in node.values:
                v = self.to_bool(self.ev(e, st, prog))
                vals.append(v)
                st.guards.append(v if isinstance(node.op, ast.And) else z3.Not(v))
        finally:
            st.guards[:] = saved
        return SBool(z3.And(*vals) if isinstance(node.op, ast.And) else z3.Or(*vals))

    def ev_Compare(self, node, st, prog):
        left = self.ev(node.left, st, prog)
        if len(node.ops) == 1 and not isinstance(node.ops[0], (ast.In, ast.NotIn, ast.Is, ast.IsNot)):
            right0 = self.ev(node.comparators[0], st, prog)
            scalar = (SInt, SFloat, SBool)
            if (isinstance(left, SArr) and isinstance(right0, scalar) and st.heap[left.loc].dtype != "fdict") or (isinstance(right0, SArr) and isinstance(left, scalar) and st.heap[right0.loc].dtype != "fdict"):
                return self.array_compare(st, node.ops[0], left, right0, node, prog)
        parts = []
        for op, rn in zip(node.ops, node.comparators):
            right = self.ev(rn, st, prog)
            parts.append(self.to_bool(self.compare(st, op, left, right, node, prog)))
            left = right
        return SBool(parts[0] if len(parts) == 1 else z3.And(*parts))

    def ev_Dict(self, node, st, prog):
        if node.keys:
            raise VerifError("only the empty dict literal is modelled")
        from . import externals as X

        X.USED.add("numba typed dict int64 -> float64: key in d, d[key], d[key] = value")
        comps = {"v": z3.K(I, z3.RealVal(0)), "ninf": z3.K(I, FALSE), "nan": z3.K(I, FALSE), "has": z3.K(I, FALSE)}
        return self.new_loc(st, "fdict", [z3.IntVal(0)], comps, name="dict")

    def array_compare(self, st, op, a, b, node, prog):
        """elementwise comparison of a 1-D array with a scalar (or a 1-D array) -> boolean array"""
        from . import externals as X

        X.USED.add("elementwise comparison of a 1-D array with a scalar: boolean array")
        arr = a if isinstance(a, SArr) else b
        shp = self.arr_shape(st, arr)
        if len(shp) != 1:
            raise VerifError("elementwise comparison on non-1-D array")
        k = self.fresh_int("k")
        sub = st.fork()
        sub.assumes = st.assumes
        sub.guards = st.guards + [k >= 0, k < shp[0]]

        def elem(x):
            if isinstance(x, SArr):
                if prog and x is not arr:
                    self.oblige("shape-match", self.stmt_anchor(node), self.arr_shape(st, x)[0] == shp[0], st, node)
                return self.load(sub, x, [k], node, prog=False)
            return x

        c = self.to_bool(self.compare(sub, op, elem(a), elem(b), node, prog))
        # a named array with a pointwise definition (a lambda term inside later quantified formulas makes z3 give up)
        nm = self.fresh("cmp", z3.ArraySort(I, B))
        st.assume(z3.ForAll([k], z3.Select(nm, k) == z3.substitute(c, *[]), patterns=[z3.Select(nm, k)]))
        r_ = self.new_loc(st, "b1", [shp[0]], {"v": nm}, name="cmp")
        if prog:
            # ghost name of the k-th elementwise comparison result of the function: cmp_res<k>
            kk = sum(1 for x in st.env if x.startswith("cmp_res"))
            st.env["cmp_res%d" % kk] = r_
        return r_

    def ev_IfExp(self, node, st, prog):
        c = self.to_bool(self.ev(node.test, st, prog))
        saved = list(st.guards)
        st.guards.append(c)
        a = self.ev(node.body, st, prog)
        st.guards[:] = saved + [z3.Not(c)]
        b = self.ev(node.orelse, st, prog)
        st.guards[:] = saved
        return self.ite(c, a, b)

    def ite(self, c, a, b):
        if isinstance(a, SInt) and isinstance(b, SInt):
            return SInt(z3.If(c, a.e, b.e))
        if isinstance(a, SBool) and isinstance(b, SBool):
            return SBool(z3.If(c, a.e, b.e))
        if isinstance(a, (SInt, SFloat)) and isinstance(b, (SInt, SFloat)):
            fa, fb = self.to_float(a), self.to_float(b)
            return SFloat(z3.If(c, fa.v, fb.v), z3.simplify(z3.If(c, fa.ninf, fb.ninf)), z3.simplify(z3.If(c, fa.nan, fb.nan)))
        if isinstance(a, STuple) and isinstance(b, STuple) and len(a.items) == len(b.items):
            return STuple([self.ite(c, x, y) for x, y in zip(a.items, b.items)])
        if isinstance(a, SArrVal) and isinstance(b, SArrVal):
            return SArrVal(a.dtype, [z3.If(c, x, y) for x, y in zip(a.shape, b.shape)], {k: z3.If(c, a.comps[k], b.comps[k]) for k in a.comps})
        raise VerifError("ite over %r / %r" % (a, b))

    def ev_Attribute(self, node, st, prog):
        if isinstance(node.value, ast.Name) and node.value.id in ("np", "numpy", "math") and node.value.id not in st.env:
            a = node.attr
            if a == "inf":
                return SFloat(POS_INF_MARK)
            if a == "nan":
                return SFloat(z3.RealVal(0), FALSE, TRUE)
            if a in NP_DTYPE_NAMES:
                return SDtype(NP_DTYPE_NAMES[a])
            raise VerifError("np.%s as a value" % a)
        v = self.ev(node.value, st, prog)
        if isinstance(v, SArr):
            if node.attr == "shape":
                return STuple([SInt(s) for s in self.arr_shape(st, v)])
            if node.attr == "dtype":
                return SDtype(st.heap[v.loc].dtype)
            if node.attr == "ndim":
                return SInt(self.arr_ndim(st, v))
            if node.attr == "size":
                shp = self.arr_shape(st, v)
                r = shp[0]
                for s in shp[1:]:
                    r = r * s
                return SInt(r)
        raise VerifError("attribute %s" % ast.unparse(node))

    def index_list(self, node, st, prog):
        sl = node.slice
        elts = sl.elts if isinstance(sl, ast.Tuple) else [sl]
        return elts

    def ev_Subscript(self, node, st, prog):
        base = self.ev(node.value, st, prog)
        elts = self.index_list(node, st, prog)
        if isinstance(base, STuple):
            if len(elts) == 1 and not isinstance(elts[0], ast.Slice):
                ix = z3.simplify(self.as_int(self.ev(elts[0], st, prog)).e)
                if not z3.is_int_value(ix):
                    raise VerifError("symbolic tuple index")
                return base.items[ix.as_long()]
            if len(elts) == 1 and isinstance(elts[0], ast.Slice):
                lo = elts[0].lower.value if elts[0].lower is not None else None
                hi = elts[0].upper.value if elts[0].upper is not None else None
                return STuple(base.items[lo:hi])
            raise VerifError("tuple subscript")
        if isinstance(base, SArrVal):
            idxs = [self.as_int(self.ev(e, st, prog)).e for e in elts]
            if base.dtype == "fdict":
                terms = {c: nested_select(t, idxs) for c, t in base.comps.items()}
                return SFloat(terms["v"], terms["ninf"], terms["nan"])
            if len(idxs) < len(base.shape):
                return SArrVal(base.dtype, base.shape[len(idxs):], {c: nested_select(t, idxs) for c, t in base.comps.items()})
            terms = {c: nested_select(t, idxs) for c, t in base.comps.items()}
            return self.elem_from_terms(st, base.dtype, terms, add_range=False)
        if isinstance(base, SArr):
            if any(isinstance(e, ast.Slice) for e in elts):
                return self.slice_view(st, base, elts, node, prog)
            if len(elts) == 1:
                iv = self.ev(elts[0], st, prog)
                if isinstance(iv, STuple) and st.heap[base.loc].dtype == "fdict":
                    return self.load(st, base, [self.as_int(x).e for x in iv.items], node, prog)
                if isinstance(iv, SArr):
                    return self.fancy_index(st, base, iv, node, prog)
                elts = [ast.copy_location(ast.Name(id="__idx0__", ctx=ast.Load()), elts[0])]
                st.env["__idx0__"] = iv
            idxs = []
            is_dict = st.heap[base.loc].dtype == "fdict"
            for k, e in enumerate(elts):
                ix = self.as_int(self.ev(e, st, prog)).e
                sx = z3.simplify(ix)
                if z3.is_int_value(sx) and sx.as_long() < 0 and not is_dict:
                    ix = self.arr_shape(st, base)[k] + sx.as_long()
                idxs.append(ix)
            return self.load(st, base, idxs, node, prog)
        raise VerifError("subscript of %r" % (base,))

    def fancy_index(self, st, base, iv, node, prog):
        """a[idx] with a 1-D integer index array: gather along the first axis (trusted NumPy
        semantics); a[mask] with a boolean mask is handled by externals.mask_select"""
        from . import externals as X

        io = st.heap[iv.loc]
        if is_bool_dtype(io.dtype):
            return X.mask_select(self.E, self, st, base, iv, node, prog)
        X.USED.add("ndarray gather a[idx] along axis 0 with an in-range integer index array")
        ishp = self.arr_shape(st, iv)
        if len(ishp) != 1:
            raise VerifError("gather with non-1-D index")
        bshp = self.arr_shape(st, base)
        bo = st.heap[base.loc]
        k = self.fresh_int("k")
        ik = z3.Select(nested_select(io.comps["v"], iv.prefix), k)
        if prog:
            self.oblige("index-in-bounds", self.stmt_anchor(node), z3.ForAll([k], z3.Implies(z3.And(k >= 0, k < ishp[0]), z3.And(ik >= 0, ik < bshp[0]))), st, node)
        # fully eta-expanded over the remaining axes (lambda a, c: base[idx[a]][c]): the same term shape as the
        # arr2(...) values used in specifications, so that no solver has to discover extensionality of nested arrays
        inner = [z3.Int("gather!c%d" % d) for d in range(1, len(bshp))]
        comps = {}
        for c, t in bo.comps.items():
            body = nested_select(z3.Select(nested_select(t, base.prefix), ik), inner)
            for v_ in reversed(inner):
                body = z3.Lambda([v_], body)
            comps[c] = z3.Lambda([k], body)
        return self.new_loc(st, bo.dtype, [ishp[0]] + list(bshp[1:]), comps, name="gather")

    def slice_view(self, st, base, elts, node, prog):
        """Loads through slices produce a fresh array value (a copy); only patterns used in
        scope: a[lo:hi] on the first axis and a[:, j] column selections."""
        # leading integer indices select a sub-array (an index-prefix view); slice what remains
        while len(elts) > 1 and not isinstance(elts[0], ast.Slice) and any(isinstance(e, ast.Slice) and (e.lower is not None or e.upper is not None) for e in elts[1:]):
            ix = self.as_int(self.ev(elts[0], st, prog)).e
            base = self.load(st, base, [ix], node, prog)
            elts = elts[1:]
        shp = self.arr_shape(st, base)
        o = st.heap[base.loc]
        if len(elts) == 1 and isinstance(elts[0], ast.Slice):
            s = elts[0]
            lo = self.as_int(self.ev(s.lower, st, prog)).e if s.lower is not None else z3.IntVal(0)
            hi = self.as_int(self.ev(s.upper, st, prog)).e if s.upper is not None else shp[0]
            if prog:
                self.oblige("index-in-bounds", self.stmt_anchor(node), z3.And(lo >= 0, lo <= hi, hi <= shp[0]), st, node)
            k = self.fresh_int("k")
            comps = {c: z3.Lambda([k], z3.Select(nested_select(t, base.prefix), k + lo)) for c, t in o.comps.items()}
            a_ = self.new_loc(st, o.dtype, [hi - lo] + list(shp[1:]), comps, name="slice")
            self.view_copies.add(a_.loc)
            self.view_src[a_.loc] = (base.loc, o)
            return a_
        if len(elts) == 2 and len(shp) == 2 and isinstance(elts[0], ast.Slice) and elts[0].lower is None and elts[0].upper is None and not isinstance(elts[1], ast.Slice):
            jv = self.ev(elts[1], st, prog)
            if isinstance(jv, SArr) and is_bool_dtype(st.heap[jv.loc].dtype):
                return self.column_mask_select(st, base, jv, node, prog)
        if len(elts) == 2 and isinstance(elts[0], ast.Slice) and elts[0].lower is None and elts[0].upper is None and not isinstance(elts[1], ast.Slice):
            j = self.as_int(self.ev(elts[1], st, prog)).e
            if prog:
                self.oblige("index-in-bounds", self.stmt_anchor(node), z3.And(j >= 0, j < shp[1]), st, node)
            k = self.fresh_int("k")
            comps = {c: z3.Lambda([k], z3.Select(z3.Select(nested_select(t, base.prefix), k), j)) for c, t in o.comps.items()}
            a_ = self.new_loc(st, o.dtype, [shp[0]] + list(shp[2:]), comps, name="col")
            self.view_copies.add(a_.loc)
            self.view_src[a_.loc] = (base.loc, o)
            if len(shp) == 2 and not base.prefix:
                if not hasattr(self, "view_col"):
                    self.view_col = {}
                self.view_col[a_.loc] = (base, j)
            return a_
        if len(elts) == 2 and len(shp) == 2 and isinstance(elts[0], ast.Slice) and elts[0].lower is None and elts[0].upper is None and elts[0].step is None and isinstance(elts[1], ast.Slice) and elts[1].step is None:
            # a[:, lo:hi] on a 2-D array: all rows, a contiguous range of columns
            s = elts[1]
            lo = self.as_int(self.ev(s.lower, st, prog)).e if s.lower is not None else z3.IntVal(0)
            hi = self.as_int(self.ev(s.upper, st, prog)).e if s.upper is not None else shp[1]
            if prog:
                self.oblige("index-in-bounds", self.stmt_anchor(node), z3.And(lo >= 0, lo <= hi, hi <= shp[1]), st, node)
            k = z3.Int("view!k0")
            c_ = z3.Int("view!k1")
            comps = {c: z3.Lambda([k], z3.Lambda([c_], z3.Select(z3.Select(nested_select(t, base.prefix), k), c_ + lo))) for c, t in o.comps.items()}
            a_ = self.new_loc(st, o.dtype, [shp[0], z3.simplify(hi - lo)], comps, name="cols")
            self.view_copies.add(a_.loc)
            self.view_src[a_.loc] = (base.loc, o)
            return a_
        # general case: a mix of integer indices and full slices `:` -> array value over the sliced axes
        if len(elts) <= len(shp) and all((isinstance(e, ast.Slice) and e.lower is None and e.upper is None and e.step is None) or not isinstance(e, ast.Slice) for e in elts):
            idx = []
            lam_vars = []
            new_shape = []
            for d, e in enumerate(elts):
                if isinstance(e, ast.Slice):
                    k = z3.Int("view!k%d" % d)  # fixed bound names: equal views are identical terms
                    lam_vars.append(k)
                    idx.append(k)
                    new_shape.append(shp[d])
                else:
                    ix = self.as_int(self.ev(e, st, prog)).e
                    if prog:
                        self.oblige("index-in-bounds", self.stmt_anchor(node), z3.And(ix >= 0, ix < shp[d]), st, node)
                    idx.append(ix)
            comps = {}
            for c, t in o.comps.items():
                body = nested_select(nested_select(t, base.prefix), idx)
                for k in reversed(lam_vars):
                    body = z3.Lambda([k], body)
                comps[c] = body
            a_ = self.new_loc(st, o.dtype, new_shape + list(shp[len(elts):]), comps, name="view")
            self.view_copies.add(a_.loc)
            self.view_src[a_.loc] = (base.loc, o)
            return a_
        raise VerifError("unsupported slice expression %s" % ast.unparse(node))

    def ev_Lambda(self, node, st, prog):
        raise VerifError("lambda outside quantifier")

    def ev_Call(self, node, st, prog):
        return self.E.call(self, node, st, prog)

    # ------------------------------------------------------------------ statements
    def exec_block(self, stmts, st):
        """returns list of (state, outcome)"""
        cur = [st]
        out = []
        for s in stmts:
            nxt = []
            for c in cur:
                for (s2, oc) in self.exec_stmt(s, c):
                    if oc == FALL:
                        nxt.append(s2)
                    else:
                        out.append((s2, oc))
            cur = nxt
            if not cur:
                break
        out.extend((c, FALL) for c in cur)
        return out

    def exec_stmt(self, node, st):
        m = getattr(self, "st_" + type(node).__name__, None)
        if m is None:
            raise VerifError("unsupported statement %s: %s" % (type(node).__name__, ast.unparse(node)[:60]))
        key = self.stmt_keys.get(id(node)) if not self.ghost_mode else None
        if key is not None:
            before = self.cd.stmt_anchors.get((key[0], key[1], "before"))
            if before:
                self.used_anchors.add((key[0], key[1], "before"))
                outs = []
                for s0 in self.run_ghost(before, st):
                    outs.extend(m(node, s0))
                r = outs
            else:
                r = m(node, st)
            after = self.cd.stmt_anchors.get((key[0], key[1], "after"))
            if after:
                self.used_anchors.add((key[0], key[1], "after"))
                r2 = []
                for (s1, oc) in r:
                    if oc == FALL:
                        r2.extend((s2, FALL) for s2 in self.run_ghost(after, s1))
                    else:
                        r2.append((s1, oc))
                r = r2
            return r
        return m(node, st)

    def number_stmts(self, body):
        counts = {}

        def visit(stmts):
            for s in stmts:
                if isinstance(s, (ast.Assign, ast.AugAssign, ast.Expr, ast.AnnAssign, ast.Assert, ast.Return)):
                    t = ast.unparse(s)
                    k = counts.get(t, 0)
                    counts[t] = k + 1
                    self.stmt_keys[id(s)] = (t, k)
                for fld in ("body", "orelse"):
                    sub = getattr(s, fld, None)
                    if isinstance(sub, list):
                        visit([x for x in sub if isinstance(x, ast.stmt)])

        visit(body)
        present = set(self.stmt_keys.values())
        for key in self.cd.stmt_anchors:
            if (key[0], key[1]) not in present:
                msg = "contract of %s anchors ghost code at statement %r #%d which does not exist in the source" % (self.cd.qualname, key[0], key[1])
                if not self.source_changed():
                    raise VerifError(msg)  # the contract is stale on the very source it was written for: tool failure
                # changed source: the hint block is dropped, the function is still verified (its obligations will
                # say what no longer holds) and the dropped anchor is reported as an undischarged obligation
                self.missing_anchors.append(msg)

    def source_changed(self):
        """True iff a baseline record exists for this unit and the function's source hash differs from it"""
        import json as _json

        try:
            p_ = os.path.join(os.path.dirname(os.path.dirname(os.path.abspath(__file__))), "baseline", "obligations.json")
            b = _json.load(open(p_)).get("%s|%s" % (self.cd.qualname, _json.dumps(self.variant, sort_keys=True)))
        except Exception:
            return False
        return bool(b) and bool(self.sha) and b.get("sha256") != self.sha

    def st_Pass(self, node, st):
        return [(st, FALL)]

    def st_Expr(self, node, st):
        if isinstance(node.value, ast.Constant):
            return [(st, FALL)]
        self.ev(node.value, st, not self.ghost_mode)
        self.flush_ovf(st, node)
        return [(st, FALL)]

    def assign_to(self, st, target, val, node, prog=True):
        if isinstance(target, ast.Name):
            if self.ghost_mode and target.id in self.real_assigned:
                raise VerifError("ghost code assigns program variable %s" % target.id)
            st.env[target.id] = val
            return
        if isinstance(target, (ast.Tuple, ast.List)):
            if isinstance(val, STuple):
                items = val.items
            elif isinstance(val, SArr):
                shp = self.arr_shape(st, val)
                n = z3.simplify(shp[0])
                if not z3.is_int_value(n):
                    raise VerifError("unpacking array of symbolic length")
                items = [self.load(st, val, [z3.IntVal(k)], node, prog=False) for k in range(n.as_long())]
            else:
                raise VerifError("cannot unpack %r" % (val,))
            if len(items) != len(target.elts):
                raise VerifError("unpack arity mismatch in %s" % ast.unparse(node))
            for t, v in zip(target.elts, items):
                self.assign_to(st, t, v, node, prog)
            return
        if isinstance(target, ast.Subscript):
            base = self.ev(target.value, st, prog)
            if not isinstance(base, SArr):
                raise VerifError("store into non-array %s" % ast.unparse(target))
            elts = self.index_list(target, st, prog)
            if any(isinstance(e, ast.Slice) for e in elts):
                if len(elts) != 1:
                    raise VerifError("unsupported slice store %s" % ast.unparse(target))
                s = elts[0]
                lo = self.as_int(self.ev(s.lower, st, prog)).e if s.lower is not None else None
                hi = None
                if s.upper is not None:
                    hi = self.as_int(self.ev(s.upper, st, prog)).e
                    sh = z3.simplify(hi)
                    if z3.is_int_value(sh) and sh.as_long() < 0:
                        hi = self.arr_shape(st, base)[0] + sh.as_long()
                if lo is None and hi is not None:
                    lo = z3.IntVal(0)
                if hi is None and lo is not None:
                    hi = self.arr_shape(st, base)[0]
                self.store_slice(st, base, lo, hi, val, node, prog)
                return
            idxs = []
            is_dict = st.heap[base.loc].dtype == "fdict"
            if is_dict and len(elts) == 1:
                kv = self.ev(elts[0], st, prog)
                if isinstance(kv, STuple):
                    self.store(st, base, [self.as_int(x).e for x in kv.items], val, node, prog)
                    return
            for k, e in enumerate(elts):
                ix = self.as_int(self.ev(e, st, prog)).e
                sx = z3.simplify(ix)
                if z3.is_int_value(sx) and sx.as_long() < 0 and not is_dict:
                    ix = self.arr_shape(st, base)[k] + sx.as_long()
                idxs.append(ix)
            self.store(st, base, idxs, val, node, prog)
            return
        raise VerifError("assignment target %s" % ast.unparse(target))

    def st_Assign(self, node, st):
        prog = not self.ghost_mode
        val = self.ev(node.value, st, prog)
        for t in node.targets:
            self.assign_to(st, t, val, node, prog)
        self.flush_ovf(st, node)
        return [(st, FALL)]

    def st_AnnAssign(self, node, st):
        if node.value is None:
            return [(st, FALL)]
        prog = not self.ghost_mode
        val = self.ev(node.value, st, prog)
        self.assign_to(st, node.target, val, node, prog)
        self.flush_ovf(st, node)
        return [(st, FALL)]

    def st_AugAssign(self, node, st):
        prog = not self.ghost_mode
        # load-target as expression
        tnode = node.target
        load = ast.copy_location(ast.parse(ast.unparse(tnode), mode="eval").body, tnode)
        ast.fix_missing_locations(load)
        cur = self.ev(load, st, prog)
        rhs = self.ev(node.value, st, prog)
        if isinstance(cur, SArr) and isinstance(tnode, ast.Name):
            # in-place elementwise update  a -= s
            res = self.array_binop(st, node.op, cur, rhs, node, prog)
            self.store_slice(st, cur, None, None, res, node, prog=False)
            self.flush_ovf(st, node)
            return [(st, FALL)]
        val = self.binop(st, node.op, cur, rhs, node, prog)
        self.assign_to(st, tnode, val, node, prog)
        self.flush_ovf(st, node)
        return [(st, FALL)]

    def st_Assert(self, node, st):
        c = self.to_bool(self.ev(node.test, st, True))
        self.flush_ovf(st, node)
        self.oblige("assert", self.stmt_anchor(node), c, st, node)
        st.assume(c)
        return [(st, FALL)]

    def st_Raise(self, node, st):
        return [(st, RAISE)]

    def st_Return(self, node, st):
        v = NONE if node.value is None else self.ev(node.value, st, not self.ghost_mode)
        self.flush_ovf(st, node)
        return [(st, Ret(v))]

    def st_Break(self, node, st):
        return [(st, BREAK)]

    def st_Continue(self, node, st):
        return [(st, CONTINUE)]

    def feasible(self, st, cond):
        c = z3.simplify(cond)
        if z3.is_false(c):
            return False
        if z3.is_true(c):
            return True
        return self.E.quick_feasible(st.facts() + [c])

    def st_If(self, node, st):
        prog = not self.ghost_mode
        c = self.to_bool(self.ev(node.test, st, prog))
        self.flush_ovf(st, node)
        out = []
        s_t = st.fork()
        s_t.assumes.append(c) if not s_t.guards else s_t.assume(c)
        key = None
        if prog and not self.dry and not self.is_lemma:
            key = "if " + ast.unparse(node.test)[:60] + " @%d" % self.if_ordinal(node)
            # a side that only raises / passes (defensive code) may be dead under the contract
            self.branches.setdefault(key, [_trivial_side(node.body), bool(node.orelse) and _trivial_side(node.orelse)])
        if self.feasible(st, c):
            if key:
                self.branches[key][0] = True
            out.extend(self.exec_block(node.body, s_t))
        s_f = st
        nc = z3.Not(c)
        n_prefix = len(st.assumes)
        out_t = out
        out = []
        if self.feasible(st, nc):
            if key:
                self.branches[key][1] = True
            s_f.assume(nc)
            out.extend(self.exec_block(node.orelse, s_f) if node.orelse else [(s_f, FALL)])
        if self.cd.options.get("merge_branches") and len(out_t) == 1 and len(out) == 1 and out_t[0][1] == FALL and out[0][1] == FALL and not st.guards:
            m = self.merge_states(c, out_t[0][0], out[0][0], n_prefix)
            if m is not None:
                return [(m, FALL)]
        return out_t + out

    def merge_value(self, c, a, b):
        if a is b:
            return a
        if isinstance(a, SNone) and isinstance(b, SNone):
            return a
        if isinstance(a, SArr) and isinstance(b, SArr):
            if a.loc == b.loc and len(a.prefix) == len(b.prefix) and all(x.eq(y) for x, y in zip(a.prefix, b.prefix)):
                return a
            return None
        if isinstance(a, (SRange, SDtype, SStr, SFunc)):
            return a if type(a) is type(b) and a is b else None
        if isinstance(a, STuple) and isinstance(b, STuple) and len(a.items) == len(b.items):
            items = [self.merge_value(c, x, y) for x, y in zip(a.items, b.items)]
            return None if any(i is None for i in items) else STuple(items)
        if isinstance(a, (SInt, SBool, SFloat)) and isinstance(b, (SInt, SBool, SFloat)):
            try:
                if isinstance(a, SInt) and isinstance(b, SInt) and a.e.eq(b.e):
                    return a
                return self.ite(c, a, b)
            except VerifError:
                return None
        if isinstance(a, SArrVal) and isinstance(b, SArrVal):
            return a if all(a.comps[k].eq(b.comps[k]) for k in a.comps) else self.ite(c, a, b)
        return None

    def merge_states(self, c, sa, sb, n_prefix):
        """join of the two branches of an `if` (both fell through): values become ite terms, the
        branch-local facts are kept under the branch condition"""
        env = {}
        for k in set(sa.env) | set(sb.env):
            if k in sa.env and k in sb.env:
                v = self.merge_value(c, sa.env[k], sb.env[k])
                if v is None:
                    return None
                env[k] = v
            else:
                env[k] = sa.env.get(k, sb.env.get(k))
        heap = {}
        for loc in set(sa.heap) | set(sb.heap):
            if loc in sa.heap and loc in sb.heap:
                oa, ob = sa.heap[loc], sb.heap[loc]
                comps = {}
                for cn in oa.comps:
                    comps[cn] = oa.comps[cn] if oa.comps[cn].eq(ob.comps[cn]) else z3.If(c, oa.comps[cn], ob.comps[cn])
                heap[loc] = oa.with_comps(comps)
            else:
                heap[loc] = sa.heap.get(loc, sb.heap.get(loc))
        m = sa.fork()
        m.env = env
        m.heap = heap
        m.assumes = list(sa.assumes[:n_prefix])
        nc = z3.Not(c)
        for f in sa.assumes[n_prefix:]:
            if not f.eq(c):
                m.assumes.append(z3.Implies(c, f))
        for f in sb.assumes[n_prefix:]:
            if not f.eq(nc):
                m.assumes.append(z3.Implies(nc, f))
        m.funcs = dict(sb.funcs)
        m.funcs.update(sa.funcs)
        m.pending_ovf = []
        return m

    def if_ordinal(self, node):
        if id(node) not in self.if_ids:
            self.if_ids[id(node)] = len(self.if_ids)
        return self.if_ids[id(node)]

    # -------- loops
    def loop_ordinal(self, node):
        return self.loop_ids[id(node)]

    def havoc(self, st, names, stores, promote):
        """loop-head havoc: every variable assigned in the body and every array the body may write.
        The arrays are found (a) syntactically -- names stored into / passed to a modifying callee
        -- and (b) semantically: locations whose
        heap value changed in the dry run of the body (self.loop_written, see body_types), which covers
        writes through views bound inside the loop (genotype = genotypes[t]; f(genotype))."""
        targets = []
        for n in names:
            if n not in st.env:
                continue
            v = st.env[n]
            if any(a_.loc not in st.heap for a_ in arrays_of(v)):
                # bound (in the dry run of the body) to an array allocated inside the loop: no value survives the havoc
                del st.env[n]
                continue
            st.env[n] = self.havoc_value(st, n, v, promote.get(n))
        for n in sorted(stores):
            v = st.env.get(n)
            if isinstance(v, SArr):
                targets.append(v)
            elif isinstance(v, STuple):
                targets.extend(it for it in v.items if isinstance(it, SArr))
        done = set()
        whole = set(promote.get("!written", ()))
        for loc in sorted(whole):
            if loc in st.heap:
                done.add(loc)
                self.havoc_array(st, SArr(loc, ()))
        for v in targets:
            if v.loc not in done and v.loc in st.heap:
                done.add(v.loc)
                self.havoc_array(st, v)
        return done

    @staticmethod
    def changed_locs(pre_heap, states):
        """locations of pre_heap whose contents differ in some of `states`"""
        res = set()
        for loc, o in pre_heap.items():
            for s2 in states:
                o2 = s2.heap.get(loc)
                if o2 is None or o2 is o:
                    continue
                if any(not o.comps[c].eq(o2.comps[c]) for c in o.comps):
                    res.add(loc)
                    break
        return res

    def havoc_array(self, st, a):
        o = st.heap[a.loc]
        comps = {}
        nd_sub = o.ndim - len(a.prefix)
        for c, srt in elem_sorts(o.dtype).items():
            fresh = self.fresh("hv_%s" % c, arr_sort(srt, nd_sub))
            if c == "v":
                self.assume_dtype_range(st, o.dtype, fresh, nd_sub)
            comps[c] = nested_store(o.comps[c], a.prefix, fresh) if a.prefix else fresh
        st.heap[a.loc] = o.with_comps(comps)

    def havoc_value(self, st, n, v, promote=None):
        if promote == "float" and isinstance(v, SInt):
            v = self.to_float(v)
        if isinstance(v, SInt):
            x = self.fresh_int(n)
            if self.machine_ints and n in self.real_assigned:
                # every value ever assigned to a program int passed an int64-no-overflow obligation
                st.assume(z3.And(x >= INT64_MIN, x <= INT64_MAX))
            return SInt(x)
        if isinstance(v, SBool):
            return SBool(self.fresh(n, B))
        if isinstance(v, SFloat):
            return SFloat(self.fresh(n, R), self.fresh(n + "_ninf", B), FALSE)
        if isinstance(v, STuple):
            return STuple([self.havoc_value(st, "%s_%d" % (n, i), x) for i, x in enumerate(v.items)])
        if isinstance(v, SArr):
            # variable re-bound to a possibly different array inside the loop
            o = st.heap[v.loc]
            return self.fresh_array(st, n, o.dtype, o.ndim - len(v.prefix))
        if isinstance(v, SNone):
            return v
        if isinstance(v, SRange):
            return v
        if isinstance(v, SArrVal):
            comps = {c: self.fresh("%s_%s" % (n, c), t.sort()) for c, t in v.comps.items()}
            return SArrVal(v.dtype, v.shape, comps)
        raise VerifError("cannot havoc %s = %r" % (n, v))

    def check_invs(self, ls, st, kind, anchor, node, env_over=None):
        saved = {}
        if env_over:
            for k, v in env_over.items():
                saved[k] = st.env.get(k)
                st.env[k] = v
        try:
            for i, inv in enumerate(ls.invariants):
                g = self.to_bool(self.ev(inv, st, False))
                self.oblige(kind, "%s/inv%d" % (anchor, i), g, st, inv)
        finally:
            for k, v in saved.items():
                if v is None:
                    st.env.pop(k, None)
                else:
                    st.env[k] = v

    def assume_invs(self, ls, st, env_over=None):
        saved = {}
        if env_over:
            for k, v in env_over.items():
                saved[k] = st.env.get(k)
                st.env[k] = v
        try:
            for inv in ls.invariants:
                st.assume(self.to_bool(self.ev(inv, st, False)))
        finally:
            for k, v in saved.items():
                if v is None:
                    st.env.pop(k, None)
                else:
                    st.env[k] = v

    def run_ghost(self, stmts, st):
        """execute ghost statements; ghost code may fork (if) but must fall through"""
        if not stmts:
            return [st]
        self.ghost_mode += 1
        try:
            res = self.exec_block(stmts, st)
        finally:
            self.ghost_mode -= 1
        outs = []
        for s2, oc in res:
            if oc != FALL:
                raise VerifError("ghost block must fall through")
            outs.append(s2)
        return outs

    def body_types(self, node, st, ls, names, stores, setup):
        """dry run of the loop body to discover int->float promotions of havoc'd variables"""
        promote = {}
        self.loop_newvars = {}
        self.dry += 1
        try:
            for _ in range(8):
                s = st.fork()
                havoced = self.havoc(s, names, stores, promote)
                setup(s)
                pre_keys = set(s.env)
                pre_types = {n: type(s.env[n]) for n in names if n in s.env}
                pre_heap = dict(s.heap)
                res = []
                for s_h in self.run_ghost(ls.head, s):
                    res.extend(self.exec_block(node.body, s_h))
                changed = False
                extra = self.changed_locs(pre_heap, [s2 for s2, _ in res]) - havoced
                if extra:
                    promote["!written"] = set(promote.get("!written", ())) | extra
                    changed = True
                for s2, oc in res:
                    for n in names:
                        if n not in pre_keys and n in s2.env and n not in self.loop_newvars:
                            # first bound inside the loop body: remember a value of its type
                            self.loop_newvars[n] = s2.env[n]
                    for n in names:
                        if n in pre_types and n in s2.env and pre_types[n] is SInt and isinstance(s2.env[n], SFloat):
                            if promote.get(n) != "float":
                                promote[n] = "float"
                                changed = True
                if not changed:
                    break
            else:
                raise VerifError("loop dry run did not reach a fixed point of written locations / types")
        finally:
            self.dry -= 1
        return promote

    def st_For(self, node, st):
        if node.orelse:
            raise VerifError("for-else")
        k = self.loop_ordinal(node)
        ls = self.cd.loops.get(k)
        it = self.ev(node.iter, st, True)
        self.flush_ovf(st, node)
        if not isinstance(it, SRange):
            raise VerifError("for over non-range: %s" % ast.unparse(node.iter))
        if not isinstance(node.target, ast.Name):
            raise VerifError("for target must be a name")
        tv = node.target.id
        lo, hi = it.lo, it.hi
        if ls is not None and ls.unroll or (ls is None and self.cd.options.get("unroll_all")):
            return self.unroll_for(node, st, lo, hi, tv)
        if ls is None:
            ls = C.LoopSpec()
        anchor = "loop%d" % k
        end = z3.If(hi >= lo, hi, lo)
        names, stores = assigned_names(node.body)
        names.add(tv)
        names |= self.ghost_assigned(ls, node)
        stores |= self.callee_modified_names(node.body, st)
        st.labels = dict(st.labels)
        st.labels["loop%d" % k] = st.snapshot()
        # 1. invariant holds on entry (counter = lo)
        self.check_invs(ls, st, "inv-init", anchor, node, {tv: SInt(lo)})
        pre_tv = st.env.get(tv)
        ctr = self.fresh_int(tv)

        def setup(s):
            s.env[tv] = SInt(ctr)
            s.assume(z3.And(ctr >= lo, ctr < hi))

        promote = self.body_types(node, st, ls, names, stores, setup)
        newvars = dict(self.loop_newvars)
        for n, t in promote.items():
            if t == "float" and isinstance(st.env.get(n), SInt):
                st.env[n] = self.to_float(st.env[n])
        out = []
        # 2. arbitrary iteration
        s = st.fork()
        for n_, v_ in newvars.items():
            if n_ not in s.env and not isinstance(v_, SArr):
                s.env[n_] = v_  # value left by an earlier iteration (havoc'd below)
        self.havoc(s, names, stores, promote)
        setup(s)
        self.assume_invs(ls, s)
        for s_h in self.run_ghost(ls.head, s):
            for (s2, oc) in self.exec_block(node.body, s_h):
                if oc in (FALL, CONTINUE):
                    for s3 in self.run_ghost(ls.tail, s2):
                        self.check_invs(ls, s3, "inv-preserved", anchor, node, {tv: SInt(ctr + 1)})
                elif oc == BREAK:
                    out.extend((s3, FALL) for s3 in self.run_ghost(ls.after, s2))
                else:
                    out.append((s2, oc))
        # 3. after the loop
        s = st.fork()
        for n_, v_ in newvars.items():
            # variables first bound in the body exist afterwards (if the loop ran; otherwise Python
            # raises NameError on use, which is outside the modelled behaviour)
            if n_ not in s.env and not isinstance(v_, SArr):
                s.env[n_] = v_
        self.havoc(s, names, stores, promote)
        self.assume_invs(ls, s, {tv: SInt(end)})
        if pre_tv is not None and isinstance(pre_tv, SInt):
            s.env[tv] = SInt(z3.If(hi > lo, hi - 1, pre_tv.e))
        else:
            s.env[tv] = SInt(hi - 1)  # only meaningful if the loop ran
        out.extend((s3, FALL) for s3 in self.run_ghost(ls.after, s))
        return out

    def unroll_for(self, node, st, lo, hi, tv):
        lo_s, hi_s = z3.simplify(lo), z3.simplify(hi)
        if not (z3.is_int_value(lo_s) and z3.is_int_value(hi_s)):
            raise VerifError("cannot unroll loop with symbolic bounds")
        cur = [st]
        out = []
        for i in range(lo_s.as_long(), hi_s.as_long()):
            nxt = []
            for c in cur:
                c.env[tv] = SInt(i)
                for (s2, oc) in self.exec_block(node.body, c):
                    if oc in (FALL, CONTINUE):
                        nxt.append(s2)
                    elif oc == BREAK:
                        out.append((s2, FALL))
                    else:
                        out.append((s2, oc))
            cur = nxt
        out.extend((c, FALL) for c in cur)
        return out

    def ghost_assigned(self, ls, node=None):
        """ghost variables a loop iteration may assign: in this loop's head/tail blocks, in the ghost blocks of every
        loop nested in the body, and in every statement / call anchor attached inside the body (call anchors are
        matched by callee name and call-site ordinal)"""
        blocks = list(ls.head) + list(ls.tail)
        if node is not None:
            called = set()
            for sub in ast.walk(node):
                if sub is node:
                    continue
                if isinstance(sub, (ast.For, ast.While)) and id(sub) in self.loop_ids:
                    ls2 = self.cd.loops.get(self.loop_ids[id(sub)])
                    if ls2 is not None:
                        blocks += list(ls2.head) + list(ls2.tail) + list(ls2.after)
                key = self.stmt_keys.get(id(sub))
                if key is not None:
                    for when in ("before", "after"):
                        blocks += list(self.cd.stmt_anchors.get((key[0], key[1], when), []))
                if isinstance(sub, ast.Call):
                    f_ = sub.func
                    called.add((f_.id if isinstance(f_, ast.Name) else (f_.attr if isinstance(f_, ast.Attribute) else None), self.call_sites.get(id(sub), 0)))
            for (callee, k_, when), blk in self.cd.call_anchors.items():
                if (callee, k_) in called:
                    blocks += list(blk)
        n, _ = assigned_names(blocks)
        return n

    def callee_modified_names(self, stmts, st):
        """names of arrays passed to callees in positions the callee's contract modifies"""
        res = set()
        for s in stmts:
            for n in ast.walk(s):
                if isinstance(n, ast.Call):
                    res |= self.E.call_modified_names(self, n, st)
        return res

    def st_While(self, node, st):
        if node.orelse:
            raise VerifError("while-else")
        k = self.loop_ordinal(node)
        ls = self.cd.loops.get(k) or C.LoopSpec()
        anchor = "loop%d" % k
        names, stores = assigned_names(node.body)
        names |= self.ghost_assigned(ls, node)
        stores |= self.callee_modified_names(node.body, st)
        st.labels = dict(st.labels)
        st.labels["loop%d" % k] = st.snapshot()
        self.check_invs(ls, st, "inv-init", anchor, node)

        promote = self.body_types(node, st, ls, names, stores, lambda s: None)
        for n, t in promote.items():
            if t == "float" and isinstance(st.env.get(n), SInt):
                st.env[n] = self.to_float(st.env[n])
        out = []
        s = st.fork()
        self.havoc(s, names, stores, promote)
        self.assume_invs(ls, s)
        c = self.to_bool(self.ev(node.test, s, True))
        self.flush_ovf(s, node)
        s_body = s.fork()
        s_body.assume(c)
        if self.feasible(s, c):
            m0 = None
            if ls.decreases is not None:
                m0 = self.as_int(self.ev(ls.decreases, s_body, False)).e
            for s_h in self.run_ghost(ls.head, s_body):
                for (s2, oc) in self.exec_block(node.body, s_h):
                    if oc in (FALL, CONTINUE):
                        for s3 in self.run_ghost(ls.tail, s2):
                            self.check_invs(ls, s3, "inv-preserved", anchor, node)
                            if m0 is not None:
                                m1 = self.as_int(self.ev(ls.decreases, s3, False)).e
                                self.oblige("decreases", anchor, z3.And(m0 >= 0, m1 < m0), s3, node)
                    elif oc == BREAK:
                        out.extend((s3, FALL) for s3 in self.run_ghost(ls.after, s2))
                    else:
                        out.append((s2, oc))
        s_exit = s
        s_exit.assume(z3.Not(c))
        out.extend((s3, FALL) for s3 in self.run_ghost(ls.after, s_exit))
        return out

    def st_With(self, node, st):
        """ghost only:  with forall_intro(k, lo, hi, body): <proof>   introduces a fresh k in [lo, hi),
        runs the proof block, checks body(k) and then assumes  forall k in [lo,hi): body(k)"""
        if not self.ghost_mode or len(node.items) != 1:
            raise VerifError("with statement")
        ce = node.items[0].context_expr
        if isinstance(ce, ast.Call) and isinstance(ce.func, ast.Name) and ce.func.id == "generalize" and len(ce.args) >= 2:
            # with generalize(P(args), k1, k2, ...): <proof>
            #   P is an inline spec whose body is forall_arrN(lambda X1, X2, ...: B).  Fresh arrays k1, k2, ... are
            #   introduced, the proof block runs, B[X := k] is checked, and then P(args) itself is assumed
            #   (forall-introduction): the assumed formula is literally the one a later goal P(args) evaluates to.
            call = ce.args[0]
            if not (isinstance(call, ast.Call) and isinstance(call.func, ast.Name) and call.func.id in self.E.db.specs):
                raise VerifError("generalize expects an inline spec application")
            sd = self.E.db.specs[call.func.id]
            if not getattr(sd, "inline", False) or len(sd.body) != 1 or not isinstance(sd.body[0], ast.Return):
                raise VerifError("generalize: spec must be inline with a single return")
            q = sd.body[0].value
            if not (isinstance(q, ast.Call) and isinstance(q.func, ast.Name) and q.func.id in ("forall_arr1", "forall_arr2")):
                raise VerifError("generalize: the spec body must be forall_arr1/2")
            nd_ = 1 if q.func.id == "forall_arr1" else 2
            lam = q.args[0]
            names = [a_.id for a_ in ce.args[1:]]
            if len(names) != len(lam.args.args):
                raise VerifError("generalize: one name per bound array")
            argvals = [self.ev(a_, st, False) for a_ in call.args]
            s2 = st.fork()
            fresh = {}
            for nm in names:
                gv = SArrVal("i8", [z3.IntVal(0)] * nd_, {"v": self.fresh(nm, arr_sort(I, nd_))})
                fresh[nm] = gv
                s2.env[nm] = gv
            for s3 in self.run_ghost(node.body, s2):
                sp = State()
                sp.old = s3.old
                sp.funcs = s3.funcs
                sp.assumes = s3.assumes
                sp.guards = list(s3.guards)
                sp.heap = s3.heap
                for v_, (pn, ty) in zip(argvals, sd.params):
                    sp.env[pn] = self.E.spec_param_value(self, s3, v_, ty)
                for la, nm in zip(lam.args.args, names):
                    sp.env[la.arg] = fresh[nm]
                g = self.to_bool(self.ev(lam.body, sp, False))
                self.oblige("ghost-assert", "generalize " + ast.unparse(call)[:40], g, s3, node)
            st.assume(self.to_bool(self.E.spec_app(self, st, sd, argvals)))
            return [(st, FALL)]
        if isinstance(ce, ast.Call) and isinstance(ce.func, ast.Name) and ce.func.id == "forall_intro_arr1" and len(ce.args) == 2 and isinstance(ce.args[0], ast.Name):
            # with forall_intro_arr1(g, body): <proof>   -- g ranges over all 1-D integer arrays
            name = ce.args[0].id
            gc = self.fresh(name, arr_sort(I, 1))
            gv = SArrVal("i8", [z3.IntVal(0)], {"v": gc})
            s2 = st.fork()
            s2.env[name] = gv
            for s3 in self.run_ghost(node.body, s2):
                g = self.to_bool(self.ev(ce.args[1], s3, False))
                self.oblige("ghost-assert", "forall_intro_arr1 " + ast.unparse(ce.args[1])[:40], g, s3, node)
            sq = st.fork()
            sq.assumes = st.assumes
            sq.env[name] = gv
            body = self.to_bool(self.ev(ce.args[1], sq, False))
            pats = []
            for kwd in ce.keywords:
                if kwd.arg == "pattern":
                    v = self.ev(kwd.value, sq, False)
                    pats.append(v.e if isinstance(v, (SInt, SBool)) else v.v)
            from .externals import _clean_patterns

            pats = _clean_patterns(pats)
            try:
                st.assume(z3.ForAll([gc], body, patterns=pats) if pats else z3.ForAll([gc], body))
            except z3.Z3Exception:
                st.assume(z3.ForAll([gc], body))
            return [(st, FALL)]
        if not (isinstance(ce, ast.Call) and isinstance(ce.func, ast.Name) and ce.func.id == "forall_intro" and len(ce.args) == 4 and isinstance(ce.args[0], ast.Name)):
            raise VerifError("unsupported with-block in ghost code: %s" % ast.unparse(ce)[:60])
        name = ce.args[0].id
        lo = self.as_int(self.ev(ce.args[1], st, False)).e
        hi = self.as_int(self.ev(ce.args[2], st, False)).e
        k = self.fresh_int(name)
        s2 = st.fork()
        s2.env[name] = SInt(k)
        s2.assume(z3.And(k >= lo, k < hi))
        for s3 in self.run_ghost(node.body, s2):
            g = self.to_bool(self.ev(ce.args[3], s3, False))
            self.oblige("ghost-assert", "forall_intro " + ast.unparse(ce.args[3])[:40], g, s3, node)
        # generalise
        sq = st.fork()
        sq.assumes = st.assumes
        sq.env[name] = SInt(k)
        body = self.to_bool(self.ev(ce.args[3], sq, False))
        st.assume(z3.ForAll([k], z3.Implies(z3.And(k >= lo, k < hi), body)))
        return [(st, FALL)]

    # ------------------------------------------------------------------ driver
    def number_call_sites(self, body):
        counts = {}
        calls = []
        for stn in body:
            for n in ast.walk(stn):
                if isinstance(n, ast.Call):
                    calls.append(n)
        calls.sort(key=lambda n: (n.lineno, n.col_offset))
        for n in calls:
            f = n.func
            short = f.attr if isinstance(f, ast.Attribute) else (f.id if isinstance(f, ast.Name) else None)
            if short is None:
                continue
            k = counts.get(short, 0)
            counts[short] = k + 1
            self.call_sites[id(n)] = k

    def call_site_ordinal(self, node, short):
        return self.call_sites.get(id(node), 0)

    def number_loops(self, body):
        k = 0
        for st in body:
            for n in ast.walk(st):
                if isinstance(n, (ast.For, ast.While)):
                    pass
        # pre-order numbering in source order
        order = []

        def visit(stmts):
            for s in stmts:
                if isinstance(s, (ast.For, ast.While)):
                    order.append(s)
                for fld in ("body", "orelse", "handlers", "finalbody"):
                    sub = getattr(s, fld, None)
                    if isinstance(sub, list):
                        visit([x for x in sub if isinstance(x, ast.stmt)])

        visit(body)
        for i, n in enumerate(order):
            self.loop_ids[id(n)] = i
        return len(order)

    def make_param(self, st, name, ty):
        kind = ty[0]
        if kind == "int":
            v = self.fresh_int(name)
            if self.machine_ints:
                st.assume(z3.And(v >= INT64_MIN, v <= INT64_MAX))
            return SInt(v)
        if kind == "float":
            return SFloat(self.fresh(name, R), self.fresh(name + "_ninf", B), FALSE)
        if kind == "bool":
            return SBool(self.fresh(name, B))
        if kind == "arr":
            dt = {"int": "i8", "float": "f8", "xfloat": "f8", "bool": "b1"}.get(ty[1], ty[1])
            a = self.fresh_array(st, name, dt, ty[2])
            if self.is_lemma:
                return self.arr_value(st, a)
            return a
        if kind == "opt":
            if self.variant.get(name) == "None":
                return NONE
            return self.make_param(st, name, ty[1])
        if kind == "tup":
            return STuple([self.make_param(st, "%s_%d" % (name, i), t) for i, t in enumerate(ty[1])])
        if kind == "none":
            return NONE
        raise VerifError("param type %r" % (ty,))

    def verify(self):
        cd = self.cd
        st = State()
        st.assumes.append(IN_AXIOM)
        if self.is_lemma:
            body = cd.body
            self.real_assigned = set()
            self.fnode = None
            self.sha = hashlib.sha256(ast.unparse(ast.Module(body=body or [ast.Pass()], type_ignores=[])).encode()).hexdigest()
        else:
            fnode, imports, sha, path = self.E.src.function(cd.qualname)
            self.fnode = fnode
            self.sha = sha
            self.modname = cd.qualname.split(".__init__")[0] if ".__init__" in cd.qualname else cd.qualname.rsplit(".", 1)[0]
            body = _strip_doc(fnode.body)
            real_params = [a.arg for a in fnode.args.args + fnode.args.kwonlyargs]
            cparams = [p for p, _ in cd.params]
            if real_params != cparams:
                raise VerifError("contract parameters %r do not match real signature %r of %s" % (cparams, real_params, cd.qualname))
            self.real_assigned, _ = assigned_names(body)
            self.real_assigned |= set(real_params)
            nloops = self.number_loops(body)
            self.number_call_sites(body)
            self.number_stmts(body)
            for k_m, msg_ in enumerate(self.missing_anchors):
                o_ = Obligation("%s/stale-anchor/%d%s" % (cd.qualname, k_m, self.vname()), "stale-anchor", [], z3.BoolVal(False), cd.qualname, 0, msg_[:200], self.vname())
                o_.extra["forced"] = "unknown"
                self.obls.append(o_)
            ifs = [n for stn in body for n in ast.walk(stn) if isinstance(n, ast.If)]
            ifs.sort(key=lambda n: (n.lineno, n.col_offset))
            for k_, n_ in enumerate(ifs):
                self.if_ids[id(n_)] = k_
            for k in cd.loops:
                if k >= nloops:
                    raise VerifError("contract of %s names loop %d but the function has %d loops" % (cd.qualname, k, nloops))
        for name, ty in cd.params:
            st.env[name] = self.make_param(st, name, ty)
        for name, tstr in (cd.options.get("ghost_params") or {}).items():
            gty = C.parse_type(ast.parse(tstr, mode="eval").body)
            st.env[name] = self.make_param(st, name, gty)
            if isinstance(st.env[name], SArr):
                st.env[name] = self.arr_value(st, st.env[name])
        if cd.defs:
            self.ghost_mode += 1
            try:
                for dstmt in cd.defs:
                    self.st_Assign(dstmt, st)
            finally:
                self.ghost_mode -= 1
        st.old = st.snapshot()
        st.old.old = st.old
        for r in cd.requires:
            st.assume(self.to_bool(self.ev(r, st, False)))
        self.entry_facts = st.facts()
        if self.is_lemma:
            self.ghost_mode += 1
            if cd.decreases is not None:
                self.lemma_measure0 = self.as_int(self.ev(cd.decreases, st, False)).e
        results = []
        for s0 in self.run_ghost(cd.entry, st):
            results.extend(self.exec_block(body, s0))
        if not self.is_lemma:
            alts = [list(self.entry_facts)]
            c = Obligation((cd.qualname or cd.name) + "/canary/requires-satisfiable" + self.vname(), "canary", [], FALSE, cd.qualname or cd.name, 0, "", self.vname())
            c.extra["alts"] = alts
            self.obls.append(c)
            rets = [s_.facts() for (s_, oc_) in results if oc_ != RAISE]
            c2 = Obligation((cd.qualname or cd.name) + "/canary/exit-reachable" + self.vname(), "canary", [], FALSE, cd.qualname or cd.name, 0, "", self.vname())
            c2.extra["alts"] = rets
            self.obls.append(c2)
        for (s, oc) in results:
            if oc == RAISE:
                if cd.options.get("may_raise"):
                    continue  # the contract leaves the raising condition unspecified: it only speaks about normal returns
                if cd.raises is not None:
                    g = self.eval_in_old(cd.raises, s)
                    self.oblige("raise-allowed", "raise", g, s)
                else:
                    self.oblige("raise-unreachable", "raise", FALSE, s)
                continue
            if oc in (BREAK, CONTINUE):
                raise VerifError("break/continue outside loop")
            val = oc.value if isinstance(oc, Ret) else NONE
            for s2 in self.run_ghost(cd.exit, self.bind_result(s, val)):
                if cd.raises is not None:
                    g = self.eval_in_old(cd.raises, s2)
                    self.oblige("no-raise-implies", "return", z3.Not(g), s2)
                for i, en in enumerate(cd.ensures):
                    g = self.eval_ensures(en, s2)
                    self.oblige("post", "ensures%d" % i, g, s2, en)
                if not self.is_lemma:
                    self.check_frame(s2)
        return self.obls

    def bind_result(self, s, val):
        s.env["result"] = val
        return s

    def eval_in_old(self, expr, s):
        o = s.old.snapshot()
        o.assumes = s.assumes
        o.guards = []
        return self.to_bool(self.ev(expr, o, False))

    def eval_ensures(self, en, s):
        """ensures(e) or ensures(exists(lambda ..: body, witness=(..)))"""
        return self.to_bool(self.ev(en, s, False))

    def check_frame(self, s):
        cd = self.cd
        for name, ty in cd.params:
            if name in cd.modifies:
                continue
            v0 = s.old.env.get(name)
            self.frame_value(s, name, v0)

    def frame_value(self, s, name, v0):
        if isinstance(v0, STuple):
            # tuples of arrays (arraymap): frame is not automatic, contracts speak about them
            return
        if isinstance(v0, SArr):
            o0 = s.old.heap[v0.loc]
            o1 = s.heap[v0.loc]
            parts = []
            for c in o0.comps:
                if not o0.comps[c].eq(o1.comps[c]):
                    parts.append(o0.comps[c] == o1.comps[c])
            if parts:
                self.oblige("frame", name, z3.And(*parts), s)


POS_INF_MARK = z3.Real("__pos_inf__")
