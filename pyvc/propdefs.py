"""Per-property metadata and the evidence writer (EVIDENCE.schema.json)."""
import z3

ASSUMPTIONS = [
    "A1: float arithmetic is treated as exact real arithmetic extended with -inf and a NaN flag (no rounding, no overflow to +/-inf from finite operands); float32 storage is not modelled",
    "A2: jitutils.random_choice / NumPy RNG draw with the stated distribution; RNG streams are a deterministic function of the seed",
    "A3: numba nopython semantics coincide with the Python semantics of the verified subset; int64 wrap-around, dtype narrowing and unchecked indexing are excluded by obligations rather than modelled",
    "A4: the modelled NumPy/math surface (pyvc/externals.py) is an assumed contract on dependencies (listed under trusted_base when used)",
    "A7: every array axis has at most 2^48 entries (so index arithmetic on lengths cannot overflow int64)",
    "A6: detailed balance of each move implies stationarity of their mixture/composition; invariance under transpositions implies invariance under permutations (mathematics outside the verifier)",
    "TCB: CPython ast, pyvc (VC generator; validated by the seeded-change runs in DESIGN.md), z3 %s" % z3.get_version_string(),
]

PROPS = {
    "C11": {"level": "proof"},
    "C15": {"level": "proof"},
    "C09": {"level": "other"},
    "C04": {"level": "proof"},
    "C01": {"level": "other"},
    "C02": {"level": "other"},
    "C03": {"level": "other"},
    "C05": {"level": "other"},
    "C14": {"level": "exploration"},
    "C17": {"level": "other"},
    "C18": {"level": "other"},
    "C13": {"level": "exploration"},
    "C16": {"level": "exploration"},
    "C20": {"level": "exploration"},
    "C12": {"level": "exploration"},
    "C19": {"level": "other"},
    "C07": {"level": "exploration"},
    "C08": {"level": "exploration"},
    "C06": {"level": "exploration"},
}


def build_evidence(prop, pd, tier, seed, wall, functions, n_obl, n_dis, obl_samples, per_solver, solver_time, trusted, rt, violations, undecided, known_hit, crashed, canaries=()):
    level = pd["level"]
    cov = {
        "obligations": n_obl,
        "discharged": n_dis,
        "checker_cmd": "./check %s --tier %s   (python3-vt -m pyvc.main; VCs regenerated from $PYVC_REPO=/repo source on this run; z3-solver %s python API)" % (prop, tier, z3.get_version_string()),
        "trusted_base": list(trusted),
        "functions_under_contract": functions,
        "obligations_by_backend": per_solver,
        "solver_time_s": round(solver_time, 3),
        "undecided": undecided,
        "vacuity_canaries": {"checked": len(canaries), "reachable": sum(1 for c in canaries if c["status"] == "reachable"), "unknown": sum(1 for c in canaries if c["status"] == "reachable?"), "vacuous": sum(1 for c in canaries if c["status"] == "vacuous")},
        "known_findings_matched": [k.get("id") for k, _ in known_hit],
        "tool_failures": [str(c["unit"]) for c in crashed],
        "samples": list(obl_samples),
        "explanation": "U: modular VCs (callee contracts, loop invariants, ghost lemmas) generated from the real source text and discharged by z3 for all inputs; "
        "bounded: run-time contracts of the same properties evaluated on the real functions over the enumerated domains listed under 'bounded' (never counted as proved).",
    }
    if rt:
        cov["bounded"] = rt.get("checks", [])
        cov["evaluations"] = int(rt.get("evaluations", 0))
        cov["distinct_nontrivial"] = int(rt.get("distinct_nontrivial", 0))
        cov["rule"] = rt.get("rule", "")
        cov["exhaustive"] = bool(rt.get("exhaustive", False))
        for s in rt.get("samples", [])[:8]:
            cov["samples"].append(s)
    if not cov["samples"]:
        cov["samples"] = [{"note": "no obligations"}]
    if level == "proof" and (n_obl == 0 or n_obl != n_dis):
        # an honest file: not a proof on this run
        cov["explanation"] = "NOT ALL OBLIGATIONS DISCHARGED ON THIS RUN. " + cov["explanation"]
    ev = {
        "property_id": prop,
        "tier": tier,
        "seed": int(seed),
        "level": level,
        "coverage": cov,
        "assumptions": ASSUMPTIONS,
        "wall_s": round(wall, 2),
        "violations": len(violations),
    }
    return ev
