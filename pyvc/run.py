"""Verification units: one (function-under-contract | lemma | spec-termination) x variant.
Each unit is generated and discharged inside one worker process."""
import itertools
import os
import sys
import time
import traceback

import z3

from . import contracts as C
from .engine import FunctionVerifier, VerifError, State
from .calls import Engine
from . import externals as X
from .solve import check_with_retry, check_canary, cross_check

HERE = os.path.dirname(os.path.abspath(__file__))
CONTRACT_DIR = os.path.join(os.path.dirname(HERE), "contracts")


def repo_path():
    return os.environ.get("PYVC_REPO", "/repo")


_DB = None


def load_db():
    global _DB
    if _DB is None:
        db = C.ContractDB()
        db.load_dir(os.environ.get("PYVC_CONTRACTS", CONTRACT_DIR))
        from . import globals_ as G

        db.globals = G.load_globals(db)
        _DB = db
    return _DB


def variants_of(cd):
    opts = [p for p, ty in cd.params if ty[0] == "opt"]
    if cd.options.get("variants") is not None:
        return cd.options["variants"]
    res = []
    for combo in itertools.product(["None", "some"], repeat=len(opts)):
        res.append(dict(zip(opts, combo)))
    return res


def list_units(db, prop=None):
    """[(kind, name, variant)] for everything tagged with `prop` (or all)"""
    units = []
    for q, cd in sorted(db.contracts.items()):
        if cd.options.get("trusted") or cd.options.get("inline"):
            continue
        if prop is None or prop in cd.options.get("props", []):
            for v in variants_of(cd):
                units.append(("contract", q, v))
    for n, ld in sorted(db.lemmas.items()):
        if prop is None or prop in ld.options.get("props", []) or not ld.options.get("props"):
            units.append(("lemma", n, {}))
    for n, sd in sorted(db.specs.items()):
        if not getattr(sd, "abstract", False):
            units.append(("spec", n, {}))
    return units


def verify_spec_termination(E, db, sd):
    """recursive specs must decrease a non-negative integer measure (so the definitional
    equations added by unfold() are consistent)"""
    cd = C.ContractDef("spec." + sd.name)
    cd.kind = "lemma"
    fv = FunctionVerifier(E, cd)
    fv.ghost_mode = 1
    st = State()
    for n, ty in sd.params:
        st.env[n] = fv.make_param(st, n, ty)
    uses_rec = False
    import ast as _ast

    for s in sd.body:
        for n in _ast.walk(s):
            if isinstance(n, _ast.Call) and isinstance(n.func, _ast.Name) and n.func.id == sd.name:
                uses_rec = True
    if not uses_rec:
        return fv
    if sd.decreases is None:
        raise VerifError("recursive spec %s needs decreases(...)" % sd.name)
    fv.checking_spec = sd
    fv.spec_measure0 = fv.as_int(fv.ev(sd.decreases, st, False)).e
    E.spec_block(fv, sd.body, st)
    # calls reached with measure0 < 0 must not recurse: require measure >= 0 at each call
    return fv


def verify_unit(unit, timeout_ms=10000):
    kind, name, variant = unit
    t0 = time.time()
    out = {"unit": [kind, name, variant], "obligations": [], "error": None, "sha": None, "file": None}
    try:
        db = load_db()
        E = Engine(repo_path(), db)
        X.USED.clear()
        if kind == "contract":
            cd = db.contracts[name]
            fv = FunctionVerifier(E, cd, variant)
            obls = fv.verify()
            out["sha"] = fv.sha
            out["file"] = E.src.function(name)[3]
            out["branches"] = fv.branches
            out["dead_ok"] = cd.options.get("dead_branches", [])
        elif kind == "lemma":
            cd = db.lemmas[name]
            fv = FunctionVerifier(E, cd, variant)
            obls = fv.verify()
            out["sha"] = fv.sha
            out["file"] = cd.file
        else:
            sd = db.specs[name]
            fv = verify_spec_termination(E, db, sd)
            obls = fv.obls
            out["file"] = sd.file
        out["gen_s"] = time.time() - t0
        for o in obls:
            if o.kind == "canary":
                r = check_canary(o)
                out.setdefault("canaries", []).append({"id": o.oid, "status": r["status"], "time": round(r["time"], 3)})
                continue
            if o.extra.get("forced"):
                r = {"status": o.extra["forced"], "time": 0.0, "solver": "none", "model": None, "reason": o.text}
            else:
                r = check_with_retry(o, timeout_ms)
            rec = {
                "id": o.oid,
                "kind": o.kind,
                "status": r["status"],
                "time": round(r["time"], 4),
                "solver": r["solver"],
                "line": o.lineno,
                "text": o.text,
            }
            if r["status"] == "unsat" and os.environ.get("PYVC_CROSSCHECK") == "1" and r["solver"] != "simplify":
                rec["cross"] = cross_check(o)
            if r["status"] == "sat":
                rec["model"] = r["model"]
            if r["status"] == "unknown":
                rec["reason"] = r.get("reason")
            out["obligations"].append(rec)
            if r["status"] != "unsat" and os.environ.get("PYVC_FAIL_FAST") == "1":
                break  # mutation self-test: one undischarged obligation is enough to kill a mutant
        out["trusted"] = sorted(X.USED)
    except VerifError as ex:
        out["error"] = "VerifError: %s" % ex
    except Exception:
        out["error"] = traceback.format_exc()
    out["wall_s"] = round(time.time() - t0, 3)
    return out


def main(argv):
    import argparse
    import json

    ap = argparse.ArgumentParser()
    ap.add_argument("--unit", action="append", default=[])
    ap.add_argument("--prop")
    ap.add_argument("--timeout", type=int, default=10000)
    ap.add_argument("-v", action="store_true")
    a = ap.parse_args(argv)
    db = load_db()
    units = list_units(db, a.prop)
    if a.unit:
        units = [u for u in units if any(x == u[1] or u[1].endswith("." + x) for x in a.unit)]
    bad = 0
    br = {}
    for u in units:
        r = verify_unit(u, a.timeout)
        for k_, v_ in (r.get("branches") or {}).items():
            cur = br.setdefault((u[1], k_), [False, False, r.get("dead_ok", [])])
            cur[0] = cur[0] or v_[0]
            cur[1] = cur[1] or v_[1]
        n = len(r["obligations"])
        ok = sum(1 for o in r["obligations"] if o["status"] == "unsat")
        print("%-8s %-60s %s  %d/%d  %.1fs" % (u[0], u[1], u[2] or "", ok, n, r["wall_s"]))
        if r["error"]:
            print("   ERROR", " | ".join(r["error"].strip().splitlines()[-3:])[:400])
            bad += 1
        for c in r.get("canaries", []):
            if c["status"] != "reachable" or a.v:
                print("   canary %s %s" % (c["status"], c["id"]))
                bad += c["status"] == "vacuous"
        for o in r["obligations"]:
            if o["status"] != "unsat" or a.v:
                print("   %-7s %-70s %.2fs  L%s %s" % (o["status"], o["id"], o["time"], o["line"], o["text"][:50]))
                if o.get("model"):
                    print("       model:", {k: v for k, v in list(o["model"].items())[:12]})
                bad += o["status"] != "unsat"
    for (fn, k_), v_ in br.items():
        for side, name in ((0, "then"), (1, "else")):
            if not v_[side] and (k_ + " " + name) not in v_[2]:
                print("   UNREACHED-BRANCH %s: %s [%s side never explored under the contract]" % (fn, k_, name))
                bad += 1
    return 1 if bad else 0


if __name__ == "__main__":
    sys.exit(main(sys.argv[1:]))
