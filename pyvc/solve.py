"""Discharging obligations with z3 (python API, z3-solver 5.1).  unsat = discharged,
sat = counter-model (candidate violation, to be replayed), unknown = undecided."""
import time
import z3


def check_obligation(o, timeout_ms=10000, seed=0, linear_only=False):
    t0 = time.time()
    g = z3.simplify(o.goal) if z3.is_expr(o.goal) else o.goal
    if z3.is_true(g):
        return {"status": "unsat", "time": 0.0, "solver": "simplify", "model": None}
    s = z3.Solver()
    s.set("timeout", timeout_ms)
    if seed:
        s.set("random_seed", seed)
    if linear_only:
        # products of two variables are left uninterpreted: every refutation found this way is also a
        # refutation in real arithmetic (sound for `unsat`); `sat` answers are not used
        s.set("arith.nl", False)
    import os as _os
    core_dbg = _os.environ.get("PYVC_CORE") and _os.environ["PYVC_CORE"] in getattr(o, "oid", "")
    if core_dbg:
        s.set("unsat_core", True)
        for i_, a in enumerate(o.assumes):
            s.assert_and_track(a, "f%d" % i_)
    else:
        for a in o.assumes:
            s.add(a)
    s.add(z3.Not(o.goal))
    r = s.check()
    if core_dbg and r == z3.unsat:
        core = [str(c) for c in s.unsat_core()]
        print("CORE of %s (%d of %d facts):" % (o.oid, len(core), len(o.assumes)))
        for c in core:
            print("   ", c, str(o.assumes[int(c[1:])]).replace("\n", " ")[:600])
    dt = time.time() - t0
    res = {"status": str(r), "time": dt, "solver": "z3-" + z3.get_version_string(), "model": None}
    if r == z3.sat:
        try:
            m = s.model()
            res["model"] = {str(d): str(m[d])[:160] for d in m.decls() if d.arity() == 0 and not z3.is_array(m[d])}
        except Exception as ex:  # pragma: no cover
            res["model"] = {"error": str(ex)}
    if r == z3.unknown:
        res["reason"] = s.reason_unknown()
    return res


def check_with_retry(o, timeout_ms):
    r = check_obligation(o, timeout_ms)
    if r["status"] == "unknown":
        # second attempt: nonlinear arithmetic switched off (stable on large contexts; sound for unsat)
        r1 = check_obligation(o, timeout_ms, linear_only=True)
        if r1["status"] == "unsat":
            r1["time"] += r["time"]
            r1["solver"] += " (arith.nl=false)"
            return r1
        # third attempt: different seed
        r2 = check_obligation(o, timeout_ms, seed=7)
        r2["time"] += r["time"] + r1["time"]
        return r2
    return r


def check_canary(o, timeout_ms=3000):
    """vacuity guard: at least one alternative fact set must be satisfiable (sat or unknown);
    all unsat = the contract's assumptions are contradictory / no exit is reachable"""
    t0 = time.time()
    status = "vacuous"
    for facts in o.extra.get("alts", []):
        s = z3.Solver()
        s.set("timeout", timeout_ms)
        s.add(*facts)
        r = s.check()
        if r == z3.sat:
            status = "reachable"
            break
        if r == z3.unknown:
            status = "reachable?"
    return {"status": status, "time": time.time() - t0, "solver": "z3-" + z3.get_version_string(), "model": None}


def cross_check(o, timeout_s=10):
    """thorough tier: the same obligation, exported as SMT-LIB 2, decided again by two independent solver builds
    (z3 4.8.12 and cvc5 1.0.3 CLIs).  Returns {tool: 'unsat' | 'sat' | 'unknown' | 'timeout' | 'error'}."""
    import os
    import subprocess
    import tempfile

    s = z3.Solver()
    for a in o.assumes:
        s.add(a)
    s.add(z3.Not(o.goal))
    res = {}
    f = tempfile.NamedTemporaryFile("w", suffix=".smt2", delete=False)
    try:
        f.write(s.to_smt2())
        f.close()
        for tool, cmd in (("z3-4.8.12", ["/usr/bin/z3", "-T:%d" % timeout_s, f.name]), ("cvc5-1.0.3", ["/usr/bin/cvc5", "--tlimit=%d" % (timeout_s * 1000), f.name])):
            if not os.path.exists(cmd[0]):
                res[tool] = "absent"
                continue
            try:
                out = subprocess.run(cmd, capture_output=True, text=True, timeout=timeout_s + 5).stdout.strip().splitlines()
                r = out[0].strip() if out else "error"
                res[tool] = r if r in ("unsat", "sat", "unknown") else ("timeout" if "timeout" in r else "error")
            except subprocess.TimeoutExpired:
                res[tool] = "timeout"
            except Exception:
                res[tool] = "error"
    finally:
        try:
            os.unlink(f.name)
        except OSError:
            pass
    return res
