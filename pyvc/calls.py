"""Engine: call dispatch (contract callees, spec functions, lemmas, modelled externals),
module globals, spec unfolding, termination of specs."""
import ast
import z3

from .values import *  # noqa
from .engine import (
    FunctionVerifier,
    SourceIndex,
    VerifError,
    State,
    Ret,
    FALL,
    POS_INF_MARK,
    INT64_MIN,
    INT64_MAX,
)
from . import contracts as C
from . import externals as X


def spec_sort_list(ty):
    """z3 sorts of the flattened representation of a spec-level type"""
    k = ty[0]
    if k == "int":
        return [I]
    if k == "float":
        return [R]
    if k == "xfloat":
        return [R, B]
    if k == "bool":
        return [B]
    if k == "arr":
        dt, nd = ty[1], ty[2]
        if dt == "xfloat":
            return [arr_sort(R, nd), arr_sort(B, nd), arr_sort(B, nd)]  # values, nan flags, -inf flags
        if dt in ("float", "f8", "f4"):
            return [arr_sort(R, nd), arr_sort(B, nd)]  # values, nan flags
        if dt in ("bool", "b1"):
            return [arr_sort(B, nd)]
        return [arr_sort(I, nd)]
    if k == "tup":
        r = []
        for t in ty[1]:
            r.extend(spec_sort_list(t))
        return r
    raise VerifError("spec type %r" % (ty,))


def const_arr(val, nd):
    t = val
    for _ in range(nd):
        t = z3.K(I, t)
    return t


class Engine:
    def __init__(self, repo, db, quick_timeout_ms=120):
        self.src = SourceIndex(repo)
        self.db = db
        self.uf_cache = {}
        self.quick_timeout_ms = quick_timeout_ms
        self.spec_term_obls = []
        self.n_feas = 0

    # ---------------------------------------------------------------- solver helper
    def quick_feasible(self, facts):
        s = z3.Solver()
        s.set("timeout", self.quick_timeout_ms)
        s.add(*facts)
        self.n_feas += 1
        return s.check() != z3.unsat

    # ---------------------------------------------------------------- spec functions
    def spec_uf(self, sd):
        if sd.name not in self.uf_cache:
            dom = []
            for _, ty in sd.params:
                dom.extend(spec_sort_list(ty))
            if sd.ret[0] == "xfloat":
                self.uf_cache[sd.name] = (z3.Function(sd.name, *(dom + [R])), z3.Function(sd.name + "_ninf", *(dom + [B])))
            else:
                rng = {"int": I, "float": R, "bool": B}[sd.ret[0]]
                self.uf_cache[sd.name] = z3.Function(sd.name, *(dom + [rng]))
        return self.uf_cache[sd.name]

    def flatten_arg(self, fv, st, v, ty):
        k = ty[0]
        if k == "int":
            return [fv.as_int(v).e]
        if k == "float":
            return [fv.to_float(v).v]
        if k == "xfloat":
            f_ = fv.to_float(v)
            return [f_.v, f_.ninf]
        if k == "bool":
            return [fv.to_bool(v)]
        if k == "arr":
            if isinstance(v, SArr):
                v = fv.arr_value(st, v)
            if not isinstance(v, SArrVal):
                raise VerifError("spec argument: expected array, got %r" % (v,))
            if len(v.shape) != ty[2]:
                raise VerifError("spec argument rank mismatch")
            if ty[1] == "xfloat":
                if not is_float_dtype(v.dtype):
                    raise VerifError("spec argument: expected float array")
                return [v.comps["v"], v.comps["nan"], v.comps["ninf"]]
            if ty[1] in ("float", "f8", "f4"):
                if not is_float_dtype(v.dtype):
                    raise VerifError("spec argument: expected float array")
                return [v.comps["v"], v.comps["nan"]]
            return [v.comps["v"]]
        if k == "tup":
            r = []
            for x, t in zip(v.items, ty[1]):
                r.extend(self.flatten_arg(fv, st, x, t))
            return r
        raise VerifError("spec arg type %r" % (ty,))

    def wrap_ret(self, ty, term):
        if ty[0] == "int":
            return SInt(term)
        if ty[0] == "float":
            return SFloat(term)
        return SBool(term)

    def spec_app(self, fv, st, sd, argvals):
        if getattr(sd, "inline", False):
            return self.spec_body_value(fv, st, sd, argvals)
        f = self.spec_uf(sd)
        if len(argvals) != len(sd.params):
            raise VerifError("spec %s arity" % sd.name)
        flat = []
        for v, (_, ty) in zip(argvals, sd.params):
            flat.extend(self.flatten_arg(fv, st, v, ty))
        if sd.ret[0] == "xfloat":
            return SFloat(f[0](*flat), f[1](*flat))
        return self.wrap_ret(sd.ret, f(*flat))

    def spec_param_value(self, fv, st, v, ty):
        """value bound to a spec parameter when evaluating the spec body"""
        k = ty[0]
        if k == "int":
            return fv.as_int(v)
        if k == "float":
            return SFloat(fv.to_float(v).v)
        if k == "xfloat":
            f_ = fv.to_float(v)
            return SFloat(f_.v, f_.ninf)
        if k == "bool":
            return SBool(fv.to_bool(v))
        if k == "arr":
            if isinstance(v, SArr):
                v = fv.arr_value(st, v)
            nd = ty[2]
            shape = [z3.IntVal(0)] * nd
            if ty[1] == "fdict":
                return SArrVal("fdict", shape, dict(v.comps))
            if ty[1] == "xfloat":
                return SArrVal("f8", shape, {"v": v.comps["v"], "nan": v.comps["nan"], "ninf": v.comps["ninf"]})
            if ty[1] in ("float", "f8", "f4"):
                return SArrVal("f8", shape, {"v": v.comps["v"], "nan": v.comps["nan"], "ninf": const_arr(FALSE, nd)})
            if ty[1] in ("bool", "b1"):
                return SArrVal("b1", shape, {"v": v.comps["v"]})
            return SArrVal("i8", shape, {"v": v.comps["v"]})
        if k == "tup":
            return STuple([self.spec_param_value(fv, st, x, t) for x, t in zip(v.items, ty[1])])
        raise VerifError("spec param type")

    def spec_block(self, fv, stmts, st):
        for i, s in enumerate(stmts):
            if isinstance(s, ast.Return):
                return fv.ev(s.value, st, False)
            if isinstance(s, ast.Assign):
                val = fv.ev(s.value, st, False)
                for t in s.targets:
                    if not isinstance(t, ast.Name):
                        raise VerifError("spec assignment target")
                    st.env[t.id] = val
                continue
            if isinstance(s, ast.If):
                c = fv.to_bool(fv.ev(s.test, st, False))
                rest = stmts[i + 1:]
                cs_ = z3.simplify(c)
                if z3.is_true(cs_):
                    return self.spec_block(fv, list(s.body) + rest, st)
                if z3.is_false(cs_):
                    return self.spec_block(fv, list(s.orelse) + rest, st)
                s1 = st.fork()
                s1.guards = st.guards + [c]
                a = self.spec_block(fv, list(s.body) + rest, s1)
                s2 = st.fork()
                s2.guards = st.guards + [z3.Not(c)]
                b = self.spec_block(fv, list(s.orelse) + rest, s2)
                if a is None or b is None:
                    raise VerifError("spec function falls through")
                return fv.ite(c, a, b)
            if isinstance(s, ast.Pass):
                continue
            raise VerifError("unsupported statement in spec: %s" % ast.unparse(s))
        return None

    def spec_body_value(self, fv, st, sd, argvals):
        s = State()
        s.old = st.old
        s.funcs = st.funcs
        s.assumes = st.assumes
        s.guards = list(st.guards)
        s.heap = st.heap
        for v, (n, ty) in zip(argvals, sd.params):
            s.env[n] = self.spec_param_value(fv, st, v, ty)
        val = self.spec_block(fv, sd.body, s)
        if val is None:
            raise VerifError("spec %s has no return" % sd.name)
        return val

    def unfold(self, fv, st, call_node):
        if not (isinstance(call_node, ast.Call) and isinstance(call_node.func, ast.Name) and call_node.func.id in self.db.specs):
            raise VerifError("unfold expects a spec application: %s" % ast.unparse(call_node))
        sd = self.db.specs[call_node.func.id]
        argvals = [fv.ev(a, st, False) for a in call_node.args]
        app = self.spec_app(fv, st, sd, argvals)
        body = self.spec_body_value(fv, st, sd, argvals)
        eq = fv.to_bool(fv.compare(st, ast.Eq(), app, body, call_node, False))
        st.assume(eq)

    def compute(self, fv, st, call_node):
        """evaluate a spec application on concrete integer arguments by its defining equations
        (memoised); assumes  f(args) == value  for it and every instance met on the way"""
        if not (isinstance(call_node, ast.Call) and isinstance(call_node.func, ast.Name) and call_node.func.id in self.db.specs):
            raise VerifError("compute expects a spec application")
        sd = self.db.specs[call_node.func.id]
        args = []
        for a in call_node.args:
            v = z3.simplify(fv.as_int(fv.ev(a, st, False)).e)
            if not z3.is_int_value(v):
                raise VerifError("compute: argument %s is not a concrete integer" % ast.unparse(a))
            args.append(v.as_long())
        val = self.compute_concrete(fv, sd, tuple(args))
        f = self.spec_uf(sd)
        st.assume(f(*[z3.IntVal(a) for a in args]) == val)

    def compute_concrete(self, fv, sd, args):
        memo = self.__dict__.setdefault("_compute_memo", {})
        key = (sd.name, args)
        if key in memo:
            return memo[key]
        import sys

        sys.setrecursionlimit(max(sys.getrecursionlimit(), 20000))
        s = State()
        for v, (n, ty) in zip(args, sd.params):
            if ty[0] != "int":
                raise VerifError("compute: only integer specs")
            s.env[n] = SInt(v)
        saved = fv.computing
        fv.computing = True
        try:
            val = self.spec_block(fv, sd.body, s)
        finally:
            fv.computing = saved
        e = z3.simplify(fv.as_int(val).e)
        if not z3.is_int_value(e):
            raise VerifError("compute: %s%r did not reduce to a value" % (sd.name, args))
        memo[key] = e.as_long()
        return memo[key]

    # ---------------------------------------------------------------- module globals
    def module_global(self, modname, name, st, fv):
        q = modname + "." + name
        g = self.db_globals().get(q)
        if g is None:
            return None
        key = "global:" + q
        if key not in st.env:
            st.env[key] = g.instantiate(self, fv, st)
        return st.env[key]

    def db_globals(self):
        return getattr(self.db, "globals", {})

    # ---------------------------------------------------------------- calls
    def call_modified_names(self, fv, node, st):
        """array variable names that a call may modify (for loop havoc)"""
        res = set()
        try:
            target = self.resolve_call(fv, node)
        except VerifError:
            return res
        kind, obj = target
        if kind == "contract":
            cd = obj
            fn, _, _, _ = self.src.function(cd.qualname)
            pnames = [a.arg for a in fn.args.args + fn.args.kwonlyargs]
            bound = {}
            for i, a in enumerate(node.args):
                if i < len(pnames):
                    bound[pnames[i]] = a
            for kw in node.keywords:
                bound[kw.arg] = kw.value
            for m in cd.modifies:
                a = bound.get(m)
                while isinstance(a, ast.Subscript):
                    a = a.value
                if isinstance(a, ast.Name):
                    res.add(a.id)
        elif kind == "external":
            res |= X.modified_names(obj, node)
        return res

    def dotted(self, node):
        parts = []
        while isinstance(node, ast.Attribute):
            parts.append(node.attr)
            node = node.value
        if isinstance(node, ast.Name):
            parts.append(node.id)
            return list(reversed(parts))
        return None

    def resolve_call(self, fv, node):
        f = node.func
        parts = self.dotted(f)
        if parts is None:
            return ("method", None)
        name = parts[0]
        if len(parts) == 1:
            if name in X.BUILTINS:
                return ("builtin", name)
            if name in self.db.specs:
                return ("spec", self.db.specs[name])
            if name in self.db.lemmas:
                return ("lemma", self.db.lemmas[name])
        if fv.modname is None:
            raise VerifError("unknown function %s in ghost code" % ".".join(parts))
        q = self.src.resolve(fv.modname, parts)
        if q in self.db.contracts:
            return ("contract", self.db.contracts[q])
        if q in X.EXTERNALS:
            return ("external", q)
        if q.startswith("numpy.") or q.startswith("math.") or q.startswith("numba."):
            raise VerifError("numpy/math API %s is not modelled" % q)
        return ("unknown", q)

    def call(self, fv, node, st, prog):
        f = node.func
        parts = self.dotted(f)
        # method calls on values (a.copy(), a.sum(), ...)
        if isinstance(f, ast.Attribute) and (parts is None or (parts[0] in st.env)):
            recv = fv.ev(f.value, st, prog)
            return X.method(self, fv, st, recv, f.attr, node, prog)
        if parts is not None and len(parts) == 1 and parts[0] not in st.funcs and not prog:
            import re as _re

            if _re.fullmatch(r"(perm|shuffle|where_rank|sort|msel_src)\d+(_inv)?", parts[0]):
                # ghost function of an external that was not called on this path: unconstrained symbol
                fv.counter += 1
                st.funcs = dict(st.funcs)
                st.funcs[parts[0]] = z3.Function("%s!unset%d" % (parts[0], fv.counter), I, I)
        if parts is not None and len(parts) == 1 and parts[0] in st.funcs:
            args = [fv.as_int(fv.ev(a, st, False)).e for a in node.args]
            return SInt(st.funcs[parts[0]](*args))
        kind, obj = self.resolve_call(fv, node)
        if kind == "builtin":
            return X.BUILTINS[obj](self, fv, st, node, prog)
        if kind == "spec":
            if prog and not fv.ghost_mode:
                raise VerifError("program code calls spec function")
            argvals = [fv.ev(a, st, False) for a in node.args]
            if fv.computing:
                cargs = []
                for v in argvals:
                    e = z3.simplify(fv.as_int(v).e)
                    if not z3.is_int_value(e):
                        raise VerifError("compute: non-concrete nested argument")
                    cargs.append(e.as_long())
                return self.wrap_ret(obj.ret, z3.IntVal(self.compute_concrete(fv, obj, tuple(cargs))))
            if fv.checking_spec is obj:
                self.spec_rec_obligation(fv, st, obj, argvals, node)
            return self.spec_app(fv, st, obj, argvals)
        if kind == "lemma":
            return self.call_lemma(fv, st, obj, node)
        if kind == "contract":
            if obj.options.get("inline"):
                return self.call_inline(fv, st, obj, node, prog)
            return self.call_contract(fv, st, obj, node, prog)
        if kind == "external":
            return X.EXTERNALS[obj](self, fv, st, node, prog)
        raise VerifError("call to %s: no contract and not a modelled external (in %s)" % (obj, fv.cd.name))

    def spec_rec_obligation(self, fv, st, sd, argvals, node):
        if sd.decreases is None:
            raise VerifError("recursive spec %s needs decreases(...)" % sd.name)
        s = State()
        s.assumes = st.assumes
        s.guards = list(st.guards)
        for v, (n, ty) in zip(argvals, sd.params):
            s.env[n] = self.spec_param_value(fv, st, v, ty)
        m1 = fv.as_int(fv.ev(sd.decreases, s, False)).e
        m0 = fv.spec_measure0
        fv.oblige("spec-decreases", ast.unparse(node)[:40], z3.And(m0 >= 0, m1 < m0, m1 >= 0) if False else z3.And(m1 < m0, m1 >= 0), st, node)

    def call_lemma(self, fv, st, ld, node):
        if not fv.ghost_mode:
            raise VerifError("lemma called from program code")
        argvals = [fv.ev(a, st, False) for a in node.args]
        if len(argvals) != len(ld.params):
            raise VerifError("lemma %s arity" % ld.name)
        s = State()
        s.old = None
        s.funcs = st.funcs
        s.heap = st.heap
        s.assumes = st.assumes
        s.guards = list(st.guards)
        for v, (n, ty) in zip(argvals, ld.params):
            s.env[n] = self.spec_param_value(fv, st, v, ty) if ty[0] != "arr" or True else v
        fv.call_counts[ld.name] = fv.call_counts.get(ld.name, 0) + 1
        for i, r in enumerate(ld.requires):
            g = fv.to_bool(fv.ev(r, s, False))
            fv.oblige("pre@" + ld.name, "requires%d" % i, g, st, node)
        if fv.is_lemma and fv.cd.name == ld.name:
            if ld.decreases is None:
                raise VerifError("recursive lemma %s needs decreases" % ld.name)
            m1 = fv.as_int(fv.ev(ld.decreases, s, False)).e
            fv.oblige("decreases", "rec@" + ld.name, z3.And(m1 >= 0, m1 < fv.lemma_measure0), st, node)
        for e in ld.ensures:
            st.assume(fv.to_bool(fv.ev(e, s, False)))
        return NONE

    def call_inline(self, fv, st, cd, node, prog):
        """@contract(..., inline=True): the callee is a single `return <expr>`; its expression is re-read
        from the source and evaluated at the call site with the parameters bound to the arguments
        (no contract abstraction: every obligation of the expression is generated in the caller)."""
        fn, _, _, _ = self.src.function(cd.qualname)
        body = [s_ for s_ in fn.body if not (isinstance(s_, ast.Expr) and isinstance(s_.value, ast.Constant) and isinstance(s_.value.value, str))]
        if len(body) != 1 or not isinstance(body[0], ast.Return) or body[0].value is None:
            raise VerifError("inline contract %s: the function is not a single return expression" % cd.qualname)
        X.USED.add("inlined at call sites (single return expression re-read from source): %s" % cd.qualname)
        pnames, bound = self.bind_args(fv, st, cd, node, prog)
        cs = State()
        cs.env = dict(bound)
        cs.heap = st.heap
        cs.assumes = st.assumes
        cs.guards = st.guards
        cs.funcs = st.funcs
        cs.pending_ovf = st.pending_ovf
        cs.old = st.old
        cs.labels = st.labels
        saved = fv.modname
        fv.modname = cd.qualname.rsplit(".", 1)[0]
        try:
            return fv.ev(body[0].value, cs, prog)
        finally:
            fv.modname = saved

    def bind_args(self, fv, st, cd, node, prog):
        fn, _, _, _ = self.src.function(cd.qualname)
        a = fn.args
        pnames = [x.arg for x in a.args + a.kwonlyargs]
        defaults = {}
        nd = len(a.defaults)
        for x, d in zip(a.args[len(a.args) - nd:], a.defaults):
            defaults[x.arg] = d
        for x, d in zip(a.kwonlyargs, a.kw_defaults):
            if d is not None:
                defaults[x.arg] = d
        bound = {}
        for i, an in enumerate(node.args):
            if isinstance(an, ast.Starred):
                raise VerifError("starred call argument")
            bound[pnames[i]] = fv.ev(an, st, prog)
        for kw in node.keywords:
            if kw.arg is None:
                raise VerifError("**kwargs call")
            if kw.arg not in pnames:
                raise VerifError("call passes unknown keyword %s to %s" % (kw.arg, cd.qualname))
            bound[kw.arg] = fv.ev(kw.value, st, prog)
        for p in pnames:
            if p not in bound:
                if p not in defaults:
                    raise VerifError("missing argument %s in call to %s" % (p, cd.qualname))
                dst = State()
                bound[p] = fv.ev(defaults[p], dst, False)
        return pnames, bound

    def make_result(self, fv, st, ty, name):
        k = ty[0]
        if k == "int":
            return SInt(fv.fresh_int(name))
        if k == "float":
            return SFloat(fv.fresh(name, R), fv.fresh(name + "_ninf", B), fv.fresh(name + "_nan", B))
        if k == "bool":
            return SBool(fv.fresh(name, B))
        if k == "arr":
            return fv.fresh_array(st, name, {"int": "i8", "float": "f8", "xfloat": "f8", "bool": "b1"}.get(ty[1], ty[1]), ty[2])
        if k == "tup":
            return STuple([self.make_result(fv, st, t, "%s_%d" % (name, i)) for i, t in enumerate(ty[1])])
        if k == "none":
            return NONE
        if k == "opt":
            raise VerifError("optional result type must be resolved by the contract (use variants)")
        raise VerifError("result type %r" % (ty,))

    def run_anchor(self, fv, st, stmts, short):
        """ghost code anchored at a call inside an expression: it must leave exactly one state, which
        replaces the caller's state in place (a statically decided ghost `if` continues in a fork)"""
        if not stmts:
            return
        outs = fv.run_ghost(stmts, st)
        if len(outs) != 1:
            raise VerifError("ghost code anchored at the call of %s must not branch on a symbolic condition" % short)
        o = outs[0]
        if o is not st:
            st.env = o.env
            st.heap = o.heap
            st.assumes = o.assumes
            st.guards = o.guards
            st.funcs = o.funcs
            st.pending_ovf = o.pending_ovf
            st.labels = o.labels

    def call_contract(self, fv, st, cd, node, prog):
        if cd.options.get("trusted"):
            X.USED.add("ASSUMED contract (bounded run-time check only): %s" % cd.qualname)
        short = cd.qualname.rsplit(".", 1)[1]
        ordn = fv.call_counts.get(short, 0)
        # anchors are static per call *site*: use ordinal of the site in source order
        site = fv.call_site_ordinal(node, short)
        pnames, bound = self.bind_args(fv, st, cd, node, prog)
        fv.flush_ovf(st, node)
        # the actual arguments are visible to ghost code as <callee>_arg_<parameter> (e.g. an unnamed
        # temporary passed to the callee); the `before` anchor runs after argument evaluation
        for pn in pnames:
            st.env["%s_arg_%s" % (short, pn)] = bound[pn]
        self.run_anchor(fv, st, cd_anchor(fv, short, site, "before"), short)
        # callee view
        cs = State()
        cs.env = dict(bound)
        cs.heap = st.heap
        cs.assumes = st.assumes
        cs.guards = list(st.guards)
        cs.funcs = st.funcs
        for gname in (cd.options.get("ghost_params") or {}):
            key = "%s_%s" % (short, gname)
            if key not in st.env:
                raise VerifError("call to %s needs ghost argument %s (assign it in ghost code before the call)" % (cd.qualname, key))
            gv = st.env[key]
            cs.env[gname] = fv.arr_value(st, gv) if isinstance(gv, SArr) else gv
        pre = cs.snapshot()
        pre.heap = dict(st.heap)
        pre.old = pre
        cs.old = pre
        # variant of the callee selected by None-ness of optional args
        for pn, ty in cd.params:
            if ty[0] == "opt":
                pass
        if cd.defs:
            fv.ghost_mode += 1
            try:
                for dstmt in cd.defs:
                    if not isinstance(dstmt, ast.Assign):
                        raise VerifError("defs() may contain assignments only")
                    fv.st_Assign(dstmt, cs)
            finally:
                fv.ghost_mode -= 1
            pre.env.update({k: v for k, v in cs.env.items() if k not in pre.env})
        for i, r in enumerate(cd.requires):
            g = fv.to_bool(fv.ev(r, cs, False))
            fv.oblige("pre@" + short, "site%d/requires%d" % (site, i), g, st, node)
        # the callee was proved for the declared element types: an argument array must have exactly the
        # declared dtype (iN = any signed integer dtype accepts i1/i2/i4/i8/iN)
        def check_dtype(pn, ty, v):
            if ty[0] == "opt":
                if not isinstance(v, SNone):
                    check_dtype(pn, ty[1], v)
                return
            if ty[0] == "tup" and isinstance(v, STuple):
                for k2, (t2, v2) in enumerate(zip(ty[1], v.items)):
                    check_dtype("%s[%d]" % (pn, k2), t2, v2)
                return
            if ty[0] == "arr" and isinstance(v, SArr):
                want = {"int": "i8", "float": "f8", "bool": "b1", "xfloat": "f8"}.get(ty[1], ty[1])
                have = st.heap[v.loc].dtype
                if want == have or (want == "iN" and have in ("i1", "i2", "i4", "i8")):
                    return
                raise VerifError("call to %s passes a %s array for parameter %s declared %s" % (cd.qualname, have, pn, want))

        for pn, ty in cd.params:
            if pn in bound:
                check_dtype(pn, ty, bound[pn])
        # the callee's contract was proved for pairwise separate arrays: an array it may modify must
        # not overlap any other array argument (views of one location need provably different indices)
        def arrays_of(v):
            if isinstance(v, SArr):
                return [v]
            if isinstance(v, STuple):
                return [it for it in v.items if isinstance(it, SArr)]
            return []

        for m in cd.modifies:
            for am in arrays_of(bound.get(m)):
                for pn in pnames:
                    for k_, aq in enumerate(arrays_of(bound.get(pn))):
                        if aq is am or aq.loc != am.loc:
                            continue
                        if pn == m and aq.prefix == am.prefix:
                            continue
                        diffs = [a_ != b_ for a_, b_ in zip(am.prefix, aq.prefix)]
                        g = z3.Or(*diffs) if diffs else z3.BoolVal(False)
                        fv.oblige("pre@" + short, "site%d/no-alias-%s-%s" % (site, m, pn), g, st, node)
        # float parameters are modelled NaN-free inside the callee: the caller must establish it
        for pn, ty in cd.params:
            if ty[0] == "float" and pn not in cd.options.get("nanable", []):
                av = bound.get(pn)
                if isinstance(av, SFloat) and not z3.is_false(z3.simplify(av.nan)):
                    fv.oblige("pre@" + short, "site%d/%s-not-nan" % (site, pn), z3.Not(av.nan), st, node)
        if cd.options.get("may_raise"):
            raise VerifError("%s may raise under an unspecified condition (may_raise): calls from verified code are not supported" % cd.qualname)
        if cd.raises is not None:
            g = fv.to_bool(fv.ev(cd.raises, cs, False))
            fv.oblige("no-raise@" + short, "site%d" % site, z3.Not(g), st, node)
            st.assume(z3.Not(g))
        # havoc what the callee may modify
        writeback = []
        for m in cd.modifies:
            v = bound.get(m)
            for am in arrays_of(v):
                if am.loc in fv.view_copies:
                    if am.loc in getattr(fv, "view_col", {}) and not am.prefix:
                        writeback.append(am)  # a column view a[:, j]: the callee's writes are copied back after the call
                        continue
                    raise VerifError("a slice view is passed to %s in a position it may modify (views are read-only copies)" % cd.qualname)
            if isinstance(v, SArr):
                fv.havoc_array(st, v)
            elif isinstance(v, STuple):
                for it in v.items:
                    if isinstance(it, SArr):
                        fv.havoc_array(st, it)
            elif isinstance(v, SNone):
                pass
            else:
                raise VerifError("modifies(%s) of non-array argument" % m)
        cs.heap = st.heap
        rty = cd.ret
        res = self.result_for(fv, st, cd, bound, rty, short)
        if isinstance(res, SInt) and cd.options.get("machine_ints"):
            st.assume(z3.And(res.e >= INT64_MIN, res.e <= INT64_MAX))
        cs.env["result"] = res
        st.env["%s_result" % short] = res  # ghost name of the (possibly unnamed) call result
        cs.heap = st.heap
        saved_mode = fv.exists_mode
        fv.exists_mode = "skolem" if not st.guards else "quant"
        fv.skolems = []
        try:
            for e in cd.ensures:
                st.assume(fv.to_bool(fv.ev(e, cs, False)))
        finally:
            fv.exists_mode = saved_mode
        for am in writeback:
            fv.write_back_column(st, am)
        pref = cd.options.get("ghost_prefix", short)
        for n, v in fv.skolems:
            st.env["%s_%s" % (pref, n)] = v
        fv.skolems = []
        self.run_anchor(fv, st, cd_anchor(fv, short, site, "after"), short)
        return res

    def result_for(self, fv, st, cd, bound, rty, short):
        """fresh result; Opt[...] components of tuple results follow the None-ness of the
        parameter of the same name (e.g. `cache`)."""
        if rty[0] == "opt":
            pname = cd.options.get("opt_result", {}).get("")
            if pname is None:
                raise VerifError("contract %s: Opt result needs option opt_result" % cd.qualname)
            if isinstance(bound[pname], SNone):
                return NONE
            return self.make_result(fv, st, rty[1], short + "_res")
        if rty[0] == "tup":
            items = []
            for i, t in enumerate(rty[1]):
                if t[0] == "opt":
                    # convention: Opt results mirror the parameter named in options['opt_result']
                    pname = cd.options.get("opt_result", {}).get(str(i))
                    if pname is None:
                        raise VerifError("contract %s: Opt result needs option opt_result" % cd.qualname)
                    if isinstance(bound[pname], SNone):
                        items.append(NONE)
                    else:
                        items.append(self.make_result(fv, st, t[1], "%s_res%d" % (short, i)))
                else:
                    items.append(self.make_result(fv, st, t, "%s_res%d" % (short, i)))
            return STuple(items)
        return self.make_result(fv, st, rty, short + "_res")


def cd_anchor(fv, short, site, when):
    return fv.cd.call_anchors.get((short, site, when), [])
