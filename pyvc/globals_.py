"""Module-level constant tables (e.g. jitutils._COMB_CACHE).  A contract whose qualified
name is `<module>.__init__<NAME>` is the contract of the module-level initialiser of NAME
(the assignment to NAME plus the `for` loops that follow it and store into NAME).  Code that
reads the global sees a fresh array constrained by that contract's `ensures` -- which are
themselves proved against the initialiser's real source text."""
import z3

from .values import *  # noqa

MARK = ".__init__"


class GlobalDef:
    def __init__(self, cd):
        self.cd = cd

    def instantiate(self, E, fv, st):
        from .engine import State

        res = E.make_result(fv, st, self.cd.ret, "glob")
        cs = State()
        cs.env = {"result": res}
        cs.heap = st.heap
        cs.assumes = st.assumes
        cs.guards = []
        cs.funcs = st.funcs
        cs.old = cs
        saved = fv.exists_mode
        fv.exists_mode = "quant"
        try:
            for e in self.cd.ensures:
                st.assume(fv.to_bool(fv.ev(e, cs, False)))
        finally:
            fv.exists_mode = saved
        return res


def load_globals(db):
    g = {}
    for q, cd in db.contracts.items():
        if MARK in q:
            mod, name = q.split(MARK)
            g[mod + "." + name] = GlobalDef(cd)
    return g
