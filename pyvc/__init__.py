"""pyvc -- a small contract-based deductive verifier for the numba-subset of Python
used by MCHap.  See /verif/DESIGN.md section 2.

The verified text is the real source: every run re-reads the function bodies from
$PYVC_REPO (default /repo) with `ast`, attaches the sidecar contracts from
/verif/contracts and generates verification conditions that are discharged by z3.
"""
