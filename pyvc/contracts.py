"""Sidecar contract files: parsed (never imported/executed) Python syntax.

Top-level definitions in /verif/contracts/*.py:

  @spec                      pure specification function (uninterpreted in SMT, unfolded
  def binom(n: int, k: int) -> int:     only through explicit `unfold(...)` ghost statements)
      decreases(n)
      if ...: return ...

  @lemma                     ghost lemma, proved by the same VC generator; a recursive call
  def lemma_x(n: int):       is the induction hypothesis (decreases checked)
      requires(..); ensures(..); decreases(..)
      <ghost statements>

  @contract("mchap.jitutils._comb", machine_ints=True, props=["C11"])
  def _comb(n: int, k: int) -> int:      contract for the REAL function of that qualified name
      requires(..); ensures(..); raises(..); modifies(a, b)
      with entry(): <ghost>
      with loop(0):
          invariant(..); decreases(..)
          with head(): <ghost>
          with tail(): <ghost>
          with after(): <ghost>
      with exit_(): <ghost>
"""
import ast
import glob
import os


class TypeErr(Exception):
    pass


def parse_type(node):
    if node is None:
        return ("none",)
    if isinstance(node, ast.Constant) and node.value is None:
        return ("none",)
    if isinstance(node, ast.Name):
        if node.id in ("int", "float", "bool", "xfloat"):
            return (node.id,)
        if node.id == "NoneT":
            return ("none",)
        if node.id == "FDict":
            return ("arr", "fdict", 1)
        if node.id == "FDict2":
            return ("arr", "fdict", 2)  # numba typed dict (int64, int64) -> float64
        if node.id == "ArrayMap":
            return (
                "tup",
                [("arr", "i8", 2), ("arr", "xfloat", 1), ("int",), ("int",), ("int",), ("int",)],
            )
        raise TypeErr("unknown type name %s" % node.id)
    if isinstance(node, ast.Subscript):
        base = node.value.id
        sl = node.slice
        elts = sl.elts if isinstance(sl, ast.Tuple) else [sl]
        if base == "A":
            return ("arr", elts[0].id, elts[1].value)
        if base == "Opt":
            return ("opt", parse_type(elts[0]))
        if base == "Tup":
            return ("tup", [parse_type(e) for e in elts])
    raise TypeErr("cannot parse type %s" % ast.dump(node))


class LoopSpec:
    def __init__(self):
        self.invariants = []  # list of (expr ast, text)
        self.decreases = None
        self.head = []
        self.tail = []
        self.after = []
        self.unroll = False


class ContractDef:
    kind = "contract"

    def __init__(self, name):
        self.name = name
        self.qualname = None
        self.options = {}
        self.params = []  # [(name, type)]
        self.ret = ("none",)
        self.requires = []
        self.ensures = []
        self.raises = None
        self.modifies = []
        self.loops = {}
        self.entry = []
        self.defs = []  # ghost definitions evaluated before `requires` (also at call sites)
        self.exit = []
        self.call_anchors = {}  # (callee short name, ordinal, 'before'|'after') -> stmts
        self.stmt_anchors = {}  # (statement text, ordinal, 'before'|'after') -> stmts
        self.decreases = None
        self.body = []  # lemma body
        self.file = None
        self.lineno = 0


class SpecDef:
    kind = "spec"

    def __init__(self, name):
        self.name = name
        self.params = []
        self.ret = ("int",)
        self.body = []
        self.decreases = None
        self.file = None


def _call_name(node):
    if isinstance(node, ast.Expr):
        node = node.value
    if isinstance(node, ast.Call) and isinstance(node.func, ast.Name):
        return node.func.id
    return None


def _with_name(node):
    if isinstance(node, ast.With) and len(node.items) == 1:
        ce = node.items[0].context_expr
        if isinstance(ce, ast.Call) and isinstance(ce.func, ast.Name):
            return ce.func.id, ce
    return None, None


def _parse_loop(block):
    ls = LoopSpec()
    for st in block:
        cn = _call_name(st)
        wn, wce = _with_name(st)
        if cn == "invariant":
            for a in st.value.args:
                ls.invariants.append(a)
        elif cn == "decreases":
            ls.decreases = st.value.args[0]
        elif cn == "unroll":
            ls.unroll = True
        elif wn == "head":
            ls.head.extend(st.body)
        elif wn == "tail":
            ls.tail.extend(st.body)
        elif wn == "after":
            ls.after.extend(st.body)
        elif isinstance(st, ast.Pass):
            pass
        else:
            raise TypeErr("unexpected statement in loop spec: %s" % ast.unparse(st))
    return ls


def _parse_body(cd, body, allow_ghost_body):
    for st in body:
        cn = _call_name(st)
        wn, wce = _with_name(st)
        if isinstance(st, ast.Expr) and isinstance(st.value, ast.Constant):
            continue  # docstring
        if cn == "requires":
            cd.requires.extend(st.value.args)
        elif cn == "ensures":
            cd.ensures.extend(st.value.args)
        elif cn == "raises":
            cd.raises = st.value.args[0]
        elif cn == "modifies":
            cd.modifies.extend(a.id for a in st.value.args)
        elif cn == "decreases":
            cd.decreases = st.value.args[0]
        elif wn == "defs":
            cd.defs.extend(st.body)
        elif wn == "entry":
            cd.entry.extend(st.body)
        elif wn == "exit_":
            cd.exit.extend(st.body)
        elif wn == "loop":
            k = wce.args[0].value
            cd.loops[k] = _parse_loop(st.body)
        elif wn in ("after_stmt", "before_stmt"):
            text = wce.args[0].value
            k = wce.args[1].value if len(wce.args) > 1 else 0
            cd.stmt_anchors.setdefault((text, k, wn.split("_")[0]), []).extend(st.body)
        elif wn in ("after_call", "before_call"):
            callee = wce.args[0].value
            k = wce.args[1].value if len(wce.args) > 1 else 0
            cd.call_anchors.setdefault((callee, k, wn.split("_")[0]), []).extend(st.body)
        elif allow_ghost_body:
            cd.body.append(st)
        elif isinstance(st, ast.Pass):
            pass
        else:
            raise TypeErr(
                "unexpected statement in contract %s: %s" % (cd.name, ast.unparse(st))
            )


class ContractDB:
    def __init__(self):
        self.specs = {}
        self.lemmas = {}
        self.contracts = {}  # qualname -> ContractDef
        self.files = []

    def load_dir(self, d):
        for fn in sorted(glob.glob(os.path.join(d, "*.py"))):
            if os.path.basename(fn).startswith("_"):
                continue
            self.load_file(fn)

    def load_file(self, fn):
        src = open(fn).read()
        tree = ast.parse(src, fn)
        self.files.append(fn)
        for node in tree.body:
            if not isinstance(node, ast.FunctionDef):
                continue
            deco = node.decorator_list[0] if node.decorator_list else None
            dname = None
            dcall = None
            if isinstance(deco, ast.Name):
                dname = deco.id
            elif isinstance(deco, ast.Call):
                dname = deco.func.id
                dcall = deco
            params = []
            args = node.args.args + node.args.kwonlyargs
            for a in args:
                params.append((a.arg, parse_type(a.annotation)))
            if dname in ("spec", "spec_inline", "spec_abstract"):
                sd = SpecDef(node.name)
                sd.inline = dname == "spec_inline"
                sd.abstract = dname == "spec_abstract"
                sd.params = params
                sd.ret = parse_type(node.returns) if node.returns is not None else ("int",)
                sd.file = fn
                body = []
                for st in node.body:
                    if _call_name(st) == "decreases":
                        sd.decreases = st.value.args[0]
                    elif isinstance(st, ast.Expr) and isinstance(st.value, ast.Constant):
                        continue
                    else:
                        body.append(st)
                sd.body = body
                if node.name in self.specs:
                    raise TypeErr("duplicate spec %s" % node.name)
                self.specs[node.name] = sd
            elif dname == "lemma":
                cd = ContractDef(node.name)
                cd.kind = "lemma"
                cd.params = params
                cd.file = fn
                cd.lineno = node.lineno
                if dcall is not None:
                    for kw in dcall.keywords:
                        cd.options[kw.arg] = ast.literal_eval(kw.value)
                _parse_body(cd, node.body, True)
                if node.name in self.lemmas:
                    raise TypeErr("duplicate lemma %s" % node.name)
                self.lemmas[node.name] = cd
            elif dname == "contract":
                cd = ContractDef(node.name)
                cd.qualname = dcall.args[0].value
                for kw in dcall.keywords:
                    cd.options[kw.arg] = ast.literal_eval(kw.value)
                cd.params = params
                cd.ret = parse_type(node.returns)
                cd.file = fn
                cd.lineno = node.lineno
                _parse_body(cd, node.body, False)
                if cd.qualname in self.contracts:
                    raise TypeErr("duplicate contract %s" % cd.qualname)
                self.contracts[cd.qualname] = cd
