"""setup_cmd: verify that the tooling needed by the checks is present (offline), build nothing."""
import os
import subprocess
import sys


def main():
    import z3

    print("z3-solver", z3.get_version_string())
    here = os.path.dirname(os.path.abspath(__file__))
    sys.path.insert(0, os.path.dirname(here))
    from pyvc import run as R

    db = R.load_db()
    print("contracts: %d functions under contract, %d lemmas, %d specs" % (len(db.contracts), len(db.lemmas), len(db.specs)))
    p = subprocess.run(["/venv/bin/python", "-W", "ignore", "-c", "import numpy, numba, mchap; print('repo interpreter ok', numpy.__version__, numba.__version__)"], capture_output=True, text=True, env=dict(os.environ, PYTHONPATH=R.repo_path()))
    print(p.stdout.strip() or p.stderr.strip()[-500:])
    return 0 if p.returncode == 0 else 1


if __name__ == "__main__":
    sys.exit(main())
