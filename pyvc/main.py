"""./check <PROPERTY> [--tier quick|thorough] [--replay PATH]

Exit codes: 0 property held on everything explored; 1 VIOLATION (line printed);
2 UNDECIDED (solver unknown, no violation claimed); 3 tool failure.
"""
import argparse
import ast
import glob
import json
import multiprocessing as mp
import os
import subprocess
import sys
import time
import traceback

HERE = os.path.dirname(os.path.abspath(__file__))
ROOT = os.path.dirname(HERE)
sys.path.insert(0, ROOT)

from pyvc import run as R  # noqa
from pyvc import propdefs  # noqa

VENV_PY = "/venv/bin/python"


def _unit_worker(args):
    unit, timeout_ms = args
    return R.verify_unit(unit, timeout_ms)


def _unit_child(conn, unit, timeout_ms):
    try:
        conn.send(R.verify_unit(unit, timeout_ms))
    except Exception:  # pragma: no cover
        conn.send({"unit": list(unit), "obligations": [], "error": traceback.format_exc(), "sha": None, "file": None})
    finally:
        conn.close()


def run_units_robust(units, timeout_ms, hard_s, jobs=16):
    """One fresh process per unit, at most `jobs` at a time, each under a hard wall-clock limit: the solver's own
    timeout is not always honoured (a z3 call was seen spinning for two hours), so a unit that exceeds the limit is
    killed and started once more in a new process; a second overrun is reported as a tool failure of that unit."""
    ctx = mp.get_context("fork")
    pending = list(enumerate(units))
    results = [None] * len(units)
    running = {}

    def start(idx, attempt):
        parent, child = ctx.Pipe(duplex=False)
        p = ctx.Process(target=_unit_child, args=(child, units[idx], timeout_ms), daemon=True)
        p.start()
        child.close()
        running[idx] = (p, parent, time.time(), attempt)

    def fail(idx, msg):
        kind, name, variant = units[idx]
        results[idx] = {"unit": [kind, name, variant], "obligations": [], "error": msg, "sha": None, "file": None}

    while pending or running:
        while pending and len(running) < jobs:
            idx, _u = pending.pop(0)
            start(idx, 0)
        for idx, (p, conn, t0, attempt) in list(running.items()):
            if conn.poll(0):
                try:
                    results[idx] = conn.recv()
                except EOFError:
                    results[idx] = None
                p.join(5)
                if p.is_alive():
                    p.kill()
                del running[idx]
                if results[idx] is None:
                    if attempt < 1:
                        start(idx, attempt + 1)
                    else:
                        fail(idx, "worker process died without a result (twice)")
            elif not p.is_alive():
                del running[idx]
                if attempt < 1:
                    start(idx, attempt + 1)
                else:
                    fail(idx, "worker process died without a result (twice)")
            elif time.time() - t0 > hard_s:
                p.kill()
                p.join(5)
                del running[idx]
                if attempt < 1:
                    start(idx, attempt + 1)
                else:
                    fail(idx, "unit exceeded the hard wall-clock limit of %d s twice (solver hang)" % hard_s)
        time.sleep(0.05)
    return results


def _asts_of(d):
    """every AST fragment of a contract / lemma / spec definition"""
    out = []
    for attr in ("requires", "ensures", "defs", "entry", "exit", "body"):
        out.extend(getattr(d, attr, []) or [])
    for attr in ("raises", "decreases"):
        v = getattr(d, attr, None)
        if v is not None:
            out.append(v)
    for ls in (getattr(d, "loops", {}) or {}).values():
        out.extend(ls.invariants)
        out.extend(ls.head + ls.tail + ls.after)
        if ls.decreases is not None:
            out.append(ls.decreases)
    for blocks in list((getattr(d, "call_anchors", {}) or {}).values()) + list((getattr(d, "stmt_anchors", {}) or {}).values()):
        out.extend(blocks)
    return [x for x in out if isinstance(x, ast.AST)]


def _names_called(d):
    res = set()
    for t in _asts_of(d):
        for n in ast.walk(t):
            if isinstance(n, ast.Call) and isinstance(n.func, ast.Name):
                res.add(n.func.id)
    return res


_SRC_CACHE = {}


def _real_callees(qualname):
    """qualified names of the repository functions called in the body of the real function `qualname`, resolved through
    the module's own definitions and its `from X import name` statements"""
    mod, fn = qualname.rsplit(".", 1)
    path = os.path.join(R.repo_path(), *mod.split(".")) + ".py"
    if path not in _SRC_CACHE:
        try:
            _SRC_CACHE[path] = ast.parse(open(path).read())
        except Exception:
            _SRC_CACHE[path] = None
    tree = _SRC_CACHE[path]
    res = set()
    if tree is None:
        return res
    scope = {}
    pkg = mod.rsplit(".", 1)[0]
    for node in tree.body:
        if isinstance(node, ast.FunctionDef):
            scope[node.name] = mod + "." + node.name
        elif isinstance(node, ast.ImportFrom):
            base = node.module or ""
            if node.level:
                parts = mod.split(".")[: -node.level]
                base = ".".join(parts + ([base] if base else []))
            for a in node.names:
                scope[a.asname or a.name] = base + "." + a.name
    for node in ast.walk(tree):
        if isinstance(node, ast.FunctionDef) and node.name == fn:
            for n in ast.walk(node):
                if isinstance(n, ast.Call) and isinstance(n.func, ast.Name) and n.func.id in scope:
                    res.add(scope[n.func.id])
    return res


def units_for(db, prop):
    """contracts tagged with the property, plus the lemmas and specs they (transitively) use -- a lemma that no
    contract or lemma of this property refers to is not re-proved here"""
    units = []
    roots = []
    for q, cd in sorted(db.contracts.items()):
        if prop in cd.options.get("props", []) and not cd.options.get("trusted") and not cd.options.get("inline"):
            for v in R.variants_of(cd):
                units.append(("contract", q, v))
        if prop in cd.options.get("props", []):
            roots.append(cd)
    if not units:
        return []  # no function of this property is under a U contract: nothing to discharge
    # callee closure: a function under contract is verified against the CONTRACTS of the functions it calls, so those
    # callees' own contracts belong to this property's proof as well
    have = {q for (_k, q, _v) in units}
    todo_c = [q for q in sorted(have)]
    while todo_c:
        q = todo_c.pop()
        for q2 in sorted(_real_callees(q)):
            cd2 = db.contracts.get(q2)
            if cd2 is None or q2 in have or cd2.options.get("inline"):
                continue
            have.add(q2)
            roots.append(cd2)
            if not cd2.options.get("trusted"):
                for v in R.variants_of(cd2):
                    units.append(("contract", q2, v))
                todo_c.append(q2)
    for n, ld in db.lemmas.items():
        if prop in ld.options.get("props", []):
            roots.append(ld)
    # callee contracts are assumed at call sites: their ensures / requires pull in specs (not lemmas)
    seen_l, seen_s = set(), set()
    todo = list(roots)
    while todo:
        d = todo.pop()
        for nm in _names_called(d):
            if nm in db.lemmas and nm not in seen_l:
                seen_l.add(nm)
                todo.append(db.lemmas[nm])
            if nm in db.specs and nm not in seen_s:
                seen_s.add(nm)
                todo.append(db.specs[nm])
    for n in sorted(seen_l | {n for n, ld in db.lemmas.items() if prop in ld.options.get("props", [])}):
        units.append(("lemma", n, {}))
    for n in sorted(seen_s):
        if not getattr(db.specs[n], "abstract", False):
            units.append(("spec", n, {}))
    return units


def numba_cache_dir():
    """numba's on-disk cache is keyed per file; a caller compiled earlier can hold a stale copy of a
    callee from another module.  Key the cache directory by the hash of all repository sources so
    a changed tree always recompiles."""
    import hashlib

    h = hashlib.sha256()
    base = os.path.join(R.repo_path(), "mchap")
    for dp, dn, fn in sorted(os.walk(base)):
        dn.sort()
        if "tests" in dp.split(os.sep):
            continue
        for f in sorted(fn):
            if f.endswith(".py"):
                with open(os.path.join(dp, f), "rb") as fh:
                    h.update(f.encode())
                    h.update(fh.read())
    d = os.path.join(ROOT, ".numba_cache", h.hexdigest()[:16])
    root = os.path.join(ROOT, ".numba_cache")
    os.makedirs(d, exist_ok=True)
    try:
        subs = sorted((os.path.getmtime(os.path.join(root, x)), x) for x in os.listdir(root))
        import shutil

        for _, x in subs[:-4]:
            if os.path.join(root, x) != d:
                shutil.rmtree(os.path.join(root, x), ignore_errors=True)
        os.utime(d, None)
    except OSError:
        pass
    return d


def run_rt(prop, tier, seed, extra=None):
    """run the bounded run-time contract harness (under the repository's interpreter)"""
    mod = os.path.join(ROOT, "rt", "r_%s.py" % prop)
    if not os.path.exists(mod):
        return None
    env = dict(os.environ)
    env["PYTHONPATH"] = ROOT + os.pathsep + R.repo_path()
    env["VERIF_TIER"] = tier
    env["VERIF_SEED"] = str(seed)
    env["NUMBA_CACHE_DIR"] = numba_cache_dir()
    cmd = [VENV_PY, "-W", "ignore", "-m", "rt.driver", prop, "--tier", tier, "--seed", str(seed)]
    if extra:
        cmd += extra
    p = subprocess.run(cmd, cwd=ROOT, env=env, capture_output=True, text=True)
    out = p.stdout.strip().splitlines()
    if p.returncode != 0 or not out:
        return {"error": "rt driver exit %s\n%s\n%s" % (p.returncode, p.stdout[-2000:], p.stderr[-4000:])}
    try:
        return json.loads(out[-1])
    except Exception:
        return {"error": "rt driver output not json: %s" % out[-1][:500]}


def run_replay_search(prop, unit_name, obligation, model, seed):
    env = dict(os.environ)
    env["PYTHONPATH"] = ROOT + os.pathsep + R.repo_path()
    env["NUMBA_CACHE_DIR"] = numba_cache_dir()
    req = json.dumps({"function": unit_name, "obligation": obligation, "model": model or {}, "seed": seed})
    p = subprocess.run([VENV_PY, "-W", "ignore", "-m", "rt.replay", prop], cwd=ROOT, env=env, input=req, capture_output=True, text=True)
    out = p.stdout.strip().splitlines()
    if p.returncode != 0 or not out:
        return {"found": False, "error": (p.stderr or p.stdout)[-3000:]}
    try:
        return json.loads(out[-1])
    except Exception:
        return {"found": False, "error": "unparsable replay output"}


def load_baseline():
    """obligations discharged on the pinned tree, per unit, with the hash of the function source they were
    generated from (tools/gen_baseline.py; committed, never written by a check)"""
    p = os.path.join(ROOT, "baseline", "obligations.json")
    if not os.path.exists(p):
        return {}
    return json.load(open(p))


def load_known():
    p = os.path.join(ROOT, "known_findings.json")
    if not os.path.exists(p):
        return []
    return json.load(open(p)).get("findings", [])


def match_known(known, prop, key):
    for k in known:
        if k.get("status") == "open" and k.get("property") == prop and k.get("key") == key:
            return k
    return None


def main(argv=None):
    ap = argparse.ArgumentParser()
    ap.add_argument("prop")
    ap.add_argument("--tier", default=os.environ.get("VERIF_TIER", "quick"))
    ap.add_argument("--replay")
    ap.add_argument("--no-rt", action="store_true")
    ap.add_argument("--only-rt", action="store_true")
    a = ap.parse_args(argv)
    prop = a.prop
    tier = a.tier if a.tier in ("quick", "thorough") else "quick"
    seed = int(os.environ.get("VERIF_SEED", "0") or 0)
    t0 = time.time()
    if a.replay:
        return replay_file(prop, a.replay)
    pd = propdefs.PROPS.get(prop)
    if pd is None:
        print("unknown or not-applicable property %s" % prop)
        return 3
    try:
        db = R.load_db()
    except Exception:
        traceback.print_exc()
        return 3
    timeout_ms = 20000 if tier == "quick" else 120000
    if tier == "thorough":
        os.environ["PYVC_CROSSCHECK"] = "1"  # inherited by the pool workers
    units = [] if a.only_rt else units_for(db, prop)
    results = []
    if units:
        results = run_units_robust(units, timeout_ms, 300 if tier == "quick" else 1800)
    crashed = [r for r in results if r["error"]]
    rt = None if a.no_rt else run_rt(prop, tier, seed)
    known = load_known()
    baseline = load_baseline()
    violations = []
    undecided = []
    known_hit = []
    os.makedirs(os.path.join(ROOT, "replay", prop), exist_ok=True)
    n_obl = 0
    n_dis = 0
    obl_samples = []
    per_solver = {}
    solver_time = 0.0
    functions = []
    trusted = set()
    canaries = []
    br = {}
    for r in results:
        for k_, v_ in (r.get("branches") or {}).items():
            cur = br.setdefault((r["unit"][1], k_), [False, False, r.get("dead_ok", [])])
            cur[0] = cur[0] or v_[0]
            cur[1] = cur[1] or v_[1]
    for (fn_, k_), v_ in sorted(br.items()):
        for side, nm in ((0, "then"), (1, "else")):
            if not v_[side] and (k_ + " " + nm) not in v_[2]:
                crashed.append({"unit": ["branch", fn_, {}], "error": "UNREACHED-BRANCH %s: %s [%s side is never explored under the contract: contract too strong or modelling gap]" % (fn_, k_, nm)})
    for r in results:
        kind, name, variant = r["unit"]
        functions.append({"kind": kind, "name": name, "variant": variant, "sha256": r.get("sha"), "file": r.get("file"), "backend": "U", "obligations": len(r["obligations"]), "wall_s": r.get("wall_s")})
        trusted.update(r.get("trusted", []))
        for c in r.get("canaries", []):
            canaries.append(c)
            if c["status"] == "vacuous":
                crashed.append({"unit": ["canary", c["id"], {}], "error": "VACUOUS: assumptions contradictory or no exit reachable (%s)" % c["id"]})
        for o in r["obligations"]:
            n_obl += 1
            solver_time += o["time"]
            per_solver[o["solver"]] = per_solver.get(o["solver"], 0) + 1
            for tool, verdict in (o.get("cross") or {}).items():
                kx = "%s cross-check: %s" % (tool, verdict)
                per_solver[kx] = per_solver.get(kx, 0) + 1
                if verdict == "sat":
                    crashed.append({"unit": ["cross-check", o["id"], {}], "error": "SOLVER DISAGREEMENT: z3-5.1 discharged %s but %s answers sat" % (o["id"], tool)})
            if o["status"] == "unsat":
                n_dis += 1
                if len(obl_samples) < 12 and o["solver"] != "simplify":
                    obl_samples.append({"obligation": o["id"], "status": "discharged", "solver": o["solver"], "time_s": o["time"]})
                continue
            # not discharged: look for a real failing input
            rep = run_replay_search(prop, name, o["id"], o.get("model"), seed)
            safe = o["id"].replace("/", "__").replace(" ", "_").replace("[", "(").replace("]", ")")[:150]
            path = os.path.join(ROOT, "replay", prop, safe + ".json")
            rec = {"property": prop, "obligation": o["id"], "function": name, "solver_status": o["status"], "solver": o["solver"], "solver_model": o.get("model"), "reason": o.get("reason"), "source_line": o["line"], "source_text": o["text"], "replay": rep, "rerun": "./check %s --replay %s" % (prop, os.path.relpath(path, ROOT))}
            key = o["id"]
            kf = match_known(known, prop, key)
            if rep.get("found"):
                if kf:
                    known_hit.append((kf, o["id"]))
                    continue
                json.dump(rec, open(path, "w"), indent=1, default=str)
                violations.append((o["id"], path, False))
            elif o["status"] == "sat":
                if kf:
                    known_hit.append((kf, o["id"]))
                    continue
                json.dump(rec, open(path, "w"), indent=1, default=str)
                violations.append((o["id"], path, True))
            else:
                # solver `unknown`, no input replays.  If this very obligation was discharged on the pinned tree and
                # the function's source has changed since, it is reported as a violation without a failing input;
                # on unchanged source (or for an obligation the pinned tree did not have) it stays undecided.
                b = baseline.get("%s|%s" % (name, json.dumps(variant, sort_keys=True))) if kind == "contract" else None
                if b and r.get("sha") and b.get("sha256") != r.get("sha") and o["id"] in set(b.get("discharged", [])):
                    if kf:
                        known_hit.append((kf, o["id"]))
                        continue
                    rec["note"] = "discharged on the pinned tree (source sha256 %s), not discharged on this tree (sha256 %s)" % (b.get("sha256"), r.get("sha"))
                    json.dump(rec, open(path, "w"), indent=1, default=str)
                    violations.append((o["id"], path, True))
                else:
                    undecided.append(o["id"])
    rt_cov = None
    if rt is not None:
        if rt.get("error"):
            crashed.append({"unit": ["rt", prop, {}], "error": rt["error"]})
        else:
            rt_cov = rt
            for c_ in rt.get("crashes", []):
                crashed.append({"unit": ["rt", prop, {}], "error": c_})
            for f in rt.get("failures", []):
                key = f.get("key")
                kf = match_known(known, prop, key)
                if kf:
                    known_hit.append((kf, key))
                    continue
                safe = key.replace("/", "__").replace(" ", "_")[:150]
                path = os.path.join(ROOT, "replay", prop, safe + ".json")
                f = dict(f)
                f["property"] = prop
                f["rerun"] = "./check %s --replay %s" % (prop, os.path.relpath(path, ROOT))
                json.dump(f, open(path, "w"), indent=1, default=str)
                violations.append((key, path, False))
    wall = time.time() - t0
    ev = propdefs.build_evidence(prop, pd, tier, seed, wall, functions, n_obl, n_dis, obl_samples, per_solver, solver_time, sorted(trusted), rt_cov, violations, undecided, known_hit, crashed, canaries)
    os.makedirs(os.path.join(ROOT, "evidence"), exist_ok=True)
    json.dump(ev, open(os.path.join(ROOT, "evidence", prop + ".json"), "w"), indent=1, default=str)
    for kf, what in known_hit:
        print("KNOWN-FINDING: property=%s %s [%s]" % (prop, kf.get("what", ""), what))
    print("%s tier=%s: %d units, %d/%d U-obligations discharged, solver %.1fs, rt=%s, wall %.1fs" % (prop, tier, len(results), n_dis, n_obl, solver_time, ("%d evals" % rt_cov.get("evaluations", 0)) if rt_cov else "-", wall))
    for c in crashed:
        print("TOOL-FAILURE unit=%s: %s" % (c["unit"][1], str(c["error"])[-1500:]))
    if violations:
        seen = set()
        for oid, path, nofail in violations:
            if oid in seen:
                continue
            seen.add(oid)
            print("failed obligation: %s" % oid)
            print("VIOLATION property=%s replay=%s%s" % (prop, path, " no-failing-input-found" if nofail else ""))
        return 1
    if crashed:
        return 3
    if n_obl == 0 and not rt_cov:
        print("TOOL-FAILURE: zero obligations generated for %s" % prop)
        return 3
    if undecided:
        for u in undecided:
            print("UNDECIDED obligation=%s" % u)
        return 2
    return 0


def replay_file(prop, path):
    if not os.path.isabs(path):
        path = os.path.join(ROOT, path)
    rec = json.load(open(path))
    env = dict(os.environ)
    env["PYTHONPATH"] = ROOT + os.pathsep + R.repo_path()
    env["NUMBA_CACHE_DIR"] = numba_cache_dir()
    p = subprocess.run([VENV_PY, "-W", "ignore", "-m", "rt.replay", prop, "--file", path], cwd=ROOT, env=env, text=True)
    return p.returncode


if __name__ == "__main__":
    sys.exit(main())
