"""Symbolic value domain of pyvc (DESIGN.md 2.2).

int    -> SInt   (SMT Int; int64 range is an *obligation*, never modelled as wrap-around)
bool   -> SBool
float  -> SFloat (extended real: real value, is-minus-infinity flag, is-NaN flag)
arrays -> SArr   (reference into the symbolic heap + index prefix = view)
"""
import z3

I = z3.IntSort()
R = z3.RealSort()
B = z3.BoolSort()

TRUE = z3.BoolVal(True)
FALSE = z3.BoolVal(False)


def simp(e):
    return z3.simplify(e)


class SInt:
    __slots__ = ("e",)

    def __init__(self, e):
        if isinstance(e, int):
            e = z3.IntVal(e)
        self.e = e

    def __repr__(self):
        return "SInt(%s)" % self.e


class SBool:
    __slots__ = ("e",)

    def __init__(self, e):
        if isinstance(e, bool):
            e = z3.BoolVal(e)
        self.e = e

    def __repr__(self):
        return "SBool(%s)" % self.e


class SFloat:
    __slots__ = ("v", "ninf", "nan")

    def __init__(self, v, ninf=None, nan=None):
        if isinstance(v, (int, float)):
            v = z3.RealVal(repr(float(v)) if isinstance(v, float) else v)
        self.v = v
        self.ninf = FALSE if ninf is None else ninf
        self.nan = FALSE if nan is None else nan

    def __repr__(self):
        return "SFloat(%s,ninf=%s,nan=%s)" % (self.v, self.ninf, self.nan)


class SNone:
    def __repr__(self):
        return "SNone"


NONE = SNone()


class STuple:
    __slots__ = ("items",)

    def __init__(self, items):
        self.items = tuple(items)

    def __repr__(self):
        return "STuple%r" % (self.items,)


class SArr:
    """Reference to a heap array `loc` viewed through an index prefix."""

    __slots__ = ("loc", "prefix")

    def __init__(self, loc, prefix=()):
        self.loc = loc
        self.prefix = tuple(prefix)

    def __repr__(self):
        return "SArr(%s,%s)" % (self.loc, list(self.prefix))


class SArrVal:
    """An immutable array *value* (used for spec-function arguments / snapshots)."""

    __slots__ = ("dtype", "shape", "comps")

    def __init__(self, dtype, shape, comps):
        self.dtype = dtype
        self.shape = tuple(shape)
        self.comps = comps


class SRange:
    __slots__ = ("lo", "hi")

    def __init__(self, lo, hi):
        self.lo = lo
        self.hi = hi


class SDtype:
    __slots__ = ("name",)

    def __init__(self, name):
        self.name = name


class SStr:
    __slots__ = ("s",)

    def __init__(self, s):
        self.s = s


class SFunc:
    """A ghost function symbol (e.g. the permutation introduced by np.random.shuffle)."""

    __slots__ = ("f",)

    def __init__(self, f):
        self.f = f


# "iN": any signed integer dtype (int8 ... int64) -- symbolic range, at least int8, at most int64.
# A function proved for A[iN, k] parameters is proved for every signed integer dtype: stores must fit
# int8's range shifted to the symbolic bounds, loads are only known to lie within them.
INLO = z3.Int("dtype_iN_min")
INHI = z3.Int("dtype_iN_max")
IN_AXIOM = z3.And(INLO <= -(2 ** 7), INHI >= 2 ** 7 - 1, INLO >= -(2 ** 63), INHI <= 2 ** 63 - 1, INLO == -INHI - 1)

DTYPES = {
    "iN": (INLO, INHI),
    "i1": (-(2 ** 7), 2 ** 7 - 1),
    "i2": (-(2 ** 15), 2 ** 15 - 1),
    "i4": (-(2 ** 31), 2 ** 31 - 1),
    "i8": (-(2 ** 63), 2 ** 63 - 1),
    "u1": (0, 2 ** 8 - 1),
    "b1": None,
    "f8": None,
    "f4": None,
    "fdict": None,  # numba typed dict int64 -> float64 (heap object indexed by key; comp "has" = key present)
}

NP_DTYPE_NAMES = {
    "int8": "i1",
    "int16": "i2",
    "int32": "i4",
    "int64": "i8",
    "uint8": "u1",
    "bool_": "b1",
    "bool8": "b1",
    "float64": "f8",
    "float32": "f4",
    "int": "i8",
    "float": "f8",
    "bool": "b1",
}


def is_float_dtype(dt):
    return dt in ("f8", "f4")


def is_bool_dtype(dt):
    return dt == "b1"


def elem_sorts(dtype):
    if dtype == "fdict":
        return {"v": R, "ninf": B, "nan": B, "has": B}
    if is_float_dtype(dtype):
        return {"v": R, "ninf": B, "nan": B}
    if is_bool_dtype(dtype):
        return {"v": B}
    return {"v": I}


def arr_sort(elem, ndim):
    s = elem
    for _ in range(ndim):
        s = z3.ArraySort(I, s)
    return s


class ArrObj:
    """A heap cell: dtype, shape (tuple of z3 Int terms), component arrays (nested)."""

    __slots__ = ("dtype", "shape", "comps")

    def __init__(self, dtype, shape, comps):
        self.dtype = dtype
        self.shape = tuple(shape)
        self.comps = dict(comps)

    @property
    def ndim(self):
        return len(self.shape)

    def with_comps(self, comps):
        return ArrObj(self.dtype, self.shape, comps)


def nested_select(term, idxs):
    for i in idxs:
        term = z3.Select(term, i)
    return term


def nested_store(term, idxs, val):
    if not idxs:
        return val
    i = idxs[0]
    if len(idxs) == 1:
        return z3.Store(term, i, val)
    return z3.Store(term, i, nested_store(z3.Select(term, i), idxs[1:], val))
