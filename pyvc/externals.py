"""Modelled builtins, contract-DSL primitives, and the trusted NumPy/math surface
(DESIGN.md 2.6).  Everything in EXTERNALS/method() is an *assumed* contract on a dependency
and is listed in the evidence files (trusted_base)."""
import ast
import z3

from .values import *  # noqa

LOG = z3.Function("LOG", R, R)
EXP = z3.Function("EXP", R, R)
LGAMMA = z3.Function("LGAMMA", R, R)

USED = set()  # names of trusted externals / axioms used in this process


def _err(msg):
    from .engine import VerifError

    raise VerifError(msg)


def _args(fv, st, node, prog, n=None):
    vals = [fv.ev(a, st, prog) for a in node.args]
    if n is not None and len(vals) != n:
        _err("arity of %s" % ast.unparse(node))
    return vals


def _kw(fv, st, node, prog):
    return {k.arg: fv.ev(k.value, st, prog) for k in node.keywords}


# ------------------------------------------------------------------ python builtins
def b_len(E, fv, st, node, prog):
    (v,) = _args(fv, st, node, prog, 1)
    if isinstance(v, SArr):
        return SInt(fv.arr_shape(st, v)[0])
    if isinstance(v, SArrVal):
        return SInt(v.shape[0])
    if isinstance(v, STuple):
        return SInt(len(v.items))
    if isinstance(v, SRange):
        return SInt(z3.If(v.hi > v.lo, v.hi - v.lo, 0))
    _err("len of %r" % (v,))


def b_range(E, fv, st, node, prog):
    vals = _args(fv, st, node, prog)
    if len(vals) == 1:
        return SRange(z3.IntVal(0), fv.as_int(vals[0]).e)
    if len(vals) == 2:
        return SRange(fv.as_int(vals[0]).e, fv.as_int(vals[1]).e)
    _err("range with step")


def _minmax(is_min):
    def f(E, fv, st, node, prog):
        vals = _args(fv, st, node, prog)
        if len(vals) == 1 and isinstance(vals[0], STuple):
            vals = list(vals[0].items)
        r = vals[0]
        for v in vals[1:]:
            c = fv.to_bool(fv.compare(st, ast.LtE() if is_min else ast.GtE(), r, v, node, prog))
            r = fv.ite(c, r, v)
        return r

    return f


def b_abs(E, fv, st, node, prog):
    (v,) = _args(fv, st, node, prog, 1)
    if isinstance(v, SInt):
        return SInt(z3.If(v.e >= 0, v.e, -v.e))
    f = fv.to_float(v)
    return SFloat(z3.If(f.v >= 0, f.v, -f.v))


def b_int(E, fv, st, node, prog):
    (v,) = _args(fv, st, node, prog, 1)
    if isinstance(v, (SInt, SBool)):
        return fv.as_int(v)
    _err("int() of non-int")


def b_float(E, fv, st, node, prog):
    (v,) = _args(fv, st, node, prog, 1)
    return fv.to_float(v)


# ------------------------------------------------------------------ contract DSL
def d_implies(E, fv, st, node, prog):
    a = fv.to_bool(fv.ev(node.args[0], st, False))
    if z3.is_false(z3.simplify(a)):
        return SBool(True)
    saved = list(st.guards)
    st.guards.append(a)
    try:
        b = fv.to_bool(fv.ev(node.args[1], st, False))
    finally:
        st.guards[:] = saved
    return SBool(z3.Implies(a, b))


_QNODE_IDS = {}


def _qnode_id(lam):
    """a small unique number per quantifier source node (the AST lives as long as the contract database)"""
    k = _QNODE_IDS.get(id(lam))
    if k is None:
        k = _QNODE_IDS[id(lam)] = (len(_QNODE_IDS), lam)  # keep a reference: the id cannot be recycled
    return k[0]


def _bind_lambda(fv, st, lam):
    if not isinstance(lam, ast.Lambda):
        _err("quantifier needs a lambda")
    names = [a.arg for a in lam.args.args]
    # deterministic bound names per source node and nesting depth (see d_forall_arr)
    qd = getattr(fv, "_qdepth", None)
    if qd is None:
        qd = fv._qdepth = {}
    depth = qd.get(id(lam), 0)
    consts = [z3.Int("%s?q%d_%d" % (n, _qnode_id(lam), depth)) for n in names]
    return names, consts


def _pattern_ok(t):
    """z3 rejects (with a warning on stderr) patterns containing lambdas or logical / if-then-else operators"""
    bad = (z3.Z3_OP_ITE, z3.Z3_OP_AND, z3.Z3_OP_OR, z3.Z3_OP_NOT, z3.Z3_OP_IMPLIES, z3.Z3_OP_EQ, z3.Z3_OP_DISTINCT, z3.Z3_OP_LE, z3.Z3_OP_GE, z3.Z3_OP_LT, z3.Z3_OP_GT)
    seen = set()
    todo = [t]
    while todo:
        x = todo.pop()
        if x.get_id() in seen:
            continue
        seen.add(x.get_id())
        if z3.is_quantifier(x):
            return False
        if z3.is_app(x):
            if x.decl().kind() in bad:
                return False
            todo.extend(x.children())
    return True


def _clean_patterns(pats):
    out = []
    for p_ in pats:
        terms = [p_] if z3.is_expr(p_) else None
        try:
            if terms is None:
                out.append(p_)  # MultiPattern objects: keep (validated by z3)
            elif all(_pattern_ok(t) for t in terms):
                out.append(p_)
        except Exception:
            pass
    return out


def d_forall(E, fv, st, node, prog):
    args = node.args
    if len(args) == 3:
        lo = fv.as_int(fv.ev(args[0], st, False)).e
        hi = fv.as_int(fv.ev(args[1], st, False)).e
        lam = args[2]
        names, consts = _bind_lambda(fv, st, lam)
        if len(names) != 1:
            _err("bounded forall binds one variable")
        k = consts[0]
        s = st.fork()
        s.assumes = st.assumes
        s.env[names[0]] = SInt(k)
        s.guards = st.guards + [k >= lo, k < hi]
        fv._qdepth[id(lam)] = fv._qdepth.get(id(lam), 0) + 1
        try:
            body = fv.to_bool(fv.ev(lam.body, s, False))
        finally:
            fv._qdepth[id(lam)] -= 1
        return SBool(z3.ForAll([k], z3.Implies(z3.And(k >= lo, k < hi), body)))
    lam = args[0]
    names, consts = _bind_lambda(fv, st, lam)
    s = st.fork()
    s.assumes = st.assumes
    for n, c in zip(names, consts):
        s.env[n] = SInt(c)
    fv._qdepth[id(lam)] = fv._qdepth.get(id(lam), 0) + 1
    try:
        body = fv.to_bool(fv.ev(lam.body, s, False))
    finally:
        fv._qdepth[id(lam)] -= 1
    pats = []
    for kwd in node.keywords:
        if kwd.arg == "pattern":
            pe = kwd.value
            pl = pe.elts if isinstance(pe, ast.Tuple) else [pe]
            terms = []
            for p in pl:
                v = fv.ev(p, s, False)
                terms.append(v.e if isinstance(v, (SInt, SBool)) else v.v)
            pats.append(z3.MultiPattern(*terms) if len(terms) > 1 else terms[0])
    pats = _clean_patterns(pats)
    if pats:
        return SBool(z3.ForAll(consts, body, patterns=pats))
    return SBool(z3.ForAll(consts, body))


def d_forall_arr(ndim):
    def f(E, fv, st, node, prog):
        """forall over integer arrays of rank ndim (bound variable is an array value)"""
        lam = node.args[0]
        names = [a.arg for a in lam.args.args]
        # bound names are a function of the quantifier's source node (and nesting depth), so that two evaluations
        # of the same specification text on the same arguments are the *same* term for the solver
        qd = getattr(fv, "_qdepth", None)
        if qd is None:
            qd = fv._qdepth = {}
        depth = qd.get(id(lam), 0)
        qd[id(lam)] = depth + 1
        consts = [z3.Const("%s?q%d_%d" % (n, _qnode_id(lam), depth), arr_sort(I, ndim)) for n in names]
        s = st.fork()
        s.assumes = st.assumes
        for n, c in zip(names, consts):
            s.env[n] = SArrVal("i8", [z3.IntVal(0)] * ndim, {"v": c})
        try:
            body = fv.to_bool(fv.ev(lam.body, s, False))
        finally:
            qd[id(lam)] = depth
        pats = []
        for kwd in node.keywords:
            if kwd.arg == "pattern":
                pe = kwd.value
                pl = pe.elts if isinstance(pe, ast.Tuple) else [pe]
                terms = []
                extra = []
                for p in pl:
                    v = fv.ev(p, s, False)
                    terms.append(v.e if isinstance(v, (SInt, SBool)) else v.v)
                    if isinstance(v, SFloat) and z3.is_app(v.ninf) and v.ninf.num_args() > 0 and len(pl) == 1:
                        extra.append(v.ninf)  # extended-real spec: either component triggers
                pats.append(z3.MultiPattern(*terms) if len(terms) > 1 else terms[0])
                pats.extend(extra)
        pats = _clean_patterns(pats)
        if pats:
            try:
                return SBool(z3.ForAll(consts, body, patterns=pats))
            except z3.Z3Exception:
                pass  # a pattern containing a lambda term (array built by np.full / a slice store) is not admissible
        return SBool(z3.ForAll(consts, body))

    return f


def d_exists(E, fv, st, node, prog):
    lam = node.args[0]
    wit = None
    for kwd in node.keywords:
        if kwd.arg == "witness":
            wit = kwd.value
    names = [a.arg for a in lam.args.args]
    if fv.exists_mode == "witness" and wit is not None:
        wl = wit.elts if isinstance(wit, ast.Tuple) else [wit]
        s = st.fork()
        s.assumes = st.assumes
        for n, w in zip(names, wl):
            s.env[n] = fv.ev(w, st, False)
        return SBool(fv.to_bool(fv.ev(lam.body, s, False)))
    consts = [fv.fresh_int(n) for n in names]
    s = st.fork()
    s.assumes = st.assumes
    for n, c in zip(names, consts):
        s.env[n] = SInt(c)
    body = fv.to_bool(fv.ev(lam.body, s, False))
    if fv.exists_mode == "skolem":
        # assumed existential at a call site: explicit skolem constants, exported to the
        # caller's ghost environment under <ghost_prefix>_<name>
        for n, c in zip(names, consts):
            fv.skolems.append((n, SInt(c)))
        return SBool(body)
    return SBool(z3.Exists(consts, body))


def d_old(E, fv, st, node, prog):
    if st.old is None:
        _err("old() outside a function contract")
    o = st.old.snapshot()
    o.assumes = st.assumes
    o.guards = st.guards
    # bound variables of enclosing quantifiers / ghost variables remain visible
    for k, v in st.env.items():
        if k not in o.env:
            o.env[k] = v
    for k in getattr(st, "bound_names", ()):
        o.env[k] = st.env[k]
    v = fv.ev(node.args[0], o, False)
    return _freeze(fv, o, v)


def _freeze(fv, o, v):
    """replace heap references by array values of state o"""
    if isinstance(v, SArr):
        return fv.arr_value(o, v)
    if isinstance(v, STuple):
        return STuple([_freeze(fv, o, x) for x in v.items])
    return v


def d_at(E, fv, st, node, prog):
    label = node.args[0].value
    if label not in st.labels:
        _err("unknown label %s" % label)
    o = st.labels[label].snapshot()
    o.assumes = st.assumes
    o.guards = st.guards
    for k, v in st.env.items():
        if k not in o.env:
            o.env[k] = v
    v = fv.ev(node.args[1], o, False)
    return _freeze(fv, o, v)


def d_ite(E, fv, st, node, prog):
    c = fv.to_bool(fv.ev(node.args[0], st, False))
    cs_ = z3.simplify(c)
    if z3.is_true(cs_):
        return fv.ev(node.args[1], st, False)
    if z3.is_false(cs_):
        return fv.ev(node.args[2], st, False)
    saved = list(st.guards)
    st.guards.append(c)
    a = fv.ev(node.args[1], st, False)
    st.guards[:] = saved + [z3.Not(c)]
    b = fv.ev(node.args[2], st, False)
    st.guards[:] = saved
    return fv.ite(c, a, b)


def d_unfold(E, fv, st, node, prog):
    for a in node.args:
        E.unfold(fv, st, a)
    return NONE


def d_unfold_forall(E, fv, st, node, prog):
    """unfold_forall(lambda a: f(.., a, ..)): the definitional equation of a NON-recursive spec for all
    integer a (pattern: the application itself)"""
    lam = node.args[0]
    names = [a.arg for a in lam.args.args]
    call = lam.body
    if not (isinstance(call, ast.Call) and isinstance(call.func, ast.Name) and call.func.id in E.db.specs):
        _err("unfold_forall expects lambda ..: spec(...)")
    sd = E.db.specs[call.func.id]
    for stn in sd.body:
        for n in ast.walk(stn):
            if isinstance(n, ast.Call) and isinstance(n.func, ast.Name) and n.func.id == sd.name:
                _err("unfold_forall on a recursive spec")
    consts = [fv.fresh_int(n) for n in names]
    s = st.fork()
    s.assumes = st.assumes
    for n, c in zip(names, consts):
        s.env[n] = SInt(c)
    argvals = [fv.ev(a, s, False) for a in call.args]
    app = E.spec_app(fv, s, sd, argvals)
    body = E.spec_body_value(fv, s, sd, argvals)
    eq = fv.to_bool(fv.compare(s, ast.Eq(), app, body, call, False))
    if isinstance(app, SFloat):
        eq = z3.And(app.v == body.v, app.ninf == body.ninf)
        pat = app.v
    else:
        pat = app.e
    st.assume(z3.ForAll(consts, eq, patterns=[pat]))
    return NONE


def d_instantiate(E, fv, st, node, prog):
    """instantiate(P(args), v): P an inline spec whose body is `forall_arrN(lambda X: B, ...)`;
    assumes the valid implication  P(args) ==> B[X := v]"""
    call = node.args[0]
    if not (isinstance(call, ast.Call) and isinstance(call.func, ast.Name) and call.func.id in E.db.specs):
        _err("instantiate expects an inline spec application")
    sd = E.db.specs[call.func.id]
    if not getattr(sd, "inline", False) or len(sd.body) != 1 or not isinstance(sd.body[0], ast.Return):
        _err("instantiate: spec must be inline with a single return")
    q = sd.body[0].value
    if not (isinstance(q, ast.Call) and isinstance(q.func, ast.Name) and q.func.id in ("forall_arr1", "forall_arr2")):
        _err("instantiate: body must be forall_arr1/2")
    lam = q.args[0]
    argvals = [fv.ev(a, st, False) for a in call.args]
    whole = fv.to_bool(E.spec_app(fv, st, sd, argvals))
    from .engine import State

    s = State()
    s.old = st.old
    s.funcs = st.funcs
    s.assumes = st.assumes
    s.guards = list(st.guards)
    s.heap = st.heap
    for v, (n, ty) in zip(argvals, sd.params):
        s.env[n] = E.spec_param_value(fv, st, v, ty)
    if len(node.args) - 1 != len(lam.args.args):
        _err("instantiate: one witness per bound array is needed")
    for la, wn in zip(lam.args.args, node.args[1:]):
        wit = fv.ev(wn, st, False)
        if isinstance(wit, SArr):
            wit = fv.arr_value(st, wit)
        s.env[la.arg] = wit
    inst = fv.to_bool(fv.ev(lam.body, s, False))
    st.assume(z3.Implies(whole, inst))
    return NONE


def d_compute(E, fv, st, node, prog):
    for a in node.args:
        E.compute(fv, st, a)
    return NONE


def d_assert(E, fv, st, node, prog):
    g = fv.to_bool(fv.ev(node.args[0], st, False))
    fv.oblige("ghost-assert", fv.stmt_anchor(node), g, st, node)
    st.assume(g)
    return NONE


def d_isnan(E, fv, st, node, prog):
    (v,) = _args(fv, st, node, False, 1)
    return SBool(fv.to_float(v).nan)


def d_isninf(E, fv, st, node, prog):
    (v,) = _args(fv, st, node, False, 1)
    return SBool(fv.to_float(v).ninf)


def d_finite(E, fv, st, node, prog):
    (v,) = _args(fv, st, node, False, 1)
    f = fv.to_float(v)
    return SBool(z3.And(z3.Not(f.nan), z3.Not(f.ninf)))


def d_real(E, fv, st, node, prog):
    (v,) = _args(fv, st, node, False, 1)
    f = fv.to_float(v)
    return SFloat(f.v)


def d_val(E, fv, st, node, prog):
    """array value (snapshot) of an array expression in the current state"""
    (v,) = _args(fv, st, node, False, 1)
    if isinstance(v, SArr):
        return fv.arr_value(st, v)
    return v


def d_same(E, fv, st, node, prog):
    """NaN-aware equality of floats (both NaN, or both not NaN and equal as extended reals)"""
    a, b = _args(fv, st, node, False, 2)
    fa, fb = fv.to_float(a), fv.to_float(b)
    eq = z3.Or(z3.And(fa.ninf, fb.ninf), z3.And(z3.Not(fa.ninf), z3.Not(fb.ninf), fa.v == fb.v))
    return SBool(z3.Or(z3.And(fa.nan, fb.nan), z3.And(z3.Not(fa.nan), z3.Not(fb.nan), eq)))


RAVELF = z3.Function("RAVEL", z3.ArraySort(I, z3.ArraySort(I, I)), I, I, z3.ArraySort(I, I))
UNRAVELF = z3.Function("UNRAVEL", z3.ArraySort(I, I), I, I, z3.ArraySort(I, z3.ArraySort(I, I)))


def _canon2_term(g, P, N):
    h = z3.Int("arr!ch")
    j = z3.Int("arr!cj")
    return z3.Lambda([h], z3.Lambda([j], z3.If(z3.And(h >= 0, h < P, j >= 0, j < N), z3.Select(z3.Select(g, h), j), z3.IntVal(0))))


def d_canon2(E, fv, st, node, prog):
    """canon2(G, P, N): G restricted to [0,P) x [0,N), 0 elsewhere (canonical representative)"""
    g, P, N = _args(fv, st, node, False, 3)
    if isinstance(g, SArr):
        g = fv.arr_value(st, g)
    return SArrVal("i8", [z3.IntVal(0)] * 2, {"v": _canon2_term(g.comps["v"], fv.as_int(P).e, fv.as_int(N).e)})


def d_unravel(E, fv, st, node, prog):
    k, P, N = _args(fv, st, node, False, 3)
    if isinstance(k, SArr):
        k = fv.arr_value(st, k)
    return SArrVal("i8", [z3.IntVal(0)] * 2, {"v": UNRAVELF(k.comps["v"], fv.as_int(P).e, fv.as_int(N).e)})


def d_ravel_of(E, fv, st, node, prog):
    g, P, N = _args(fv, st, node, False, 3)
    if isinstance(g, SArr):
        g = fv.arr_value(st, g)
    return SArrVal("i8", [z3.IntVal(0)], {"v": RAVELF(g.comps["v"], fv.as_int(P).e, fv.as_int(N).e)})


def d_ones_if_none(E, fv, st, node, prog):
    """an optional count vector: the array itself, or the constant-ones vector when None"""
    (v,) = _args(fv, st, node, False, 1)
    if isinstance(v, SNone):
        return SArrVal("i8", [z3.IntVal(0)], {"v": z3.K(I, z3.IntVal(1))})
    return v


def _occurs(t, v):
    seen = set()
    todo = [t]
    while todo:
        x = todo.pop()
        if x.get_id() in seen:
            continue
        seen.add(x.get_id())
        if x.eq(v):
            return True
        if z3.is_quantifier(x):
            todo.append(x.body())
        elif z3.is_app(x):
            todo.extend(x.children())
    return False


def _lambda_eta(consts, body):
    """Lambda consts. body, eta-reduced from the inside (lambda c: X[c] with c not in X becomes X): the normal
    form z3 itself produces for views and gathers, so that equal arrays are equal terms for every solver"""
    consts = list(consts)
    while consts and z3.is_select(body) and body.arg(1).eq(consts[-1]) and not _occurs(body.arg(0), consts[-1]):
        body = body.arg(0)
        consts.pop()
    for c in reversed(consts):
        body = z3.Lambda([c], body)
    return body


def d_arr2(E, fv, st, node, prog):
    """arr2(lambda h, j: e): the 2-D integer array value with elements e (fixed bound names so that
    equal definitions give identical terms)"""
    lam = node.args[0]
    names = [a.arg for a in lam.args.args]
    consts = [z3.Int("arr!%s" % n) for n in names]
    s = st.fork()
    s.assumes = st.assumes
    for n, c in zip(names, consts):
        s.env[n] = SInt(c)
    body = fv.as_int(fv.ev(lam.body, s, False)).e
    t = _lambda_eta(consts, body) if len(consts) > 1 else z3.Lambda([consts[0]], body)
    return SArrVal("i8", [z3.IntVal(0)] * len(names), {"v": t})


def d_arrb1(E, fv, st, node, prog):
    """arrb1(lambda t: e): the 1-D boolean array value with elements e"""
    lam = node.args[0]
    n_ = lam.args.args[0].arg
    c = z3.Int("arr!%s" % n_)
    s = st.fork()
    s.assumes = st.assumes
    s.env[n_] = SInt(c)
    body = fv.to_bool(fv.ev(lam.body, s, False))
    return SArrVal("b1", [z3.IntVal(0)], {"v": z3.Lambda([c], body)})


def d_arrf1(E, fv, st, node, prog):
    """arrf1(lambda t: e): the 1-D float array value with (finite, non-NaN) elements e"""
    lam = node.args[0]
    n_ = lam.args.args[0].arg
    c = z3.Int("arr!%s" % n_)
    s = st.fork()
    s.assumes = st.assumes
    s.env[n_] = SInt(c)
    body = fv.to_float(fv.ev(lam.body, s, False)).v
    return SArrVal("f8", [z3.IntVal(0)], {"v": z3.Lambda([c], body), "nan": z3.K(I, FALSE), "ninf": z3.K(I, FALSE)})


def d_arrx1(E, fv, st, node, prog):
    """arrx1(lambda t: e): the 1-D array value of extended reals e (value and -inf flag; never NaN)"""
    lam = node.args[0]
    n_ = lam.args.args[0].arg
    c = z3.Int("arr!%s" % n_)
    s = st.fork()
    s.assumes = st.assumes
    s.env[n_] = SInt(c)
    f = fv.to_float(fv.ev(lam.body, s, False))
    return SArrVal("f8", [z3.IntVal(0)], {"v": z3.Lambda([c], f.v), "nan": z3.K(I, FALSE), "ninf": z3.Lambda([c], f.ninf)})


def d_arrxn(E, fv, st, node, prog):
    """arrxn(lambda r, j, a: e): the N-D float array value with elements e (value, NaN flag and -inf flag of e)"""
    lam = node.args[0]
    names = [a.arg for a in lam.args.args]
    consts = [z3.Int("arr!%s" % n) for n in names]
    s = st.fork()
    s.assumes = st.assumes
    for n, c in zip(names, consts):
        s.env[n] = SInt(c)
    f = fv.to_float(fv.ev(lam.body, s, False))
    comps = {}
    for cn, t in (("v", f.v), ("nan", f.nan), ("ninf", f.ninf)):
        for c in reversed(consts):
            t = z3.Lambda([c], t)
        comps[cn] = t
    return SArrVal("f8", [z3.IntVal(0)] * len(names), comps)


def np_expand_dims(E, fv, st, node, prog):
    """np.expand_dims(a, axis) for axis in {1, -1}: the same elements with a length-one axis inserted
    (modelled as a read-only copy)"""
    a, ax = _args(fv, st, node, prog, 2)
    USED.add("np.expand_dims(a, axis): same elements, one more axis of length one (read-only copy)")
    if not isinstance(a, SArr):
        _err("expand_dims of non-array")
    shp = list(fv.arr_shape(st, a))
    axv = z3.simplify(fv.as_int(ax).e)
    if not z3.is_int_value(axv):
        _err("expand_dims with symbolic axis")
    axis = axv.as_long()
    if axis < 0:
        axis += len(shp) + 1
    if not (0 <= axis <= len(shp)):
        _err("expand_dims axis out of range")
    o = st.heap[a.loc]
    ks = [z3.Int("xd!k%d" % d) for d in range(len(shp) + 1)]
    src_idx = [k for d, k in enumerate(ks) if d != axis]
    comps = {}
    for c, t in o.comps.items():
        body = nested_select(nested_select(t, a.prefix), src_idx)
        for k in reversed(ks):
            body = z3.Lambda([k], body)
        comps[c] = body
    new_shape = shp[:axis] + [z3.IntVal(1)] + shp[axis:]
    r = fv.new_loc(st, o.dtype, new_shape, comps, name="xdims")
    fv.view_copies.add(r.loc)
    fv.view_src[r.loc] = (a.loc, o)
    return r


def d_dtype_max(E, fv, st, node, prog):
    """dtype_max(a): the largest value the integer array a can hold (symbolic for iN)"""
    (v,) = _args(fv, st, node, False, 1)
    if not isinstance(v, SArr):
        _err("dtype_max expects a program array")
    rng = DTYPES.get(st.heap[v.loc].dtype)
    if rng is None:
        _err("dtype_max of a non-integer array")
    return SInt(rng[1] if z3.is_expr(rng[1]) else z3.IntVal(rng[1]))


def d_named(E, fv, st, node, prog):
    """named(a): the array value a under fresh constant names (a == the definition is assumed), so that
    spec applications on it contain no lambda terms and can serve as quantifier patterns"""
    (v,) = _args(fv, st, node, False, 1)
    if isinstance(v, SArr):
        v = fv.arr_value(st, v)
    if not isinstance(v, SArrVal):
        _err("named() expects an array value")
    comps = {}
    for c, t in v.comps.items():
        if z3.is_quantifier(t) and t.is_lambda() and t.num_vars() == 1:
            # pointwise definition with a select pattern instead of an equation with a lambda term
            k = fv.fresh("named_" + c, t.sort())
            i = fv.fresh_int("i")
            st.assume(z3.ForAll([i], z3.Select(k, i) == z3.substitute_vars(t.body(), i), patterns=[z3.Select(k, i)]))
            comps[c] = k
        else:
            comps[c] = t
    return SArrVal(v.dtype, v.shape, comps)


def d_xlog(E, fv, st, node, prog):
    (v,) = _args(fv, st, node, False, 1)
    f = fv.to_float(v)
    return SFloat(LOG(f.v), z3.simplify(f.v == 0))


def d_xexp(E, fv, st, node, prog):
    """ghost exp on extended reals: exp(-inf) = 0"""
    (v,) = _args(fv, st, node, False, 1)
    f = fv.to_float(v)
    return SFloat(z3.simplify(z3.If(f.ninf, z3.RealVal(0), EXP(f.v))))


def _uf1(name, F):
    def f(E, fv, st, node, prog):
        (v,) = _args(fv, st, node, False, 1)
        return SFloat(F(fv.to_float(v).v))

    return f


def _axiom(name, builder):
    def f(E, fv, st, node, prog):
        vals = [fv.to_float(v).v for v in _args(fv, st, node, False)]
        USED.add("axiom:" + name)
        st.assume(builder(*vals))
        return NONE

    return f


AXIOMS = {
    "ax_log_exp": lambda x: LOG(EXP(x)) == x,
    "ax_exp_log": lambda y: z3.Implies(y > 0, EXP(LOG(y)) == y),
    "ax_log_mul": lambda a, b: z3.Implies(z3.And(a > 0, b > 0), LOG(a * b) == LOG(a) + LOG(b)),
    "ax_log_div": lambda a, b: z3.Implies(z3.And(a > 0, b > 0), LOG(a / b) == LOG(a) - LOG(b)),
    "ax_exp_add": lambda a, b: EXP(a + b) == EXP(a) * EXP(b),
    "ax_exp_pos": lambda a: EXP(a) > 0,
    "ax_log_mono": lambda a, b: z3.Implies(z3.And(a > 0, b > 0), z3.And((a < b) == (LOG(a) < LOG(b)), (a == b) == (LOG(a) == LOG(b)))),
    "ax_exp_mono": lambda a, b: z3.And((a < b) == (EXP(a) < EXP(b)), (a == b) == (EXP(a) == EXP(b))),
    "ax_log_one": lambda: LOG(z3.RealVal(1)) == 0,
    "ax_exp_zero": lambda: EXP(z3.RealVal(0)) == 1,
    "ax_lgamma_rec": lambda x: z3.Implies(x > 0, LGAMMA(x + 1) == LGAMMA(x) + LOG(x)),
    "ax_lgamma_one": lambda: z3.And(LGAMMA(z3.RealVal(1)) == 0, LGAMMA(z3.RealVal(2)) == 0),
}


def d_ax_exp_mono_all(E, fv, st, node, prog):
    """quantified monotonicity of exp (multi-pattern on pairs of EXP terms)"""
    USED.add("axiom:ax_exp_mono_all")
    x = fv.fresh("x", R)
    y = fv.fresh("y", R)
    st.assume(z3.ForAll([x, y], (x <= y) == (EXP(x) <= EXP(y)), patterns=[z3.MultiPattern(EXP(x), EXP(y))]))
    st.assume(z3.ForAll([x], EXP(x) > 0, patterns=[EXP(x)]))
    return NONE


BUILTINS = {
    "ax_exp_mono_all": d_ax_exp_mono_all,
    "len": b_len,
    "range": b_range,
    "min": _minmax(True),
    "max": _minmax(False),
    "abs": b_abs,
    "int": b_int,
    "float": b_float,
    "implies": d_implies,
    "forall": d_forall,
    "forall_arr1": d_forall_arr(1),
    "forall_arr2": d_forall_arr(2),
    "exists": d_exists,
    "old": d_old,
    "at": d_at,
    "ite": d_ite,
    "unfold": d_unfold,
    "unfold_forall": d_unfold_forall,
    "instantiate": d_instantiate,
    "compute": d_compute,
    "assert_": d_assert,
    "isnan": d_isnan,
    "isninf": d_isninf,
    "finite": d_finite,
    "real": d_real,
    "val": d_val,
    "log": d_xlog,
    "ones_if_none": d_ones_if_none,
    "same": d_same,
    "canon2": d_canon2,
    "unravel": d_unravel,
    "ravel_of": d_ravel_of,
    "arr2": d_arr2,
    "arr1": d_arr2,
    "arrb1": d_arrb1,
    "arrf1": d_arrf1,
    "arrx1": d_arrx1,
    "named": d_named,
    "dtype_max": d_dtype_max,
    "arrxn": d_arrxn,
    "exp": d_xexp,
    "lgamma": _uf1("lgamma", LGAMMA),
}
for _n, _b in AXIOMS.items():
    BUILTINS[_n] = _axiom(_n, _b)


# ------------------------------------------------------------------ numpy / math
def _shape_arg(fv, st, v):
    if isinstance(v, STuple):
        return [fv.as_int(x).e for x in v.items]
    return [fv.as_int(v).e]


def _dtype_arg(v, default):
    if v is None:
        return default
    if isinstance(v, SDtype):
        return v.name
    _err("dtype argument %r" % (v,))


def _alloc(fill):
    def f(E, fv, st, node, prog):
        USED.add("numpy alloc (np.empty/zeros/ones/full): fresh array of the requested shape/dtype/fill")
        vals = _args(fv, st, node, prog)
        kw = _kw(fv, st, node, prog)
        shape = _shape_arg(fv, st, vals[0])
        pos = 1
        fillv = None
        if fill == "full":
            fillv = vals[1] if len(vals) > 1 else kw.get("fill_value")
            pos = 2
        dt = vals[pos] if len(vals) > pos else kw.get("dtype")
        dtype = _dtype_arg(dt, "f8")
        for s in shape:
            fv.oblige("alloc-nonneg", fv.stmt_anchor(node), s >= 0, st, node)
        if fill == "empty":
            return fv.new_loc(st, dtype, shape, name="empty")
        if fill == "zeros":
            fillv = SInt(0)
        elif fill == "ones":
            fillv = SInt(1)
        terms = fv.coerce_elem(st, dtype, fillv, node, prog)
        nd = len(shape)
        comps = {}
        for c in elem_sorts(dtype):
            t = terms[c]
            for _ in range(nd):
                t = z3.K(I, t)
            comps[c] = t
        return fv.new_loc(st, dtype, shape, comps, name=fill)

    return f


def _elementwise(name, scalar_fn):
    def f(E, fv, st, node, prog):
        vals = _args(fv, st, node, prog)
        v = vals[0]
        if isinstance(v, SArr):
            USED.add("numpy elementwise np.%s on 1-D array" % name)
            shp = fv.arr_shape(st, v)
            if len(shp) != 1:
                _err("np.%s on non-1-D array" % name)
            k = fv.fresh_int("k")
            s = st.fork()
            s.assumes = st.assumes
            s.guards = st.guards + [k >= 0, k < shp[0]]
            el = fv.load(s, v, [k], node, prog=False)
            r = scalar_fn(fv, s, el, node, prog)
            comps = {"v": z3.Lambda([k], r.v), "ninf": z3.Lambda([k], r.ninf), "nan": z3.Lambda([k], r.nan)}
            return fv.new_loc(st, "f8", [shp[0]], comps, name=name)
        return scalar_fn(fv, st, v, node, prog)

    return f


def _log(fv, st, v, node, prog):
    f = fv.to_float(v)
    fv.float_defined(st, z3.And(z3.Not(f.nan), z3.Not(f.ninf), f.v >= 0), node, prog)
    USED.add("np.log: LOG uninterpreted, log(0) = -inf")
    return SFloat(LOG(f.v), z3.simplify(f.v == 0))


def _exp(fv, st, v, node, prog):
    f = fv.to_float(v)
    fv.float_defined(st, z3.Not(f.nan), node, prog)
    USED.add("np.exp: EXP uninterpreted, exp(-inf) = 0, exp(x) > 0")
    r = z3.If(f.ninf, z3.RealVal(0), EXP(f.v))
    st.assume(EXP(f.v) > 0)
    return SFloat(z3.simplify(r))


def _log1p(fv, st, v, node, prog):
    f = fv.to_float(v)
    fv.float_defined(st, z3.And(z3.Not(f.nan), z3.Not(f.ninf), f.v >= -1), node, prog)
    USED.add("np.log1p(z) = LOG(1+z)")
    return SFloat(LOG(1 + f.v), z3.simplify(f.v == -1))


def _lgamma(fv, st, v, node, prog):
    f = fv.to_float(v)
    fv.float_defined(st, z3.And(z3.Not(f.nan), z3.Not(f.ninf), f.v > 0), node, prog)
    USED.add("math.lgamma: LGAMMA uninterpreted on positive reals")
    return SFloat(LGAMMA(f.v))


def np_isnan(E, fv, st, node, prog):
    (v,) = _args(fv, st, node, prog, 1)
    return SBool(fv.to_float(v).nan)


def _minmax_scalar(fv, st, a, b, node, prog, is_min):
    c = fv.to_bool(fv.compare(st, ast.LtE() if is_min else ast.GtE(), a, b, node, prog))
    return fv.ite(c, fv.to_float(a), fv.to_float(b))


def _np_minmax(is_min):
    def f(E, fv, st, node, prog):
        a, b = _args(fv, st, node, prog, 2)
        if isinstance(a, SArr) or isinstance(b, SArr):
            USED.add("np.minimum / np.maximum elementwise on a 1-D array (scalar broadcast)")
            arr = a if isinstance(a, SArr) else b
            shp = fv.arr_shape(st, arr)
            if len(shp) != 1:
                _err("np.minimum/maximum on non-1-D array")
            k = fv.fresh_int("k")
            s = st.fork()
            s.assumes = st.assumes
            s.guards = st.guards + [k >= 0, k < shp[0]]

            def elem(x):
                if isinstance(x, SArr):
                    if prog and x is not arr:
                        fv.oblige("shape-match", fv.stmt_anchor(node), fv.arr_shape(st, x)[0] == shp[0], st, node)
                    return fv.load(s, x, [k], node, prog=False)
                return x

            ea, eb = elem(a), elem(b)
            if isinstance(ea, SInt) and isinstance(eb, SInt) and isinstance(a, SArr) and isinstance(b, SArr):
                da, db_ = st.heap[a.loc].dtype, st.heap[b.loc].dtype
                if da != db_:
                    _err("np.minimum/maximum on integer arrays of different dtypes")
                USED.add("np.minimum / np.maximum elementwise on two 1-D integer arrays of one dtype: integer array of that dtype")
                c_ = (ea.e <= eb.e) if is_min else (ea.e >= eb.e)
                return fv.new_loc(st, da, [shp[0]], {"v": z3.Lambda([k], z3.If(c_, ea.e, eb.e))}, name="ew")
            r = fv.to_float(_minmax_scalar(fv, s, ea, eb, node, prog, is_min))
            comps = {"v": z3.Lambda([k], r.v), "ninf": z3.Lambda([k], r.ninf), "nan": z3.Lambda([k], r.nan)}
            return fv.new_loc(st, "f8", [shp[0]], comps, name="ew")
        return _minmax_scalar(fv, st, a, b, node, prog, is_min)

    return f


np_minimum = _np_minmax(True)
np_maximum = _np_minmax(False)


def np_sum(E, fv, st, node, prog):
    (v,) = _args(fv, st, node, prog, 1)
    return _sum_of(E, fv, st, v, node, prog)


def _sum_of(E, fv, st, v, node, prog):
    if not isinstance(v, SArr):
        _err("sum of non-array")
    o = st.heap[v.loc]
    shp = fv.arr_shape(st, v)
    if len(shp) != 1:
        _err("sum of non-1-D array")
    USED.add("ndarray.sum / np.sum on 1-D array == spec ISUM / FSUM(a, 0, len)")
    if is_float_dtype(o.dtype):
        sd = E.db.specs.get("FSUM")
        if sd is None:
            _err("spec FSUM missing")
        if prog:
            k = fv.fresh_int("k")
            el = o.comps
            fin = z3.ForAll([k], z3.Implies(z3.And(k >= 0, k < shp[0]), z3.And(z3.Not(z3.Select(nested_select(el["nan"], v.prefix), k)), z3.Not(z3.Select(nested_select(el["ninf"], v.prefix), k)))))
            fv.float_defined(st, fin, node, prog)
        return E.spec_app(fv, st, sd, [v, SInt(0), SInt(shp[0])])
    if is_bool_dtype(o.dtype):
        USED.add("np.sum on a 1-D boolean array == spec BCOUNT(a, 0, len) (number of True entries)")
        sd = E.db.specs.get("BCOUNT")
        if sd is None:
            _err("spec BCOUNT missing")
        r_ = E.spec_app(fv, st, sd, [v, SInt(0), SInt(shp[0])])
        st.assume(z3.And(r_.e >= 0, r_.e <= shp[0]))  # lemma_bcount_range
        return r_
    sd = E.db.specs.get("ISUM")
    if sd is None:
        _err("spec ISUM missing")
    return E.spec_app(fv, st, sd, [v, SInt(0), SInt(shp[0])])


def np_random_shuffle(E, fv, st, node, prog):
    """rows permuted by a ghost bijection sigma (named shuffle<k>, shuffle<k>_inv)"""
    (v,) = _args(fv, st, node, prog, 1)
    USED.add("np.random.shuffle: rows permuted in place by a bijection of [0,n)")
    if not isinstance(v, SArr) or v.prefix:
        _err("shuffle of non-array")
    o = st.heap[v.loc]
    n = o.shape[0]
    k = sum(1 for x in st.funcs if x.startswith("shuffle") and not x.endswith("_inv"))
    fv.counter += 1
    sig = z3.Function("shuffle%d!%d" % (k, fv.counter), I, I)
    inv = z3.Function("shuffle%d_inv!%d" % (k, fv.counter), I, I)
    st.funcs = dict(st.funcs)
    st.funcs["shuffle%d" % k] = sig
    st.funcs["shuffle%d_inv" % k] = inv
    i = fv.fresh_int("i")
    st.assume(z3.ForAll([i], z3.Implies(z3.And(i >= 0, i < n), z3.And(sig(i) >= 0, sig(i) < n, inv(sig(i)) == i)), patterns=[sig(i)]))
    st.assume(z3.ForAll([i], z3.Implies(z3.And(i >= 0, i < n), z3.And(inv(i) >= 0, inv(i) < n, sig(inv(i)) == i)), patterns=[inv(i)]))
    comps = {}
    for c, t in o.comps.items():
        comps[c] = z3.Lambda([i], z3.Select(t, sig(i)))
    st.heap[v.loc] = o.with_comps(comps)
    return NONE


def _sorted_of(fv, st, v):
    """fresh 1-D integer contents that are an ascending rearrangement of v by a ghost bijection
    sort<k> / sort<k>_inv:  new[i] == old[sort<k>(i)]"""
    USED.add("np.sort / ndarray.sort on a 1-D integer array: ascending rearrangement by a bijection of [0,n)")
    o = st.heap[v.loc]
    shp = fv.arr_shape(st, v)
    if len(shp) != 1 or is_float_dtype(o.dtype) or is_bool_dtype(o.dtype):
        _err("sort of a non-1-D / non-integer array")
    n = shp[0]
    old = nested_select(o.comps["v"], v.prefix)
    k = sum(1 for x in st.funcs if x.startswith("sort") and not x.endswith("_inv"))
    fv.counter += 1
    sig = z3.Function("sort%d!%d" % (k, fv.counter), I, I)
    inv = z3.Function("sort%d_inv!%d" % (k, fv.counter), I, I)
    st.funcs = dict(st.funcs)
    st.funcs["sort%d" % k] = sig
    st.funcs["sort%d_inv" % k] = inv
    new = fv.fresh("sorted", z3.ArraySort(I, I))
    i = fv.fresh_int("i")
    st.assume(z3.ForAll([i], z3.Implies(z3.And(i >= 0, i < n), z3.And(sig(i) >= 0, sig(i) < n, inv(sig(i)) == i, z3.Select(new, i) == z3.Select(old, sig(i)))), patterns=[sig(i)]))
    st.assume(z3.ForAll([i], z3.Implies(z3.And(i >= 0, i < n), z3.And(inv(i) >= 0, inv(i) < n, sig(inv(i)) == i)), patterns=[inv(i)]))
    st.assume(z3.ForAll([i], z3.Implies(z3.And(i >= 1, i < n), z3.Select(new, i - 1) <= z3.Select(new, i)), patterns=[z3.Select(new, i)]))
    return o, n, new


def np_sort(E, fv, st, node, prog):
    (v,) = _args(fv, st, node, prog, 1)
    if not isinstance(v, SArr):
        _err("np.sort of non-array")
    o, n, new = _sorted_of(fv, st, v)
    a = fv.new_loc(st, o.dtype, [n], {"v": new}, name="sorted")
    fv.assume_dtype_range(st, o.dtype, new, 1)
    return a


def np_random_randint(E, fv, st, node, prog):
    (n,) = _args(fv, st, node, prog, 1)
    USED.add("np.random.randint(n): an integer in [0, n)")
    n = fv.as_int(n).e
    fv.oblige("pre@randint", fv.stmt_anchor(node), n >= 1, st, node)
    k = fv.fresh_int("randint")
    st.assume(z3.And(k >= 0, k < n))
    return SInt(k)


def np_random_rand(E, fv, st, node, prog):
    USED.add("np.random.rand/random: a float in [0,1)")
    u = fv.fresh("u", R)
    st.assume(z3.And(u >= 0, u < 1))
    return SFloat(u)


def np_random_seed(E, fv, st, node, prog):
    _args(fv, st, node, prog)
    return NONE


def random_choice(E, fv, st, node, prog):
    """mchap.jitutils.random_choice(p): trusted: requires p >= 0 and sum(p) == 1 (obligation),
    returns an index 0 <= r < len(p) (distribution: assumption A2)"""
    (p,) = _args(fv, st, node, prog, 1)
    USED.add("jitutils.random_choice(p): given p>=0, sum(p)==1 returns 0<=r<len(p) with P(r=i)=p[i] (A2)")
    if not isinstance(p, SArr):
        _err("random_choice of non-array")
    n = fv.arr_shape(st, p)[0]
    sd = E.db.specs.get("FSUM")
    tot = E.spec_app(fv, st, sd, [p, SInt(0), SInt(n)])
    k = fv.fresh_int("k")
    o = st.heap[p.loc]
    pv = nested_select(o.comps["v"], p.prefix)
    pn = nested_select(o.comps["nan"], p.prefix)
    pi = nested_select(o.comps["ninf"], p.prefix)
    nonneg = z3.ForAll([k], z3.Implies(z3.And(k >= 0, k < n), z3.And(z3.Select(pv, k) >= 0, z3.Not(z3.Select(pn, k)), z3.Not(z3.Select(pi, k)))))
    if not fv.cd.options.get("skip_choice_pre"):
        fv.oblige("pre@random_choice", "nonneg", nonneg, st, node)
        fv.oblige("pre@random_choice", "sums-to-one", tot.v == 1, st, node)
    r = fv.fresh_int("choice")
    st.assume(z3.And(r >= 0, r < n))
    return SInt(r)


def np_where(E, fv, st, node, prog):
    """np.where(mask) for a 1-D boolean mask: (w,) with w the strictly increasing positions of True"""
    (m,) = _args(fv, st, node, prog, 1)
    USED.add("np.where(mask)[0] on a 1-D bool array: the strictly increasing list of exactly the True positions (length = BCOUNT)")
    if not isinstance(m, SArr) or not is_bool_dtype(st.heap[m.loc].dtype) or fv.arr_ndim(st, m) != 1:
        _err("np.where supported on 1-D boolean arrays only")
    n = fv.arr_shape(st, m)[0]
    mt0 = fv.arr_term(st, m)
    mt = fv.fresh("mask", z3.ArraySort(I, B))  # named so that it may occur in patterns
    st.assume(mt == mt0)
    sd = E.db.specs.get("BCOUNT")
    if sd is None:
        _err("spec BCOUNT missing")
    cnt = E.spec_app(fv, st, sd, [m, SInt(0), SInt(n)]).e
    w = fv.fresh("where", z3.ArraySort(I, I))
    fv.counter += 1
    rank = z3.Function("where_rank!%d" % fv.counter, I, I)
    a, b, p = fv.fresh_int("a"), fv.fresh_int("b"), fv.fresh_int("p")
    st.assume(z3.And(cnt >= 0, cnt <= n))
    st.assume(z3.ForAll([a], z3.Implies(z3.And(a >= 0, a < cnt), z3.And(z3.Select(w, a) >= 0, z3.Select(w, a) < n, z3.Select(mt, z3.Select(w, a)))), patterns=[z3.Select(w, a)]))
    st.assume(z3.ForAll([a, b], z3.Implies(z3.And(a >= 0, a < b, b < cnt), z3.Select(w, a) < z3.Select(w, b)), patterns=[z3.MultiPattern(z3.Select(w, a), z3.Select(w, b))]))
    st.assume(z3.ForAll([p], z3.Implies(z3.And(p >= 0, p < n, z3.Select(mt, p)), z3.And(rank(p) >= 0, rank(p) < cnt, z3.Select(w, rank(p)) == p)), patterns=[z3.Select(mt, p), rank(p)]))
    st.funcs = dict(st.funcs)
    k = fv.call_sites.get(id(node), 0)  # ghost name keyed by the call site (source order)
    st.funcs["where_rank%d" % k] = rank
    arr = fv.new_loc(st, "i8", [cnt], {"v": w}, name="where")
    return STuple([arr])


def mask_select(E, fv, st, base, mask, node, prog):
    """a[mask] with a 1-D boolean mask over the first axis: the rows with a True mask, in order.
    Result R has BCOUNT(mask, 0, n) rows and  mask[p] ==> R[BCOUNT(mask, 0, p)] == a[p]."""
    USED.add("boolean mask selection a[mask] along axis 0: the selected rows in order (row BCOUNT(mask,0,p) of the result is row p of a)")
    if fv.arr_ndim(st, mask) != 1:
        _err("mask selection needs a 1-D mask")
    n = fv.arr_shape(st, mask)[0]
    bshp = fv.arr_shape(st, base)
    if prog:
        fv.oblige("shape-match", fv.stmt_anchor(node), bshp[0] == n, st, node)
    mt0 = fv.arr_term(st, mask)
    p = fv.fresh_int("p")
    # one name per mask array (two selections with the same mask share it, and its rank function)
    mcache = getattr(fv, "_mask_names", None)
    if mcache is None:
        mcache = fv._mask_names = {}
    mkey = (mask.loc, mask.prefix, id(st.heap[mask.loc]))
    if mkey in mcache:
        mt = mcache[mkey]
    else:
        mt = fv.fresh("mask", z3.ArraySort(I, B))
        mcache[mkey] = mt
    st.assume(z3.ForAll([p], z3.Select(mt, p) == z3.Select(mt0, p), patterns=[z3.Select(mt, p)]))
    sd = E.db.specs.get("BCOUNT")
    if sd is None:
        _err("spec BCOUNT missing")
    named_mask = SArrVal("b1", [n], {"v": mt})
    cnt = E.spec_app(fv, st, sd, [named_mask, SInt(0), SInt(n)]).e
    st.assume(z3.And(cnt >= 0, cnt <= n))
    bo = st.heap[base.loc]
    comps = {}
    for c, t in bo.comps.items():
        src = nested_select(t, base.prefix)
        r = fv.fresh("msel_" + c, src.sort())
        rank_p = E.spec_app(fv, st, sd, [named_mask, SInt(0), SInt(p)]).e
        st.assume(z3.ForAll([p], z3.Implies(z3.And(p >= 0, p < n, z3.Select(mt, p)), z3.Select(r, rank_p) == z3.Select(src, p)), patterns=[z3.Select(mt, p)]))
        comps[c] = r
    # every result row is a selected row: ghost source index msel_src<k>(q)
    fv.counter += 1
    srcf = z3.Function("msel_src!%d" % fv.counter, I, I)
    q = fv.fresh_int("q")
    rank_s = E.spec_app(fv, st, sd, [named_mask, SInt(0), SInt(srcf(q))]).e
    st.assume(z3.ForAll([q], z3.Implies(z3.And(q >= 0, q < cnt), z3.And(srcf(q) >= 0, srcf(q) < n, z3.Select(mt, srcf(q)), rank_s == q)), patterns=[srcf(q)]))
    for c, r in comps.items():
        src = nested_select(bo.comps[c], base.prefix)
        st.assume(z3.ForAll([q], z3.Implies(z3.And(q >= 0, q < cnt), z3.Select(r, q) == z3.Select(src, srcf(q))), patterns=[z3.Select(r, q)]))
    res = fv.new_loc(st, bo.dtype, [cnt] + list(bshp[1:]), comps, name="msel")
    if "v" in comps and not is_float_dtype(bo.dtype) and not is_bool_dtype(bo.dtype):
        fv.assume_dtype_range(st, bo.dtype, comps["v"], len(bshp))
    # ghost names: the mask as an array value and the result, for use in lemmas
    k = sum(1 for x in st.env if x.startswith("msel_mask"))
    st.env["msel_mask%d" % k] = named_mask
    st.env["msel_res%d" % k] = res
    st.funcs = dict(st.funcs)
    st.funcs["msel_src%d" % k] = srcf
    return res


def np_random_choice(E, fv, st, node, prog):
    (a,) = _args(fv, st, node, prog, 1)
    USED.add("np.random.choice(a) on a non-empty 1-D array: an element of a")
    if not isinstance(a, SArr) or fv.arr_ndim(st, a) != 1:
        _err("np.random.choice supported on 1-D arrays")
    n = fv.arr_shape(st, a)[0]
    fv.oblige("pre@random_choice", "non-empty", n >= 1, st, node)
    k = fv.fresh_int("pick")
    st.assume(z3.And(k >= 0, k < n))
    st.env = dict(st.env)
    return fv.load(st, a, [k], node, prog=False)


def np_arange(E, fv, st, node, prog):
    (n,) = _args(fv, st, node, prog, 1)
    USED.add("np.arange(n): the array 0..n-1")
    n = fv.as_int(n).e
    fv.oblige("alloc-nonneg", fv.stmt_anchor(node), n >= 0, st, node)
    k = z3.Int("arange!k")
    return fv.new_loc(st, "i8", [n], {"v": z3.Lambda([k], k)}, name="arange")


def np_random_permutation(E, fv, st, node, prog):
    """np.random.permutation(x) for a 1-D array: a copy permuted by a ghost bijection perm<site>"""
    (x,) = _args(fv, st, node, prog, 1)
    USED.add("np.random.permutation(x): y[i] = x[sigma(i)] for a bijection sigma of [0,n)")
    if not isinstance(x, SArr) or fv.arr_ndim(st, x) != 1:
        _err("permutation of non-1-D array")
    n = fv.arr_shape(st, x)[0]
    fv.counter += 1
    site = fv.call_sites.get(id(node), 0)
    sig = z3.Function("perm%d!%d" % (site, fv.counter), I, I)
    inv = z3.Function("perm%d_inv!%d" % (site, fv.counter), I, I)
    st.funcs = dict(st.funcs)
    st.funcs["perm%d" % site] = sig
    st.funcs["perm%d_inv" % site] = inv
    i = fv.fresh_int("i")
    st.assume(z3.ForAll([i], z3.Implies(z3.And(i >= 0, i < n), z3.And(sig(i) >= 0, sig(i) < n, inv(sig(i)) == i)), patterns=[sig(i)]))
    st.assume(z3.ForAll([i], z3.Implies(z3.And(i >= 0, i < n), z3.And(inv(i) >= 0, inv(i) < n, sig(inv(i)) == i)), patterns=[inv(i)]))
    o = st.heap[x.loc]
    t = nested_select(o.comps["v"], x.prefix)
    y = fv.fresh("perm", z3.ArraySort(I, I))
    st.assume(z3.ForAll([i], z3.Implies(z3.And(i >= 0, i < n), z3.Select(y, i) == z3.Select(t, sig(i))), patterns=[z3.Select(y, i)]))
    return fv.new_loc(st, o.dtype, [n], {"v": y}, name="perm")


def np_array(E, fv, st, node, prog):
    """np.array of a literal (nested) list of integers"""
    vals = _args(fv, st, node, prog)
    kw = _kw(fv, st, node, prog)
    v = vals[0]
    USED.add("np.array(<list literal>): array with the listed elements")
    if not isinstance(v, STuple):
        _err("np.array of non-literal")
    rows = v.items
    dt = _dtype_arg(vals[1] if len(vals) > 1 else kw.get("dtype"), "i8")
    if rows and isinstance(rows[0], STuple):
        ncol = len(rows[0].items)
        t = z3.K(I, z3.K(I, z3.IntVal(0)))
        for i, r in enumerate(rows):
            if len(r.items) != ncol:
                _err("ragged array literal")
            for j, x in enumerate(r.items):
                t = nested_store(t, [z3.IntVal(i), z3.IntVal(j)], fv.as_int(x).e)
        return fv.new_loc(st, dt, [z3.IntVal(len(rows)), z3.IntVal(ncol)], {"v": t}, name="lit")
    t = z3.K(I, z3.IntVal(0))
    for i, x in enumerate(rows):
        t = z3.Store(t, z3.IntVal(i), fv.as_int(x).e)
    return fv.new_loc(st, dt, [z3.IntVal(len(rows))], {"v": t}, name="lit")


def np_max(E, fv, st, node, prog, a=None):
    if a is None:
        (a,) = _args(fv, st, node, prog, 1)
    USED.add("np.max(a) on a non-empty 1-D integer array: an element of a that bounds all elements")
    if not isinstance(a, SArr) or fv.arr_ndim(st, a) != 1:
        _err("np.max on non-1-D array")
    n = fv.arr_shape(st, a)[0]
    fv.oblige("pre@np.max", "non-empty", n >= 1, st, node)
    t = fv.arr_term(st, a)
    m = fv.fresh_int("max")
    k = fv.fresh_int("k")
    w = fv.fresh_int("argmax")
    st.assume(z3.And(w >= 0, w < n, z3.Select(t, w) == m))
    st.assume(z3.ForAll([k], z3.Implies(z3.And(k >= 0, k < n), z3.Select(t, k) <= m), patterns=[z3.Select(t, k)]))
    return SInt(m)


EXTERNALS = {
    "numpy.array": np_array,
    "numpy.max": np_max,
    "numpy.arange": np_arange,
    "numpy.random.permutation": np_random_permutation,
    "numpy.where": np_where,
    "numpy.random.choice": np_random_choice,
    "numpy.empty": _alloc("empty"),
    "numpy.zeros": _alloc("zeros"),
    "numpy.ones": _alloc("ones"),
    "numpy.full": _alloc("full"),
    "numpy.log": _elementwise("log", _log),
    "numpy.exp": _elementwise("exp", _exp),
    "numpy.log1p": _elementwise("log1p", _log1p),
    "math.lgamma": _elementwise("lgamma", _lgamma),
    "numpy.isnan": np_isnan,
    "numpy.minimum": np_minimum,
    "numpy.maximum": np_maximum,
    "numpy.sum": np_sum,
    "numpy.random.shuffle": np_random_shuffle,
    "numpy.sort": np_sort,
    "numpy.expand_dims": np_expand_dims,
    "numpy.random.rand": np_random_rand,
    "numpy.random.randint": np_random_randint,
    "numpy.random.random": np_random_rand,
    "numpy.random.seed": np_random_seed,
    "mchap.jitutils.random_choice": random_choice,
}


def modified_names(q, node):
    if q == "numpy.random.shuffle":
        a = node.args[0]
        if isinstance(a, ast.Name):
            return {a.id}
    return set()


# ------------------------------------------------------------------ methods
def method(E, fv, st, recv, name, node, prog):
    if isinstance(recv, SArr):
        if name == "copy":
            USED.add("ndarray.copy(): fresh array with equal contents")
            o = st.heap[recv.loc]
            comps = {c: nested_select(t, recv.prefix) for c, t in o.comps.items()}
            return fv.new_loc(st, o.dtype, fv.arr_shape(st, recv), comps, name="copy")
        if name == "sum":
            return _sum_of(E, fv, st, recv, node, prog)
        if name == "max" and not node.args and not node.keywords:
            return np_max(E, fv, st, node, prog, recv)
        if name == "sort":
            o, n, new = _sorted_of(fv, st, recv)
            fv.assume_dtype_range(st, o.dtype, new, 1)
            o2 = st.heap[recv.loc]
            st.heap[recv.loc] = o2.with_comps({"v": nested_store(o2.comps["v"], recv.prefix, new) if recv.prefix else new})
            return NONE
        if name == "ravel":
            shp = fv.arr_shape(st, recv)
            if len(shp) != 2:
                _err("ravel of non-2-D array")
            USED.add("ndarray.ravel() of a C-contiguous 2-D array: length P*N, and reshaping it back gives the array (UNRAVEL(RAVEL(a,P,N),P,N) == a on [0,P)x[0,N)); every element of the result is an element of the array; reshaping depends on the first P*N entries only")
            o = st.heap[recv.loc]
            g = nested_select(o.comps["v"], recv.prefix)
            r = fv.fresh("ravel", z3.ArraySort(I, I))  # named so that it can appear in patterns
            st.assume(r == RAVELF(g, shp[0], shp[1]))
            st.assume(UNRAVELF(r, shp[0], shp[1]) == _canon2_term(g, shp[0], shp[1]))
            # reshaping reads the first P*N entries only: a key that agrees with the ravel there reshapes to the same array
            k_ = fv.fresh("k", z3.ArraySort(I, I))
            t_ = fv.fresh_int("t")
            st.assume(z3.ForAll([k_], z3.Implies(z3.ForAll([t_], z3.Implies(z3.And(t_ >= 0, t_ < shp[0] * shp[1]), z3.Select(k_, t_) == z3.Select(r, t_))), UNRAVELF(k_, shp[0], shp[1]) == UNRAVELF(r, shp[0], shp[1])), patterns=[UNRAVELF(k_, shp[0], shp[1])]))
            fv.counter += 1
            rh = z3.Function("ravel_row!%d" % fv.counter, I, I)
            rj = z3.Function("ravel_col!%d" % fv.counter, I, I)
            s_ = fv.fresh_int("s")
            st.assume(z3.ForAll([s_], z3.Implies(z3.And(s_ >= 0, s_ < shp[0] * shp[1]), z3.And(rh(s_) >= 0, rh(s_) < shp[0], rj(s_) >= 0, rj(s_) < shp[1], z3.Select(r, s_) == z3.Select(z3.Select(g, rh(s_)), rj(s_)))), patterns=[z3.Select(r, s_)]))
            return fv.new_loc(st, o.dtype, [shp[0] * shp[1]], {"v": r}, name="ravel")
    _err("method .%s on %r" % (name, recv))
