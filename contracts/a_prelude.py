# shared vocabulary: sums over arrays (the modelled ndarray.sum / np.sum return these)


@spec
def ISUM(a: A[int, 1], lo: int, hi: int) -> int:
    decreases(hi - lo)
    if hi <= lo:
        return 0
    return ISUM(a, lo, hi - 1) + a[hi - 1]


@spec
def FSUM(a: A[float, 1], lo: int, hi: int) -> float:
    decreases(hi - lo)
    if hi <= lo:
        return 0.0
    return FSUM(a, lo, hi - 1) + a[hi - 1]


@lemma(shared=True)
def lemma_isum_nonneg(a: A[int, 1], lo: int, hi: int):
    requires(forall(lo, hi, lambda t: a[t] >= 0))
    ensures(ISUM(a, lo, hi) >= 0)
    decreases(hi - lo)
    unfold(ISUM(a, lo, hi))
    if hi > lo:
        lemma_isum_nonneg(a, lo, hi - 1)


@lemma(shared=True)
def lemma_isum_ge(a: A[int, 1], lo: int, hi: int, t: int):
    """a sum of non-negative terms dominates each term"""
    requires(forall(lo, hi, lambda s: a[s] >= 0), lo <= t, t < hi)
    ensures(ISUM(a, lo, hi) >= a[t])
    decreases(hi - lo)
    unfold(ISUM(a, lo, hi))
    if t < hi - 1:
        lemma_isum_ge(a, lo, hi - 1, t)
    else:
        lemma_isum_nonneg(a, lo, hi - 1)


@lemma(shared=True)
def lemma_isum_ge2(a: A[int, 1], lo: int, hi: int, s: int, t: int):
    """a sum of non-negative terms dominates the sum of any two of them"""
    requires(forall(lo, hi, lambda u: a[u] >= 0), lo <= s, s < t, t < hi)
    ensures(ISUM(a, lo, hi) >= a[s] + a[t])
    decreases(hi - lo)
    unfold(ISUM(a, lo, hi))
    if t < hi - 1:
        lemma_isum_ge2(a, lo, hi - 1, s, t)
    else:
        lemma_isum_ge(a, lo, hi - 1, s)


@lemma(shared=True)
def lemma_isum_le(a: A[int, 1], lo: int, hi: int, m: int):
    requires(lo <= hi, forall(lo, hi, lambda t: a[t] <= m))
    ensures(ISUM(a, lo, hi) <= m * (hi - lo))
    decreases(hi - lo)
    unfold(ISUM(a, lo, hi))
    if hi > lo:
        lemma_isum_le(a, lo, hi - 1, m)


@lemma(shared=True)
def lemma_isum_pointwise_le(a: A[int, 1], b: A[int, 1], lo: int, hi: int):
    requires(forall(lo, hi, lambda t: a[t] <= b[t]))
    ensures(ISUM(a, lo, hi) <= ISUM(b, lo, hi))
    decreases(hi - lo)
    unfold(ISUM(a, lo, hi), ISUM(b, lo, hi))
    if hi > lo:
        lemma_isum_pointwise_le(a, b, lo, hi - 1)


@lemma(shared=True)
def lemma_isum_ext(a: A[int, 1], b: A[int, 1], lo: int, hi: int):
    requires(forall(lo, hi, lambda t: a[t] == b[t]))
    ensures(ISUM(a, lo, hi) == ISUM(b, lo, hi))
    decreases(hi - lo)
    unfold(ISUM(a, lo, hi), ISUM(b, lo, hi))
    if hi > lo:
        lemma_isum_ext(a, b, lo, hi - 1)


@lemma(shared=True)
def lemma_isum_upd(a: A[int, 1], b: A[int, 1], lo: int, hi: int, idx: int):
    """b = a except at idx:  ISUM(b) == ISUM(a) - a[idx] + b[idx]"""
    requires(lo <= idx, idx < hi, forall(lo, hi, lambda t: implies(t != idx, a[t] == b[t])))
    ensures(ISUM(b, lo, hi) == ISUM(a, lo, hi) - a[idx] + b[idx])
    decreases(hi - lo)
    unfold(ISUM(a, lo, hi), ISUM(b, lo, hi))
    if idx < hi - 1:
        lemma_isum_upd(a, b, lo, hi - 1, idx)
    else:
        lemma_isum_ext(a, b, lo, hi - 1)


@lemma(shared=True)
def lemma_fsum_ext(a: A[float, 1], b: A[float, 1], lo: int, hi: int):
    requires(forall(lo, hi, lambda t: real(a[t]) == real(b[t])))
    ensures(FSUM(a, lo, hi) == FSUM(b, lo, hi))
    decreases(hi - lo)
    unfold(FSUM(a, lo, hi), FSUM(b, lo, hi))
    if hi > lo:
        lemma_fsum_ext(a, b, lo, hi - 1)


@lemma(shared=True)
def lemma_fsum_pos(a: A[float, 1], lo: int, hi: int):
    requires(lo < hi, forall(lo, hi, lambda t: real(a[t]) > 0))
    ensures(FSUM(a, lo, hi) > 0)
    decreases(hi - lo)
    unfold(FSUM(a, lo, hi), FSUM(a, lo, lo))
    if hi - 1 > lo:
        lemma_fsum_pos(a, lo, hi - 1)


@lemma(shared=True)
def lemma_fsum_scale(a: A[float, 1], b: A[float, 1], c: float, lo: int, hi: int):
    """b = c * a elementwise:  FSUM(b) == c * FSUM(a)"""
    requires(finite(c), forall(lo, hi, lambda t: real(b[t]) == real(a[t]) * c))
    ensures(FSUM(b, lo, hi) == FSUM(a, lo, hi) * c)
    decreases(hi - lo)
    unfold(FSUM(a, lo, hi), FSUM(b, lo, hi))
    if hi > lo:
        lemma_fsum_scale(a, b, c, lo, hi - 1)


@lemma(shared=True)
def lemma_fsum_upd(a: A[float, 1], b: A[float, 1], lo: int, hi: int, idx: int):
    """b = a except at idx:  FSUM(b) == FSUM(a) - a[idx] + b[idx]"""
    requires(lo <= idx, idx < hi, forall(lo, hi, lambda t: implies(t != idx, real(a[t]) == real(b[t]))))
    ensures(FSUM(b, lo, hi) == FSUM(a, lo, hi) - real(a[idx]) + real(b[idx]))
    decreases(hi - lo)
    unfold(FSUM(a, lo, hi), FSUM(b, lo, hi))
    if idx < hi - 1:
        lemma_fsum_upd(a, b, lo, hi - 1, idx)
    else:
        lemma_fsum_ext(a, b, lo, hi - 1)


@lemma(shared=True)
def lemma_fsum_bound(a: A[float, 1], lo: int, hi: int, c: float, idx: int):
    """all terms in [0, c] and the term at idx zero:  0 <= FSUM <= c * (number of other terms)"""
    requires(lo <= idx, idx < hi, c >= 0, real(a[idx]) == 0)
    requires(forall(lo, hi, lambda t: 0 <= real(a[t]) and real(a[t]) <= c))
    ensures(0 <= FSUM(a, lo, hi), FSUM(a, lo, hi) <= c * (hi - lo - 1))
    decreases(hi - lo)
    unfold(FSUM(a, lo, hi))
    if idx < hi - 1:
        lemma_fsum_bound(a, lo, hi - 1, c, idx)
    else:
        lemma_fsum_bound0(a, lo, hi - 1, c)


@lemma(shared=True)
def lemma_fsum_bound0(a: A[float, 1], lo: int, hi: int, c: float):
    requires(lo <= hi, c >= 0, forall(lo, hi, lambda t: 0 <= real(a[t]) and real(a[t]) <= c))
    ensures(0 <= FSUM(a, lo, hi), FSUM(a, lo, hi) <= c * (hi - lo))
    decreases(hi - lo)
    unfold(FSUM(a, lo, hi))
    if hi > lo:
        lemma_fsum_bound0(a, lo, hi - 1, c)


@lemma(shared=True)
def lemma_exp_neg_log(n: float):
    """exp(-log n) == 1/n"""
    requires(n > 0)
    ensures(exp(-real(log(n))) * n == 1, exp(-real(log(n))) > 0)
    ax_exp_log(n)
    ax_exp_add(real(log(n)), -real(log(n)))
    ax_exp_zero()
    ax_exp_pos(-real(log(n)))


@spec
def BCOUNT(a: A[bool, 1], lo: int, hi: int) -> int:
    """number of True entries in a[lo:hi]"""
    decreases(hi - lo)
    if hi <= lo:
        return 0
    return BCOUNT(a, lo, hi - 1) + ite(a[hi - 1], 1, 0)


@lemma(shared=True)
def lemma_bcount_range(a: A[bool, 1], lo: int, hi: int):
    requires(lo <= hi)
    ensures(0 <= BCOUNT(a, lo, hi), BCOUNT(a, lo, hi) <= hi - lo)
    decreases(hi - lo)
    unfold(BCOUNT(a, lo, hi))
    if hi > lo:
        lemma_bcount_range(a, lo, hi - 1)


@lemma(shared=True)
def lemma_bcount_ext(a: A[bool, 1], b: A[bool, 1], lo: int, hi: int):
    requires(forall(lo, hi, lambda t: a[t] == b[t]))
    ensures(BCOUNT(a, lo, hi) == BCOUNT(b, lo, hi))
    decreases(hi - lo)
    unfold(BCOUNT(a, lo, hi), BCOUNT(b, lo, hi))
    if hi > lo:
        lemma_bcount_ext(a, b, lo, hi - 1)


@lemma(shared=True)
def lemma_bcount_clear(a: A[bool, 1], b: A[bool, 1], lo: int, hi: int, idx: int):
    """b = a with the True entry at idx cleared: one True fewer"""
    requires(lo <= idx, idx < hi, a[idx], not b[idx], forall(lo, hi, lambda t: implies(t != idx, a[t] == b[t])))
    ensures(BCOUNT(b, lo, hi) == BCOUNT(a, lo, hi) - 1)
    decreases(hi - lo)
    unfold(BCOUNT(a, lo, hi), BCOUNT(b, lo, hi))
    if idx < hi - 1:
        lemma_bcount_clear(a, b, lo, hi - 1, idx)
    else:
        lemma_bcount_ext(a, b, lo, hi - 1)


@lemma(shared=True)
def lemma_bcount_not(a: A[bool, 1], b: A[bool, 1], lo: int, hi: int):
    """b is the element-wise negation of a: the counts are complementary"""
    requires(lo <= hi, forall(lo, hi, lambda t: b[t] == (not a[t])))
    ensures(BCOUNT(b, lo, hi) == (hi - lo) - BCOUNT(a, lo, hi))
    decreases(hi - lo)
    unfold(BCOUNT(a, lo, hi), BCOUNT(b, lo, hi))
    if hi > lo:
        lemma_bcount_not(a, b, lo, hi - 1)


@lemma(shared=True)
def lemma_bcount_all(a: A[bool, 1], lo: int, hi: int):
    requires(lo <= hi, forall(lo, hi, lambda t: a[t]))
    ensures(BCOUNT(a, lo, hi) == hi - lo)
    decreases(hi - lo)
    unfold(BCOUNT(a, lo, hi))
    if hi > lo:
        lemma_bcount_all(a, lo, hi - 1)


@lemma(shared=True)
def lemma_isum_split(a: A[int, 1], lo: int, mid: int, hi: int):
    requires(lo <= mid, mid <= hi)
    ensures(ISUM(a, lo, hi) == ISUM(a, lo, mid) + ISUM(a, mid, hi))
    decreases(hi - mid)
    unfold(ISUM(a, lo, hi), ISUM(a, mid, hi))
    if hi > mid:
        lemma_isum_split(a, lo, mid, hi - 1)


@lemma(shared=True)
def lemma_isum_peel_left(a: A[int, 1], lo: int, hi: int):
    requires(lo < hi)
    ensures(ISUM(a, lo, hi) == a[lo] + ISUM(a, lo + 1, hi))
    lemma_isum_split(a, lo, lo + 1, hi)
    unfold(ISUM(a, lo, lo + 1), ISUM(a, lo, lo))


@lemma(shared=True)
def lemma_isum_zero(a: A[int, 1], lo: int, hi: int):
    requires(forall(lo, hi, lambda t: a[t] == 0))
    ensures(ISUM(a, lo, hi) == 0)
    decreases(hi - lo)
    unfold(ISUM(a, lo, hi))
    if hi > lo:
        lemma_isum_zero(a, lo, hi - 1)


@spec
def MSUM(a: A[int, 1], m: A[bool, 1], n: int) -> int:
    """sum of the entries of a[0:n] selected by the mask m"""
    decreases(n)
    if n <= 0:
        return 0
    return MSUM(a, m, n - 1) + ite(m[n - 1], a[n - 1], 0)


@lemma(shared=True)
def lemma_msel_sum(sel: A[int, 1], a: A[int, 1], m: A[bool, 1], n: int):
    """the sum of a boolean-mask selection a[m] is the masked sum of a"""
    requires(n >= 0, forall(0, n, lambda p: implies(m[p], sel[BCOUNT(m, 0, p)] == a[p])))
    ensures(ISUM(sel, 0, BCOUNT(m, 0, n)) == MSUM(a, m, n))
    decreases(n)
    unfold(MSUM(a, m, n), BCOUNT(m, 0, n))
    if n > 0:
        lemma_msel_sum(sel, a, m, n - 1)
        lemma_bcount_range(m, 0, n - 1)
        unfold(ISUM(sel, 0, BCOUNT(m, 0, n - 1) + 1))
    else:
        unfold(ISUM(sel, 0, 0))
