# C11 -- genotype <-> G-field index (combinatorial number system), mchap/jitutils.py


@spec
def IDX(g: A[int, 1], m: int) -> int:
    """VCF G-order index of the sorted allele tuple prefix g[0..m-1]:  sum_t cwr(g[t], t+1)"""
    decreases(m)
    if m <= 0:
        return 0
    return IDX(g, m - 1) + cwr(g[m - 1], m)


@spec
def CIDX(a: int, m: int) -> int:
    """IDX of the constant tuple (a, ..., a) of length m"""
    decreases(m)
    if m <= 0:
        return 0
    return CIDX(a, m - 1) + cwr(a, m)


@lemma
def lemma_binom_diag(n: int):
    requires(n >= 0)
    ensures(binom(n, n) == 1)
    lemma_binom_sym(n, n)
    unfold(binom(n, 0))


@lemma
def lemma_hockey(a: int, m: int):
    """sum_{t=1..m} cwr(a,t) + 1 == cwr(a+1,m)  (hockey-stick identity)"""
    requires(a >= 0, m >= 0)
    ensures(CIDX(a, m) + 1 == cwr(a + 1, m))
    decreases(m)
    unfold(CIDX(a, m))
    unfold(cwr(a + 1, m))
    if m == 0:
        unfold(binom(a, 0))
    else:
        lemma_hockey(a, m - 1)
        unfold(cwr(a + 1, m - 1))
        unfold(cwr(a, m))
        unfold(binom(a + m, m))


@lemma
def lemma_idx_const(g: A[int, 1], a: int, m: int):
    """a constant prefix has the index of the constant tuple"""
    requires(m >= 0, forall(0, m, lambda t: g[t] == a))
    ensures(IDX(g, m) == CIDX(a, m))
    decreases(m)
    unfold(IDX(g, m))
    unfold(CIDX(a, m))
    if m >= 1:
        lemma_idx_const(g, a, m - 1)


@lemma
def lemma_idx_frame(g: A[int, 1], h: A[int, 1], lo: int, m: int):
    """tuples that agree on [lo, m) have the same index contribution there"""
    requires(0 <= lo, lo <= m, forall(lo, m, lambda t: g[t] == h[t]))
    ensures(IDX(g, m) - IDX(g, lo) == IDX(h, m) - IDX(h, lo))
    decreases(m - lo)
    if lo < m:
        unfold(IDX(g, m))
        unfold(IDX(h, m))
        lemma_idx_frame(g, h, lo, m - 1)


@lemma
def lemma_idx_zero(g: A[int, 1], m: int):
    requires(m >= 0, forall(0, m, lambda t: g[t] == 0))
    ensures(IDX(g, m) == 0)
    lemma_idx_const(g, 0, m)
    lemma_hockey(0, m)
    unfold(cwr(1, m))
    lemma_binom_diag(m)


@contract("mchap.jitutils.increment_genotype", machine_ints=True, props=["C11"])
def increment_genotype(genotype: A[iN, 1]):
    requires(len(genotype) >= 1)
    requires(forall(0, len(genotype), lambda t: genotype[t] >= 0))
    requires(forall(1, len(genotype), lambda t: genotype[t - 1] <= genotype[t]))
    # the incremented allele still fits the array's integer type
    requires(genotype[len(genotype) - 1] < 2 ** 62, genotype[len(genotype) - 1] < dtype_max(genotype))
    modifies(genotype)
    # the successor in VCF order
    ensures(IDX(genotype, len(genotype)) == IDX(old(genotype), len(genotype)) + 1)
    ensures(forall(0, len(genotype), lambda t: genotype[t] >= 0))
    ensures(forall(1, len(genotype), lambda t: genotype[t - 1] <= genotype[t]))
    with loop(0):
        invariant(1 <= i, i <= ploidy, ploidy == len(genotype), ploidy >= 2)
        invariant(val(genotype) == old(genotype))
        invariant(previous == genotype[0])
        invariant(forall(0, i, lambda t: genotype[t] == previous))
    with after_stmt("genotype[0] += 1"):
        # haploid: IDX = cwr(a, 1) = a
        unfold(IDX(genotype, 1), IDX(old(genotype), 1), IDX(genotype, 0), IDX(old(genotype), 0))
        unfold(cwr(genotype[0], 1), cwr(old(genotype)[0], 1))
        unfold(binom(genotype[0], 1), binom(old(genotype)[0], 1), binom(genotype[0] - 1, 0), binom(old(genotype)[0] - 1, 0))
        unfold(binom(genotype[0] - 1, 1), binom(old(genotype)[0] - 1, 1))
        lemma_binom_one(genotype[0])
        lemma_binom_one(old(genotype)[0])
    with after_stmt("genotype[0:i] = 0"):
        # here i is the position that was incremented; old prefix 0..i is constant == previous
        lemma_idx_frame(genotype, old(genotype), i + 1, ploidy)
        lemma_idx_const(old(genotype), previous, i + 1)
        lemma_hockey(previous, i + 1)
        lemma_idx_zero(genotype, i)
        unfold(IDX(genotype, i + 1))
    with after_stmt("genotype[0:-1] = 0"):
        lemma_idx_const(old(genotype), previous, ploidy)
        lemma_hockey(previous, ploidy)
        lemma_idx_zero(genotype, ploidy - 1)
        unfold(IDX(genotype, ploidy))


@lemma
def lemma_binom_one(n: int):
    requires(n >= 0)
    ensures(binom(n, 1) == n)
    decreases(n)
    unfold(binom(n, 1))
    if n >= 1:
        lemma_binom_one(n - 1)
        unfold(binom(n - 1, 0))


@lemma
def lemma_cwr_nonneg(a: int, m: int):
    requires(a >= 0, m >= 0)
    ensures(cwr(a, m) >= 0)
    unfold(cwr(a, m))
    if a + m >= 1:
        lemma_binom_nonneg(a + m - 1, m)


@lemma
def lemma_cwr_pascal(a: int, m: int):
    requires(a >= 0, m >= 1)
    ensures(cwr(a + 1, m) == cwr(a + 1, m - 1) + cwr(a, m))
    unfold(cwr(a + 1, m), cwr(a + 1, m - 1), cwr(a, m))
    unfold(binom(a + m, m))


@lemma
def lemma_cwr_mono_n(a: int, b: int, m: int):
    requires(0 <= a, a <= b, m >= 0)
    ensures(cwr(a, m) <= cwr(b, m))
    unfold(cwr(a, m), cwr(b, m))
    if a + m >= 1:
        lemma_binom_mono_n(a + m - 1, b + m - 1, m)
    else:
        lemma_cwr_nonneg(b, m)
        unfold(cwr(b, m))


@lemma
def lemma_cwr_mono_k(b: int, m: int, p: int):
    requires(b >= 1, 0 <= m, m <= p)
    ensures(cwr(b, m) <= cwr(b, p))
    unfold(cwr(b, m), cwr(b, p))
    lemma_binom_sym(b + m - 1, m)
    lemma_binom_sym(b + p - 1, p)
    lemma_binom_mono_n(b + m - 1, b + p - 1, b - 1)


@lemma
def lemma_idx_bound(g: A[int, 1], m: int):
    """0 <= IDX(g,m) < cwr(g[m-1]+1, m) for a sorted non-negative tuple"""
    requires(m >= 1)
    requires(forall(0, m, lambda t: g[t] >= 0), forall(1, m, lambda t: g[t - 1] <= g[t]))
    ensures(0 <= IDX(g, m - 1), IDX(g, m - 1) <= IDX(g, m), IDX(g, m) < cwr(g[m - 1] + 1, m))
    decreases(m)
    unfold(IDX(g, m))
    lemma_cwr_nonneg(g[m - 1], m)
    lemma_cwr_pascal(g[m - 1], m)
    if m == 1:
        unfold(IDX(g, 0))
        unfold(cwr(g[0] + 1, 0))
        unfold(binom(g[0], 0))
    else:
        lemma_idx_bound(g, m - 1)
        lemma_cwr_mono_n(g[m - 2] + 1, g[m - 1] + 1, m - 1)


@lemma
def lemma_prefix_count(g: A[int, 1], m: int, p: int):
    """the genotype count of a prefix is at most the genotype count of the whole tuple"""
    requires(1 <= m, m <= p)
    requires(forall(0, p, lambda t: g[t] >= 0), forall(1, p, lambda t: g[t - 1] <= g[t]))
    ensures(cwr(g[m - 1] + 1, m) <= cwr(g[p - 1] + 1, p))
    lemma_sorted_le(g, m - 1, p - 1, p)
    lemma_cwr_mono_n(g[m - 1] + 1, g[p - 1] + 1, m)
    lemma_cwr_mono_k(g[p - 1] + 1, m, p)


@lemma
def lemma_sorted_le(g: A[int, 1], i: int, j: int, p: int):
    requires(0 <= i, i <= j, j < p, forall(1, p, lambda t: g[t - 1] <= g[t]))
    ensures(g[i] <= g[j])
    decreases(j - i)
    if i < j:
        lemma_sorted_le(g, i, j - 1, p)


@lemma
def lemma_cwr_ge_n(n: int, p: int):
    requires(n >= 1, p >= 1)
    ensures(cwr(n, p) >= n)
    lemma_cwr_mono_k(n, 1, p)
    unfold(cwr(n, 1))
    lemma_binom_one(n)


@contract("mchap.jitutils.genotype_alleles_as_index", machine_ints=True, props=["C11"])
def genotype_alleles_as_index(alleles: A[iN, 1]) -> int:
    requires(len(alleles) >= 1)
    requires(forall(0, len(alleles), lambda t: alleles[t] >= 0))
    requires(forall(1, len(alleles), lambda t: alleles[t - 1] <= alleles[t]))
    # fewer than 2^53 genotypes for (max allele + 1) alleles at this ploidy
    requires(cwr(alleles[len(alleles) - 1] + 1, len(alleles)) < 2 ** 53)
    ensures(result == IDX(alleles, len(alleles)))
    ensures(0 <= result, result < cwr(alleles[len(alleles) - 1] + 1, len(alleles)))
    with entry():
        unfold(IDX(alleles, 0))
        lemma_cwr_ge_n(alleles[len(alleles) - 1] + 1, len(alleles))
    with loop(0):
        invariant(0 <= i, i <= len(alleles), index == IDX(alleles, i), 0 <= index, index < 2 ** 53)
        with head():
            lemma_idx_bound(alleles, i + 1)
            lemma_prefix_count(alleles, i + 1, len(alleles))
            unfold(IDX(alleles, i + 1))
            lemma_cwr_nonneg(alleles[i], i + 1)
            lemma_sorted_le(alleles, i, len(alleles) - 1, len(alleles))
            lemma_cwr_safe(alleles[i], i + 1)
    with exit_():
        lemma_idx_bound(alleles, len(alleles))


@lemma
def lemma_pow2_54():
    ensures(pow2(54) == 2 ** 54)
    lemma_pow2_53()
    lemma_pow2_add(53, 1)
    unfold(pow2(1), pow2(0))


@lemma
def lemma_probe_safe(n1: int, p: int):
    """the coefficient probed one step beyond a value < 2^53 still satisfies SAFE (ploidy <= 255)"""
    requires(n1 >= 2, 1 <= p, p <= 255, cwr(n1 - 1, p) < 2 ** 53)
    ensures(binom(n1 + p - 1, p) * min(p, n1 - 1) < 2 ** 63)
    unfold(cwr(n1 - 1, p))
    lemma_binom_mult2(n1 + p - 1, p)
    lemma_binom_nonneg(n1 + p - 1, p)
    lemma_binom_nonneg(n1 + p - 2, p)
    if p <= n1 - 1:
        assert_(binom(n1 + p - 2, p) * (n1 + p - 1) <= binom(n1 + p - 2, p) * (2 * (n1 - 1)))
        assert_(binom(n1 + p - 1, p) * (n1 - 1) <= (2 * binom(n1 + p - 2, p)) * (n1 - 1))
        assert_(binom(n1 + p - 1, p) <= 2 * binom(n1 + p - 2, p))
        if p >= 54:
            lemma_central(p)
            lemma_binom_mono_n(2 * p, n1 + p - 1, p)
            lemma_pow2_mono(54, p)
            lemma_pow2_54()
        assert_(binom(n1 + p - 1, p) * p <= binom(n1 + p - 1, p) * 53)
    else:
        assert_(binom(n1 + p - 2, p) * (n1 + p - 1) <= binom(n1 + p - 2, p) * 510)


@lemma
def lemma_cwr_zero(p: int):
    requires(p >= 1)
    ensures(cwr(0, p) == 0)
    unfold(cwr(0, p))
    unfold(binom(p - 1, p))


@contract("mchap.jitutils.index_as_genotype_alleles", machine_ints=True, props=["C11"], dead_branches=["if index < 0 @0 then"])
def index_as_genotype_alleles(index: int, ploidy: int) -> A[i8, 1]:
    requires(0 <= index, index < 2 ** 53)
    requires(1 <= ploidy, ploidy <= 255)  # side condition of the overflow proof of the last probe
    ensures(len(result) == ploidy)
    ensures(forall(0, ploidy, lambda t: result[t] >= 0))
    ensures(forall(1, ploidy, lambda t: result[t - 1] <= result[t]))
    # right inverse of genotype_alleles_as_index
    ensures(IDX(result, ploidy) == old(index))
    with loop(0):
        invariant(0 <= index, index <= ploidy, 0 <= remainder, remainder < 2 ** 53, len(out) == ploidy)
        invariant(old(index) == remainder + IDX(out, ploidy) - IDX(out, ploidy - index))
        invariant(forall(ploidy - index, ploidy, lambda q: out[q] >= 0))
        invariant(forall(ploidy - index + 1, ploidy, lambda q: out[q - 1] <= out[q]))
        invariant(implies(index >= 1, remainder < cwr(out[ploidy - index] + 1, ploidy - index)))
    with loop(1):
        invariant(n >= -1, new >= 0, prev >= 0, prev <= remainder)
        invariant(new == ite(n >= 0, cwr(n, p), 0))
        invariant(prev == ite(n >= 1, cwr(n - 1, p), 0))
        decreases(remainder + 2 - n)
        with head():
            if n >= 1:
                lemma_cwr_ge_n(n, p)
                lemma_probe_safe(n + 1, p)
            lemma_cwr_nonneg(n + 1, p)
        with after():
            lemma_cwr_zero(p)
    with after_stmt("out[p - 1] = n"):
        # n is the chosen allele a: cwr(a,p) = prev <= old remainder < cwr(a+1,p)
        lemma_idx_frame(out, at("loop1", out), p, ploidy)
        unfold(IDX(out, p))
        lemma_idx_frame(out, at("loop1", out), 0, p - 1)
        lemma_cwr_pascal(n, p)
        if index >= 1:
            if n >= at("loop1", out)[p] + 1:
                lemma_cwr_mono_n(at("loop1", out)[p] + 1, n, p)
    with exit_():
        unfold(cwr(result[0] + 1, 0))
        unfold(binom(result[0], 0))
        unfold(IDX(result, 0))


@lemma
def lemma_idx_lower(g: A[int, 1], m: int):
    """IDX(g,m) >= cwr(g[m-1], m)"""
    requires(m >= 1, forall(0, m, lambda t: g[t] >= 0), forall(1, m, lambda t: g[t - 1] <= g[t]))
    ensures(IDX(g, m) >= cwr(g[m - 1], m))
    lemma_idx_bound(g, m)
    unfold(IDX(g, m))


@lemma
def lemma_idx_inj(g: A[int, 1], h: A[int, 1], m: int):
    """IDX is injective on sorted non-negative tuples (with the right-inverse above: a bijection)"""
    requires(m >= 0)
    requires(forall(0, m, lambda t: g[t] >= 0), forall(1, m, lambda t: g[t - 1] <= g[t]))
    requires(forall(0, m, lambda t: h[t] >= 0), forall(1, m, lambda t: h[t - 1] <= h[t]))
    requires(IDX(g, m) == IDX(h, m))
    ensures(forall(0, m, lambda t: g[t] == h[t]))
    decreases(m)
    if m >= 1:
        lemma_idx_bound(g, m)
        lemma_idx_bound(h, m)
        lemma_idx_lower(g, m)
        lemma_idx_lower(h, m)
        if g[m - 1] < h[m - 1]:
            lemma_cwr_mono_n(g[m - 1] + 1, h[m - 1], m)
        if h[m - 1] < g[m - 1]:
            lemma_cwr_mono_n(h[m - 1] + 1, g[m - 1], m)
        unfold(IDX(g, m), IDX(h, m))
        lemma_idx_inj(g, h, m - 1)


@lemma
def lemma_idx_range(g: A[int, 1], m: int, n_alleles: int):
    """position < number of genotypes  <=>  every allele is a listed allele"""
    requires(m >= 1, n_alleles >= 1)
    requires(forall(0, m, lambda t: g[t] >= 0), forall(1, m, lambda t: g[t - 1] <= g[t]))
    ensures((IDX(g, m) < cwr(n_alleles, m)) == (g[m - 1] < n_alleles))
    lemma_idx_bound(g, m)
    lemma_idx_lower(g, m)
    if g[m - 1] < n_alleles:
        lemma_cwr_mono_n(g[m - 1] + 1, n_alleles, m)
    else:
        lemma_cwr_mono_n(n_alleles, g[m - 1], m)
