# C05 / C02 -- mchap/calling/prior.py : the genotype prior of call / call-exact and its single-allele conditional


@contract("mchap.calling.prior.calculate_alphas", inline=True, props=["C05", "C02"])
def calculate_alphas(inbreeding: float, frequencies: float) -> float:
    pass


@spec_inline
def ALPHA(F: float, freq: float) -> float:
    """Dirichlet-multinomial dispersion of an allele: frequency x (1 - F) / F"""
    return freq * ((1 - F) / F)


@contract("mchap.calling.prior.log_genotype_allele_prior", machine_ints=True, props=["C05", "C02"])
def log_genotype_allele_prior(genotype: A[iN, 1], variable_allele: int, unique_haplotypes: int, inbreeding: float, frequencies: Opt[A[f8, 1]]) -> float:
    requires(0 <= inbreeding, inbreeding < 1, unique_haplotypes >= 1, len(genotype) >= 1)
    requires(0 <= variable_allele, variable_allele < len(genotype))
    requires(forall(0, len(genotype), lambda i: 0 <= genotype[i] and genotype[i] < unique_haplotypes))
    requires(implies(frequencies is not None, len(frequencies) == unique_haplotypes and forall(0, unique_haplotypes, lambda a: finite(frequencies[a]) and frequencies[a] >= 0)))
    requires(implies(frequencies is not None, FSUM(frequencies, 0, unique_haplotypes) > 0))
    # proved domain: with inbreeding the resampled allele has positive prior frequency (lgamma(0) = +inf is not modelled)
    requires(implies(frequencies is not None and inbreeding > 0, frequencies[genotype[variable_allele]] > 0))
    # the exact conditional of one allele copy given the others (Polya urn):
    #   F == 0:  the allele frequency;   F > 0:  (alpha_a + copies of a among the others) / (sum alpha + ploidy - 1)
    ensures(not isnan(result))
    ensures(exp(result) == ite(inbreeding == 0, FREQ, (ALPHA(inbreeding, FREQ) + OTHERS) / (ALPHA(inbreeding, FTOT) + len(genotype) - 1)))
    with defs():
        FREQ = ite(frequencies is None, 1 / unique_haplotypes, frequencies[genotype[variable_allele]])
        FTOT = ite(frequencies is None, 1.0, FSUM(frequencies, 0, unique_haplotypes))
        OTHERS = CNT(genotype, genotype[variable_allele], len(genotype)) - 1
    with before_stmt("return np.log(1 / unique_haplotypes)"):
        ax_exp_log(1 / unique_haplotypes)
    with before_stmt("return np.log(frequencies[genotype[variable_allele]])"):
        ax_exp_log(frequencies[genotype[variable_allele]])
    with after_stmt("constant_ibs = count_allele(genotype, genotype[variable_allele]) - 1"):
        lemma_cnt_range(genotype, genotype[variable_allele], len(genotype))
        lemma_cnt_pos(genotype, len(genotype), variable_allele)
    with before_stmt("left = lgamma(sum_alpha) - lgamma(1 + sum_alpha)"):
        ax_lgamma_rec(sum_alpha)
        ax_lgamma_rec(variable_alpha)
        ax_log_div(variable_alpha, sum_alpha)
        ax_exp_log(variable_alpha / sum_alpha)
    with after_stmt("alphas = calculate_alphas(inbreeding, frequencies)"):
        lemma_fsum_scale(frequencies, alphas, (1 - inbreeding) / inbreeding, 0, unique_haplotypes)
