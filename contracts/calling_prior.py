# C05 / C02 -- mchap/calling/prior.py : the genotype prior of call / call-exact and its single-allele conditional


@contract("mchap.calling.prior.calculate_alphas", inline=True, props=["C05", "C02"])
def calculate_alphas(inbreeding: float, frequencies: float) -> float:
    pass


@spec_inline
def ALPHA(F: float, freq: float) -> float:
    """Dirichlet-multinomial dispersion of an allele: frequency x (1 - F) / F"""
    return freq * ((1 - F) / F)


@contract("mchap.calling.prior.log_genotype_allele_prior", machine_ints=True, props=["C05", "C02"])
def log_genotype_allele_prior(genotype: A[iN, 1], variable_allele: int, unique_haplotypes: int, inbreeding: float, frequencies: Opt[A[f8, 1]]) -> float:
    requires(0 <= inbreeding, inbreeding < 1, unique_haplotypes >= 1, len(genotype) >= 1)
    requires(0 <= variable_allele, variable_allele < len(genotype))
    requires(forall(0, len(genotype), lambda i: 0 <= genotype[i] and genotype[i] < unique_haplotypes))
    requires(implies(frequencies is not None, len(frequencies) == unique_haplotypes and forall(0, unique_haplotypes, lambda a: finite(frequencies[a]) and frequencies[a] >= 0)))
    requires(implies(frequencies is not None, FSUM(frequencies, 0, unique_haplotypes) > 0))
    # proved domain: with inbreeding the resampled allele has positive prior frequency (lgamma(0) = +inf is not modelled)
    requires(implies(frequencies is not None and inbreeding > 0, frequencies[genotype[variable_allele]] > 0))
    # the exact conditional of one allele copy given the others (Polya urn):
    #   F == 0:  the allele frequency;   F > 0:  (alpha_a + copies of a among the others) / (sum alpha + ploidy - 1)
    ensures(not isnan(result))
    ensures(exp(result) == ite(inbreeding == 0, FREQ, (ALPHA(inbreeding, FREQ) + OTHERS) / (ALPHA(inbreeding, FTOT) + len(genotype) - 1)))
    with defs():
        FREQ = ite(frequencies is None, 1 / unique_haplotypes, frequencies[genotype[variable_allele]])
        FTOT = ite(frequencies is None, 1.0, FSUM(frequencies, 0, unique_haplotypes))
        OTHERS = CNT(genotype, genotype[variable_allele], len(genotype)) - 1
    with before_stmt("return np.log(1 / unique_haplotypes)"):
        ax_exp_log(1 / unique_haplotypes)
    with before_stmt("return np.log(frequencies[genotype[variable_allele]])"):
        ax_exp_log(frequencies[genotype[variable_allele]])
    with after_stmt("constant_ibs = count_allele(genotype, genotype[variable_allele]) - 1"):
        lemma_cnt_range(genotype, genotype[variable_allele], len(genotype))
        lemma_cnt_pos(genotype, len(genotype), variable_allele)
    with before_stmt("left = lgamma(sum_alpha) - lgamma(1 + sum_alpha)"):
        ax_lgamma_rec(sum_alpha)
        ax_lgamma_rec(variable_alpha)
        ax_log_div(variable_alpha, sum_alpha)
        ax_exp_log(variable_alpha / sum_alpha)
    with after_stmt("alphas = calculate_alphas(inbreeding, frequencies)"):
        lemma_fsum_scale(frequencies, alphas, (1 - inbreeding) / inbreeding, 0, unique_haplotypes)


@spec
def LGSUMG(g: A[int, 1], P: int, n: int) -> float:
    """sum over the distinct alleles first seen at i < n of lgamma(copies + 1)"""
    decreases(n)
    if n <= 0:
        return 0.0
    return LGSUMG(g, P, n - 1) + ite(FIRST(g, n - 1), lgamma(CNT(g, g[n - 1], P) + 1), 0.0)


@spec
def FPROD(f: A[float, 1], g: A[int, 1], n: int) -> float:
    """product over the copies i < n of the frequency of allele g[i]"""
    decreases(n)
    if n <= 0:
        return 1.0
    return FPROD(f, g, n - 1) * f[g[n - 1]]


@spec
def DMSUMC(g: A[int, 1], P: int, al: float, n: int) -> float:
    """flat dispersion al: sum over distinct alleles first seen at i < n of
    lgamma(copies + al) - lgamma(copies + 1) - lgamma(al)"""
    decreases(n)
    if n <= 0:
        return 0.0
    return DMSUMC(g, P, al, n - 1) + ite(FIRST(g, n - 1), lgamma(CNT(g, g[n - 1], P) + al) - (lgamma(CNT(g, g[n - 1], P) + 1) + lgamma(al)), 0.0)


@spec
def DMSUMF(g: A[int, 1], P: int, f: A[float, 1], c: float, n: int) -> float:
    """per-allele dispersion f[a] * c"""
    decreases(n)
    if n <= 0:
        return 0.0
    return DMSUMF(g, P, f, c, n - 1) + ite(FIRST(g, n - 1), lgamma(CNT(g, g[n - 1], P) + f[g[n - 1]] * c) - (lgamma(CNT(g, g[n - 1], P) + 1) + lgamma(f[g[n - 1]] * c)), 0.0)


@spec_inline
def CPRIOR_FLAT(g: A[int, 1], P: int, u: int, F: float) -> float:
    """call / call-exact genotype prior without prior frequencies: multinomial (F == 0) or
    Dirichlet-multinomial with dispersion (1/u)(1-F)/F per allele, over unordered genotypes"""
    return ite(F == 0, lgamma(P + 1) - LGSUMG(g, P, P) - P * log(u), lgamma(P + 1) + lgamma(ALPHA(F, 1 / u) * u) - lgamma(P + ALPHA(F, 1 / u) * u) + DMSUMC(g, P, ALPHA(F, 1 / u), P))


@spec_inline
def CPRIOR_FREQ(g: A[int, 1], P: int, f: A[float, 1], u: int, F: float) -> float:
    """... with prior allele frequencies f: dispersion f[a] (1-F)/F"""
    return ite(F == 0, lgamma(P + 1) - LGSUMG(g, P, P) + log(FPROD(f, g, P)), lgamma(P + 1) + lgamma(ALPHA(F, FSUM(f, 0, u))) - lgamma(P + ALPHA(F, FSUM(f, 0, u))) + DMSUMF(g, P, f, (1 - F) / F, P))


@lemma
def lemma_dmsum_dosage(d: A[int, 1], g: A[int, 1], P: int, al: float, n: int):
    requires(P >= 0, n <= P, forall(0, n, lambda j: d[j] == ite(FIRST(g, j), CNT(g, g[j], P), 0)))
    ensures(DMSUM(d, al, n) == DMSUMC(g, P, al, n))
    decreases(n)
    unfold(DMSUM(d, al, n), DMSUMC(g, P, al, n))
    if n > 0:
        lemma_dmsum_dosage(d, g, P, al, n - 1)
        lemma_cnt_pos(g, P, n - 1)


@lemma(props=["C05"])
def lemma_assemble_prior_is_flat_call_prior(d: A[int, 1], g: A[int, 1], P: int, u: int, F: float):
    """C05: the assemble prior (over the dosage of a genotype, all u = exp(lu) possible haplotypes equally
    frequent) equals the call prior with flat frequencies over u alleles, for the genotype g whose
    first-occurrence dosage is d"""
    requires(P >= 1, u >= 1, 0 <= F, F < 1, ISUM(d, 0, P) == P)
    requires(forall(0, P, lambda j: d[j] == ite(FIRST(g, j), CNT(g, g[j], P), 0)))
    ensures(LAPRIOR(d, P, log(u), F) == CPRIOR_FLAT(g, P, u, F))
    lemma_lgsum_dosage(d, g, P, P)
    if F > 0:
        lemma_dmsum_dosage(d, g, P, ALPHA(F, 1 / u), P)
        # exp(log((1-F)/F) - log u) = ((1-F)/F) / u   and   exp(log((1-F)/F) - log u + log u) = (1-F)/F
        ax_log_div((1 - F) / F, u)
        ax_exp_log(((1 - F) / F) / u)
        ax_exp_log((1 - F) / F)


@lemma
def lemma_lgsum_dosage(d: A[int, 1], g: A[int, 1], P: int, n: int):
    """the log-factorial sum over a dosage array equals the sum over distinct alleles of the genotype"""
    requires(forall(0, n, lambda j: d[j] == ite(FIRST(g, j), CNT(g, g[j], P), 0)))
    ensures(LGSUM(d, n) == LGSUMG(g, P, n))
    decreases(n)
    unfold(LGSUM(d, n), LGSUMG(g, P, n))
    ax_lgamma_one()
    if n > 0:
        lemma_lgsum_dosage(d, g, P, n - 1)


@contract("mchap.calling.prior.log_genotype_prior", machine_ints=True, props=["C05", "C02"])
def log_genotype_prior(genotype: A[iN, 1], unique_haplotypes: int, inbreeding: float, frequencies: Opt[A[f8, 1]]) -> float:
    requires(0 <= inbreeding, inbreeding < 1, unique_haplotypes >= 1, len(genotype) >= 1, len(genotype) <= 127)
    requires(forall(0, len(genotype), lambda i: 0 <= genotype[i] and genotype[i] < unique_haplotypes))
    requires(implies(frequencies is not None, len(frequencies) == unique_haplotypes and forall(0, unique_haplotypes, lambda a: finite(frequencies[a]) and frequencies[a] >= 0)))
    requires(implies(frequencies is not None, FSUM(frequencies, 0, unique_haplotypes) > 0))
    # proved domain: with inbreeding every allele of the genotype has positive prior frequency (lgamma(0) = +inf is not modelled)
    requires(implies(frequencies is not None and inbreeding > 0, forall(0, len(genotype), lambda i: frequencies[genotype[i]] > 0)))
    ensures(not isnan(result))
    # multinomial (F == 0) / Dirichlet-multinomial (F > 0, dispersion frequency x (1-F)/F) over unordered genotypes
    ensures(implies(frequencies is None, result == CPRIOR_FLAT(genotype, P, unique_haplotypes, inbreeding)))
    ensures(implies(frequencies is not None, result == CPRIOR_FREQ(genotype, P, frequencies, unique_haplotypes, inbreeding)))
    with defs():
        P = len(genotype)
    with after_stmt("ln_perms = ln_equivalent_permutations(dosage)"):
        lemma_lgsum_dosage(dosage, genotype, P, P)
    with before_stmt("prod = 1"):
        unfold(FPROD(frequencies, genotype, 0))
    with before_stmt("prod = 0.0"):
        unfold(DMSUMC(genotype, P, ALPHA(inbreeding, 1 / unique_haplotypes), 0))
        if frequencies is not None:
            unfold(DMSUMF(genotype, P, frequencies, (1 - inbreeding) / inbreeding, 0))
    with loop(0):
        invariant(0 <= i, i <= ploidy, ploidy == P, prod == FPROD(frequencies, genotype, i), prod >= 0)
        with head():
            unfold(FPROD(frequencies, genotype, i + 1))
    with after_stmt("alphas = calculate_alphas(inbreeding, frequencies)"):
        lemma_fsum_scale(frequencies, alphas, (1 - inbreeding) / inbreeding, 0, unique_haplotypes)
    with loop(1):
        invariant(0 <= i, i <= ploidy, ploidy == P, finite(prod))
        invariant(implies(frequencies is None, prod == DMSUMC(genotype, P, ALPHA(inbreeding, 1 / unique_haplotypes), i)))
        invariant(implies(frequencies is not None, prod == DMSUMF(genotype, P, frequencies, (1 - inbreeding) / inbreeding, i)))
        with head():
            unfold(DMSUMC(genotype, P, ALPHA(inbreeding, 1 / unique_haplotypes), i + 1))
            if frequencies is not None:
                unfold(DMSUMF(genotype, P, frequencies, (1 - inbreeding) / inbreeding, i + 1))
            lemma_cnt_pos(genotype, P, i)


# ---- the prior depends on the genotype only through its first P entries


@lemma(shared=True)
def lemma_lgsumg_ext(g: A[int, 1], h: A[int, 1], P: int, n: int):
    requires(n <= P, forall(0, P, lambda i: g[i] == h[i]))
    ensures(LGSUMG(g, P, n) == LGSUMG(h, P, n))
    decreases(n)
    unfold(LGSUMG(g, P, n), LGSUMG(h, P, n))
    if n > 0:
        lemma_lgsumg_ext(g, h, P, n - 1)
        lemma_cnt_ext(g, h, g[n - 1], P)
        lemma_cnt_ext(g, h, g[n - 1], n - 1)


@lemma(shared=True)
def lemma_dmsumc_ext(g: A[int, 1], h: A[int, 1], P: int, al: float, n: int):
    requires(n <= P, forall(0, P, lambda i: g[i] == h[i]))
    ensures(DMSUMC(g, P, al, n) == DMSUMC(h, P, al, n))
    decreases(n)
    unfold(DMSUMC(g, P, al, n), DMSUMC(h, P, al, n))
    if n > 0:
        lemma_dmsumc_ext(g, h, P, al, n - 1)
        lemma_cnt_ext(g, h, g[n - 1], P)
        lemma_cnt_ext(g, h, g[n - 1], n - 1)


@lemma(shared=True)
def lemma_dmsumf_ext(g: A[int, 1], h: A[int, 1], P: int, f: A[float, 1], c: float, n: int):
    requires(n <= P, forall(0, P, lambda i: g[i] == h[i]))
    ensures(DMSUMF(g, P, f, c, n) == DMSUMF(h, P, f, c, n))
    decreases(n)
    unfold(DMSUMF(g, P, f, c, n), DMSUMF(h, P, f, c, n))
    if n > 0:
        lemma_dmsumf_ext(g, h, P, f, c, n - 1)
        lemma_cnt_ext(g, h, g[n - 1], P)
        lemma_cnt_ext(g, h, g[n - 1], n - 1)


@lemma(shared=True)
def lemma_fprod_ext(f: A[float, 1], g: A[int, 1], h: A[int, 1], n: int):
    requires(forall(0, n, lambda i: g[i] == h[i]))
    ensures(FPROD(f, g, n) == FPROD(f, h, n))
    decreases(n)
    unfold(FPROD(f, g, n), FPROD(f, h, n))
    if n > 0:
        lemma_fprod_ext(f, g, h, n - 1)


@lemma(shared=True)
def lemma_cprior_flat_ext(g: A[int, 1], h: A[int, 1], P: int, u: int, F: float):
    requires(P >= 0, forall(0, P, lambda i: g[i] == h[i]))
    ensures(CPRIOR_FLAT(g, P, u, F) == CPRIOR_FLAT(h, P, u, F))
    lemma_lgsumg_ext(g, h, P, P)
    lemma_dmsumc_ext(g, h, P, ALPHA(F, 1 / u), P)


@lemma(shared=True)
def lemma_cprior_freq_ext(g: A[int, 1], h: A[int, 1], P: int, f: A[float, 1], u: int, F: float):
    requires(P >= 0, forall(0, P, lambda i: g[i] == h[i]))
    ensures(same(CPRIOR_FREQ(g, P, f, u, F), CPRIOR_FREQ(h, P, f, u, F)))
    lemma_lgsumg_ext(g, h, P, P)
    lemma_fprod_ext(f, g, h, P)
    lemma_dmsumf_ext(g, h, P, f, (1 - F) / F, P)


@lemma(shared=True)
def lemma_fprod_pos(f: A[float, 1], g: A[int, 1], n: int):
    requires(forall(0, n, lambda i: real(f[g[i]]) > 0))
    ensures(FPROD(f, g, n) > 0)
    decreases(n)
    unfold(FPROD(f, g, n))
    if n > 0:
        lemma_fprod_pos(f, g, n - 1)
