# C02 / C09 -- mchap/calling/mcmc.py : the allele-resampling moves of mchap call


@spec
def ARPU(reads: A[float, 3], H: A[int, 2], g: A[int, 1], k: int, a: int, r: int, h: int, N: int, P: int) -> float:
    """ARP of the genotype g with copy k replaced by allele a"""
    decreases(h)
    if h <= 0:
        return 0.0
    return ARPU(reads, H, g, k, a, r, h - 1, N, P) + RHP(reads, H, r, ite(h - 1 == k, a, g[h - 1]), N) / P


@spec
def LLKAU(reads: A[float, 3], counts: A[int, 1], H: A[int, 2], g: A[int, 1], k: int, a: int, P: int, N: int, n: int) -> xfloat:
    """likelihood of the genotype g with copy k replaced by allele a"""
    decreases(n)
    if n <= 0:
        return 0.0
    return LLKAU(reads, counts, H, g, k, a, P, N, n - 1) + log(ARPU(reads, H, g, k, a, n - 1, P, N, P)) * counts[n - 1]


@lemma(shared=True)
def lemma_arpu(reads: A[float, 3], H: A[int, 2], g: A[int, 1], g2: A[int, 1], k: int, a: int, r: int, h: int, N: int, P: int):
    requires(forall(0, h, lambda i: g2[i] == ite(i == k, a, g[i])))
    ensures(ARP(reads, H, g2, r, h, N, P) == ARPU(reads, H, g, k, a, r, h, N, P))
    decreases(h)
    unfold(ARP(reads, H, g2, r, h, N, P), ARPU(reads, H, g, k, a, r, h, N, P))
    if h >= 1:
        lemma_arpu(reads, H, g, g2, k, a, r, h - 1, N, P)


@lemma(shared=True)
def lemma_llkau(reads: A[float, 3], counts: A[int, 1], H: A[int, 2], g: A[int, 1], g2: A[int, 1], k: int, a: int, P: int, N: int, n: int):
    """g2 = g[k := a]:  LLKA(g2) == LLKAU(g, k, a)"""
    requires(forall(0, P, lambda i: g2[i] == ite(i == k, a, g[i])))
    ensures(same(LLKA(reads, counts, H, g2, P, N, n), LLKAU(reads, counts, H, g, k, a, P, N, n)))
    decreases(n)
    unfold(LLKA(reads, counts, H, g2, P, N, n), LLKAU(reads, counts, H, g, k, a, P, N, n))
    if n >= 1:
        lemma_llkau(reads, counts, H, g, g2, k, a, P, N, n - 1)
        lemma_arpu(reads, H, g, g2, k, a, n - 1, P, N, P)


@spec_inline
def CONDP(g: A[int, 1], k: int, a: int, P: int, F: float, freq_a: float, ftot: float) -> float:
    """prior probability that copy k is allele a given the other copies (Polya urn):
    F == 0: the allele frequency;  F > 0: (alpha_a + copies of a among the others) / (sum alpha + P - 1)"""
    return ite(F == 0, freq_a, (ALPHA(F, freq_a) + CNT(g, a, P) - ite(g[k] == a, 1, 0)) / (ALPHA(F, ftot) + P - 1))


@contract("mchap.calling.mcmc.gibbs_options", machine_ints=True, props=["C02", "C09"])
def gibbs_options(genotype_alleles: A[iN, 1], variable_allele: int, haplotypes: A[i1, 2], reads: A[f8, 3], read_counts: Opt[A[i8, 1]], inbreeding: float, llks_array: A[f8, 1], lpriors_array: A[f8, 1], probabilities_array: A[f8, 1], frequencies: Opt[A[f8, 1]], llk_cache: Opt[FDict]):
    requires(U >= 1, U <= 127, P >= 1, len(llks_array) == U, len(lpriors_array) == U, len(probabilities_array) == U)
    requires(0 <= variable_allele, variable_allele < P, 0 <= inbreeding, inbreeding < 1)
    requires(reads.shape[1] == haplotypes.shape[1])
    requires(implies(read_counts is not None, len(read_counts) == len(reads) and forall(0, len(reads), lambda r: read_counts[r] >= 1)))
    requires(VALIDA(genotype_alleles, P, U), CALLOK(reads, haplotypes, U, haplotypes.shape[1], reads.shape[2], len(reads)))
    requires(implies(frequencies is not None, len(frequencies) == U and forall(0, U, lambda a: finite(frequencies[a]) and frequencies[a] >= 0) and FSUM(frequencies, 0, U) > 0))
    # proved domain: with inbreeding every allele has positive prior frequency (lgamma(0) = +inf is not modelled)
    requires(implies(frequencies is not None and inbreeding > 0, forall(0, U, lambda a: frequencies[a] > 0)))
    requires(implies(llk_cache is not None, cwr(U, P) < 2 ** 53 and DCOH(llk_cache, reads, CN, haplotypes, P, NN, len(reads), U)))
    # the current state is possible (otherwise no option need be)
    requires(not isninf(LLKA(reads, CN, haplotypes, genotype_alleles, P, NN, len(reads))))
    requires(implies(frequencies is not None, frequencies[genotype_alleles[variable_allele]] > 0))
    modifies(genotype_alleles, llks_array, lpriors_array, probabilities_array, llk_cache)
    # the genotype is restored
    ensures(forall(0, P, lambda i: genotype_alleles[i] == old(genotype_alleles)[i]))
    # C09: every option's likelihood is the likelihood of the genotype with copy k replaced
    ensures(forall(0, U, lambda a: not isnan(llks_array[a]) and llks_array[a] == LLKAU(reads, CN, haplotypes, old(genotype_alleles), variable_allele, a, P, NN, len(reads))))
    # the prior term is the exact conditional of copy k given the others
    ensures(forall(0, U, lambda a: not isnan(lpriors_array[a]) and exp(lpriors_array[a]) == CONDP(old(genotype_alleles), variable_allele, a, P, inbreeding, ite(frequencies is None, 1 / U, frequencies[a]), FTOT)))
    # C02: the option probabilities are the normalised products likelihood x conditional prior
    ensures(FSUM(probabilities_array, 0, U) == 1)
    ensures(forall(0, U, lambda a: finite(probabilities_array[a]) and probabilities_array[a] >= 0))
    ensures(forall(0, U, lambda a: forall(0, U, lambda b: PROPTO(probabilities_array[a], exp(llks_array[a] + lpriors_array[a]), probabilities_array[b], exp(llks_array[b] + lpriors_array[b])))))
    ensures(implies(llk_cache is not None, DCOH(llk_cache, reads, CN, haplotypes, P, NN, len(reads), U)))
    with defs():
        P = len(genotype_alleles)
        U = len(haplotypes)
        NN = haplotypes.shape[1]
        CN = ones_if_none(read_counts)
        FTOT = ite(frequencies is None, 1.0, FSUM(frequencies, 0, U))
    with entry():
        lemma_llkau(reads, CN, haplotypes, genotype_alleles, genotype_alleles, variable_allele, genotype_alleles[variable_allele], P, NN, len(reads))
        lemma_cnt_pos(genotype_alleles, P, variable_allele)
    with loop(0):
        invariant(0 <= a, a <= U, unique_haplotypes == U, current_allele == old(genotype_alleles)[variable_allele])
        invariant(len(genotype_alleles) == P, len(llks_array) == U, len(lpriors_array) == U, len(probabilities_array) == U)
        invariant(forall(0, P, lambda i: implies(i != variable_allele, genotype_alleles[i] == old(genotype_alleles)[i])))
        invariant(0 <= genotype_alleles[variable_allele], genotype_alleles[variable_allele] < U)
        invariant(forall(0, a, lambda b: not isnan(llks_array[b]) and llks_array[b] == LLKAU(reads, CN, haplotypes, old(genotype_alleles), variable_allele, b, P, NN, len(reads))))
        invariant(forall(0, a, lambda b: not isnan(lpriors_array[b]) and exp(lpriors_array[b]) == CONDP(old(genotype_alleles), variable_allele, b, P, inbreeding, ite(frequencies is None, 1 / U, frequencies[b]), FTOT)))
        invariant(implies(llk_cache is not None, DCOH(llk_cache, reads, CN, haplotypes, P, NN, len(reads), U)))
    with after_stmt("genotype_alleles[variable_allele] = a"):
        lemma_cnt_upd(old(genotype_alleles), genotype_alleles, a, P, variable_allele)
        lemma_llkau(reads, CN, haplotypes, old(genotype_alleles), genotype_alleles, variable_allele, a, P, NN, len(reads))
    with before_call("normalise_log_probs", 0):
        W = normalise_log_probs_arg_llks
        lemma_esum_pos(W, 0, U, current_allele)
    with after_stmt("probabilities_array[:] = normalise_log_probs(llks_array + lpriors_array)"):
        lemma_fsum_ext(probabilities_array, normalise_log_probs_result, 0, U)
        with forall_intro(a2, 0, U, forall(0, U, lambda b: PROPTO(probabilities_array[a2], exp(llks_array[a2] + lpriors_array[a2]), probabilities_array[b], exp(llks_array[b] + lpriors_array[b])))):
            with forall_intro(b2, 0, U, PROPTO(probabilities_array[a2], exp(llks_array[a2] + lpriors_array[a2]), probabilities_array[b2], exp(llks_array[b2] + lpriors_array[b2]))):
                unfold(PROPTO(probabilities_array[a2], exp(llks_array[a2] + lpriors_array[a2]), probabilities_array[b2], exp(llks_array[b2] + lpriors_array[b2])))
                lemma_shares_proportional(probabilities_array[a2], probabilities_array[b2], ESUM(W, 0, U), exp(llks_array[a2] + lpriors_array[a2]), exp(llks_array[b2] + lpriors_array[b2]))


@spec
def JPU_FLAT(g: A[int, 1], k: int, a: int, P: int, U: int, F: float) -> float:
    """joint genotype prior (flat frequencies) of g with copy k replaced by allele a"""
    return CPRIOR_FLAT(arr1(lambda i: ite(i == k, a, g[i])), P, U, F)


@spec
def JPU_FREQ(g: A[int, 1], k: int, a: int, P: int, f: A[float, 1], U: int, F: float) -> float:
    return CPRIOR_FREQ(arr1(lambda i: ite(i == k, a, g[i])), P, f, U, F)


@spec
def CNTU(g: A[int, 1], k: int, a: int, P: int) -> int:
    """copies of allele a in g with copy k replaced by a"""
    return CNT(g, a, P) + ite(g[k] == a, 0, 1)


@contract("mchap.calling.mcmc.mh_options", machine_ints=True, props=["C02", "C09"])
def mh_options(genotype_alleles: A[iN, 1], variable_allele: int, haplotypes: A[i1, 2], reads: A[f8, 3], read_counts: Opt[A[i8, 1]], inbreeding: float, llks_array: A[f8, 1], lpriors_array: A[f8, 1], probabilities_array: A[f8, 1], frequencies: Opt[A[f8, 1]], llk_cache: Opt[FDict]):
    # proved domain: at least two alleles (with one allele the code divides by n_alleles - 1 == 0)
    requires(U >= 2, U <= 127, P >= 1, P <= 127, len(llks_array) == U, len(lpriors_array) == U, len(probabilities_array) == U)
    requires(0 <= variable_allele, variable_allele < P, 0 <= inbreeding, inbreeding < 1)
    requires(reads.shape[1] == haplotypes.shape[1])
    requires(implies(read_counts is not None, len(read_counts) == len(reads) and forall(0, len(reads), lambda r: read_counts[r] >= 1)))
    requires(VALIDA(genotype_alleles, P, U), CALLOK(reads, haplotypes, U, haplotypes.shape[1], reads.shape[2], len(reads)))
    # proved domain: every allele has positive prior frequency (log 0 / lgamma(0) are infinite)
    requires(implies(frequencies is not None, len(frequencies) == U and forall(0, U, lambda a: finite(frequencies[a]) and frequencies[a] > 0)))
    requires(implies(llk_cache is not None, cwr(U, P) < 2 ** 53 and DCOH(llk_cache, reads, CN, haplotypes, P, NN, len(reads), U)))
    # proved domain: every option has a finite likelihood (error-rate encoded reads)
    requires(forall(0, U, lambda a: not isninf(LLKAU(reads, CN, haplotypes, genotype_alleles, variable_allele, a, P, NN, len(reads)))))
    modifies(genotype_alleles, llks_array, lpriors_array, probabilities_array, llk_cache)
    ensures(forall(0, P, lambda i: genotype_alleles[i] == old(genotype_alleles)[i]))
    ensures(forall(0, U, lambda a: finite(llks_array[a]) and llks_array[a] == LLKAU(reads, CN, haplotypes, old(genotype_alleles), variable_allele, a, P, NN, len(reads))))
    ensures(implies(frequencies is None, forall(0, U, lambda a: finite(lpriors_array[a]) and lpriors_array[a] == JPU_FLAT(old(genotype_alleles), variable_allele, a, P, U, inbreeding))))
    ensures(implies(frequencies is not None, forall(0, U, lambda a: finite(lpriors_array[a]) and lpriors_array[a] == JPU_FREQ(old(genotype_alleles), variable_allele, a, P, frequencies, U, inbreeding))))
    # C02: Metropolis-Hastings kernel -- propose one of the other U-1 alleles uniformly, accept with
    # min(1, posterior ratio x proposal ratio); the proposal ratio is (copies of a after) / (copies of the current allele before)
    ensures(forall(0, U, lambda a: implies(a != CUR, probabilities_array[a] == exp(min(0.0, (llks_array[a] - llks_array[CUR]) + (lpriors_array[a] - lpriors_array[CUR]) + log(CNTU(old(genotype_alleles), variable_allele, a, P) / CNT(old(genotype_alleles), CUR, P)))) / (U - 1))))
    ensures(FSUM(probabilities_array, 0, U) == 1)
    ensures(forall(0, U, lambda a: finite(probabilities_array[a]) and probabilities_array[a] >= 0))
    ensures(implies(llk_cache is not None, DCOH(llk_cache, reads, CN, haplotypes, P, NN, len(reads), U)))
    with defs():
        P = len(genotype_alleles)
        U = len(haplotypes)
        NN = haplotypes.shape[1]
        CN = ones_if_none(read_counts)
        CUR = genotype_alleles[variable_allele]
    with entry():
        lemma_llkau(reads, CN, haplotypes, genotype_alleles, genotype_alleles, variable_allele, CUR, P, NN, len(reads))
        lemma_cnt_pos(genotype_alleles, P, variable_allele)
        unfold(CNTU(genotype_alleles, variable_allele, CUR, P))
        unfold(JPU_FLAT(genotype_alleles, variable_allele, CUR, P, U, inbreeding))
        if frequencies is not None:
            unfold(JPU_FREQ(genotype_alleles, variable_allele, CUR, P, frequencies, U, inbreeding))
            lemma_fsum_pos(frequencies, 0, U)
    with loop(0):
        invariant(0 <= a, a <= U, n_alleles == U, current_allele == CUR, allele_copies == CNT(old(genotype_alleles), CUR, P), allele_copies >= 1)
        invariant(len(genotype_alleles) == P, len(llks_array) == U, len(lpriors_array) == U, len(probabilities_array) == U, len(lproposals_array) == U)
        # only copy k is ever written; it holds the current allele or an allele already tried
        invariant(val(genotype_alleles) == arr1(lambda i: ite(i == variable_allele, genotype_alleles[variable_allele], old(genotype_alleles)[i])))
        invariant(0 <= genotype_alleles[variable_allele], genotype_alleles[variable_allele] < U)
        invariant(genotype_alleles[variable_allele] == CUR or genotype_alleles[variable_allele] < a)
        invariant(finite(llk), llk == LLKAU(reads, CN, haplotypes, old(genotype_alleles), variable_allele, CUR, P, NN, len(reads)), finite(lprior))
        invariant(implies(frequencies is None, lprior == JPU_FLAT(old(genotype_alleles), variable_allele, CUR, P, U, inbreeding)))
        invariant(implies(frequencies is not None, lprior == JPU_FREQ(old(genotype_alleles), variable_allele, CUR, P, frequencies, U, inbreeding)))
        invariant(forall(0, a, lambda b: finite(llks_array[b]) and llks_array[b] == LLKAU(reads, CN, haplotypes, old(genotype_alleles), variable_allele, b, P, NN, len(reads))))
        invariant(implies(frequencies is None, forall(0, a, lambda b: finite(lpriors_array[b]) and lpriors_array[b] == JPU_FLAT(old(genotype_alleles), variable_allele, b, P, U, inbreeding))))
        invariant(implies(frequencies is not None, forall(0, a, lambda b: finite(lpriors_array[b]) and lpriors_array[b] == JPU_FREQ(old(genotype_alleles), variable_allele, b, P, frequencies, U, inbreeding))))
        invariant(forall(0, a, lambda b: finite(lproposals_array[b]) and lproposals_array[b] == log(CNTU(old(genotype_alleles), variable_allele, b, P) / CNT(old(genotype_alleles), CUR, P))))
        invariant(implies(llk_cache is not None, DCOH(llk_cache, reads, CN, haplotypes, P, NN, len(reads), U)))
        with head():
            unfold(CNTU(old(genotype_alleles), variable_allele, a, P))
            unfold(JPU_FLAT(old(genotype_alleles), variable_allele, a, P, U, inbreeding))
            if frequencies is not None:
                unfold(JPU_FREQ(old(genotype_alleles), variable_allele, a, P, frequencies, U, inbreeding))
            ax_log_one()
    with after_stmt("genotype_alleles[variable_allele] = a"):
        lemma_cnt_upd(old(genotype_alleles), genotype_alleles, a, P, variable_allele)
        lemma_cnt_pos(genotype_alleles, P, variable_allele)
        lemma_llkau(reads, CN, haplotypes, old(genotype_alleles), genotype_alleles, variable_allele, a, P, NN, len(reads))
    with before_stmt("probabilities_array[current_allele] = 1 - probabilities_array.sum()"):
        PB = val(probabilities_array)
        ax_exp_mono_all()
        ax_exp_zero()
        lemma_fsum_bound(PB, 0, U, 1 / (U - 1), CUR)
    with after_stmt("probabilities_array[current_allele] = 1 - probabilities_array.sum()"):
        lemma_fsum_upd(PB, probabilities_array, 0, U, CUR)


@spec_inline
def POSA(reads: A[float, 3], counts: A[int, 1], H: A[int, 2], P: int, N: int, n: int, U: int) -> bool:
    """every read has positive probability under every genotype over the known haplotypes (true for
    error-rate encoded reads): all likelihoods the sampler can meet are finite"""
    return forall_arr1(lambda g: implies(VALIDA(g, P, U), not isninf(LLKA(reads, counts, H, g, P, N, n))), pattern=LLKA(reads, counts, H, g, P, N, n))


@contract("mchap.calling.mcmc.compound_step", machine_ints=True, props=["C09", "C02"])
def compound_step(genotype_alleles: A[iN, 1], haplotypes: A[i1, 2], reads: A[f8, 3], read_counts: Opt[A[i8, 1]], inbreeding: float, frequencies: Opt[A[f8, 1]], llk_cache: Opt[FDict], step_type: int) -> float:
    requires(step_type == 0 or step_type == 1, implies(step_type == 1, U >= 2))
    requires(U >= 1, U <= 127, P >= 1, P <= 127, 0 <= inbreeding, inbreeding < 1, reads.shape[1] == haplotypes.shape[1])
    requires(implies(read_counts is not None, len(read_counts) == len(reads) and forall(0, len(reads), lambda r: read_counts[r] >= 1)))
    requires(VALIDA(genotype_alleles, P, U), CALLOK(reads, haplotypes, U, NN, reads.shape[2], len(reads)))
    requires(implies(frequencies is not None, len(frequencies) == U and forall(0, U, lambda a: finite(frequencies[a]) and frequencies[a] > 0)))
    requires(implies(llk_cache is not None, cwr(U, P) < 2 ** 53 and DCOH(llk_cache, reads, CN, haplotypes, P, NN, len(reads), U)))
    requires(POSA(reads, CN, haplotypes, P, NN, len(reads), U))
    modifies(genotype_alleles, llk_cache)
    # C09: the returned likelihood is the likelihood of the (sorted) genotype left behind
    ensures(result == LLKA(reads, CN, haplotypes, genotype_alleles, P, NN, len(reads)))
    ensures(VALIDA(genotype_alleles, P, U), SORTEDA(genotype_alleles, P))
    ensures(implies(llk_cache is not None, DCOH(llk_cache, reads, CN, haplotypes, P, NN, len(reads), U)))
    with defs():
        P = len(genotype_alleles)
        U = len(haplotypes)
        NN = haplotypes.shape[1]
        CN = ones_if_none(read_counts)
    with entry():
        if frequencies is not None:
            lemma_fsum_pos(frequencies, 0, U)
    with loop(0):
        invariant(0 <= j, j <= ploidy, ploidy == P, n_alleles == U, len(genotype_alleles) == P, len(order) == P, len(llks) == U, len(lpriors) == U, len(probabilities) == U)
        invariant(forall(0, P, lambda t: 0 <= order[t] and order[t] < P))
        invariant(VALIDA(genotype_alleles, P, U))
        invariant(implies(llk_cache is not None, DCOH(llk_cache, reads, CN, haplotypes, P, NN, len(reads), U)))
        invariant(implies(j >= 1, 0 <= choice and choice < U and not isnan(llks[choice]) and llks[choice] == LLKA(reads, CN, haplotypes, genotype_alleles, P, NN, len(reads))))
        with head():
            G0 = val(genotype_alleles)
            instantiate(POSA(reads, CN, haplotypes, P, NN, len(reads), U), G0)
            with forall_intro(a, 0, U, not isninf(LLKAU(reads, CN, haplotypes, G0, order[j], a, P, NN, len(reads)))):
                lemma_llkau(reads, CN, haplotypes, G0, arr1(lambda i: ite(i == order[j], a, G0[i])), order[j], a, P, NN, len(reads))
                instantiate(POSA(reads, CN, haplotypes, P, NN, len(reads), U), arr1(lambda i: ite(i == order[j], a, G0[i])))
    with after_stmt("genotype_alleles[k] = choice"):
        lemma_llkau(reads, CN, haplotypes, G0, genotype_alleles, k, choice, P, NN, len(reads))
    with before_stmt("genotype_alleles.sort()"):
        GB = val(genotype_alleles)
    with after_stmt("genotype_alleles.sort()"):
        with forall_intro(i, 0, P, 0 <= genotype_alleles[i] and genotype_alleles[i] < U):
            assert_(genotype_alleles[i] == GB[sort0(i)])
        lemma_llka_perm(reads, CN, haplotypes, GB, genotype_alleles, arr1(lambda i: sort0(i)), arr1(lambda i: sort0_inv(i)), P, NN, len(reads))


@contract("mchap.calling.mcmc.mcmc_sampler", machine_ints=True, props=["C09", "C02"])
def mcmc_sampler(genotype_alleles: A[iN, 1], haplotypes: A[i1, 2], reads: A[f8, 3], read_counts: Opt[A[i8, 1]], inbreeding: float, frequencies: Opt[A[f8, 1]], n_steps: int, cache: bool, step_type: int) -> Tup[A[iN, 2], A[f8, 1]]:
    requires(step_type == 0 or step_type == 1, implies(step_type == 1, U >= 2), n_steps >= 0, n_steps <= 2 ** 40)
    requires(U >= 1, U <= 127, P >= 1, P <= 127, 0 <= inbreeding, inbreeding < 1, reads.shape[1] == haplotypes.shape[1])
    requires(implies(read_counts is not None, len(read_counts) == len(reads) and forall(0, len(reads), lambda r: read_counts[r] >= 1)))
    requires(VALIDA(genotype_alleles, P, U), CALLOK(reads, haplotypes, U, NN, reads.shape[2], len(reads)))
    requires(implies(frequencies is not None, len(frequencies) == U and forall(0, U, lambda a: finite(frequencies[a]) and frequencies[a] > 0)))
    requires(implies(cache, cwr(U, P) < 2 ** 53))
    requires(POSA(reads, CN, haplotypes, P, NN, len(reads), U))
    # C09: every recorded likelihood is the likelihood of the recorded genotype, with or without the cache
    ensures(result[0].shape == (n_steps, P), result[1].shape == (n_steps,))
    ensures(forall(0, n_steps, lambda s: result[1][s] == LLKA(reads, CN, haplotypes, result[0][s], P, NN, len(reads))))
    ensures(forall(0, n_steps, lambda s: VALIDA(result[0][s], P, U) and SORTEDA(result[0][s], P)))
    with defs():
        P = len(genotype_alleles)
        U = len(haplotypes)
        NN = haplotypes.shape[1]
        CN = ones_if_none(read_counts)
    with after_stmt("llk_cache[-1] = np.nan"):
        with forall_intro_arr1(g2, implies(VALIDA(g2, P, U) and SORTEDA(g2, P) and (IDX(g2, P) in llk_cache), same(llk_cache[IDX(g2, P)], LLKA(reads, CN, haplotypes, g2, P, NN, len(reads)))), pattern=IDX(g2, P)):
            if VALIDA(g2, P, U) and SORTEDA(g2, P):
                lemma_idx_bound(g2, P)
    with loop(0):
        invariant(0 <= i, i <= n_steps, ploidy == P, len(genotype_alleles) == P, genotype_trace.shape == (n_steps, P), llk_trace.shape == (n_steps,))
        invariant(VALIDA(genotype_alleles, P, U))
        invariant(implies(llk_cache is not None, DCOH(llk_cache, reads, CN, haplotypes, P, NN, len(reads), U)))
        invariant(forall(0, i, lambda s: llk_trace[s] == LLKA(reads, CN, haplotypes, genotype_trace[s], P, NN, len(reads))))
        invariant(forall(0, i, lambda s: VALIDA(genotype_trace[s], P, U) and SORTEDA(genotype_trace[s], P)))
