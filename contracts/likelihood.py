# C04 / C09 -- mchap/assemble/likelihood.py : the documented mixture likelihood


@spec_inline
def CELL(reads: A[float, 3], r: int, j: int, a: int) -> float:
    """P(observed base | haplotype allele a) at read r, SNV j; a missing call (NaN) contributes 1"""
    return ite(isnan(reads[r, j, a]), 1.0, reads[r, j, a])


@spec_inline
def READSOK(reads: A[xfloat, 3], n: int, N: int, NA: int) -> bool:
    """every cell of the read tensor is a probability or NaN (missing call)"""
    return forall(0, n, lambda r: forall(0, N, lambda j: forall(0, NA, lambda a: not isninf(reads[r, j, a]) and (isnan(reads[r, j, a]) or reads[r, j, a] >= 0))))


@spec
def RHP(reads: A[float, 3], G: A[int, 2], r: int, h: int, j: int) -> float:
    """product over SNVs j' < j of CELL(r, j', G[h, j'])"""
    decreases(j)
    if j <= 0:
        return 1.0
    return RHP(reads, G, r, h, j - 1) * CELL(reads, r, j - 1, G[h, j - 1])


@spec
def RP(reads: A[float, 3], G: A[int, 2], r: int, h: int, n_base: int, ploidy: int) -> float:
    """sum over haplotypes h' < h of RHP(r, h', n_base) / ploidy  (h == ploidy: the mean)"""
    decreases(h)
    if h <= 0:
        return 0.0
    return RP(reads, G, r, h - 1, n_base, ploidy) + RHP(reads, G, r, h - 1, n_base) / ploidy


@spec
def LLK(reads: A[float, 3], counts: A[int, 1], G: A[int, 2], ploidy: int, n_base: int, n: int) -> xfloat:
    """sum over reads r < n of count_r * log(mean over haplotypes of product over SNVs)"""
    decreases(n)
    if n <= 0:
        return 0.0
    return LLK(reads, counts, G, ploidy, n_base, n - 1) + log(RP(reads, G, n - 1, ploidy, n_base, ploidy)) * counts[n - 1]


@lemma
def lemma_rhp_nonneg(reads: A[float, 3], G: A[int, 2], r: int, h: int, j: int):
    requires(j >= 0, forall(0, j, lambda t: CELL(reads, r, t, G[h, t]) >= 0))
    ensures(RHP(reads, G, r, h, j) >= 0)
    decreases(j)
    unfold(RHP(reads, G, r, h, j))
    if j >= 1:
        lemma_rhp_nonneg(reads, G, r, h, j - 1)


@contract("mchap.assemble.likelihood.log_likelihood", machine_ints=True, props=["C04", "C09"])
def log_likelihood(reads: A[f8, 3], genotype: A[i1, 2], read_counts: Opt[A[i8, 1]]) -> float:
    requires(reads.shape[1] == genotype.shape[1], len(genotype) >= 1)
    requires(implies(read_counts is not None, len(read_counts) == len(reads)))
    # alleles index the last axis of the read tensor
    requires(forall(0, len(genotype), lambda h: forall(0, genotype.shape[1], lambda j: 0 <= genotype[h, j] and genotype[h, j] < reads.shape[2])))
    # cells are probabilities or NaN (missing call)
    requires(READSOK(reads, len(reads), reads.shape[1], reads.shape[2]))
    # a zero count must not meet an impossible read (numpy: 0 * -inf = NaN)
    requires(implies(read_counts is not None, forall(0, len(reads), lambda r: read_counts[r] >= 0 and implies(read_counts[r] == 0, RP(reads, genotype, r, len(genotype), genotype.shape[1], len(genotype)) > 0))))
    ensures(result == LLK(reads, ones_if_none(read_counts), genotype, len(genotype), genotype.shape[1], len(reads)))
    with entry():
        unfold(LLK(reads, ones_if_none(read_counts), genotype, len(genotype), genotype.shape[1], 0))
    with loop(0):
        invariant(0 <= r, r <= n_reads, n_reads == len(reads), ploidy == len(genotype), n_base == genotype.shape[1])
        invariant(llk == LLK(reads, ones_if_none(read_counts), genotype, ploidy, n_base, r))
        with head():
            unfold(LLK(reads, ones_if_none(read_counts), genotype, ploidy, n_base, r + 1))
            unfold(RP(reads, genotype, r, 0, n_base, ploidy))
    with loop(1):
        invariant(0 <= h, h <= ploidy, read_prob >= 0)
        invariant(read_prob == RP(reads, genotype, r, h, n_base, ploidy))
        with head():
            unfold(RP(reads, genotype, r, h + 1, n_base, ploidy))
            unfold(RHP(reads, genotype, r, h, 0))
    with loop(2):
        invariant(0 <= j, j <= n_base, read_hap_prod >= 0)
        invariant(read_hap_prod == RHP(reads, genotype, r, h, j))
        with head():
            unfold(RHP(reads, genotype, r, h, j + 1))


@spec_inline
def SCE(G: A[int, 2], idx: A[int, 1], lo: int, hi: int, h: int, j: int) -> int:
    """element [h, j] of the genotype rearranged by `idx` within the interval [lo, hi)"""
    return ite(lo <= j and j < hi, G[idx[h], j], G[h, j])


@contract("mchap.jitutils.structural_change", machine_ints=True, props=["C04", "C09", "C01"])
def structural_change(genotype: A[i1, 2], haplotype_indices: A[i1, 1], interval: Opt[A[i8, 1]]):
    requires(len(haplotype_indices) == len(genotype))
    requires(forall(0, len(genotype), lambda h: 0 <= haplotype_indices[h] and haplotype_indices[h] < len(genotype)))
    requires(implies(interval is not None, len(interval) == 2 and 0 <= interval[0] and interval[0] <= interval[1] and interval[1] <= genotype.shape[1]))
    modifies(genotype)
    ensures(forall(0, len(genotype), lambda h: forall(0, genotype.shape[1], lambda j: genotype[h, j] == SCE(old(genotype), haplotype_indices, LO, HI, h, j))))
    with defs():
        LO = ite(interval is None, 0, interval[0])
        HI = ite(interval is None, genotype.shape[1], interval[1])
    with loop(0):
        invariant(LO <= j, j <= HI, ploidy == len(genotype), n_base == genotype.shape[1], len(cache) == ploidy)
        invariant(forall(0, ploidy, lambda a: forall(0, n_base, lambda c: genotype[a, c] == ite(LO <= c and c < j, old(genotype)[haplotype_indices[a], c], old(genotype)[a, c]))))
    with loop(1):
        invariant(0 <= h, h <= ploidy)
        invariant(forall(0, h, lambda a: cache[a] == genotype[a, j]))
    with loop(2):
        invariant(0 <= h, h <= ploidy)
        invariant(forall(0, ploidy, lambda a: forall(0, n_base, lambda c: genotype[a, c] == ite(c == j and a < h, cache[haplotype_indices[a]], at("loop2", genotype)[a, c]))))


@contract("mchap.assemble.likelihood.log_likelihood_structural_change", machine_ints=True, props=["C04", "C09"])
def log_likelihood_structural_change(reads: A[f8, 3], genotype: A[i1, 2], haplotype_indices: A[i1, 1], interval: Opt[A[i8, 1]], read_counts: Opt[A[i8, 1]]) -> float:
    requires(reads.shape[1] == genotype.shape[1], len(genotype) >= 1)
    requires(len(haplotype_indices) == len(genotype))
    requires(forall(0, len(genotype), lambda h: 0 <= haplotype_indices[h] and haplotype_indices[h] < len(genotype)))
    requires(implies(interval is not None, len(interval) == 2 and 0 <= interval[0] and interval[0] <= interval[1] and interval[1] <= genotype.shape[1]))
    requires(implies(read_counts is not None, len(read_counts) == len(reads)))
    requires(forall(0, len(genotype), lambda h: forall(0, genotype.shape[1], lambda j: 0 <= genotype[h, j] and genotype[h, j] < reads.shape[2])))
    requires(READSOK(reads, len(reads), reads.shape[1], reads.shape[2]))
    requires(implies(read_counts is not None, forall(0, len(reads), lambda r: read_counts[r] >= 0 and implies(read_counts[r] == 0, RP(reads, GP, r, len(genotype), genotype.shape[1], len(genotype)) > 0))))
    # the likelihood of the proposal equals the likelihood of the rearranged genotype
    ensures(result == LLK(reads, ones_if_none(read_counts), GP, len(genotype), genotype.shape[1], len(reads)))
    with defs():
        LO = ite(interval is None, 0, interval[0])
        HI = ite(interval is None, genotype.shape[1], interval[1])
        GP = arr2(lambda a, c: SCE(genotype, haplotype_indices, LO, HI, a, c))
    with entry():
        unfold(LLK(reads, ones_if_none(read_counts), GP, len(genotype), genotype.shape[1], 0))
    with loop(0):
        invariant(0 <= r, r <= n_reads, n_reads == len(reads), ploidy == len(genotype), n_base == genotype.shape[1])
        invariant(llk == LLK(reads, ones_if_none(read_counts), GP, ploidy, n_base, r))
        with head():
            unfold(LLK(reads, ones_if_none(read_counts), GP, ploidy, n_base, r + 1))
            unfold(RP(reads, GP, r, 0, n_base, ploidy))
    with loop(1):
        invariant(0 <= h, h <= ploidy, read_prob >= 0)
        invariant(read_prob == RP(reads, GP, r, h, n_base, ploidy))
        with head():
            unfold(RP(reads, GP, r, h + 1, n_base, ploidy))
            unfold(RHP(reads, GP, r, h, 0))
    with loop(2):
        invariant(0 <= j, j <= n_base, read_hap_prod >= 0)
        invariant(read_hap_prod == RHP(reads, GP, r, h, j))
        with head():
            unfold(RHP(reads, GP, r, h, j + 1))
