# C04 -- symmetries of the documented mixture likelihood, proved for the spec function LLK that
# log_likelihood is proved to compute (contracts/likelihood.py): invariant to the order of haplotypes
# and of reads.  Finite sums under a bijection: contracts/a_perm.py.


@lemma(shared=True)
def lemma_rhp_row(reads: A[float, 3], G: A[int, 2], G2: A[int, 2], r: int, h: int, h2: int, j: int):
    """the per-haplotype product depends on the haplotype's alleles only"""
    requires(j >= 0, forall(0, j, lambda c: G2[h2, c] == G[h, c]))
    ensures(RHP(reads, G2, r, h2, j) == RHP(reads, G, r, h, j))
    decreases(j)
    unfold(RHP(reads, G2, r, h2, j), RHP(reads, G, r, h, j))
    if j >= 1:
        lemma_rhp_row(reads, G, G2, r, h, h2, j - 1)


@lemma(shared=True)
def lemma_rp_as_fsum(reads: A[float, 3], G: A[int, 2], r: int, h: int, N: int, P: int):
    """the read probability is a plain finite sum over the haplotypes"""
    requires(h >= 0)
    ensures(RP(reads, G, r, h, N, P) == FSUM(arrf1(lambda t: RHP(reads, G, r, t, N) / P), 0, h))
    decreases(h)
    unfold(RP(reads, G, r, h, N, P), FSUM(arrf1(lambda t: RHP(reads, G, r, t, N) / P), 0, h))
    if h >= 1:
        lemma_rp_as_fsum(reads, G, r, h - 1, N, P)


@lemma(shared=True, props=["C04"])
def lemma_rp_hap_perm(reads: A[float, 3], G: A[int, 2], G2: A[int, 2], p: A[int, 1], q: A[int, 1], r: int, N: int, P: int):
    requires(P >= 0, N >= 0, BIJ(p, q, P), forall(0, P, lambda h: forall(0, N, lambda c: G2[h, c] == G[p[h], c])))
    ensures(RP(reads, G2, r, P, N, P) == RP(reads, G, r, P, N, P))
    lemma_rp_as_fsum(reads, G, r, P, N, P)
    lemma_rp_as_fsum(reads, G2, r, P, N, P)
    with forall_intro(h, 0, P, RHP(reads, G2, r, h, N) == RHP(reads, G, r, p[h], N)):
        lemma_rhp_row(reads, G, G2, r, p[h], h, N)
    lemma_fsum_perm(arrf1(lambda t: RHP(reads, G, r, t, N) / P), arrf1(lambda t: RHP(reads, G2, r, t, N) / P), p, q, P)


@lemma(shared=True, props=["C04"])
def lemma_llk_hap_perm(reads: A[float, 3], counts: A[int, 1], G: A[int, 2], G2: A[int, 2], p: A[int, 1], q: A[int, 1], P: int, N: int, n: int):
    """C04: the likelihood is invariant to the order of the haplotypes in the genotype"""
    requires(P >= 0, N >= 0, n >= 0, BIJ(p, q, P), forall(0, P, lambda h: forall(0, N, lambda c: G2[h, c] == G[p[h], c])))
    ensures(same(LLK(reads, counts, G2, P, N, n), LLK(reads, counts, G, P, N, n)))
    decreases(n)
    unfold(LLK(reads, counts, G2, P, N, n), LLK(reads, counts, G, P, N, n))
    if n >= 1:
        lemma_llk_hap_perm(reads, counts, G, G2, p, q, P, N, n - 1)
        lemma_rp_hap_perm(reads, G, G2, p, q, n - 1, N, P)


@lemma(shared=True)
def lemma_rhp_readrow(reads: A[float, 3], reads2: A[float, 3], G: A[int, 2], r: int, r2: int, h: int, j: int):
    """the per-haplotype product of a read depends on that read's cells only"""
    requires(j >= 0, forall(0, j, lambda c: CELL(reads2, r2, c, G[h, c]) == CELL(reads, r, c, G[h, c])))
    ensures(RHP(reads2, G, r2, h, j) == RHP(reads, G, r, h, j))
    decreases(j)
    unfold(RHP(reads2, G, r2, h, j), RHP(reads, G, r, h, j))
    if j >= 1:
        lemma_rhp_readrow(reads, reads2, G, r, r2, h, j - 1)


@lemma(shared=True)
def lemma_rp_readrow(reads: A[float, 3], reads2: A[float, 3], G: A[int, 2], r: int, r2: int, h: int, N: int, P: int):
    requires(h >= 0, N >= 0, forall(0, h, lambda a: forall(0, N, lambda c: CELL(reads2, r2, c, G[a, c]) == CELL(reads, r, c, G[a, c]))))
    ensures(RP(reads2, G, r2, h, N, P) == RP(reads, G, r, h, N, P))
    decreases(h)
    unfold(RP(reads2, G, r2, h, N, P), RP(reads, G, r, h, N, P))
    if h >= 1:
        lemma_rp_readrow(reads, reads2, G, r, r2, h - 1, N, P)
        lemma_rhp_readrow(reads, reads2, G, r, r2, h - 1, N)


@lemma(shared=True)
def lemma_llk_split(reads: A[float, 3], counts: A[int, 1], G: A[int, 2], P: int, N: int, n: int):
    """LLK as two plain finite sums: the real parts of the terms, and the number of impossible reads"""
    requires(n >= 0)
    ensures(ISUM(arr1(lambda t: ite(RP(reads, G, t, P, N, P) == 0, 1, 0)), 0, n) >= 0)
    ensures(implies(not isninf(LLK(reads, counts, G, P, N, n)), real(LLK(reads, counts, G, P, N, n)) == FSUM(arrf1(lambda t: real(log(RP(reads, G, t, P, N, P))) * counts[t]), 0, n)))
    ensures(isninf(LLK(reads, counts, G, P, N, n)) == (ISUM(arr1(lambda t: ite(RP(reads, G, t, P, N, P) == 0, 1, 0)), 0, n) > 0))
    decreases(n)
    unfold(LLK(reads, counts, G, P, N, n))
    unfold(FSUM(arrf1(lambda t: real(log(RP(reads, G, t, P, N, P))) * counts[t]), 0, n))
    unfold(ISUM(arr1(lambda t: ite(RP(reads, G, t, P, N, P) == 0, 1, 0)), 0, n))
    if n >= 1:
        lemma_llk_split(reads, counts, G, P, N, n - 1)


@lemma(shared=True, props=["C04"])
def lemma_llk_read_perm(reads: A[float, 3], counts: A[int, 1], reads2: A[float, 3], counts2: A[int, 1], G: A[int, 2], p: A[int, 1], q: A[int, 1], P: int, N: int, n: int):
    """C04: the likelihood is invariant to the order of the reads (with their counts)"""
    requires(P >= 0, N >= 0, n >= 0, BIJ(p, q, n), forall(0, n, lambda r: counts2[r] == counts[p[r]]))
    requires(forall(0, n, lambda r: forall(0, P, lambda a: forall(0, N, lambda c: CELL(reads2, r, c, G[a, c]) == CELL(reads, p[r], c, G[a, c])))))
    ensures(same(LLK(reads2, counts2, G, P, N, n), LLK(reads, counts, G, P, N, n)))
    lemma_llk_split(reads, counts, G, P, N, n)
    lemma_llk_split(reads2, counts2, G, P, N, n)
    with forall_intro(r, 0, n, RP(reads2, G, r, P, N, P) == RP(reads, G, p[r], P, N, P)):
        lemma_rp_readrow(reads, reads2, G, p[r], r, P, N, P)
    lemma_fsum_perm(arrf1(lambda t: real(log(RP(reads, G, t, P, N, P))) * counts[t]), arrf1(lambda t: real(log(RP(reads2, G, t, P, N, P))) * counts2[t]), p, q, n)
    lemma_isum_perm(arr1(lambda t: ite(RP(reads, G, t, P, N, P) == 0, 1, 0)), arr1(lambda t: ite(RP(reads2, G, t, P, N, P) == 0, 1, 0)), p, q, n)


@lemma(shared=True, props=["C04"])
def lemma_llk_count_split(reads: A[float, 3], counts: A[int, 1], reads2: A[float, 3], counts2: A[int, 1], G: A[int, 2], P: int, N: int, n: int, t: int):
    """C04: a read with count c counts exactly like the same read listed twice with counts c - k and k
    (by induction: like c identical reads of count one)"""
    requires(P >= 0, N >= 0, 0 <= t, t < n, counts2[t] + counts2[n] == counts[t])
    requires(forall(0, n, lambda r: implies(r != t, counts2[r] == counts[r])))
    requires(forall(0, n, lambda r: forall(0, P, lambda a: forall(0, N, lambda c: CELL(reads2, r, c, G[a, c]) == CELL(reads, r, c, G[a, c])))))
    requires(forall(0, P, lambda a: forall(0, N, lambda c: CELL(reads2, n, c, G[a, c]) == CELL(reads, t, c, G[a, c]))))
    ensures(same(LLK(reads2, counts2, G, P, N, n + 1), LLK(reads, counts, G, P, N, n)))
    unfold(LLK(reads2, counts2, G, P, N, n + 1))
    lemma_llk_split(reads, counts, G, P, N, n)
    lemma_llk_split(reads2, counts2, G, P, N, n)
    with forall_intro(r, 0, n, RP(reads2, G, r, P, N, P) == RP(reads, G, r, P, N, P)):
        lemma_rp_readrow(reads, reads2, G, r, r, P, N, P)
    lemma_rp_readrow(reads, reads2, G, t, n, P, N, P)
    lemma_isum_ext(arr1(lambda s: ite(RP(reads, G, s, P, N, P) == 0, 1, 0)), arr1(lambda s: ite(RP(reads2, G, s, P, N, P) == 0, 1, 0)), 0, n)
    lemma_isum_nonneg(arr1(lambda s: ite(RP(reads, G, s, P, N, P) == 0, 1, 0)), 0, n)
    lemma_isum_ge(arr1(lambda s: ite(RP(reads, G, s, P, N, P) == 0, 1, 0)), 0, n, t)
    lemma_fsum_upd(arrf1(lambda s: real(log(RP(reads, G, s, P, N, P))) * counts[s]), arrf1(lambda s: real(log(RP(reads2, G, s, P, N, P))) * counts2[s]), 0, n, t)
