# C01 -- reversibility of the recombination proposal, as a lemma over the counting spec RNOPT (contracts/assemble_structural.py):
# exchanging the interval segments of two first-copy haplotypes that differ inside and outside the interval gives a label
# matrix from which at least one recombination is possible (in particular the one that leads back).


@spec
def FO(G: A[int, 2], h: int, lo: int, hi: int, c: int) -> int:
    """first row (searching upwards from c) equal to row h on [lo, hi)"""
    decreases(h - c)
    if c >= h or ROWEQ(G, c, h, lo, hi):
        return c
    return FO(G, h, lo, hi, c + 1)


@lemma(shared=True)
def lemma_fo(G: A[int, 2], h: int, lo: int, hi: int, c: int):
    requires(0 <= c, c <= h, forall(0, c, lambda x: not ROWEQ(G, x, h, lo, hi)))
    ensures(c <= FO(G, h, lo, hi, c), FO(G, h, lo, hi, c) <= h, ROWEQ(G, FO(G, h, lo, hi, c), h, lo, hi))
    ensures(forall(0, FO(G, h, lo, hi, c), lambda x: not ROWEQ(G, x, h, lo, hi)))
    decreases(h - c)
    unfold(FO(G, h, lo, hi, c))
    if not (c >= h or ROWEQ(G, c, h, lo, hi)):
        lemma_fo(G, h, lo, hi, c + 1)


@lemma(shared=True)
def lemma_neq_zero(G: A[int, 2], f: int, lo: int, hi: int, n: int):
    requires(forall(0, n, lambda x: not ROWEQ(G, x, f, lo, hi)))
    ensures(NEQ(G, f, lo, hi, n) == 0)
    decreases(n)
    unfold(NEQ(G, f, lo, hi, n))
    if n > 0:
        lemma_neq_zero(G, f, lo, hi, n - 1)


@lemma(shared=True)
def lemma_first_copy_dose(G: A[int, 2], f: int, lo: int, hi: int, P: int):
    """a row with no earlier equal row is a first copy: its dosage is positive"""
    requires(0 <= f, f < P, forall(0, f, lambda x: not ROWEQ(G, x, f, lo, hi)))
    ensures(DOSE(G, f, lo, hi, P) >= 1)
    lemma_neq_zero(G, f, lo, hi, f)
    unfold(NEQ(G, f, lo, hi, f + 1))
    lemma_neq_mono(G, f, lo, hi, f + 1, P)


@lemma(shared=True)
def lemma_rcin_nonneg(L: A[int, 2], P: int, h0: int, m: int):
    ensures(RCIN(L, P, h0, m) >= 0)
    decreases(m - h0)
    unfold(RCIN(L, P, h0, m))
    if m > h0 + 1:
        lemma_rcin_nonneg(L, P, h0, m - 1)


@lemma(shared=True)
def lemma_rcin_ge(L: A[int, 2], P: int, h0: int, h1: int, m: int):
    requires(h0 < h1, h1 < m, DOSE(L, h1, 0, 2, P) != 0, L[h0, 0] != L[h1, 0], L[h0, 1] != L[h1, 1])
    ensures(RCIN(L, P, h0, m) >= 1)
    decreases(m - h0)
    unfold(RCIN(L, P, h0, m))
    if h1 < m - 1:
        lemma_rcin_ge(L, P, h0, h1, m - 1)
    else:
        lemma_rcin_nonneg(L, P, h0, m - 1)


@lemma(shared=True)
def lemma_rcnt_nonneg(L: A[int, 2], P: int, k: int):
    ensures(RCNT(L, P, k) >= 0)
    decreases(k)
    unfold(RCNT(L, P, k))
    if k > 0:
        lemma_rcnt_nonneg(L, P, k - 1)
        lemma_rcin_nonneg(L, P, k - 1, P)


@lemma(shared=True)
def lemma_rcnt_ge(L: A[int, 2], P: int, h0: int, h1: int, k: int):
    """a qualifying pair (h0 < h1) is counted"""
    requires(0 <= h0, h0 < h1, h1 < P, h0 < k, DOSE(L, h0, 0, 2, P) != 0, DOSE(L, h1, 0, 2, P) != 0, L[h0, 0] != L[h1, 0], L[h0, 1] != L[h1, 1])
    ensures(RCNT(L, P, k) >= 1)
    decreases(k)
    unfold(RCNT(L, P, k))
    if h0 < k - 1:
        lemma_rcnt_ge(L, P, h0, h1, k - 1)
        lemma_rcin_nonneg(L, P, k - 1, P)
    else:
        lemma_rcnt_nonneg(L, P, k - 1)
        lemma_rcin_ge(L, P, h0, h1, P)


@lemma(props=["C01"])
def lemma_recombination_reversible(L: A[int, 2], L2: A[int, 2], P: int, a: int, b: int):
    """L2 = L with the interval labels of rows a and b exchanged, a and b differing inside and outside the interval:
    L2 has at least one recombination option"""
    requires(0 <= a, a < P, 0 <= b, b < P, L[a, 0] != L[b, 0], L[a, 1] != L[b, 1])
    requires(L2[a, 0] == L[b, 0], L2[b, 0] == L[a, 0], L2[a, 1] == L[a, 1], L2[b, 1] == L[b, 1])
    ensures(RNOPT(L2, P) >= 1)
    fa = FO(L2, a, 0, 2, 0)
    fb = FO(L2, b, 0, 2, 0)
    lemma_fo(L2, a, 0, 2, 0)
    lemma_fo(L2, b, 0, 2, 0)
    assert_(L2[fa, 0] == L2[a, 0] and L2[fa, 1] == L2[a, 1] and L2[fb, 0] == L2[b, 0] and L2[fb, 1] == L2[b, 1])
    with forall_intro(x, 0, fa, not ROWEQ(L2, x, fa, 0, 2)):
        assert_(not ROWEQ(L2, x, a, 0, 2))
    with forall_intro(x, 0, fb, not ROWEQ(L2, x, fb, 0, 2)):
        assert_(not ROWEQ(L2, x, b, 0, 2))
    lemma_first_copy_dose(L2, fa, 0, 2, P)
    lemma_first_copy_dose(L2, fb, 0, 2, P)
    unfold(RNOPT(L2, P))
    if fa < fb:
        lemma_rcnt_ge(L2, P, fa, fb, P)
    else:
        lemma_rcnt_ge(L2, P, fb, fa, P)


# ---- counting bound for `assert opt <= max_options` in recombination_step_options ------------------------------------


@lemma(shared=True)
def lemma_binom2(n: int):
    """C(n, 2) = n (n - 1) / 2"""
    requires(n >= 0)
    ensures(2 * binom(n, 2) == n * (n - 1))
    decreases(n)
    unfold(binom(n, 2))
    if n >= 2:
        lemma_binom2(n - 1)
        lemma_binom_one(n - 1)
    else:
        if n == 1:
            unfold(binom(0, 1), binom(0, 2))


@spec
def PAIRS(P: int, k: int) -> int:
    """number of pairs (x, y) with x < k, x < y < P"""
    decreases(k)
    if k <= 0:
        return 0
    return PAIRS(P, k - 1) + (P - k)


@lemma(shared=True)
def lemma_pairs_closed(P: int, k: int):
    requires(0 <= k, k <= P)
    ensures(2 * PAIRS(P, k) == k * (2 * P - k - 1), PAIRS(P, k) >= 0)
    decreases(k)
    unfold(PAIRS(P, k))
    if k > 0:
        lemma_pairs_closed(P, k - 1)


@lemma(shared=True)
def lemma_pairs_binom(P: int):
    requires(P >= 0)
    ensures(PAIRS(P, P) == binom(P, 2))
    lemma_pairs_closed(P, P)
    lemma_binom2(P)


@lemma(shared=True)
def lemma_rcin_le(L: A[int, 2], P: int, h0: int, m: int):
    requires(h0 + 1 <= m)
    ensures(RCIN(L, P, h0, m) <= m - h0 - 1)
    decreases(m - h0)
    unfold(RCIN(L, P, h0, m))
    if m > h0 + 1:
        lemma_rcin_le(L, P, h0, m - 1)
