# C02 / C03 / C18 -- mchap/jitutils.py : sums and normalisation in log space
# A log-probability is an extended real (value or -inf); exp(-inf) = 0.


@spec
def ESUM(a: A[xfloat, 1], lo: int, hi: int) -> float:
    """sum_{lo <= i < hi} exp(a[i])"""
    decreases(hi - lo)
    if hi <= lo:
        return 0.0
    return ESUM(a, lo, hi - 1) + exp(a[hi - 1])


@lemma(shared=True)
def lemma_esum_nonneg(a: A[xfloat, 1], lo: int, hi: int):
    requires(forall(lo, hi, lambda t: not isnan(a[t])))
    ensures(ESUM(a, lo, hi) >= 0)
    decreases(hi - lo)
    unfold(ESUM(a, lo, hi))
    ax_exp_mono_all()
    if hi > lo:
        lemma_esum_nonneg(a, lo, hi - 1)


@lemma(shared=True)
def lemma_esum_pos(a: A[xfloat, 1], lo: int, hi: int, t: int):
    """one finite entry makes the sum positive"""
    requires(forall(lo, hi, lambda s: not isnan(a[s])), lo <= t, t < hi, not isninf(a[t]))
    ensures(ESUM(a, lo, hi) > 0)
    decreases(hi - lo)
    unfold(ESUM(a, lo, hi))
    ax_exp_mono_all()
    if t < hi - 1:
        lemma_esum_pos(a, lo, hi - 1, t)
    else:
        lemma_esum_nonneg(a, lo, hi - 1)


@spec
def PROPTO(pa: float, ea: float, pb: float, eb: float) -> bool:
    """probabilities pa, pb are in the ratio of the weights ea, eb  (kept opaque: products of two
    variables inside quantifiers defeat pattern-based instantiation)"""
    return pa * eb == pb * ea


@lemma(shared=True)
def lemma_shares_proportional(pa: float, pb: float, S: float, ea: float, eb: float):
    """two shares of one total are in the ratio of their weights"""
    requires(finite(pa), finite(pb), finite(S), finite(ea), finite(eb), pa * S == ea, pb * S == eb)
    ensures(pa * eb == pb * ea)


@lemma(shared=True)
def lemma_norm_sum(p: A[float, 1], l: A[xfloat, 1], S: float, lo: int, hi: int):
    """shares p_i = exp(l_i) / S add up to ESUM / S"""
    requires(finite(S), forall(lo, hi, lambda i: real(p[i]) * S == exp(l[i])))
    ensures(FSUM(p, lo, hi) * S == ESUM(l, lo, hi))
    decreases(hi - lo)
    unfold(FSUM(p, lo, hi), ESUM(l, lo, hi))
    if hi > lo:
        lemma_norm_sum(p, l, S, lo, hi - 1)


@contract("mchap.jitutils.add_log_prob", machine_ints=True, props=["C02", "C03", "C18"])
def add_log_prob(x: float, y: float) -> float:
    # log(exp(x) + exp(y)), for all extended reals
    ensures(exp(result) == exp(x) + exp(y))
    ensures(isninf(result) == (isninf(x) and isninf(y)), not isnan(result))
    with before_stmt("return x + np.log1p(np.exp(y - x))"):
        ax_exp_add(x, log(1 + exp(y - x)))
        ax_exp_log(1 + exp(y - x))
        ax_exp_add(x, y - x)
        ax_exp_pos(y - x)
        ax_log_one()
    with before_stmt("return y + np.log1p(np.exp(x - y))"):
        ax_exp_add(y, log(1 + exp(x - y)))
        ax_exp_log(1 + exp(x - y))
        ax_exp_add(y, x - y)
        ax_exp_pos(x - y)
        ax_log_one()


@contract("mchap.jitutils.sum_log_probs", machine_ints=True, props=["C02", "C03", "C18"])
def sum_log_probs(array: A[f8, 1]) -> float:
    requires(len(array) >= 1, forall(0, len(array), lambda i: not isnan(array[i])))
    # log of the sum of the un-transformed values
    ensures(exp(result) == ESUM(array, 0, len(array)), not isnan(result))
    with entry():
        unfold(ESUM(array, 0, 1), ESUM(array, 0, 0))
    with loop(0):
        invariant(1 <= i, i <= len(array), exp(acumulate) == ESUM(array, 0, i))
        with head():
            unfold(ESUM(array, 0, i + 1))


@contract("mchap.jitutils.normalise_log_probs", machine_ints=True, props=["C02", "C03", "C18"])
def normalise_log_probs(llks: A[f8, 1]) -> A[f8, 1]:
    requires(len(llks) >= 1, forall(0, len(llks), lambda i: not isnan(llks[i])))
    # at least one option is possible
    requires(ESUM(llks, 0, len(llks)) > 0)
    # each entry is its share of the total: p_i * sum_j exp(l_j) == exp(l_i), and they sum to one
    ensures(len(result) == len(llks))
    ensures(forall(0, len(llks), lambda i: finite(result[i]) and result[i] >= 0 and result[i] * ESUM(llks, 0, len(llks)) == exp(llks[i])))
    ensures(FSUM(result, 0, len(llks)) == 1)
    with exit_():
        lemma_norm_sum(normalised, llks, ESUM(llks, 0, len(llks)), 0, len(llks))
    with loop(0):
        invariant(0 <= opt, opt <= n, n == len(llks), len(normalised) == n, not isninf(log_denominator))
        invariant(forall(0, opt, lambda i: finite(normalised[i]) and normalised[i] >= 0 and normalised[i] * ESUM(llks, 0, n) == exp(llks[i])))
        with head():
            ax_exp_add(llks[opt] - log_denominator, log_denominator)
            ax_exp_pos(llks[opt] - log_denominator)


@lemma(shared=True)
def lemma_esum_ext(a: A[xfloat, 1], b: A[xfloat, 1], lo: int, hi: int):
    requires(forall(lo, hi, lambda t: exp(a[t]) == exp(b[t])))
    ensures(ESUM(a, lo, hi) == ESUM(b, lo, hi))
    decreases(hi - lo)
    unfold(ESUM(a, lo, hi), ESUM(b, lo, hi))
    if hi > lo:
        lemma_esum_ext(a, b, lo, hi - 1)
