# C01 / C09 -- mchap/assemble/structural.py : the dosage-swap option enumerator.  Counting argument behind
# `assert opt <= max_options` and the reversibility of a dosage swap, over the counting spec DNOPT.
#
# Vocabulary (L a (P, 2) label matrix): SD(h) = DOSE(L, h, 0, 1, P) segment dosage (copies of h's interval segment at its
# first copy, else 0), HD(h) = DOSE(L, h, 0, 2, P) haplotype dosage, MULT(h) = NEQ(L, h, 0, 1, P) multiplicity of h's segment.


@spec
def NSEGF(L: A[int, 2], P: int, k: int) -> int:
    """number of distinct segments first seen among the first k haplotypes"""
    decreases(k)
    if k <= 0:
        return 0
    return NSEGF(L, P, k - 1) + ite(DOSE(L, k - 1, 0, 1, P) != 0, 1, 0)


@spec
def SAMESEG(L: A[int, 2], P: int, h0: int, m: int) -> int:
    decreases(m)
    if m <= 0:
        return 0
    return SAMESEG(L, P, h0, m - 1) + ite(DOSE(L, m - 1, 0, 1, P) != 0 and L[h0, 0] == L[m - 1, 0], 1, 0)


@spec
def RV(L: A[int, 2], P: int, k: int) -> int:
    """receivers among the first k haplotypes"""
    decreases(k)
    if k <= 0:
        return 0
    return RV(L, P, k - 1) + ite(DOSE(L, k - 1, 0, 2, P) != 0 and DOSE(L, k - 1, 0, 1, P) != 1, 1, 0)


@spec
def NR(L: A[int, 2], P: int, k: int) -> int:
    """haplotypes among the first k whose segment occurs at least twice in the genotype"""
    decreases(k)
    if k <= 0:
        return 0
    return NR(L, P, k - 1) + ite(NEQ(L, k - 1, 0, 1, P) >= 2, 1, 0)


@spec
def MR(L: A[int, 2], P: int, k: int) -> int:
    """sum of the segment dosages greater than one among the first k haplotypes"""
    decreases(k)
    if k <= 0:
        return 0
    return MR(L, P, k - 1) + ite(DOSE(L, k - 1, 0, 1, P) > 1, DOSE(L, k - 1, 0, 1, P), 0)


@lemma(shared=True)
def lemma_dcin_range(L: A[int, 2], P: int, h0: int, m: int):
    ensures(0 <= DCIN(L, P, h0, m), implies(m >= 0, DCIN(L, P, h0, m) <= m))
    decreases(m)
    unfold(DCIN(L, P, h0, m))
    if m > 0:
        lemma_dcin_range(L, P, h0, m - 1)


@lemma(shared=True)
def lemma_dcin_mono(L: A[int, 2], P: int, h0: int, a: int, b: int):
    requires(a <= b)
    ensures(DCIN(L, P, h0, a) <= DCIN(L, P, h0, b))
    decreases(b - a)
    if a < b:
        lemma_dcin_mono(L, P, h0, a, b - 1)
        unfold(DCIN(L, P, h0, b))
        if b <= 0:
            unfold(DCIN(L, P, h0, b - 1))


@lemma(shared=True)
def lemma_dcnt_mono(L: A[int, 2], P: int, a: int, b: int):
    requires(a <= b)
    ensures(DCNT(L, P, a) <= DCNT(L, P, b), 0 <= DCNT(L, P, a))
    decreases(b)
    if a < b and b > 0:
        lemma_dcnt_mono(L, P, a, b - 1)
        unfold(DCNT(L, P, b))
        lemma_dcin_range(L, P, b - 1, P)
    else:
        if a < b:
            unfold(DCNT(L, P, b), DCNT(L, P, a))
        else:
            lemma_dcnt_nonneg(L, P, a)


@lemma(shared=True)
def lemma_dcnt_nonneg(L: A[int, 2], P: int, a: int):
    ensures(0 <= DCNT(L, P, a))
    decreases(a)
    unfold(DCNT(L, P, a))
    if a > 0:
        lemma_dcnt_nonneg(L, P, a - 1)
        lemma_dcin_range(L, P, a - 1, P)


@lemma(shared=True)
def lemma_dcin_split(L: A[int, 2], P: int, h0: int, m: int):
    """donors + first copies of h0's own segment == all first copies"""
    ensures(DCIN(L, P, h0, m) + SAMESEG(L, P, h0, m) == NSEGF(L, P, m), SAMESEG(L, P, h0, m) >= 0)
    decreases(m)
    unfold(DCIN(L, P, h0, m), SAMESEG(L, P, h0, m), NSEGF(L, P, m))
    if m > 0:
        lemma_dcin_split(L, P, h0, m - 1)


@lemma(shared=True)
def lemma_sameseg_ge(L: A[int, 2], P: int, h0: int, f: int, m: int):
    requires(0 <= f, f < m, DOSE(L, f, 0, 1, P) != 0, L[h0, 0] == L[f, 0])
    ensures(SAMESEG(L, P, h0, m) >= 1)
    decreases(m)
    unfold(SAMESEG(L, P, h0, m))
    lemma_dcin_split(L, P, h0, m - 1)
    if f < m - 1:
        lemma_sameseg_ge(L, P, h0, f, m - 1)


@lemma(shared=True)
def lemma_dcin_le_md(L: A[int, 2], P: int, h0: int):
    """every receiver has at most (number of distinct segments - 1) donors"""
    requires(0 <= h0, h0 < P)
    ensures(DCIN(L, P, h0, P) <= NSEGF(L, P, P) - 1)
    f = FO(L, h0, 0, 1, 0)
    lemma_fo(L, h0, 0, 1, 0)
    with forall_intro(x, 0, f, not ROWEQ(L, x, f, 0, 1)):
        assert_(not ROWEQ(L, x, h0, 0, 1))
    lemma_first_copy_dose(L, f, 0, 1, P)
    lemma_sameseg_ge(L, P, h0, f, P)
    lemma_dcin_split(L, P, h0, P)


@lemma(shared=True)
def lemma_mult_of_later_copy(L: A[int, 2], h: int, lo: int, hi: int, P: int):
    """a haplotype that is not the first copy of its segment has multiplicity >= 2; every haplotype has multiplicity >= 1"""
    requires(0 <= h, h < P)
    ensures(NEQ(L, h, lo, hi, P) >= 1, implies(NEQ(L, h, lo, hi, h) >= 1, NEQ(L, h, lo, hi, P) >= 2))
    unfold(NEQ(L, h, lo, hi, h + 1))
    lemma_neq_mono(L, h, lo, hi, h + 1, P)
    lemma_neq_range(L, h, lo, hi, h)


@lemma(shared=True)
def lemma_rv_le_nr(L: A[int, 2], P: int, k: int):
    """a receiver's segment is not the only copy of that segment"""
    requires(0 <= k, k <= P)
    ensures(0 <= RV(L, P, k), RV(L, P, k) <= NR(L, P, k))
    decreases(k)
    unfold(RV(L, P, k), NR(L, P, k))
    if k > 0:
        lemma_rv_le_nr(L, P, k - 1)
        lemma_mult_of_later_copy(L, k - 1, 0, 1, P)
        lemma_neq_range(L, k - 1, 0, 1, k - 1)


@lemma(shared=True)
def lemma_rv_mono(L: A[int, 2], P: int, a: int, b: int):
    requires(0 <= a, a <= b)
    ensures(RV(L, P, a) <= RV(L, P, b), 0 <= RV(L, P, a))
    decreases(b)
    unfold(RV(L, P, b))
    if a < b:
        lemma_rv_mono(L, P, a, b - 1)
    else:
        if a > 0:
            lemma_rv_mono(L, P, a - 1, a - 1)


@spec
def BN(L: A[int, 2], P: int, n: int, k: int) -> int:
    """sum over the first copies x < k of repeated segments of the number of copies among the first n haplotypes"""
    decreases(k)
    if k <= 0:
        return 0
    return BN(L, P, n, k - 1) + ite(DOSE(L, k - 1, 0, 1, P) > 1, NEQ(L, k - 1, 0, 1, n), 0)


@lemma(shared=True)
def lemma_bn_step_other(L: A[int, 2], P: int, n: int, x0: int, k: int):
    """adding haplotype n - 1 changes only the term of the first copy x0 of its segment"""
    requires(1 <= n, n <= P, 0 <= k, k <= P, 0 <= x0, x0 < P, ROWEQ(L, n - 1, x0, 0, 1), NEQ(L, x0, 0, 1, x0) == 0)
    ensures(BN(L, P, n, k) == BN(L, P, n - 1, k) + ite(x0 < k and DOSE(L, x0, 0, 1, P) > 1, 1, 0))
    decreases(k)
    unfold(BN(L, P, n, k), BN(L, P, n - 1, k))
    if k > 0:
        lemma_bn_step_other(L, P, n, x0, k - 1)
        unfold(NEQ(L, k - 1, 0, 1, n))
        if k - 1 != x0 and DOSE(L, k - 1, 0, 1, P) > 1 and ROWEQ(L, n - 1, k - 1, 0, 1):
            # two different first copies of one segment: impossible
            if k - 1 < x0:
                lemma_neq_ge1(L, x0, 0, 1, x0, k - 1)
            else:
                lemma_neq_ge1(L, k - 1, 0, 1, k - 1, x0)


@lemma(shared=True)
def lemma_neq_ge1(G: A[int, 2], h: int, lo: int, hi: int, n: int, c: int):
    """an equal haplotype below n is counted"""
    requires(0 <= c, c < n, ROWEQ(G, c, h, lo, hi))
    ensures(NEQ(G, h, lo, hi, n) >= 1)
    decreases(n)
    unfold(NEQ(G, h, lo, hi, n))
    if c < n - 1:
        lemma_neq_ge1(G, h, lo, hi, n - 1, c)
    else:
        lemma_neq_range(G, h, lo, hi, n - 1)


@lemma(shared=True)
def lemma_nr_eq_bn(L: A[int, 2], P: int, n: int):
    """double counting: haplotypes (among the first n) with a repeated segment == sum over repeated segments of their copies (among the first n)"""
    requires(0 <= n, n <= P)
    ensures(NR(L, P, n) == BN(L, P, n, P))
    decreases(n)
    unfold(NR(L, P, n))
    if n > 0:
        lemma_nr_eq_bn(L, P, n - 1)
        x0 = FO(L, n - 1, 0, 1, 0)
        lemma_fo(L, n - 1, 0, 1, 0)
        with forall_intro(x, 0, x0, not ROWEQ(L, x, x0, 0, 1)):
            assert_(not ROWEQ(L, x, n - 1, 0, 1))
        lemma_neq_zero(L, x0, 0, 1, x0)
        lemma_bn_step_other(L, P, n, x0, P)
        lemma_neq_cong(L, x0, n - 1, 0, 1, P)
        lemma_mult_of_later_copy(L, x0, 0, 1, P)
    else:
        lemma_bn_zero(L, P, P)


@lemma(shared=True)
def lemma_bn_zero(L: A[int, 2], P: int, k: int):
    ensures(BN(L, P, 0, k) == 0)
    decreases(k)
    unfold(BN(L, P, 0, k))
    if k > 0:
        lemma_bn_zero(L, P, k - 1)
        unfold(NEQ(L, k - 1, 0, 1, 0))


@lemma(shared=True)
def lemma_bn_full_is_mr(L: A[int, 2], P: int, k: int):
    requires(0 <= k, k <= P)
    ensures(BN(L, P, P, k) == MR(L, P, k), MR(L, P, k) >= 0)
    decreases(k)
    unfold(BN(L, P, P, k), MR(L, P, k))
    if k > 0:
        lemma_bn_full_is_mr(L, P, k - 1)


@lemma(shared=True)
def lemma_mul_succ(a: int, b: int):
    ensures((a + 1) * b == a * b + b)


@lemma(shared=True)
def lemma_dcnt_le(L: A[int, 2], P: int, k: int):
    """options so far <= receivers so far x (distinct segments - 1)"""
    requires(0 <= k, k <= P)
    ensures(DCNT(L, P, k) <= RV(L, P, k) * (NSEGF(L, P, P) - 1))
    decreases(k)
    unfold(DCNT(L, P, k), RV(L, P, k))
    if k > 0:
        lemma_dcnt_le(L, P, k - 1)
        lemma_dcin_le_md(L, P, k - 1)
        lemma_mul_succ(RV(L, P, k - 1), NSEGF(L, P, P) - 1)


@lemma(props=["C01"])
def lemma_dosage_options_bound(L: A[int, 2], P: int):
    """the number of dosage-swap options fits the array the code allocates: sum of repeated segment dosages x (distinct segments - 1)"""
    requires(P >= 1)
    ensures(DNOPT(L, P) <= MR(L, P, P) * (NSEGF(L, P, P) - 1), NSEGF(L, P, P) >= 1, MR(L, P, P) >= 0)
    unfold(DNOPT(L, P))
    lemma_dcnt_le(L, P, P)
    lemma_rv_le_nr(L, P, P)
    lemma_nr_eq_bn(L, P, P)
    lemma_bn_full_is_mr(L, P, P)
    lemma_dcin_le_md(L, P, 0)
    lemma_dcin_range(L, P, 0, P)
    lemma_mul_mono(RV(L, P, P), MR(L, P, P), NSEGF(L, P, P) - 1)


# ---- reversibility of a dosage swap ----------------------------------------------------------------------------------


@spec
def WIT(G: A[int, 2], h: int, lo: int, hi: int, n: int) -> int:
    """some haplotype below n, other than h, equal to h on [lo, hi)  (-1 if none)"""
    decreases(n)
    if n <= 0:
        return -1
    if n - 1 != h and ROWEQ(G, n - 1, h, lo, hi):
        return n - 1
    return WIT(G, h, lo, hi, n - 1)


@lemma(shared=True)
def lemma_wit(G: A[int, 2], h: int, lo: int, hi: int, n: int):
    requires(NEQ(G, h, lo, hi, n) - ite(0 <= h and h < n, 1, 0) >= 1)
    ensures(0 <= WIT(G, h, lo, hi, n), WIT(G, h, lo, hi, n) < n, WIT(G, h, lo, hi, n) != h, ROWEQ(G, WIT(G, h, lo, hi, n), h, lo, hi))
    decreases(n)
    unfold(WIT(G, h, lo, hi, n), NEQ(G, h, lo, hi, n))
    if n > 0:
        if not (n - 1 != h and ROWEQ(G, n - 1, h, lo, hi)):
            lemma_wit(G, h, lo, hi, n - 1)


@lemma(shared=True)
def lemma_neq_ge2(G: A[int, 2], h: int, lo: int, hi: int, n: int, c1: int, c2: int):
    requires(0 <= c1, c1 < c2, c2 < n, ROWEQ(G, c1, h, lo, hi), ROWEQ(G, c2, h, lo, hi))
    ensures(NEQ(G, h, lo, hi, n) >= 2)
    decreases(n)
    unfold(NEQ(G, h, lo, hi, n))
    if c2 < n - 1:
        lemma_neq_ge2(G, h, lo, hi, n - 1, c1, c2)
    else:
        lemma_neq_ge1(G, h, lo, hi, n - 1, c1)


@lemma(shared=True)
def lemma_dcin_ge(L: A[int, 2], P: int, h0: int, d: int, m: int):
    requires(0 <= d, d < m, DOSE(L, d, 0, 1, P) != 0, L[h0, 0] != L[d, 0])
    ensures(DCIN(L, P, h0, m) >= 1)
    decreases(m)
    unfold(DCIN(L, P, h0, m))
    lemma_dcin_range(L, P, h0, m - 1)
    if d < m - 1:
        lemma_dcin_ge(L, P, h0, d, m - 1)


@lemma(shared=True)
def lemma_dcnt_ge(L: A[int, 2], P: int, r: int, k: int):
    requires(0 <= r, r < k, DOSE(L, r, 0, 2, P) != 0, DOSE(L, r, 0, 1, P) != 1, DCIN(L, P, r, P) >= 1)
    ensures(DCNT(L, P, k) >= 1)
    decreases(k)
    unfold(DCNT(L, P, k))
    lemma_dcnt_nonneg(L, P, k - 1)
    lemma_dcin_range(L, P, k - 1, P)
    if r < k - 1:
        lemma_dcnt_ge(L, P, r, k - 1)


@lemma(props=["C01"])
def lemma_dosage_reversible(L: A[int, 2], L2: A[int, 2], P: int, a: int, b: int):
    """L2 = L with the interval label of row a overwritten by that of row b, where a's segment was not the only copy of
    that segment and differs from b's: L2 has at least one dosage-swap option (the old segment can be copied back)"""
    requires(0 <= a, a < P, 0 <= b, b < P, L[a, 0] != L[b, 0], NEQ(L, a, 0, 1, P) >= 2)
    requires(forall(0, P, lambda h: L2[h, 1] == L[h, 1] and L2[h, 0] == ite(h == a, L[b, 0], L[h, 0])))
    ensures(DNOPT(L2, P) >= 1)
    r = FO(L2, a, 0, 2, 0)
    lemma_fo(L2, a, 0, 2, 0)
    assert_(L2[r, 0] == L2[a, 0])
    with forall_intro(x, 0, r, not ROWEQ(L2, x, r, 0, 2)):
        assert_(not ROWEQ(L2, x, a, 0, 2))
    lemma_first_copy_dose(L2, r, 0, 2, P)
    # the segment of r occurs at least twice in L2: rows a and b
    if a < b:
        lemma_neq_ge2(L2, r, 0, 1, P, a, b)
    else:
        lemma_neq_ge2(L2, r, 0, 1, P, b, a)
    # another copy c of a's old segment survives in L2; d is the first copy of that segment
    c = WIT(L, a, 0, 1, P)
    lemma_wit(L, a, 0, 1, P)
    assert_(L[c, 0] == L[a, 0] and L2[c, 0] == L[a, 0])
    d = FO(L2, c, 0, 1, 0)
    lemma_fo(L2, c, 0, 1, 0)
    assert_(L2[d, 0] == L2[c, 0])
    with forall_intro(x, 0, d, not ROWEQ(L2, x, d, 0, 1)):
        assert_(not ROWEQ(L2, x, c, 0, 1))
    lemma_first_copy_dose(L2, d, 0, 1, P)
    lemma_dcin_ge(L2, P, r, d, P)
    lemma_dcnt_ge(L2, P, r, P)
    unfold(DNOPT(L2, P))


@lemma(shared=True)
def lemma_msum_is_mr(sd: A[int, 1], m: A[bool, 1], L: A[int, 2], P: int, k: int):
    requires(forall(0, k, lambda x: sd[x] == DOSE(L, x, 0, 1, P) and m[x] == (sd[x] > 1)))
    ensures(MSUM(sd, m, k) == MR(L, P, k))
    decreases(k)
    unfold(MSUM(sd, m, k), MR(L, P, k))
    if k > 0:
        lemma_msum_is_mr(sd, m, L, P, k - 1)


@lemma(shared=True)
def lemma_bcount_is_nsegf(m: A[bool, 1], L: A[int, 2], P: int, k: int):
    requires(forall(0, k, lambda x: m[x] == (DOSE(L, x, 0, 1, P) > 0)), forall(0, k, lambda x: DOSE(L, x, 0, 1, P) >= 0))
    ensures(BCOUNT(m, 0, k) == NSEGF(L, P, k))
    decreases(k)
    unfold(BCOUNT(m, 0, k), NSEGF(L, P, k))
    if k > 0:
        lemma_bcount_is_nsegf(m, L, P, k - 1)


@lemma(shared=True)
def lemma_mr_bound(L: A[int, 2], P: int, k: int):
    requires(0 <= k, 0 <= P, P <= 127)
    ensures(0 <= MR(L, P, k), MR(L, P, k) <= 127 * k)
    decreases(k)
    unfold(MR(L, P, k))
    if k > 0:
        lemma_mr_bound(L, P, k - 1)
        lemma_neq_range(L, k - 1, 0, 1, P)


@lemma(shared=True)
def lemma_mul_bound(a: int, b: int, A_: int, B_: int):
    requires(0 <= a, a <= A_, 0 <= b, b <= B_)
    ensures(0 <= a * b, a * b <= A_ * B_)
    lemma_mul_mono(a, A_, b)
    lemma_mul_mono(b, B_, A_)
    lemma_mul_mono(0, a, b)
