# mchap/assemble/mutation.py -- C15 (sweep), C09 (carried llk), C01 (MH kernel)


@lemma(shared=True)
def lemma_mul_mono(a: int, b: int, n: int):
    requires(a <= b, n >= 0)
    ensures(a * n <= b * n)
    assert_((b - a) * n >= 0)


@lemma(shared=True)
def lemma_divmod(h: int, n: int, j: int):
    """(h*n + j) div n == h and (h*n + j) mod n == j  for 0 <= j < n"""
    requires(0 <= j, j < n)
    ensures((h * n + j) // n == h, (h * n + j) % n == j)
    assert_(h * n + j == n * ((h * n + j) // n) + (h * n + j) % n)
    assert_(n * (h - (h * n + j) // n) == (h * n + j) % n - j)


@lemma(shared=True)
def lemma_divmod_range(s: int, n: int, p: int):
    """0 <= s < p*n  ==>  0 <= s div n < p  and 0 <= s mod n < n"""
    requires(0 <= s, s < p * n, n >= 1, p >= 0)
    ensures(0 <= s // n, s // n < p, 0 <= s % n, s % n < n)
    assert_(s == n * (s // n) + s % n)
    if s // n >= p:
        lemma_mul_mono(p, s // n, n)
    if s // n < 0:
        lemma_mul_mono(s // n, -1, n)


@contract("mchap.assemble.mutation.base_step", trusted=True, props=["C15x"], opt_result={"1": "cache"})
def base_step(genotype: A[i1, 2], reads: A[f8, 3], llk: float, h: int, j: int, n_alleles: int, log_unique_haplotypes: float, inbreeding: float, temp: float, read_counts: Opt[A[i8, 1]], cache: Opt[ArrayMap]) -> Tup[float, Opt[ArrayMap]]:
    requires(0 <= h, h < len(genotype), 0 <= j, j < genotype.shape[1])
    modifies(genotype)


@contract("mchap.assemble.mutation.compound_step", machine_ints=True, props=["C15"], opt_result={"1": "cache"})
def compound_step(genotype: A[i1, 2], reads: A[f8, 3], llk: float, n_alleles: A[i8, 1], log_unique_haplotypes: float, inbreeding: float, temp: float, read_counts: Opt[A[i8, 1]], cache: Opt[ArrayMap]) -> Tup[float, Opt[ArrayMap]]:
    requires(len(n_alleles) == genotype.shape[1])
    requires(len(genotype) * genotype.shape[1] <= 2 ** 48)  # A7 for the (ploidy*n_base, 2) table
    modifies(genotype)
    with loop(0):
        invariant(0 <= h, h <= ploidy, ploidy == len(genotype), n_base == genotype.shape[1], len(substeps) == ploidy * n_base)
        invariant(forall(0, h * n_base, lambda s: substeps[s, 0] == s // n_base and substeps[s, 1] == s % n_base))
    with loop(1):
        invariant(0 <= j, j <= n_base, 0 <= h, h < ploidy, ploidy == len(genotype), n_base == genotype.shape[1], len(substeps) == ploidy * n_base)
        invariant(forall(0, h * n_base + j, lambda s: substeps[s, 0] == s // n_base and substeps[s, 1] == s % n_base))
        with head():
            lemma_divmod(h, n_base, j)
            lemma_mul_mono(h + 1, ploidy, n_base)
    with loop(2):
        invariant(ploidy == len(genotype), n_base == genotype.shape[1], len(substeps) == ploidy * n_base)
        # after the shuffle row i holds the pair number sigma(i), sigma a bijection of [0, P*N)
        invariant(forall(0, ploidy * n_base, lambda s: substeps[s, 0] == shuffle0(s) // n_base and substeps[s, 1] == shuffle0(s) % n_base))
        invariant(forall(0, ploidy * n_base, lambda s: 0 <= shuffle0(s) and shuffle0(s) < ploidy * n_base))
        with head():
            lemma_divmod_range(shuffle0(i), n_base, ploidy)
    with after_stmt("h, j = substeps[i]"):
        # C15: the i-th attempted mutation is the pair (sigma(i) div N, sigma(i) mod N); since sigma is a
        # bijection of [0, P*N) and s -> (s div N, s mod N) a bijection onto [0,P) x [0,N), every pair once
        assert_(h == shuffle0(i) // n_base and j == shuffle0(i) % n_base)
        assert_(0 <= h and h < ploidy and 0 <= j and j < n_base)
