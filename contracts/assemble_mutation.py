# mchap/assemble/mutation.py -- C15 (sweep), C09 (carried llk), C01 (MH kernel)


@lemma(shared=True)
def lemma_mul_mono(a: int, b: int, n: int):
    requires(a <= b, n >= 0)
    ensures(a * n <= b * n)
    assert_((b - a) * n >= 0)


@lemma(shared=True)
def lemma_divmod(h: int, n: int, j: int):
    """(h*n + j) div n == h and (h*n + j) mod n == j  for 0 <= j < n"""
    requires(0 <= j, j < n)
    ensures((h * n + j) // n == h, (h * n + j) % n == j)
    assert_(h * n + j == n * ((h * n + j) // n) + (h * n + j) % n)
    assert_(n * (h - (h * n + j) // n) == (h * n + j) % n - j)


@lemma(shared=True)
def lemma_divmod_range(s: int, n: int, p: int):
    """0 <= s < p*n  ==>  0 <= s div n < p  and 0 <= s mod n < n"""
    requires(0 <= s, s < p * n, n >= 1, p >= 0)
    ensures(0 <= s // n, s // n < p, 0 <= s % n, s % n < n)
    assert_(s == n * (s // n) + s % n)
    if s // n >= p:
        lemma_mul_mono(p, s // n, n)
    if s // n < 0:
        lemma_mul_mono(s // n, -1, n)


@spec_inline
def UPD(G: A[int, 2], h: int, j: int, a: int) -> A[int, 2]:
    return arr2(lambda x, y: ite(x == h and y == j, a, G[x, y]))


@spec
def LLKU(reads: A[float, 3], counts: A[int, 1], G: A[int, 2], h: int, j: int, a: int, P: int, N: int, n: int) -> xfloat:
    """likelihood of the genotype G with cell (h, j) replaced by allele a"""
    return LLK(reads, counts, UPD(G, h, j, a), P, N, n)


@spec
def GPRIOR(G: A[int, 2], P: int, N: int, lu: float, F: float) -> float:
    """the assemble genotype prior as a function of the genotype: LAPRIOR of its haplotype dosage"""
    return LAPRIOR(arr1(lambda q: DOSE(G, q, 0, N, P)), P, lu, F)


@spec
def GPRIORU(G: A[int, 2], h: int, j: int, a: int, P: int, N: int, lu: float, F: float) -> float:
    return GPRIOR(UPD(G, h, j, a), P, N, lu, F)


@spec
def NCU(G: A[int, 2], h: int, j: int, a: int, N: int, P: int) -> int:
    """copies of haplotype h (itself included) after cell (h, j) is set to allele a"""
    return 1 + NCOPIES(UPD(G, h, j, a), h, N, P)


@spec
def MHLOG(reads: A[float, 3], counts: A[int, 1], G: A[int, 2], h: int, j: int, a: int, P: int, N: int, n: int, lu: float, F: float, temp: float) -> float:
    """C01: log Metropolis-Hastings acceptance of the single-base mutation (h, j) -> a at inverse temperature temp:
    min(0, temp * (log-likelihood ratio + log-prior ratio) + log(copies of h after / copies of h before))"""
    return min(0.0, ((real(LLKU(reads, counts, G, h, j, a, P, N, n)) - real(LLK(reads, counts, G, P, N, n))) + (GPRIORU(G, h, j, a, P, N, lu, F) - GPRIOR(G, P, N, lu, F))) * temp + (real(log(NCU(G, h, j, a, N, P))) - real(log(1 + NCOPIES(G, h, N, P)))))


@contract("mchap.assemble.mutation.base_step", machine_ints=True, props=["C09", "C01"], opt_result={"1": "cache"})
def base_step(genotype: A[i1, 2], reads: A[f8, 3], llk: float, h: int, j: int, n_alleles: int, log_unique_haplotypes: float, inbreeding: float, temp: float, read_counts: Opt[A[i8, 1]], cache: Opt[ArrayMap]) -> Tup[float, Opt[ArrayMap]]:
    requires(0 <= h, h < len(genotype), 0 <= j, j < genotype.shape[1], len(genotype) <= 127)
    requires(reads.shape[1] == genotype.shape[1])
    requires(2 <= n_alleles, n_alleles <= reads.shape[2], n_alleles <= 128)
    requires(0 <= temp, temp <= 1, 0 <= inbreeding, inbreeding < 1, finite(log_unique_haplotypes))
    requires(implies(read_counts is not None, len(read_counts) == len(reads) and forall(0, len(reads), lambda r: read_counts[r] >= 1)))
    requires(forall(0, len(genotype), lambda x: forall(0, genotype.shape[1], lambda y: 0 <= genotype[x, y] and genotype[x, y] < reads.shape[2])))
    requires(genotype[h, j] < n_alleles)
    requires(READSOK(reads, len(reads), reads.shape[1], reads.shape[2]))
    # reads have positive probability under every candidate genotype (true for error-rate encoded reads)
    requires(forall(0, n_alleles, lambda a: not isninf(LLKU(reads, CN, genotype, h, j, a, P, N, len(reads)))))
    # C09: the carried likelihood is the likelihood of the current genotype
    requires(llk == LLK(reads, CN, genotype, P, N, len(reads)))
    requires(implies(cache is not None, AMOK(cache, len(cache[0]), cache[0].shape[1], len(cache[1])) and cache[2] == P * N and n_alleles <= cache[0].shape[1] and forall(0, P, lambda x: forall(0, N, lambda y: old(genotype)[x, y] < cache[0].shape[1]))))
    requires(implies(cache is not None, COH(cache, reads, CN, P, N, len(reads))))
    modifies(genotype, cache)
    # C09: ... and so is the returned one, for the updated genotype
    ensures(result[0] == LLK(reads, CN, genotype, P, N, len(reads)))
    ensures(implies(cache is not None, AMOK(result[1], len(result[1][0]), result[1][0].shape[1], len(result[1][1])) and result[1][2] == cache[2] and result[1][0].shape[1] == cache[0].shape[1]))
    ensures(implies(cache is not None, COH(result[1], reads, CN, P, N, len(reads))))
    # only cell (h, j) may change, and it stays a valid allele of this SNV
    ensures(forall(0, P, lambda x: forall(0, N, lambda y: implies(x != h or y != j, genotype[x, y] == old(genotype)[x, y]))))
    ensures(0 <= genotype[h, j], genotype[h, j] < n_alleles)
    with defs():
        P = len(genotype)
        N = genotype.shape[1]
        CN = ones_if_none(read_counts)
    with loop(0):
        invariant(0 <= i, i <= n_alleles, n_options == i - ite(i > current_nucleotide, 1, 0), current_nucleotide == old(genotype)[h, j])
        invariant(implies(i > current_nucleotide, isninf(log_accept[current_nucleotide])))
        invariant(len(llks) == n_alleles, len(log_accept) == n_alleles, len(dosage) == ploidy, ploidy == P)
        invariant(forall(0, P, lambda x: forall(0, N, lambda y: implies(x != h or y != j, genotype[x, y] == old(genotype)[x, y]))))
        invariant(0 <= genotype[h, j], genotype[h, j] < n_alleles)
        invariant(forall(0, i, lambda a: llks[a] == LLKU(reads, CN, old(genotype), h, j, a, P, N, len(reads))))
        # C01: the Metropolis-Hastings log acceptance of every other allele
        invariant(val(genotype) == arr2(lambda x, y: ite(x == h and y == j, genotype[h, j], old(genotype)[x, y])))
        invariant(lprior == GPRIOR(old(genotype), P, N, log_unique_haplotypes, inbreeding), lhapcount == log(1 + NCOPIES(old(genotype), h, N, P)), finite(lprior))
        invariant(forall(0, i, lambda a: implies(a != current_nucleotide, log_accept[a] == MHLOG(reads, CN, old(genotype), h, j, a, P, N, len(reads), log_unique_haplotypes, inbreeding, temp))))
        invariant(forall(0, i, lambda a: not isnan(log_accept[a]) and implies(not isninf(log_accept[a]), log_accept[a] <= 0)))
        invariant(implies(cache is not None, AMOK(cache, len(cache[0]), cache[0].shape[1], len(cache[1])) and cache[2] == P * N and n_alleles <= cache[0].shape[1] and forall(0, P, lambda x: forall(0, N, lambda y: old(genotype)[x, y] < cache[0].shape[1]))))
        invariant(implies(cache is not None, COH(cache, reads, CN, P, N, len(reads))))
        with head():
            unfold(LLKU(reads, CN, old(genotype), h, j, i, P, N, len(reads)))
            unfold(LLKU(reads, CN, old(genotype), h, j, current_nucleotide, P, N, len(reads)))
            lemma_llk_ext(reads, CN, old(genotype), UPD(old(genotype), h, j, current_nucleotide), P, N, len(reads))
    with after_stmt("genotype[h, j] = i"):
        lemma_llk_ext(reads, CN, genotype, UPD(old(genotype), h, j, i), P, N, len(reads))
        unfold(GPRIORU(old(genotype), h, j, i, P, N, log_unique_haplotypes, inbreeding))
        unfold(GPRIOR(UPD(old(genotype), h, j, i), P, N, log_unique_haplotypes, inbreeding))
        unfold(NCU(old(genotype), h, j, i, N, P))
        unfold(MHLOG(reads, CN, old(genotype), h, j, i, P, N, len(reads), log_unique_haplotypes, inbreeding, temp))
    with after_call("log_genotype_prior", 0):
        unfold(GPRIOR(old(genotype), P, N, log_unique_haplotypes, inbreeding))
        lemma_laprior_ext(dosage, arr1(lambda q: DOSE(old(genotype), q, 0, N, P)), P, log_unique_haplotypes, inbreeding)
    with after_call("log_genotype_prior", 1):
        lemma_laprior_ext(dosage, arr1(lambda q: DOSE(UPD(old(genotype), h, j, i), q, 0, N, P)), P, log_unique_haplotypes, inbreeding)
    with before_stmt("choice = random_choice(probabilities)"):
        # C01: the vector handed to the sampler is the Metropolis-Hastings kernel of the single-base mutation
        assert_(forall(0, n_alleles, lambda a: implies(a != current_nucleotide, probabilities[a] == exp(MHLOG(reads, CN, old(genotype), h, j, a, P, N, len(reads), log_unique_haplotypes, inbreeding, temp) - real(log(n_alleles - 1))))))
    with before_stmt("probabilities[current_nucleotide] = 1 - probabilities.sum()"):
        # the vector handed to random_choice is a probability distribution
        PB = val(probabilities)
        ax_exp_mono_all()
        lemma_exp_neg_log(n_options)
        lemma_fsum_bound(PB, 0, n_alleles, exp(-real(log(n_options))), current_nucleotide)
    with after_stmt("probabilities[current_nucleotide] = 1 - probabilities.sum()"):
        lemma_fsum_upd(PB, probabilities, 0, n_alleles, current_nucleotide)
    with exit_():
        unfold(LLKU(reads, CN, old(genotype), h, j, choice, P, N, len(reads)))
        lemma_llk_ext(reads, CN, genotype, UPD(old(genotype), h, j, choice), P, N, len(reads))


@spec_inline
def VALIDG(G: A[int, 2], n_alleles: A[int, 1], P: int, N: int) -> bool:
    """every cell holds an allele of its SNV"""
    return forall(0, P, lambda x: forall(0, N, lambda y: 0 <= G[x, y] and G[x, y] < n_alleles[y]))


@spec_inline
def POSREADS(reads: A[float, 3], counts: A[int, 1], n_alleles: A[int, 1], P: int, N: int, n: int) -> bool:
    """every read has positive probability under every genotype over the SNV alleles (true for
    error-rate encoded reads): all likelihoods the sampler can meet are finite"""
    return forall_arr2(lambda G2: implies(VALIDG(G2, n_alleles, P, N), not isninf(LLK(reads, counts, G2, P, N, n))), pattern=LLK(reads, counts, G2, P, N, n))


@contract("mchap.assemble.mutation.compound_step", machine_ints=True, props=["C15", "C09", "C01"], opt_result={"1": "cache"})
def compound_step(genotype: A[i1, 2], reads: A[f8, 3], llk: float, n_alleles: A[iN, 1], log_unique_haplotypes: float, inbreeding: float, temp: float, read_counts: Opt[A[i8, 1]], cache: Opt[ArrayMap]) -> Tup[float, Opt[ArrayMap]]:
    requires(len(n_alleles) == genotype.shape[1])
    requires(len(genotype) * genotype.shape[1] <= 2 ** 48)  # A7 for the (ploidy*n_base, 2) table
    requires(len(genotype) <= 127, reads.shape[1] == genotype.shape[1])
    requires(forall(0, len(n_alleles), lambda y: 2 <= n_alleles[y] and n_alleles[y] <= reads.shape[2] and n_alleles[y] <= 128))
    requires(0 <= temp, temp <= 1, 0 <= inbreeding, inbreeding < 1, finite(log_unique_haplotypes))
    requires(implies(read_counts is not None, len(read_counts) == len(reads) and forall(0, len(reads), lambda r: read_counts[r] >= 1)))
    requires(VALIDG(genotype, n_alleles, PP, NN))
    requires(READSOK(reads, len(reads), reads.shape[1], reads.shape[2]))
    requires(POSREADS(reads, CN, n_alleles, PP, NN, len(reads)))
    requires(llk == LLK(reads, CN, genotype, PP, NN, len(reads)))
    requires(implies(cache is not None, AMOK(cache, len(cache[0]), cache[0].shape[1], len(cache[1])) and cache[2] == PP * NN and forall(0, NN, lambda y: n_alleles[y] <= cache[0].shape[1])))
    requires(implies(cache is not None, COH(cache, reads, CN, PP, NN, len(reads))))
    modifies(genotype, cache)
    # C09: the returned likelihood is the likelihood of the genotype left behind by the sweep
    ensures(result[0] == LLK(reads, CN, genotype, PP, NN, len(reads)))
    ensures(VALIDG(genotype, n_alleles, PP, NN))
    ensures(implies(cache is not None, AMOK(result[1], len(result[1][0]), result[1][0].shape[1], len(result[1][1])) and result[1][2] == cache[2] and result[1][0].shape[1] == cache[0].shape[1]))
    ensures(implies(cache is not None, COH(result[1], reads, CN, PP, NN, len(reads))))
    with defs():
        PP = len(genotype)
        NN = genotype.shape[1]
        CN = ones_if_none(read_counts)
    with loop(0):
        invariant(0 <= h, h <= ploidy, ploidy == len(genotype), n_base == genotype.shape[1], len(substeps) == ploidy * n_base)
        invariant(forall(0, h * n_base, lambda s: substeps[s, 0] == s // n_base and substeps[s, 1] == s % n_base))
    with loop(1):
        invariant(0 <= j, j <= n_base, 0 <= h, h < ploidy, ploidy == len(genotype), n_base == genotype.shape[1], len(substeps) == ploidy * n_base)
        invariant(forall(0, h * n_base + j, lambda s: substeps[s, 0] == s // n_base and substeps[s, 1] == s % n_base))
        with head():
            lemma_divmod(h, n_base, j)
            lemma_mul_mono(h + 1, ploidy, n_base)
    with loop(2):
        invariant(ploidy == len(genotype), n_base == genotype.shape[1], len(substeps) == ploidy * n_base)
        # after the shuffle row i holds the pair number sigma(i), sigma a bijection of [0, P*N)
        invariant(forall(0, ploidy * n_base, lambda s: substeps[s, 0] == shuffle0(s) // n_base and substeps[s, 1] == shuffle0(s) % n_base))
        invariant(forall(0, ploidy * n_base, lambda s: 0 <= shuffle0(s) and shuffle0(s) < ploidy * n_base))
        invariant(llk == LLK(reads, CN, genotype, PP, NN, len(reads)), VALIDG(genotype, n_alleles, PP, NN))
        invariant(implies(cache is not None, AMOK(cache, len(cache[0]), cache[0].shape[1], len(cache[1])) and cache[2] == PP * NN and forall(0, NN, lambda y: n_alleles[y] <= cache[0].shape[1])))
        invariant(implies(cache is not None, COH(cache, reads, CN, PP, NN, len(reads))))
        with head():
            lemma_divmod_range(shuffle0(i), n_base, ploidy)
    with after_stmt("h, j = substeps[i]"):
        # C15: the i-th attempted mutation is the pair (sigma(i) div N, sigma(i) mod N); since sigma is a
        # bijection of [0, P*N) and s -> (s div N, s mod N) a bijection onto [0,P) x [0,N), every pair once
        assert_(h == shuffle0(i) // n_base and j == shuffle0(i) % n_base)
        assert_(0 <= h and h < ploidy and 0 <= j and j < n_base)
        with forall_intro(a, 0, n_alleles[j], not isninf(LLKU(reads, CN, genotype, h, j, a, PP, NN, len(reads)))):
            unfold(LLKU(reads, CN, genotype, h, j, a, PP, NN, len(reads)))
            assert_(VALIDG(UPD(genotype, h, j, a), n_alleles, PP, NN))
            instantiate(POSREADS(reads, CN, n_alleles, PP, NN, len(reads)), UPD(genotype, h, j, a))
