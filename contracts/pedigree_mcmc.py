# C18 / C09 (call-pedigree) -- mchap/pedigree/mcmc.py : single-allele updates of one individual
#
# The inheritance prior (pedigree/prior.py, ~1400 lines of gamete enumeration) is NOT under U contract:
# markov_blanket_log_allele_probability is an ASSUMED contract whose result is an abstract function MBLAP of
# its inputs; what is proved here is how the sampler combines it with the individual's own read likelihood.


@spec_abstract
def TRIO(g: A[int, 1], gp: A[int, 1], gq: A[int, 1], ploidy_p: int, ploidy_q: int, tau_p: int, tau_q: int, lam_p: float, lam_q: float, err_p: float, err_q: float, lf: A[xfloat, 1]) -> xfloat:
    """log probability of a progeny genotype given its two parents (abstract: the result of prior.trio_log_pmf,
    an ASSUMED contract; C17 checks that function at run time against a brute-force gamete model)"""


@spec_abstract
def TRIOA(k: int, g: A[int, 1], gp: A[int, 1], gq: A[int, 1], ploidy_p: int, ploidy_q: int, tau_p: int, tau_q: int, lam_p: float, lam_q: float, err_p: float, err_q: float, lf: A[xfloat, 1]) -> xfloat:
    """log probability of allele copy k of the progeny given the rest of the trio (abstract: prior.trio_allele_log_pmf)"""


@spec_inline
def PROW(p: int, NS: int) -> int:
    """row read by `sample_genotypes[p]`: an unknown parent (-1) wraps around to the last row (ignored by the pmf: ploidy 0, error 1)"""
    return ite(p >= 0, p, NS + p)


@spec_inline
def PEDSTRUCT(parents: A[int, 2], lam: A[float, 2], err: A[float, 2], NS: int) -> bool:
    """parent indices name individuals (-1: unknown); per-edge rates are numbers"""
    return forall(0, NS, lambda x: -1 <= parents[x, 0] and parents[x, 0] < NS and -1 <= parents[x, 1] and parents[x, 1] < NS and finite(lam[x, 0]) and finite(lam[x, 1]) and finite(err[x, 0]) and finite(err[x, 1]))


@spec
def TRIOI(i: int, SG: A[int, 2], ploidy: A[int, 1], parents: A[int, 2], tau: A[int, 2], lam: A[float, 2], err: A[float, 2], lf: A[xfloat, 1], NS: int) -> xfloat:
    """the trio in which individual i is the child"""
    return TRIO(SG[i], SG[PROW(parents[i, 0], NS)], SG[PROW(parents[i, 1], NS)], ite(parents[i, 0] >= 0, ploidy[parents[i, 0]], 0), ite(parents[i, 1] >= 0, ploidy[parents[i, 1]], 0), tau[i, 0], tau[i, 1], lam[i, 0], lam[i, 1], ite(parents[i, 0] >= 0, err[i, 0], 1.0), ite(parents[i, 1] >= 0, err[i, 1], 1.0), lf)


@spec
def TRIOAI(i: int, k: int, SG: A[int, 2], ploidy: A[int, 1], parents: A[int, 2], tau: A[int, 2], lam: A[float, 2], err: A[float, 2], lf: A[xfloat, 1], NS: int) -> xfloat:
    return TRIOA(k, SG[i], SG[PROW(parents[i, 0], NS)], SG[PROW(parents[i, 1], NS)], ite(parents[i, 0] >= 0, ploidy[parents[i, 0]], 0), ite(parents[i, 1] >= 0, ploidy[parents[i, 1]], 0), tau[i, 0], tau[i, 1], lam[i, 0], lam[i, 1], ite(parents[i, 0] >= 0, err[i, 0], 1.0), ite(parents[i, 1] >= 0, err[i, 1], 1.0), lf)


@spec
def NCH(children: A[int, 2], t: int, j: int, MC: int) -> int:
    """number of children of t: row t of the children matrix is padded with negative values"""
    decreases(MC - j)
    if j >= MC or children[t, j] < 0:
        return j
    return NCH(children, t, j + 1, MC)


@spec
def CHSUM(t: int, c: int, SG: A[int, 2], ploidy: A[int, 1], parents: A[int, 2], children: A[int, 2], tau: A[int, 2], lam: A[float, 2], err: A[float, 2], lf: A[xfloat, 1], NS: int) -> xfloat:
    """sum of the trio log probabilities of the first c children of t"""
    decreases(c)
    if c <= 0:
        return 0.0
    return CHSUM(t, c - 1, SG, ploidy, parents, children, tau, lam, err, lf, NS) + TRIOI(children[t, c - 1], SG, ploidy, parents, tau, lam, err, lf, NS)


@lemma(shared=True)
def lemma_nch(children: A[int, 2], t: int, j: int, c: int, MC: int):
    """the loop's exit point is the number of children"""
    requires(0 <= j, j <= c, c <= MC, forall(j, c, lambda x: children[t, x] >= 0), c == MC or children[t, c] < 0)
    ensures(NCH(children, t, j, MC) == c)
    decreases(c - j)
    unfold(NCH(children, t, j, MC))
    if j < c:
        lemma_nch(children, t, j + 1, c, MC)


@spec
def MBLAP(target: int, k: int, SG: A[int, 2], ploidy: A[int, 1], parents: A[int, 2], children: A[int, 2], tau: A[int, 2], lam: A[float, 2], err: A[float, 2], lf: A[xfloat, 1], NS: int, MC: int) -> xfloat:
    """log probability of allele copy k of individual `target` given its Markov blanket: the allele-level pmf of
    the trio in which target is the child + the full pmf of the trio of each of its children"""
    return TRIOAI(target, k, SG, ploidy, parents, tau, lam, err, lf, NS) + CHSUM(target, NCH(children, target, 0, MC), SG, ploidy, parents, children, tau, lam, err, lf, NS)


@spec
def MBLAPU(target: int, k: int, a: int, SG: A[int, 2], ploidy: A[int, 1], parents: A[int, 2], children: A[int, 2], tau: A[int, 2], lam: A[float, 2], err: A[float, 2], lf: A[xfloat, 1], NS: int, MC: int) -> xfloat:
    """... with that copy set to allele a"""
    return MBLAP(target, k, arr2(lambda x, y: ite(x == target and y == k, a, SG[x, y])), ploidy, parents, children, tau, lam, err, lf, NS, MC)


@spec
def LLKAZU(reads: A[float, 3], counts: A[int, 1], H: A[int, 2], SG: A[int, 2], t: int, k: int, a: int, P: int, N: int, n: int) -> xfloat:
    """masked likelihood of individual t's genotype (row t of SG) with copy k replaced by allele a"""
    return LLKAZ(reads, counts, H, arr1(lambda i: ite(i == k, a, SG[t, i])), P, N, n)


@lemma(shared=True)
def lemma_llkaz_perm(reads: A[float, 3], counts: A[int, 1], H: A[int, 2], g: A[int, 1], g2: A[int, 1], p: A[int, 1], q: A[int, 1], P: int, N: int, n: int):
    requires(P >= 0, n >= 0, BIJ(p, q, P), forall(0, P, lambda h: g2[h] == g[p[h]]))
    ensures(same(LLKAZ(reads, counts, H, g2, P, N, n), LLKAZ(reads, counts, H, g, P, N, n)))
    decreases(n)
    unfold(LLKAZ(reads, counts, H, g2, P, N, n), LLKAZ(reads, counts, H, g, P, N, n))
    if n >= 1:
        lemma_llkaz_perm(reads, counts, H, g, g2, p, q, P, N, n - 1)
        lemma_arp_perm(reads, H, g, g2, p, q, n - 1, N, P)


@lemma(shared=True)
def lemma_llkaz_pos(reads: A[float, 3], counts: A[int, 1], H: A[int, 2], g: A[int, 1], P: int, N: int, n: int):
    """all counts positive: nothing is masked"""
    requires(forall(0, n, lambda r: counts[r] > 0))
    ensures(same(LLKAZ(reads, counts, H, g, P, N, n), LLKA(reads, counts, H, g, P, N, n)))
    decreases(n)
    unfold(LLKAZ(reads, counts, H, g, P, N, n), LLKA(reads, counts, H, g, P, N, n))
    if n >= 1:
        lemma_llkaz_pos(reads, counts, H, g, P, N, n - 1)


@contract("mchap.pedigree.prior.trio_log_pmf", trusted=True, props=["C18"])
def trio_log_pmf(progeny: A[iN, 1], parent_p: A[iN, 1], parent_q: A[iN, 1], ploidy_p: int, ploidy_q: int, tau_p: int, tau_q: int, lambda_p: float, lambda_q: float, error_p: float, error_q: float, log_frequencies: A[f8, 1], dosage: A[iN, 1], dosage_p: A[iN, 1], dosage_q: A[iN, 1], gamete_p: A[iN, 1], gamete_q: A[iN, 1], constraint_p: A[iN, 1], constraint_q: A[iN, 1], dosage_log_frequencies: A[f8, 1]) -> float:
    # ASSUMED: ~250 lines of gamete enumeration with try/except control flow (C17 checks it at run time)
    modifies(dosage, dosage_p, dosage_q, gamete_p, gamete_q, constraint_p, constraint_q, dosage_log_frequencies)
    ensures(not isnan(result))
    ensures(result == TRIO(progeny, parent_p, parent_q, ploidy_p, ploidy_q, tau_p, tau_q, lambda_p, lambda_q, error_p, error_q, log_frequencies))


@contract("mchap.pedigree.prior.trio_allele_log_pmf", trusted=True, props=["C18"])
def trio_allele_log_pmf(allele_index: int, progeny: A[iN, 1], parent_p: A[iN, 1], parent_q: A[iN, 1], ploidy_p: int, ploidy_q: int, tau_p: int, tau_q: int, lambda_p: float, lambda_q: float, error_p: float, error_q: float, log_frequencies: A[f8, 1], dosage: A[iN, 1], dosage_p: A[iN, 1], dosage_q: A[iN, 1], gamete_p: A[iN, 1], gamete_q: A[iN, 1], constraint_p: A[iN, 1], constraint_q: A[iN, 1], dosage_log_frequencies: A[f8, 1]) -> float:
    modifies(dosage, dosage_p, dosage_q, gamete_p, gamete_q, constraint_p, constraint_q, dosage_log_frequencies)
    ensures(not isnan(result))
    ensures(result == TRIOA(allele_index, progeny, parent_p, parent_q, ploidy_p, ploidy_q, tau_p, tau_q, lambda_p, lambda_q, error_p, error_q, log_frequencies))


@contract("mchap.pedigree.prior.markov_blanket_log_allele_probability", machine_ints=True, neg_index=True, props=["C18"])
def markov_blanket_log_allele_probability(target_index: int, allele_index: int, sample_genotypes: A[iN, 2], sample_ploidy: A[iN, 1], sample_parents: A[iN, 2], sample_children: A[iN, 2], gamete_tau: A[iN, 2], gamete_lambda: A[f8, 2], gamete_error: A[f8, 2], log_frequencies: A[f8, 1], dosage: A[iN, 1], dosage_p: A[iN, 1], dosage_q: A[iN, 1], gamete_p: A[iN, 1], gamete_q: A[iN, 1], constraint_p: A[iN, 1], constraint_q: A[iN, 1], dosage_log_frequencies: A[f8, 1]) -> float:
    requires(NS >= 1, 0 <= target_index, target_index < NS, sample_genotypes.shape[0] == NS, len(sample_parents) == NS, sample_parents.shape[1] == 2, len(sample_children) == NS)
    requires(gamete_tau.shape == (NS, 2), gamete_lambda.shape == (NS, 2), gamete_error.shape == (NS, 2))
    requires(forall(0, MC, lambda x: sample_children[target_index, x] < NS))
    requires(PEDSTRUCT(sample_parents, gamete_lambda, gamete_error, NS))
    modifies(dosage, dosage_p, dosage_q, gamete_p, gamete_q, constraint_p, constraint_q, dosage_log_frequencies)
    ensures(not isnan(result))
    ensures(result == MBLAP(target_index, allele_index, sample_genotypes, sample_ploidy, sample_parents, sample_children, gamete_tau, gamete_lambda, gamete_error, log_frequencies, NS, MC))
    with defs():
        NS = len(sample_ploidy)
        MC = sample_children.shape[1]
    with loop(0):
        invariant(0 <= idx, idx <= MC, max_children == MC, not isnan(log_joint), cnt == idx)
        invariant(forall(0, idx, lambda x: sample_children[target_index, x] >= 0))
        invariant(log_joint == TRIOAI(target_index, allele_index, sample_genotypes, sample_ploidy, sample_parents, gamete_tau, gamete_lambda, gamete_error, log_frequencies, NS) + CHSUM(target_index, idx, sample_genotypes, sample_ploidy, sample_parents, sample_children, gamete_tau, gamete_lambda, gamete_error, log_frequencies, NS))
        with head():
            cnt = idx
        with tail():
            cnt = idx + 1
            unfold(CHSUM(target_index, idx + 1, sample_genotypes, sample_ploidy, sample_parents, sample_children, gamete_tau, gamete_lambda, gamete_error, log_frequencies, NS))
            unfold(TRIOI(i, sample_genotypes, sample_ploidy, sample_parents, gamete_tau, gamete_lambda, gamete_error, log_frequencies, NS))
    with after_call("trio_allele_log_pmf"):
        cnt = 0
        unfold(TRIOAI(target_index, allele_index, sample_genotypes, sample_ploidy, sample_parents, gamete_tau, gamete_lambda, gamete_error, log_frequencies, NS))
        unfold(CHSUM(target_index, 0, sample_genotypes, sample_ploidy, sample_parents, sample_children, gamete_tau, gamete_lambda, gamete_error, log_frequencies, NS))
    with before_stmt("return log_joint"):
        lemma_nch(sample_children, target_index, 0, cnt, MC)
        unfold(MBLAP(target_index, allele_index, sample_genotypes, sample_ploidy, sample_parents, sample_children, gamete_tau, gamete_lambda, gamete_error, log_frequencies, NS, MC))


@spec_inline
def GIBBSW(reads: A[float, 3], counts: A[int, 1], H: A[int, 2], SG: A[int, 2], t: int, k: int, a: int, P: int, N: int, n: int, ploidy: A[int, 1], parents: A[int, 2], children: A[int, 2], tau: A[int, 2], lam: A[float, 2], err: A[float, 2], lf: A[xfloat, 1], NS: int, MC: int) -> xfloat:
    """log weight of allele a for copy k of individual t: own-reads likelihood + Markov-blanket prior"""
    return LLKAZU(reads, counts, H, SG, t, k, a, P, N, n) + MBLAPU(t, k, a, SG, ploidy, parents, children, tau, lam, err, lf, NS, MC)


@spec_inline
def DCOH3(cache: FDict2, RD: A[float, 4], RC: A[int, 2], H: A[int, 2], PL: A[int, 1], NS: int, N: int, n: int, U: int) -> bool:
    """C09: every cached value is the likelihood of the *owning sample's own reads* (zero counts masked) for the
    sorted genotype with that G-field index"""
    return forall_arr1(lambda g: forall(0, NS, lambda s: implies(VALIDA(g, PL[s], U) and SORTEDA(g, PL[s]) and ((s, IDX(g, PL[s])) in cache), same(cache[s, IDX(g, PL[s])], LLKAZ(RD[s], RC[s], H, g, PL[s], N, n)))))


@contract("mchap.pedigree.mcmc.gibbs_probabilities", machine_ints=True, props=["C18", "C09"])
def gibbs_probabilities(target_index: int, allele_index: int, sample_genotypes: A[iN, 2], sample_ploidy: A[iN, 1], sample_parents: A[iN, 2], sample_children: A[iN, 2], gamete_tau: A[iN, 2], gamete_lambda: A[f8, 2], gamete_error: A[f8, 2], sample_read_dists: A[f8, 4], sample_read_counts: A[i8, 2], haplotypes: A[i1, 2], log_frequencies: A[f8, 1], llk_cache: Opt[FDict2], dosage: A[iN, 1], dosage_p: A[iN, 1], dosage_q: A[iN, 1], gamete_p: A[iN, 1], gamete_q: A[iN, 1], constraint_p: A[iN, 1], constraint_q: A[iN, 1], dosage_log_frequencies: A[f8, 1]) -> A[f8, 1]:
    requires(len(sample_parents) == NS, sample_parents.shape[1] == 2, gamete_tau.shape == (NS, 2), gamete_lambda.shape == (NS, 2), gamete_error.shape == (NS, 2), PEDSTRUCT(sample_parents, gamete_lambda, gamete_error, NS))
    requires(len(sample_children) == NS, forall(0, MC, lambda x: sample_children[target_index, x] < NS))
    requires(NS >= 1, 0 <= target_index, target_index < NS, sample_genotypes.shape[0] == NS, sample_read_dists.shape[0] == NS, sample_read_counts.shape[0] == NS, sample_read_counts.shape[1] == NR)
    requires(1 <= P, P <= sample_genotypes.shape[1], P <= 127, 0 <= allele_index, allele_index < P, 1 <= U, U <= 127, sample_read_dists.shape[2] == NN)
    requires(forall(0, P, lambda i: 0 <= sample_genotypes[target_index, i] and sample_genotypes[target_index, i] < U))
    requires(CALLOK(sample_read_dists[target_index], haplotypes, U, NN, sample_read_dists.shape[3], NR))
    requires(forall(0, NR, lambda r: sample_read_counts[target_index, r] >= 0), cwr(U, P) < 2 ** 53)
    requires(implies(llk_cache is not None, DCOH3(llk_cache, sample_read_dists, sample_read_counts, haplotypes, sample_ploidy, NS, NN, NR, U)))
    # the current state is possible
    requires(not isninf(LLKAZU(sample_read_dists[target_index], sample_read_counts[target_index], haplotypes, sample_genotypes, target_index, allele_index, sample_genotypes[target_index, allele_index], P, NN, NR)))
    requires(not isninf(MBLAPU(target_index, allele_index, sample_genotypes[target_index, allele_index], sample_genotypes, sample_ploidy, sample_parents, sample_children, gamete_tau, gamete_lambda, gamete_error, log_frequencies, NS, MC)))
    modifies(sample_genotypes, llk_cache, dosage, dosage_p, dosage_q, gamete_p, gamete_q, constraint_p, constraint_q, dosage_log_frequencies)
    ensures(forall(0, NS, lambda x: forall(0, sample_genotypes.shape[1], lambda y: sample_genotypes[x, y] == old(sample_genotypes)[x, y])))
    # C18: the Gibbs vector is  exp(own-reads likelihood + Markov-blanket prior)  of each allele, normalised
    ensures(len(result) == U, FSUM(result, 0, U) == 1, forall(0, U, lambda a: finite(result[a]) and result[a] >= 0))
    ensures(forall(0, U, lambda a: forall(0, U, lambda b: PROPTO(result[a], exp(GIBBSW(sample_read_dists[target_index], sample_read_counts[target_index], haplotypes, old(sample_genotypes), target_index, allele_index, a, P, NN, NR, sample_ploidy, sample_parents, sample_children, gamete_tau, gamete_lambda, gamete_error, log_frequencies, NS, MC)), result[b], exp(GIBBSW(sample_read_dists[target_index], sample_read_counts[target_index], haplotypes, old(sample_genotypes), target_index, allele_index, b, P, NN, NR, sample_ploidy, sample_parents, sample_children, gamete_tau, gamete_lambda, gamete_error, log_frequencies, NS, MC))))))
    ensures(implies(llk_cache is not None, DCOH3(llk_cache, sample_read_dists, sample_read_counts, haplotypes, sample_ploidy, NS, NN, NR, U)))
    with defs():
        NS = len(sample_ploidy)
        MC = sample_children.shape[1]
        NR = sample_read_dists.shape[1]
        NN = haplotypes.shape[1]
        U = len(haplotypes)
        P = sample_ploidy[target_index]
    with entry():
        SG0 = val(sample_genotypes)
        RDT = val(sample_read_dists[target_index])
        RCT = val(sample_read_counts[target_index])
    with before_stmt("log_probabilities = np.empty(n_alleles)"):
        MASK = msel_mask0
        # the masked arrays hold exactly the reads with a positive count
        with forall_intro(r, 0, len(read_counts), read_counts[r] > 0):
            assert_(read_counts[r] == RCT[msel_src1(r)])
        # coherence of this individual's entries w.r.t. the masked arrays
        if llk_cache is not None:
            with forall_intro_arr1(g2, implies(VALIDA(g2, P, U) and SORTEDA(g2, P) and ((target_index, IDX(g2, P)) in llk_cache), same(llk_cache[target_index, IDX(g2, P)], LLKAZ(reads, read_counts, haplotypes, g2, P, NN, len(reads)))), pattern=IDX(g2, P)):
                if VALIDA(g2, P, U) and SORTEDA(g2, P):
                    instantiate(DCOH3(llk_cache, sample_read_dists, sample_read_counts, haplotypes, sample_ploidy, NS, NN, NR, U), g2)
                    lemma_llkaz_pos(reads, read_counts, haplotypes, g2, P, NN, len(reads))
                    lemma_llka_compact(RDT, RCT, reads, read_counts, MASK, haplotypes, g2, P, NN, NR)
    with loop(0):
        invariant(0 <= i, i <= n_alleles, n_alleles == U, ploidy == P, current_allele == SG0[target_index, allele_index], len(log_probabilities) == U)
        # only the cell (target, copy) is ever written
        invariant(val(sample_genotypes) == arr2(lambda x, y: ite(x == target_index and y == allele_index, sample_genotypes[target_index, allele_index], SG0[x, y])))
        invariant(0 <= sample_genotypes[target_index, allele_index], sample_genotypes[target_index, allele_index] < U)
        invariant(forall(0, i, lambda b: not isnan(log_probabilities[b]) and log_probabilities[b] == GIBBSW(RDT, RCT, haplotypes, SG0, target_index, allele_index, b, P, NN, NR, sample_ploidy, sample_parents, sample_children, gamete_tau, gamete_lambda, gamete_error, log_frequencies, NS, MC)))
        invariant(implies(llk_cache is not None, DCOH2(llk_cache, target_index, reads, read_counts, haplotypes, P, NN, len(reads), U)))
        invariant(implies(llk_cache is not None, forall(lambda s2, k2: implies(s2 != target_index, ((s2, k2) in llk_cache) == ((s2, k2) in old(llk_cache)) and same(llk_cache[s2, k2], old(llk_cache)[s2, k2])))))
    with before_call("log_likelihood_alleles_cached", 0):
        S = log_likelihood_alleles_cached_arg_genotype_alleles
        GU = arr1(lambda t: ite(t == allele_index, i, SG0[target_index, t]))
        with forall_intro(t, 0, P, S[t] == GU[sort0(t)] and 0 <= S[t] and S[t] < U):
            assert_(S[t] == sample_genotypes[target_index, sort0(t)])
    with after_call("log_likelihood_alleles_cached", 0):
        lemma_llkaz_perm(reads, read_counts, haplotypes, GU, S, arr1(lambda t: sort0(t)), arr1(lambda t: sort0_inv(t)), P, NN, len(reads))
        lemma_llkaz_pos(reads, read_counts, haplotypes, GU, P, NN, len(reads))
        lemma_llka_compact(RDT, RCT, reads, read_counts, MASK, haplotypes, GU, P, NN, NR)
        unfold(LLKAZU(RDT, RCT, haplotypes, SG0, target_index, allele_index, i, P, NN, NR))
    with after_call("markov_blanket_log_allele_probability", 0):
        unfold(MBLAPU(target_index, allele_index, i, SG0, sample_ploidy, sample_parents, sample_children, gamete_tau, gamete_lambda, gamete_error, log_frequencies, NS, MC))
    with before_call("normalise_log_probs", 0):
        lemma_esum_pos(log_probabilities, 0, U, current_allele)
    with exit_():
        R = normalise_log_probs_result
        with forall_intro(a2, 0, U, forall(0, U, lambda b: PROPTO(R[a2], exp(GIBBSW(RDT, RCT, haplotypes, SG0, target_index, allele_index, a2, P, NN, NR, sample_ploidy, sample_parents, sample_children, gamete_tau, gamete_lambda, gamete_error, log_frequencies, NS, MC)), R[b], exp(GIBBSW(RDT, RCT, haplotypes, SG0, target_index, allele_index, b, P, NN, NR, sample_ploidy, sample_parents, sample_children, gamete_tau, gamete_lambda, gamete_error, log_frequencies, NS, MC))))):
            with forall_intro(b2, 0, U, PROPTO(R[a2], exp(GIBBSW(RDT, RCT, haplotypes, SG0, target_index, allele_index, a2, P, NN, NR, sample_ploidy, sample_parents, sample_children, gamete_tau, gamete_lambda, gamete_error, log_frequencies, NS, MC)), R[b2], exp(GIBBSW(RDT, RCT, haplotypes, SG0, target_index, allele_index, b2, P, NN, NR, sample_ploidy, sample_parents, sample_children, gamete_tau, gamete_lambda, gamete_error, log_frequencies, NS, MC)))):
                unfold(PROPTO(R[a2], exp(GIBBSW(RDT, RCT, haplotypes, SG0, target_index, allele_index, a2, P, NN, NR, sample_ploidy, sample_parents, sample_children, gamete_tau, gamete_lambda, gamete_error, log_frequencies, NS, MC)), R[b2], exp(GIBBSW(RDT, RCT, haplotypes, SG0, target_index, allele_index, b2, P, NN, NR, sample_ploidy, sample_parents, sample_children, gamete_tau, gamete_lambda, gamete_error, log_frequencies, NS, MC))))
                lemma_shares_proportional(R[a2], R[b2], ESUM(log_probabilities, 0, U), exp(log_probabilities[a2]), exp(log_probabilities[b2]))
        if llk_cache is not None:
            # back to the global statement: this individual's entries via the masked arrays, the others by the frame
            with forall_intro_arr1(g3, forall(0, NS, lambda s: implies(VALIDA(g3, sample_ploidy[s], U) and SORTEDA(g3, sample_ploidy[s]) and ((s, IDX(g3, sample_ploidy[s])) in llk_cache), same(llk_cache[s, IDX(g3, sample_ploidy[s])], LLKAZ(sample_read_dists[s], sample_read_counts[s], haplotypes, g3, sample_ploidy[s], NN, NR))))):
                with forall_intro(s3, 0, NS, implies(VALIDA(g3, sample_ploidy[s3], U) and SORTEDA(g3, sample_ploidy[s3]) and ((s3, IDX(g3, sample_ploidy[s3])) in llk_cache), same(llk_cache[s3, IDX(g3, sample_ploidy[s3])], LLKAZ(sample_read_dists[s3], sample_read_counts[s3], haplotypes, g3, sample_ploidy[s3], NN, NR)))):
                    if s3 == target_index:
                        if VALIDA(g3, P, U) and SORTEDA(g3, P):
                            instantiate(DCOH2(llk_cache, target_index, reads, read_counts, haplotypes, P, NN, len(reads), U), g3)
                            lemma_llkaz_pos(reads, read_counts, haplotypes, g3, P, NN, len(reads))
                            lemma_llka_compact(RDT, RCT, reads, read_counts, MASK, haplotypes, g3, P, NN, NR)
                    else:
                        instantiate(DCOH3(old(llk_cache), sample_read_dists, sample_read_counts, haplotypes, sample_ploidy, NS, NN, NR, U), g3)


# ---- the cache invariant seen from one individual (its reads with zero counts masked out) and back


@spec_inline
def COMPACT(RDs: A[float, 3], RCs: A[int, 1], Rm: A[float, 3], Cm: A[int, 1], mask: A[bool, 1], n: int, m: int) -> bool:
    """(Rm, Cm) are the rows of (RDs, RCs) with a positive count, in order (boolean-mask selection)"""
    return m == BCOUNT(mask, 0, n) and forall(0, n, lambda p: mask[p] == (RCs[p] > 0)) and forall(0, n, lambda p: implies(mask[p], Cm[BCOUNT(mask, 0, p)] == RCs[p] and forall(lambda c, a: CELL(Rm, BCOUNT(mask, 0, p), c, a) == CELL(RDs, p, c, a)))) and forall(0, m, lambda r: Cm[r] > 0)


@lemma(shared=True)
def lemma_masked_llk(RDs: A[float, 3], RCs: A[int, 1], Rm: A[float, 3], Cm: A[int, 1], mask: A[bool, 1], H: A[int, 2], g: A[int, 1], P: int, N: int, n: int, m: int):
    """the (doubly) masked likelihood of the compacted reads is the masked likelihood of the individual's reads"""
    requires(COMPACT(RDs, RCs, Rm, Cm, mask, n, m), n >= 0, P >= 0, N >= 0)
    ensures(same(LLKAZ(Rm, Cm, H, g, P, N, m), LLKAZ(RDs, RCs, H, g, P, N, n)))
    lemma_llkaz_pos(Rm, Cm, H, g, P, N, m)
    lemma_llka_compact(RDs, RCs, Rm, Cm, mask, H, g, P, N, n)


@lemma(shared=True)
def lemma_dcoh3_to_2(cache: FDict2, RD: A[float, 4], RC: A[int, 2], H: A[int, 2], PL: A[int, 1], NS: int, N: int, n: int, U: int, s: int, Rm: A[float, 3], Cm: A[int, 1], mask: A[bool, 1], m: int):
    requires(DCOH3(cache, RD, RC, H, PL, NS, N, n, U), 0 <= s, s < NS, COMPACT(RD[s], RC[s], Rm, Cm, mask, n, m), n >= 0, N >= 0, PL[s] >= 0)
    ensures(DCOH2(cache, s, Rm, Cm, H, PL[s], N, m, U))
    with forall_intro_arr1(g2, implies(VALIDA(g2, PL[s], U) and SORTEDA(g2, PL[s]) and ((s, IDX(g2, PL[s])) in cache), same(cache[s, IDX(g2, PL[s])], LLKAZ(Rm, Cm, H, g2, PL[s], N, m))), pattern=IDX(g2, PL[s])):
        instantiate(DCOH3(cache, RD, RC, H, PL, NS, N, n, U), g2)
        lemma_masked_llk(RD[s], RC[s], Rm, Cm, mask, H, g2, PL[s], N, n, m)


@lemma(shared=True)
def lemma_dcoh2_to_3(cache: FDict2, cache0: FDict2, RD: A[float, 4], RC: A[int, 2], H: A[int, 2], PL: A[int, 1], NS: int, N: int, n: int, U: int, s: int, Rm: A[float, 3], Cm: A[int, 1], mask: A[bool, 1], m: int):
    """one individual's entries were updated coherently, the others are untouched: the whole cache is coherent"""
    requires(DCOH3(cache0, RD, RC, H, PL, NS, N, n, U), DCOH2(cache, s, Rm, Cm, H, PL[s], N, m, U), 0 <= s, s < NS, COMPACT(RD[s], RC[s], Rm, Cm, mask, n, m), n >= 0, N >= 0, PL[s] >= 0)
    requires(forall(lambda s2, k2: implies(s2 != s, ((s2, k2) in cache) == ((s2, k2) in cache0) and same(cache[s2, k2], cache0[s2, k2]))))
    ensures(DCOH3(cache, RD, RC, H, PL, NS, N, n, U))
    with forall_intro_arr1(g3, forall(0, NS, lambda t: implies(VALIDA(g3, PL[t], U) and SORTEDA(g3, PL[t]) and ((t, IDX(g3, PL[t])) in cache), same(cache[t, IDX(g3, PL[t])], LLKAZ(RD[t], RC[t], H, g3, PL[t], N, n))))):
        with forall_intro(s3, 0, NS, implies(VALIDA(g3, PL[s3], U) and SORTEDA(g3, PL[s3]) and ((s3, IDX(g3, PL[s3])) in cache), same(cache[s3, IDX(g3, PL[s3])], LLKAZ(RD[s3], RC[s3], H, g3, PL[s3], N, n)))):
            if s3 == s:
                if VALIDA(g3, PL[s], U) and SORTEDA(g3, PL[s]):
                    instantiate(DCOH2(cache, s, Rm, Cm, H, PL[s], N, m, U), g3)
                    lemma_masked_llk(RD[s], RC[s], Rm, Cm, mask, H, g3, PL[s], N, n, m)
            else:
                instantiate(DCOH3(cache0, RD, RC, H, PL, NS, N, n, U), g3)


@spec
def NBL(blanket: A[int, 1], j: int, L: int) -> int:
    """number of entries of a blanket vector padded with negative values"""
    decreases(L - j)
    if j >= L or blanket[j] < 0:
        return j
    return NBL(blanket, j + 1, L)


@lemma(shared=True)
def lemma_nbl(blanket: A[int, 1], j: int, c: int, L: int):
    requires(0 <= j, j <= c, c <= L, forall(j, c, lambda x: blanket[x] >= 0), c == L or blanket[c] < 0)
    ensures(NBL(blanket, j, L) == c)
    decreases(c - j)
    unfold(NBL(blanket, j, L))
    if j < c:
        lemma_nbl(blanket, j + 1, c, L)


@spec
def GSUM(blanket: A[int, 1], c: int, SG: A[int, 2], ploidy: A[int, 1], parents: A[int, 2], tau: A[int, 2], lam: A[float, 2], err: A[float, 2], lf: A[xfloat, 1], NS: int) -> xfloat:
    decreases(c)
    if c <= 0:
        return 0.0
    return GSUM(blanket, c - 1, SG, ploidy, parents, tau, lam, err, lf, NS) + TRIOI(blanket[c - 1], SG, ploidy, parents, tau, lam, err, lf, NS)


@spec
def GMB(blanket: A[int, 1], SG: A[int, 2], ploidy: A[int, 1], parents: A[int, 2], tau: A[int, 2], lam: A[float, 2], err: A[float, 2], lf: A[xfloat, 1], NS: int, L: int) -> xfloat:
    """joint log probability of the pedigree items in a Markov blanket: the sum of the trio log probabilities of its members"""
    return GSUM(blanket, NBL(blanket, 0, L), SG, ploidy, parents, tau, lam, err, lf, NS)


@contract("mchap.pedigree.prior.generic_markov_blanket_log_probability", machine_ints=True, neg_index=True, props=["C18"])
def generic_markov_blanket_log_probability(markov_blanket: A[iN, 1], sample_genotypes: A[iN, 2], sample_ploidy: A[iN, 1], sample_parents: A[iN, 2], gamete_tau: A[iN, 2], gamete_lambda: A[f8, 2], gamete_error: A[f8, 2], log_frequencies: A[f8, 1], dosage: A[iN, 1], dosage_p: A[iN, 1], dosage_q: A[iN, 1], gamete_p: A[iN, 1], gamete_q: A[iN, 1], constraint_p: A[iN, 1], constraint_q: A[iN, 1], dosage_log_frequencies: A[f8, 1]) -> float:
    requires(NS >= 1, sample_genotypes.shape[0] == NS, len(sample_parents) == NS, sample_parents.shape[1] == 2)
    requires(gamete_tau.shape == (NS, 2), gamete_lambda.shape == (NS, 2), gamete_error.shape == (NS, 2))
    requires(forall(0, len(markov_blanket), lambda x: markov_blanket[x] < NS))
    requires(PEDSTRUCT(sample_parents, gamete_lambda, gamete_error, NS))
    modifies(dosage, dosage_p, dosage_q, gamete_p, gamete_q, constraint_p, constraint_q, dosage_log_frequencies)
    ensures(not isnan(result))
    ensures(result == GMB(markov_blanket, sample_genotypes, sample_ploidy, sample_parents, gamete_tau, gamete_lambda, gamete_error, log_frequencies, NS, len(markov_blanket)))
    with defs():
        NS = len(sample_ploidy)
    with before_stmt("log_joint = 0.0"):
        cnt = 0
        unfold(GSUM(markov_blanket, 0, sample_genotypes, sample_ploidy, sample_parents, gamete_tau, gamete_lambda, gamete_error, log_frequencies, NS))
    with loop(0):
        invariant(0 <= idx, idx <= max_size, max_size == len(markov_blanket), not isnan(log_joint), cnt == idx)
        invariant(forall(0, idx, lambda x: markov_blanket[x] >= 0))
        invariant(log_joint == GSUM(markov_blanket, idx, sample_genotypes, sample_ploidy, sample_parents, gamete_tau, gamete_lambda, gamete_error, log_frequencies, NS))
        with head():
            cnt = idx
        with tail():
            cnt = idx + 1
            unfold(GSUM(markov_blanket, idx + 1, sample_genotypes, sample_ploidy, sample_parents, gamete_tau, gamete_lambda, gamete_error, log_frequencies, NS))
            unfold(TRIOI(i, sample_genotypes, sample_ploidy, sample_parents, gamete_tau, gamete_lambda, gamete_error, log_frequencies, NS))
    with before_stmt("return log_joint"):
        lemma_nbl(markov_blanket, 0, cnt, len(markov_blanket))
        unfold(GMB(markov_blanket, sample_genotypes, sample_ploidy, sample_parents, gamete_tau, gamete_lambda, gamete_error, log_frequencies, NS, len(markov_blanket)))


@spec_inline
def SAMPLEOK(SG: A[int, 2], RD: A[xfloat, 4], RC: A[int, 2], H: A[int, 2], s: int, P: int, U: int, N: int, NA: int, NR: int) -> bool:
    """individual s: a valid genotype in its first P copies, well-formed reads, non-negative counts, representable genotype index"""
    return 1 <= P and P <= 127 and forall(0, P, lambda i: 0 <= SG[s, i] and SG[s, i] < U) and READSOK(RD[s], NR, N, NA) and forall(0, NR, lambda r: RC[s, r] >= 0) and cwr(U, P) < 2 ** 53


@contract("mchap.pedigree.mcmc.pair_allele_swap_step", machine_ints=True, props=["C18", "C09"], variants=[{"llk_cache": "some"}])
def pair_allele_swap_step(p: int, q: int, markov_blanket: A[iN, 1], sample_genotypes: A[iN, 2], sample_ploidy: A[iN, 1], sample_parents: A[iN, 2], gamete_tau: A[iN, 2], gamete_lambda: A[f8, 2], gamete_error: A[f8, 2], sample_read_dists: A[f8, 4], sample_read_counts: A[i8, 2], haplotypes: A[i1, 2], log_frequencies: A[f8, 1], llk_cache: Opt[FDict2], dosage: A[iN, 1], dosage_p: A[iN, 1], dosage_q: A[iN, 1], gamete_p: A[iN, 1], gamete_q: A[iN, 1], constraint_p: A[iN, 1], constraint_q: A[iN, 1], dosage_log_frequencies: A[f8, 1]) -> Tup[float, bool]:
    requires(len(sample_parents) == NS, sample_parents.shape[1] == 2, gamete_tau.shape == (NS, 2), gamete_lambda.shape == (NS, 2), gamete_error.shape == (NS, 2), PEDSTRUCT(sample_parents, gamete_lambda, gamete_error, NS))
    requires(forall(0, len(markov_blanket), lambda x: markov_blanket[x] < NS))
    requires(NS >= 1, 0 <= p, p < NS, 0 <= q, q < NS, p != q, sample_genotypes.shape[0] == NS, sample_read_dists.shape[0] == NS, sample_read_counts.shape[0] == NS, sample_read_counts.shape[1] == NR, sample_read_dists.shape[2] == NN)
    requires(1 <= U, U <= 127, sample_ploidy[p] <= sample_genotypes.shape[1], sample_ploidy[q] <= sample_genotypes.shape[1])
    requires(forall(0, haplotypes.shape[0], lambda h: forall(0, NN, lambda j: 0 <= haplotypes[h, j] and haplotypes[h, j] < sample_read_dists.shape[3])))
    requires(SAMPLEOK(sample_genotypes, sample_read_dists, sample_read_counts, haplotypes, p, sample_ploidy[p], U, NN, sample_read_dists.shape[3], NR))
    requires(SAMPLEOK(sample_genotypes, sample_read_dists, sample_read_counts, haplotypes, q, sample_ploidy[q], U, NN, sample_read_dists.shape[3], NR))
    requires(implies(llk_cache is not None, DCOH3(llk_cache, sample_read_dists, sample_read_counts, haplotypes, sample_ploidy, NS, NN, NR, U)))
    requires(sample_genotypes.shape[1] <= 2 ** 20)
    # the current state is possible
    requires(not isninf(LLKAZ(sample_read_dists[p], sample_read_counts[p], haplotypes, arr1(lambda t: sample_genotypes[p, t]), sample_ploidy[p], NN, NR)))
    requires(not isninf(LLKAZ(sample_read_dists[q], sample_read_counts[q], haplotypes, arr1(lambda t: sample_genotypes[q, t]), sample_ploidy[q], NN, NR)))
    requires(not isninf(GMB(markov_blanket, sample_genotypes, sample_ploidy, sample_parents, gamete_tau, gamete_lambda, gamete_error, log_frequencies, NS, len(markov_blanket))))
    modifies(sample_genotypes, llk_cache, dosage, dosage_p, dosage_q, gamete_p, gamete_q, constraint_p, constraint_q, dosage_log_frequencies)
    # C09: every likelihood entered into the shared cache belongs to the individual whose reads produced it
    ensures(implies(llk_cache is not None, DCOH3(llk_cache, sample_read_dists, sample_read_counts, haplotypes, sample_ploidy, NS, NN, NR, U)))
    # the two alleles are exchanged, or (rejection) the genotypes are exactly as before
    ensures(implies(not result[1], forall(0, NS, lambda x: forall(0, sample_genotypes.shape[1], lambda y: sample_genotypes[x, y] == old(sample_genotypes)[x, y]))))
    with defs():
        NS = len(sample_ploidy)
        NR = sample_read_dists.shape[1]
        NN = haplotypes.shape[1]
        U = len(haplotypes)
    with before_call("log_likelihood_alleles_cached", 0):
        S0 = log_likelihood_alleles_cached_arg_genotype_alleles
        CB0 = val(llk_cache)
        with forall_intro(t, 0, sample_ploidy[p], 0 <= S0[t] and S0[t] < U):
            assert_(S0[t] == sample_genotypes[p, sort0(t)])
        with forall_intro(r, 0, len(read_counts_p), read_counts_p[r] > 0):
            assert_(read_counts_p[r] == sample_read_counts[p, msel_src1(r)])
        lemma_dcoh3_to_2(llk_cache, sample_read_dists, sample_read_counts, haplotypes, sample_ploidy, NS, NN, NR, U, p, read_dists_p, read_counts_p, msel_mask0, len(read_counts_p))
    with after_call("log_likelihood_alleles_cached", 0):
        lemma_masked_llk(sample_read_dists[p], sample_read_counts[p], read_dists_p, read_counts_p, msel_mask0, haplotypes, S0, sample_ploidy[p], NN, NR, len(read_counts_p))
        lemma_llkaz_perm(sample_read_dists[p], sample_read_counts[p], haplotypes, arr1(lambda t: old(sample_genotypes)[p, t]), S0, arr1(lambda t: sort0(t)), arr1(lambda t: sort0_inv(t)), sample_ploidy[p], NN, NR)
        lemma_dcoh2_to_3(llk_cache, CB0, sample_read_dists, sample_read_counts, haplotypes, sample_ploidy, NS, NN, NR, U, p, read_dists_p, read_counts_p, msel_mask0, len(read_counts_p))
    with before_call("log_likelihood_alleles_cached", 1):
        S1 = log_likelihood_alleles_cached_arg_genotype_alleles
        CB1 = val(llk_cache)
        with forall_intro(t, 0, sample_ploidy[q], 0 <= S1[t] and S1[t] < U):
            assert_(S1[t] == sample_genotypes[q, sort1(t)])
        with forall_intro(r, 0, len(read_counts_q), read_counts_q[r] > 0):
            assert_(read_counts_q[r] == sample_read_counts[q, msel_src3(r)])
        lemma_dcoh3_to_2(llk_cache, sample_read_dists, sample_read_counts, haplotypes, sample_ploidy, NS, NN, NR, U, q, read_dists_q, read_counts_q, msel_mask2, len(read_counts_q))
    with after_call("log_likelihood_alleles_cached", 1):
        lemma_masked_llk(sample_read_dists[q], sample_read_counts[q], read_dists_q, read_counts_q, msel_mask2, haplotypes, S1, sample_ploidy[q], NN, NR, len(read_counts_q))
        lemma_llkaz_perm(sample_read_dists[q], sample_read_counts[q], haplotypes, arr1(lambda t: old(sample_genotypes)[q, t]), S1, arr1(lambda t: sort1(t)), arr1(lambda t: sort1_inv(t)), sample_ploidy[q], NN, NR)
        lemma_dcoh2_to_3(llk_cache, CB1, sample_read_dists, sample_read_counts, haplotypes, sample_ploidy, NS, NN, NR, U, q, read_dists_q, read_counts_q, msel_mask2, len(read_counts_q))
    with before_call("log_likelihood_alleles_cached", 2):
        S2 = log_likelihood_alleles_cached_arg_genotype_alleles
        CB2 = val(llk_cache)
        with forall_intro(t, 0, sample_ploidy[p], 0 <= S2[t] and S2[t] < U):
            assert_(S2[t] == sample_genotypes[p, sort2(t)])
        with forall_intro(r, 0, len(read_counts_p), read_counts_p[r] > 0):
            assert_(read_counts_p[r] == sample_read_counts[p, msel_src1(r)])
        lemma_dcoh3_to_2(llk_cache, sample_read_dists, sample_read_counts, haplotypes, sample_ploidy, NS, NN, NR, U, p, read_dists_p, read_counts_p, msel_mask0, len(read_counts_p))
    with after_call("log_likelihood_alleles_cached", 2):
        lemma_dcoh2_to_3(llk_cache, CB2, sample_read_dists, sample_read_counts, haplotypes, sample_ploidy, NS, NN, NR, U, p, read_dists_p, read_counts_p, msel_mask0, len(read_counts_p))
    with before_call("log_likelihood_alleles_cached", 3):
        S3 = log_likelihood_alleles_cached_arg_genotype_alleles
        CB3 = val(llk_cache)
        with forall_intro(t, 0, sample_ploidy[q], 0 <= S3[t] and S3[t] < U):
            assert_(S3[t] == sample_genotypes[q, sort3(t)])
        with forall_intro(r, 0, len(read_counts_q), read_counts_q[r] > 0):
            assert_(read_counts_q[r] == sample_read_counts[q, msel_src3(r)])
        lemma_dcoh3_to_2(llk_cache, sample_read_dists, sample_read_counts, haplotypes, sample_ploidy, NS, NN, NR, U, q, read_dists_q, read_counts_q, msel_mask2, len(read_counts_q))
    with after_call("log_likelihood_alleles_cached", 3):
        lemma_dcoh2_to_3(llk_cache, CB3, sample_read_dists, sample_read_counts, haplotypes, sample_ploidy, NS, NN, NR, U, q, read_dists_q, read_counts_q, msel_mask2, len(read_counts_q))
    with before_stmt("proposal = count_allele(sample_genotypes[p], allele_p) * count_allele(sample_genotypes[q], allele_q)"):
        lemma_cnt_pos(sample_genotypes[p], sample_genotypes.shape[1], index_p)
        lemma_cnt_pos(sample_genotypes[q], sample_genotypes.shape[1], index_q)


@spec
def MBLP(target: int, SG: A[int, 2], ploidy: A[int, 1], parents: A[int, 2], children: A[int, 2], tau: A[int, 2], lam: A[float, 2], err: A[float, 2], lf: A[xfloat, 1], NS: int, MC: int) -> xfloat:
    """joint log probability of the Markov blanket of individual `target`: the trio in which it is the child + the
    trio of each of its children"""
    return TRIOI(target, SG, ploidy, parents, tau, lam, err, lf, NS) + CHSUM(target, NCH(children, target, 0, MC), SG, ploidy, parents, children, tau, lam, err, lf, NS)


@spec
def MBLPU(target: int, k: int, a: int, SG: A[int, 2], ploidy: A[int, 1], parents: A[int, 2], children: A[int, 2], tau: A[int, 2], lam: A[float, 2], err: A[float, 2], lf: A[xfloat, 1], NS: int, MC: int) -> xfloat:
    return MBLP(target, arr2(lambda x, y: ite(x == target and y == k, a, SG[x, y])), ploidy, parents, children, tau, lam, err, lf, NS, MC)


@contract("mchap.pedigree.prior.markov_blanket_log_probability", machine_ints=True, neg_index=True, props=["C18"])
def markov_blanket_log_probability(target_index: int, sample_genotypes: A[iN, 2], sample_ploidy: A[iN, 1], sample_parents: A[iN, 2], sample_children: A[iN, 2], gamete_tau: A[iN, 2], gamete_lambda: A[f8, 2], gamete_error: A[f8, 2], log_frequencies: A[f8, 1], dosage: A[iN, 1], dosage_p: A[iN, 1], dosage_q: A[iN, 1], gamete_p: A[iN, 1], gamete_q: A[iN, 1], constraint_p: A[iN, 1], constraint_q: A[iN, 1], dosage_log_frequencies: A[f8, 1]) -> float:
    requires(NS >= 1, sample_genotypes.shape[0] == NS, len(sample_parents) == NS, sample_parents.shape[1] == 2, len(sample_children) == NS)
    requires(gamete_tau.shape == (NS, 2), gamete_lambda.shape == (NS, 2), gamete_error.shape == (NS, 2))
    requires(0 <= target_index, target_index < NS, forall(0, MC, lambda x: sample_children[target_index, x] < NS))
    requires(PEDSTRUCT(sample_parents, gamete_lambda, gamete_error, NS))
    modifies(dosage, dosage_p, dosage_q, gamete_p, gamete_q, constraint_p, constraint_q, dosage_log_frequencies)
    ensures(not isnan(result))
    ensures(result == MBLP(target_index, sample_genotypes, sample_ploidy, sample_parents, sample_children, gamete_tau, gamete_lambda, gamete_error, log_frequencies, NS, MC))
    with defs():
        NS = len(sample_ploidy)
        MC = sample_children.shape[1]
    with before_stmt("log_joint = 0.0"):
        cnt = -1
    with loop(0):
        invariant(-1 <= idx, idx <= MC, max_children == MC, n_samples == NS, not isnan(log_joint), cnt == idx)
        invariant(forall(0, idx, lambda x: sample_children[target_index, x] >= 0))
        invariant(log_joint == ite(idx == -1, 0.0, TRIOI(target_index, sample_genotypes, sample_ploidy, sample_parents, gamete_tau, gamete_lambda, gamete_error, log_frequencies, NS) + CHSUM(target_index, idx, sample_genotypes, sample_ploidy, sample_parents, sample_children, gamete_tau, gamete_lambda, gamete_error, log_frequencies, NS)))
        with head():
            cnt = idx
        with tail():
            cnt = idx + 1
            unfold(CHSUM(target_index, idx + 1, sample_genotypes, sample_ploidy, sample_parents, sample_children, gamete_tau, gamete_lambda, gamete_error, log_frequencies, NS))
            unfold(TRIOI(i, sample_genotypes, sample_ploidy, sample_parents, gamete_tau, gamete_lambda, gamete_error, log_frequencies, NS))
    with before_stmt("return log_joint"):
        lemma_nch(sample_children, target_index, 0, cnt, MC)
        unfold(MBLP(target_index, sample_genotypes, sample_ploidy, sample_parents, sample_children, gamete_tau, gamete_lambda, gamete_error, log_frequencies, NS, MC))


@contract("mchap.pedigree.mcmc.metropolis_hastings_probabilities", machine_ints=True, props=["C18", "C09"], variants=[{"llk_cache": "some"}])
def metropolis_hastings_probabilities(target_index: int, allele_index: int, sample_genotypes: A[iN, 2], sample_ploidy: A[iN, 1], sample_parents: A[iN, 2], sample_children: A[iN, 2], gamete_tau: A[iN, 2], gamete_lambda: A[f8, 2], gamete_error: A[f8, 2], sample_read_dists: A[f8, 4], sample_read_counts: A[i8, 2], haplotypes: A[i1, 2], log_frequencies: A[f8, 1], llk_cache: Opt[FDict2], dosage: A[iN, 1], dosage_p: A[iN, 1], dosage_q: A[iN, 1], gamete_p: A[iN, 1], gamete_q: A[iN, 1], constraint_p: A[iN, 1], constraint_q: A[iN, 1], dosage_log_frequencies: A[f8, 1]) -> A[f8, 1]:
    requires(len(sample_parents) == NS, sample_parents.shape[1] == 2, gamete_tau.shape == (NS, 2), gamete_lambda.shape == (NS, 2), gamete_error.shape == (NS, 2), PEDSTRUCT(sample_parents, gamete_lambda, gamete_error, NS))
    requires(len(sample_children) == NS, forall(0, MC, lambda x: sample_children[target_index, x] < NS))
    requires(NS >= 1, 0 <= target_index, target_index < NS, sample_genotypes.shape[0] == NS, sample_read_dists.shape[0] == NS, sample_read_counts.shape[0] == NS, sample_read_counts.shape[1] == NR)
    requires(P <= sample_genotypes.shape[1], sample_genotypes.shape[1] <= 2 ** 20, 0 <= allele_index, allele_index < P, 2 <= U, U <= 127, sample_read_dists.shape[2] == NN)
    requires(forall(0, U, lambda h: forall(0, NN, lambda j: 0 <= haplotypes[h, j] and haplotypes[h, j] < sample_read_dists.shape[3])))
    requires(SAMPLEOK(sample_genotypes, sample_read_dists, sample_read_counts, haplotypes, target_index, P, U, NN, sample_read_dists.shape[3], NR))
    requires(implies(llk_cache is not None, DCOH3(llk_cache, sample_read_dists, sample_read_counts, haplotypes, sample_ploidy, NS, NN, NR, U)))
    # proved domain: every option has a finite likelihood and blanket probability (error-rate encoded reads, positive gamete error)
    requires(forall(0, U, lambda a: not isninf(LLKAZU(sample_read_dists[target_index], sample_read_counts[target_index], haplotypes, sample_genotypes, target_index, allele_index, a, P, NN, NR)) and not isninf(MBLPU(target_index, allele_index, a, sample_genotypes, sample_ploidy, sample_parents, sample_children, gamete_tau, gamete_lambda, gamete_error, log_frequencies, NS, MC))))
    modifies(sample_genotypes, llk_cache, dosage, dosage_p, dosage_q, gamete_p, gamete_q, constraint_p, constraint_q, dosage_log_frequencies)
    ensures(forall(0, NS, lambda x: forall(0, sample_genotypes.shape[1], lambda y: sample_genotypes[x, y] == old(sample_genotypes)[x, y])))
    ensures(len(result) == U, FSUM(result, 0, U) == 1, forall(0, U, lambda a: finite(result[a]) and result[a] >= 0))
    ensures(implies(llk_cache is not None, DCOH3(llk_cache, sample_read_dists, sample_read_counts, haplotypes, sample_ploidy, NS, NN, NR, U)))
    with defs():
        NS = len(sample_ploidy)
        MC = sample_children.shape[1]
        NR = sample_read_dists.shape[1]
        NN = haplotypes.shape[1]
        U = len(haplotypes)
        P = sample_ploidy[target_index]
    with entry():
        SG0 = val(sample_genotypes)
        RDT = val(sample_read_dists[target_index])
        RCT = val(sample_read_counts[target_index])
        C0 = val(llk_cache)
        lemma_cnt_pos(sample_genotypes[target_index], sample_genotypes.shape[1], allele_index)
    with before_call("log_likelihood_alleles_cached", 0):
        SA = log_likelihood_alleles_cached_arg_genotype_alleles
        MASK = msel_mask0
        with forall_intro(t, 0, P, 0 <= SA[t] and SA[t] < U):
            assert_(SA[t] == sample_genotypes[target_index, sort0(t)])
        with forall_intro(r, 0, len(read_counts), read_counts[r] > 0):
            assert_(read_counts[r] == RCT[msel_src1(r)])
        lemma_dcoh3_to_2(llk_cache, sample_read_dists, sample_read_counts, haplotypes, sample_ploidy, NS, NN, NR, U, target_index, reads, read_counts, MASK, len(read_counts))
    with after_call("log_likelihood_alleles_cached", 0):
        # the current likelihood is LLKAZU(.., current allele)
        GC = arr1(lambda t: ite(t == allele_index, current_allele, SG0[target_index, t]))
        lemma_llkaz_perm(reads, read_counts, haplotypes, GC, SA, arr1(lambda t: sort0(t)), arr1(lambda t: sort0_inv(t)), P, NN, len(reads))
        lemma_masked_llk(RDT, RCT, reads, read_counts, MASK, haplotypes, GC, P, NN, NR, len(read_counts))
        unfold(LLKAZU(RDT, RCT, haplotypes, SG0, target_index, allele_index, current_allele, P, NN, NR))
    with after_call("markov_blanket_log_probability", 0):
        unfold(MBLPU(target_index, allele_index, current_allele, SG0, sample_ploidy, sample_parents, sample_children, gamete_tau, gamete_lambda, gamete_error, log_frequencies, NS, MC))
    with loop(0):
        invariant(0 <= i, i <= n_alleles, n_alleles == U, ploidy == P, current_allele == SG0[target_index, allele_index], len(log_accept) == U, allele_copies >= 1, finite(llk), finite(lprior))
        invariant(val(sample_genotypes) == arr2(lambda x, y: ite(x == target_index and y == allele_index, sample_genotypes[target_index, allele_index], SG0[x, y])))
        invariant(0 <= sample_genotypes[target_index, allele_index], sample_genotypes[target_index, allele_index] < U)
        invariant(forall(0, i, lambda b: not isnan(log_accept[b]) and implies(b != current_allele, not isninf(log_accept[b]) and log_accept[b] <= 0) and implies(b == current_allele, isninf(log_accept[b]))))
        invariant(DCOH2(llk_cache, target_index, reads, read_counts, haplotypes, P, NN, len(reads), U))
        invariant(forall(lambda s2, k2: implies(s2 != target_index, ((s2, k2) in llk_cache) == ((s2, k2) in C0) and same(llk_cache[s2, k2], C0[s2, k2]))))
    with before_call("log_likelihood_alleles_cached", 1):
        SB = log_likelihood_alleles_cached_arg_genotype_alleles
        GU = arr1(lambda t: ite(t == allele_index, i, SG0[target_index, t]))
        with forall_intro(t, 0, P, SB[t] == GU[sort1(t)] and 0 <= SB[t] and SB[t] < U):
            assert_(SB[t] == sample_genotypes[target_index, sort1(t)])
    with after_call("log_likelihood_alleles_cached", 1):
        lemma_llkaz_perm(reads, read_counts, haplotypes, GU, SB, arr1(lambda t: sort1(t)), arr1(lambda t: sort1_inv(t)), P, NN, len(reads))
        lemma_masked_llk(RDT, RCT, reads, read_counts, MASK, haplotypes, GU, P, NN, NR, len(read_counts))
        unfold(LLKAZU(RDT, RCT, haplotypes, SG0, target_index, allele_index, i, P, NN, NR))
    with after_call("markov_blanket_log_probability", 1):
        unfold(MBLPU(target_index, allele_index, i, SG0, sample_ploidy, sample_parents, sample_children, gamete_tau, gamete_lambda, gamete_error, log_frequencies, NS, MC))
    with before_stmt("allele_copies_i = count_allele(sample_genotypes[target_index], i)"):
        lemma_cnt_pos(sample_genotypes[target_index], sample_genotypes.shape[1], allele_index)
    with before_stmt("probabilities[current_allele] = 1 - probabilities.sum()"):
        PB = val(probabilities)
        ax_exp_mono_all()
        ax_exp_zero()
        lemma_exp_neg_log(n_alleles - 1)
        lemma_fsum_bound(PB, 0, U, exp(-real(log(n_alleles - 1))), current_allele)
    with after_stmt("probabilities[current_allele] = 1 - probabilities.sum()"):
        lemma_fsum_upd(PB, probabilities, 0, U, current_allele)
    with exit_():
        lemma_dcoh2_to_3(llk_cache, C0, sample_read_dists, sample_read_counts, haplotypes, sample_ploidy, NS, NN, NR, U, target_index, reads, read_counts, MASK, len(read_counts))


# ---- the single-individual sweep of the pedigree sampler: every update keeps every genotype valid and the shared
# ---- cache owner-coherent (C09: after any sequence of moves)


@spec_inline
def PEDOK(SG: A[int, 2], PL: A[int, 1], RD: A[xfloat, 4], RC: A[int, 2], H: A[int, 2], NS: int, W: int, U: int, N: int, NA: int, NR: int) -> bool:
    """all individuals: ploidy within the genotype matrix, valid genotypes, well-formed reads"""
    return forall(0, NS, lambda s: PL[s] <= W and SAMPLEOK(SG, RD, RC, H, s, PL[s], U, N, NA, NR)) and forall(0, U, lambda h: forall(0, N, lambda j: 0 <= H[h, j] and H[h, j] < NA))


@spec_inline
def PEDPOS(PL: A[int, 1], parents: A[int, 2], children: A[int, 2], tau: A[int, 2], lam: A[float, 2], err: A[float, 2], lf: A[xfloat, 1], RD: A[float, 4], RC: A[int, 2], H: A[int, 2], NS: int, U: int, N: int, NR: int, MC: int) -> bool:
    """domain of the proof: every single-allele option of every joint state has a finite likelihood and finite
    Markov-blanket probabilities (error-rate encoded reads, positive gamete error and allele frequencies)"""
    return forall_arr2(lambda G: forall(0, NS, lambda t: forall(0, PL[t], lambda k: forall(0, U, lambda a: not isninf(LLKAZU(RD[t], RC[t], H, G, t, k, a, PL[t], N, NR)) and not isninf(MBLAPU(t, k, a, G, PL, parents, children, tau, lam, err, lf, NS, MC)) and not isninf(MBLPU(t, k, a, G, PL, parents, children, tau, lam, err, lf, NS, MC))))))


@contract("mchap.pedigree.mcmc.allele_step", machine_ints=True, props=["C18", "C09"], variants=[{"llk_cache": "some"}])
def allele_step(target_index: int, allele_index: int, sample_genotypes: A[iN, 2], sample_ploidy: A[iN, 1], sample_parents: A[iN, 2], sample_children: A[iN, 2], gamete_tau: A[iN, 2], gamete_lambda: A[f8, 2], gamete_error: A[f8, 2], sample_read_dists: A[f8, 4], sample_read_counts: A[i8, 2], haplotypes: A[i1, 2], log_frequencies: A[f8, 1], llk_cache: Opt[FDict2], step_type: int, dosage: A[iN, 1], dosage_p: A[iN, 1], dosage_q: A[iN, 1], gamete_p: A[iN, 1], gamete_q: A[iN, 1], constraint_p: A[iN, 1], constraint_q: A[iN, 1], dosage_log_frequencies: A[f8, 1]):
    requires(len(sample_parents) == NS, sample_parents.shape[1] == 2, gamete_tau.shape == (NS, 2), gamete_lambda.shape == (NS, 2), gamete_error.shape == (NS, 2), PEDSTRUCT(sample_parents, gamete_lambda, gamete_error, NS))
    requires(len(sample_children) == NS, forall(0, MC, lambda x: sample_children[target_index, x] < NS))
    requires(step_type == 0 or step_type == 1, NS >= 1, 0 <= target_index, target_index < NS, 0 <= allele_index, allele_index < sample_ploidy[target_index], 2 <= U, U <= 127)
    requires(sample_genotypes.shape[0] == NS, sample_genotypes.shape[1] <= 2 ** 20, sample_read_dists.shape[0] == NS, sample_read_counts.shape[0] == NS, sample_read_counts.shape[1] == NR, sample_read_dists.shape[2] == NN)
    requires(PEDOK(sample_genotypes, sample_ploidy, sample_read_dists, sample_read_counts, haplotypes, NS, sample_genotypes.shape[1], U, NN, sample_read_dists.shape[3], NR))
    requires(PEDPOS(sample_ploidy, sample_parents, sample_children, gamete_tau, gamete_lambda, gamete_error, log_frequencies, sample_read_dists, sample_read_counts, haplotypes, NS, U, NN, NR, MC))
    requires(implies(llk_cache is not None, DCOH3(llk_cache, sample_read_dists, sample_read_counts, haplotypes, sample_ploidy, NS, NN, NR, U)))
    modifies(sample_genotypes, llk_cache, dosage, dosage_p, dosage_q, gamete_p, gamete_q, constraint_p, constraint_q, dosage_log_frequencies)
    # only the chosen copy of the chosen individual changes, and it stays a valid allele
    ensures(forall(0, NS, lambda x: forall(0, sample_genotypes.shape[1], lambda y: implies(x != target_index or y != allele_index, sample_genotypes[x, y] == old(sample_genotypes)[x, y]))))
    ensures(0 <= sample_genotypes[target_index, allele_index], sample_genotypes[target_index, allele_index] < U)
    ensures(implies(llk_cache is not None, DCOH3(llk_cache, sample_read_dists, sample_read_counts, haplotypes, sample_ploidy, NS, NN, NR, U)))
    with defs():
        NS = len(sample_ploidy)
        MC = sample_children.shape[1]
        NR = sample_read_dists.shape[1]
        NN = haplotypes.shape[1]
        U = len(haplotypes)
    with entry():
        instantiate(PEDPOS(sample_ploidy, sample_parents, sample_children, gamete_tau, gamete_lambda, gamete_error, log_frequencies, sample_read_dists, sample_read_counts, haplotypes, NS, U, NN, NR, MC), sample_genotypes)


@contract("mchap.pedigree.mcmc.sample_step", machine_ints=True, props=["C18", "C09"], variants=[{"llk_cache": "some"}])
def sample_step(target_index: int, sample_genotypes: A[iN, 2], sample_ploidy: A[iN, 1], sample_parents: A[iN, 2], sample_children: A[iN, 2], gamete_tau: A[iN, 2], gamete_lambda: A[f8, 2], gamete_error: A[f8, 2], sample_read_dists: A[f8, 4], sample_read_counts: A[i8, 2], haplotypes: A[i1, 2], log_frequencies: A[f8, 1], llk_cache: Opt[FDict2], step_type: int, dosage: A[iN, 1], dosage_p: A[iN, 1], dosage_q: A[iN, 1], gamete_p: A[iN, 1], gamete_q: A[iN, 1], constraint_p: A[iN, 1], constraint_q: A[iN, 1], dosage_log_frequencies: A[f8, 1]):
    requires(len(sample_parents) == NS, sample_parents.shape[1] == 2, gamete_tau.shape == (NS, 2), gamete_lambda.shape == (NS, 2), gamete_error.shape == (NS, 2), PEDSTRUCT(sample_parents, gamete_lambda, gamete_error, NS))
    requires(len(sample_children) == NS, forall(0, MC, lambda x: sample_children[target_index, x] < NS))
    requires(step_type == 0 or step_type == 1, NS >= 1, 0 <= target_index, target_index < NS, 2 <= U, U <= 127)
    requires(sample_genotypes.shape[0] == NS, sample_genotypes.shape[1] <= 2 ** 20, sample_read_dists.shape[0] == NS, sample_read_counts.shape[0] == NS, sample_read_counts.shape[1] == NR, sample_read_dists.shape[2] == NN)
    requires(PEDOK(sample_genotypes, sample_ploidy, sample_read_dists, sample_read_counts, haplotypes, NS, sample_genotypes.shape[1], U, NN, sample_read_dists.shape[3], NR))
    requires(PEDPOS(sample_ploidy, sample_parents, sample_children, gamete_tau, gamete_lambda, gamete_error, log_frequencies, sample_read_dists, sample_read_counts, haplotypes, NS, U, NN, NR, MC))
    requires(implies(llk_cache is not None, DCOH3(llk_cache, sample_read_dists, sample_read_counts, haplotypes, sample_ploidy, NS, NN, NR, U)))
    modifies(sample_genotypes, llk_cache, dosage, dosage_p, dosage_q, gamete_p, gamete_q, constraint_p, constraint_q, dosage_log_frequencies)
    # only the genotype of the target individual changes; all genotypes stay valid; the cache stays owner-coherent
    ensures(forall(0, NS, lambda x: forall(0, sample_genotypes.shape[1], lambda y: implies(x != target_index, sample_genotypes[x, y] == old(sample_genotypes)[x, y]))))
    ensures(PEDOK(sample_genotypes, sample_ploidy, sample_read_dists, sample_read_counts, haplotypes, NS, sample_genotypes.shape[1], U, NN, sample_read_dists.shape[3], NR))
    ensures(implies(llk_cache is not None, DCOH3(llk_cache, sample_read_dists, sample_read_counts, haplotypes, sample_ploidy, NS, NN, NR, U)))
    with defs():
        NS = len(sample_ploidy)
        MC = sample_children.shape[1]
        NR = sample_read_dists.shape[1]
        NN = haplotypes.shape[1]
        U = len(haplotypes)
    with loop(0):
        invariant(0 <= i, i <= len(allele_indices), len(allele_indices) == sample_ploidy[target_index])
        invariant(forall(0, len(allele_indices), lambda t: 0 <= allele_indices[t] and allele_indices[t] < sample_ploidy[target_index]))
        invariant(forall(0, NS, lambda x: forall(0, sample_genotypes.shape[1], lambda y: implies(x != target_index, sample_genotypes[x, y] == old(sample_genotypes)[x, y]))))
        invariant(PEDOK(sample_genotypes, sample_ploidy, sample_read_dists, sample_read_counts, haplotypes, NS, sample_genotypes.shape[1], U, NN, sample_read_dists.shape[3], NR))
        invariant(implies(llk_cache is not None, DCOH3(llk_cache, sample_read_dists, sample_read_counts, haplotypes, sample_ploidy, NS, NN, NR, U)))


@contract("mchap.pedigree.mcmc.compound_step", machine_ints=True, props=["C18", "C09"], variants=[{"llk_cache": "some"}])
def compound_step(sample_genotypes: A[iN, 2], sample_ploidy: A[iN, 1], sample_parents: A[iN, 2], sample_children: A[iN, 2], gamete_tau: A[iN, 2], gamete_lambda: A[f8, 2], gamete_error: A[f8, 2], sample_read_dists: A[f8, 4], sample_read_counts: A[i8, 2], haplotypes: A[i1, 2], log_frequencies: A[f8, 1], llk_cache: Opt[FDict2], step_type: int, dosage: A[iN, 1], dosage_p: A[iN, 1], dosage_q: A[iN, 1], gamete_p: A[iN, 1], gamete_q: A[iN, 1], constraint_p: A[iN, 1], constraint_q: A[iN, 1], dosage_log_frequencies: A[f8, 1]):
    requires(len(sample_parents) == NS, sample_parents.shape[1] == 2, gamete_tau.shape == (NS, 2), gamete_lambda.shape == (NS, 2), gamete_error.shape == (NS, 2), PEDSTRUCT(sample_parents, gamete_lambda, gamete_error, NS))
    requires(len(sample_children) == NS, forall(0, NS, lambda t: forall(0, MC, lambda x: sample_children[t, x] < NS)))
    requires(step_type == 0 or step_type == 1, NS >= 1, 2 <= U, U <= 127)
    requires(sample_genotypes.shape[0] == NS, sample_genotypes.shape[1] <= 2 ** 20, sample_read_dists.shape[0] == NS, sample_read_counts.shape[0] == NS, sample_read_counts.shape[1] == NR, sample_read_dists.shape[2] == NN)
    requires(PEDOK(sample_genotypes, sample_ploidy, sample_read_dists, sample_read_counts, haplotypes, NS, sample_genotypes.shape[1], U, NN, sample_read_dists.shape[3], NR))
    requires(PEDPOS(sample_ploidy, sample_parents, sample_children, gamete_tau, gamete_lambda, gamete_error, log_frequencies, sample_read_dists, sample_read_counts, haplotypes, NS, U, NN, NR, MC))
    requires(implies(llk_cache is not None, DCOH3(llk_cache, sample_read_dists, sample_read_counts, haplotypes, sample_ploidy, NS, NN, NR, U)))
    modifies(sample_genotypes, llk_cache, dosage, dosage_p, dosage_q, gamete_p, gamete_q, constraint_p, constraint_q, dosage_log_frequencies)
    # C09 (call-pedigree): after a full sweep over all individuals and allele copies every genotype is valid and every
    # cached likelihood is that of its owner's own reads
    ensures(PEDOK(sample_genotypes, sample_ploidy, sample_read_dists, sample_read_counts, haplotypes, NS, sample_genotypes.shape[1], U, NN, sample_read_dists.shape[3], NR))
    ensures(implies(llk_cache is not None, DCOH3(llk_cache, sample_read_dists, sample_read_counts, haplotypes, sample_ploidy, NS, NN, NR, U)))
    with defs():
        NS = len(sample_ploidy)
        MC = sample_children.shape[1]
        NR = sample_read_dists.shape[1]
        NN = haplotypes.shape[1]
        U = len(haplotypes)
    with loop(0):
        invariant(0 <= i, i <= len(target_indices), len(target_indices) == NS)
        invariant(forall(0, NS, lambda t: 0 <= target_indices[t] and target_indices[t] < NS))
        invariant(PEDOK(sample_genotypes, sample_ploidy, sample_read_dists, sample_read_counts, haplotypes, NS, sample_genotypes.shape[1], U, NN, sample_read_dists.shape[3], NR))
        invariant(implies(llk_cache is not None, DCOH3(llk_cache, sample_read_dists, sample_read_counts, haplotypes, sample_ploidy, NS, NN, NR, U)))


# ---- the children matrix: which trios belong to the Markov blanket of an individual -------------------------------


@spec_inline
def ISCH(parents: A[int, 2], c: int, p: int) -> bool:
    """individual p is a parent of individual c"""
    return parents[c, 0] == p or parents[c, 1] == p


@spec
def CC(parents: A[int, 2], p: int, n: int) -> int:
    """number of children of p among the first n individuals (selfed progeny count once)"""
    decreases(n)
    if n <= 0:
        return 0
    return CC(parents, p, n - 1) + ite(ISCH(parents, n - 1, p), 1, 0)


@lemma(shared=True)
def lemma_cc_mono(parents: A[int, 2], p: int, a: int, b: int):
    requires(0 <= a, a <= b)
    ensures(CC(parents, p, a) <= CC(parents, p, b), 0 <= CC(parents, p, a))
    decreases(b)
    if a < b:
        lemma_cc_mono(parents, p, a, b - 1)
        unfold(CC(parents, p, b))
    else:
        lemma_cc_nonneg(parents, p, a)


@lemma(shared=True)
def lemma_cc_nonneg(parents: A[int, 2], p: int, a: int):
    ensures(0 <= CC(parents, p, a), implies(a >= 0, CC(parents, p, a) <= a))
    decreases(a)
    unfold(CC(parents, p, a))
    if a > 0:
        lemma_cc_nonneg(parents, p, a - 1)


@contract("mchap.pedigree.mcmc.sample_children_matrix", machine_ints=True, props=["C18"])
def sample_children_matrix(sample_parents: A[i8, 2]) -> A[i8, 2]:
    requires(NS >= 1, sample_parents.shape[1] == 2)
    requires(forall(0, NS, lambda x: -1 <= sample_parents[x, 0] and sample_parents[x, 0] < NS and -1 <= sample_parents[x, 1] and sample_parents[x, 1] < NS and sample_parents[x, 0] != x and sample_parents[x, 1] != x))
    ensures(len(result) == NS)
    # row p lists the children of p in increasing order -- child c sits at position "number of earlier children of p" -- and
    # is padded with -1: every trio in which p is a parent, and no other, is visited by the Markov-blanket loops
    ensures(forall(0, NS, lambda c: forall(0, NS, lambda p: implies(ISCH(sample_parents, c, p), CC(sample_parents, p, c) < result.shape[1] and result[p, CC(sample_parents, p, c)] == c))))
    ensures(forall(0, NS, lambda p: forall(0, result.shape[1], lambda x: ite(x < CC(sample_parents, p, NS), 0 <= result[p, x] and result[p, x] < NS and ISCH(sample_parents, result[p, x], p), result[p, x] == -1))))
    ensures(forall(0, NS, lambda p: CC(sample_parents, p, NS) <= result.shape[1]))
    with defs():
        NS = len(sample_parents)
    with loop(0):
        invariant(0 <= i, i <= NS, n_samples == NS, n_parents == 2, len(next_child_index) == NS)
        invariant(forall(0, NS, lambda p: next_child_index[p] == CC(sample_parents, p, i)))
        with tail():
            with forall_intro(pp, 0, NS, next_child_index[pp] == CC(sample_parents, pp, i + 1)):
                unfold(CC(sample_parents, pp, i + 1))
    with loop(1):
        invariant(0 <= j, j <= 2)
        invariant(forall(0, NS, lambda p: next_child_index[p] == CC(sample_parents, p, i) + ite(j >= 1 and sample_parents[i, 0] == p, 1, 0) + ite(j >= 2 and sample_parents[i, 1] == p and sample_parents[i, 0] != p, 1, 0)))
        with head():
            with forall_intro(pp, 0, NS, 0 <= CC(sample_parents, pp, i) and CC(sample_parents, pp, i) <= i):
                lemma_cc_nonneg(sample_parents, pp, i)
    with after_stmt("next_child_index = np.zeros(n_samples, dtype=np.int64)"):
        with forall_intro(pp, 0, NS, CC(sample_parents, pp, 0) == 0):
            unfold(CC(sample_parents, pp, 0))
    with before_stmt("max_children = next_child_index.max()"):
        with forall_intro(pp, 0, NS, 0 <= CC(sample_parents, pp, NS)):
            lemma_cc_nonneg(sample_parents, pp, NS)
    with loop(2):
        invariant(0 <= i, i <= NS, len(sample_children) == NS, sample_children.shape[1] == max_children, len(next_child_index) == NS)
        invariant(forall(0, NS, lambda p: CC(sample_parents, p, NS) <= max_children))
        invariant(forall(0, NS, lambda p: next_child_index[p] == CC(sample_parents, p, i)))
        invariant(forall(0, i, lambda c: forall(0, NS, lambda p: implies(ISCH(sample_parents, c, p), CC(sample_parents, p, c) < max_children and sample_children[p, CC(sample_parents, p, c)] == c))))
        invariant(forall(0, NS, lambda p: forall(0, max_children, lambda x: ite(x < CC(sample_parents, p, i), 0 <= sample_children[p, x] and sample_children[p, x] < i and ISCH(sample_parents, sample_children[p, x], p), sample_children[p, x] == -1))))
        with head():
            with forall_intro(pp, 0, NS, CC(sample_parents, pp, i) <= CC(sample_parents, pp, i + 1) and CC(sample_parents, pp, i + 1) <= CC(sample_parents, pp, NS) and 0 <= CC(sample_parents, pp, i)):
                lemma_cc_mono(sample_parents, pp, i, i + 1)
                lemma_cc_mono(sample_parents, pp, i + 1, NS)
        with tail():
            with forall_intro(pp, 0, NS, next_child_index[pp] == CC(sample_parents, pp, i + 1)):
                unfold(CC(sample_parents, pp, i + 1))
    with loop(3):
        invariant(0 <= j, j <= 2)
        invariant(forall(0, NS, lambda p: next_child_index[p] == CC(sample_parents, p, i) + ite(j >= 1 and sample_parents[i, 0] == p, 1, 0) + ite(j >= 2 and sample_parents[i, 1] == p and sample_parents[i, 0] != p, 1, 0)))
        invariant(forall(0, i, lambda c: forall(0, NS, lambda p: implies(ISCH(sample_parents, c, p), CC(sample_parents, p, c) < max_children and sample_children[p, CC(sample_parents, p, c)] == c))))
        invariant(forall(0, NS, lambda p: implies((j >= 1 and sample_parents[i, 0] == p) or (j >= 2 and sample_parents[i, 1] == p), sample_children[p, CC(sample_parents, p, i)] == i)))
        invariant(forall(0, NS, lambda p: forall(0, max_children, lambda x: ite(x < next_child_index[p], 0 <= sample_children[p, x] and sample_children[p, x] <= i and ISCH(sample_parents, sample_children[p, x], p), sample_children[p, x] == -1))))
        with head():
            unfold(CC(sample_parents, sample_parents[i, j], i + 1))
