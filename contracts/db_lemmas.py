# C01 / C02 -- detailed balance of the Metropolis-Hastings kernels, as lemmas over the closed forms that the
# code is proved to compute (chain_swap_acceptance, mh_options).  Log space makes the min() identity linear.


@lemma(props=["C01"])
def lemma_exchange_detailed_balance(Ui: float, Uj: float, Ti: float, Tj: float, acc_fwd: float, acc_rev: float):
    """C01 (temperature exchange): with U = llk + log prior, chain i (inverse temperature Ti) holding a state of
    energy Ui and chain j holding Uj, the joint tempered weight exp(Ti Ui + Tj Uj) times the acceptance of the
    swap equals the weight of the swapped configuration times the acceptance of swapping back."""
    requires(finite(Ui), finite(Uj), finite(Ti), finite(Tj))
    requires(acc_fwd == ite(exp((Uj - Ui) * (Ti - Tj)) > 1.0, 1.0, exp((Uj - Ui) * (Ti - Tj))))
    requires(acc_rev == ite(exp((Ui - Uj) * (Ti - Tj)) > 1.0, 1.0, exp((Ui - Uj) * (Ti - Tj))))
    ensures(exp(Ti * Ui + Tj * Uj) * acc_fwd == exp(Ti * Uj + Tj * Ui) * acc_rev)
    ax_exp_add((Uj - Ui) * (Ti - Tj), (Ui - Uj) * (Ti - Tj))
    ax_exp_zero()
    ax_exp_add(Ti * Ui + Tj * Uj, (Uj - Ui) * (Ti - Tj))
    ax_exp_pos(Ti * Ui + Tj * Uj)
    ax_exp_pos((Uj - Ui) * (Ti - Tj))
    ax_exp_pos((Ui - Uj) * (Ti - Tj))
