# C01 / C02 -- detailed balance of the Metropolis-Hastings kernels, as lemmas over the closed forms that the
# code is proved to compute (chain_swap_acceptance, mh_options).  Log space makes the min() identity linear.


@lemma(props=["C01"])
def lemma_exchange_detailed_balance(Ui: float, Uj: float, Ti: float, Tj: float, acc_fwd: float, acc_rev: float):
    """C01 (temperature exchange): with U = llk + log prior, chain i (inverse temperature Ti) holding a state of
    energy Ui and chain j holding Uj, the joint tempered weight exp(Ti Ui + Tj Uj) times the acceptance of the
    swap equals the weight of the swapped configuration times the acceptance of swapping back."""
    requires(finite(Ui), finite(Uj), finite(Ti), finite(Tj))
    requires(acc_fwd == ite(exp((Uj - Ui) * (Ti - Tj)) > 1.0, 1.0, exp((Uj - Ui) * (Ti - Tj))))
    requires(acc_rev == ite(exp((Ui - Uj) * (Ti - Tj)) > 1.0, 1.0, exp((Ui - Uj) * (Ti - Tj))))
    ensures(exp(Ti * Ui + Tj * Uj) * acc_fwd == exp(Ti * Uj + Tj * Ui) * acc_rev)
    ax_exp_add((Uj - Ui) * (Ti - Tj), (Ui - Uj) * (Ti - Tj))
    ax_exp_zero()
    ax_exp_add(Ti * Ui + Tj * Uj, (Uj - Ui) * (Ti - Tj))
    ax_exp_pos(Ti * Ui + Tj * Uj)
    ax_exp_pos((Uj - Ui) * (Ti - Tj))
    ax_exp_pos((Ui - Uj) * (Ti - Tj))


# ---- sums over the distinct alleles of a genotype, re-indexed by allele


@spec
def FSUMFIRST(g: A[int, 1], W: A[float, 1], n: int) -> float:
    """sum over the positions i < n that hold the first copy of their allele of W[g[i]]"""
    decreases(n)
    if n <= 0:
        return 0.0
    return FSUMFIRST(g, W, n - 1) + ite(FIRST(g, n - 1), real(W[g[n - 1]]), 0.0)


@lemma(shared=True)
def lemma_fsum_zero(a: A[float, 1], lo: int, hi: int):
    requires(forall(lo, hi, lambda t: real(a[t]) == 0))
    ensures(FSUM(a, lo, hi) == 0)
    decreases(hi - lo)
    unfold(FSUM(a, lo, hi))
    if hi > lo:
        lemma_fsum_zero(a, lo, hi - 1)


@lemma(shared=True)
def lemma_first_sum_by_allele(g: A[int, 1], W: A[float, 1], n: int, U: int):
    """a sum over first copies is the sum over the alleles that occur"""
    requires(n >= 0, forall(0, n, lambda i: 0 <= g[i] and g[i] < U))
    ensures(FSUMFIRST(g, W, n) == FSUM(arrf1(lambda x: ite(CNT(g, x, n) > 0, real(W[x]), 0.0)), 0, U))
    decreases(n)
    unfold(FSUMFIRST(g, W, n))
    if n > 0:
        lemma_first_sum_by_allele(g, W, n - 1, U)
        with forall_intro(x, 0, U, CNT(g, x, n) == CNT(g, x, n - 1) + ite(g[n - 1] == x, 1, 0) and CNT(g, x, n - 1) >= 0):
            unfold(CNT(g, x, n))
            lemma_cnt_range(g, x, n - 1)
        lemma_fsum_upd(arrf1(lambda x: ite(CNT(g, x, n - 1) > 0, real(W[x]), 0.0)), arrf1(lambda x: ite(CNT(g, x, n) > 0, real(W[x]), 0.0)), 0, U, g[n - 1])
    else:
        with forall_intro(x, 0, U, CNT(g, x, 0) == 0):
            unfold(CNT(g, x, 0))
        lemma_fsum_zero(arrf1(lambda x: ite(CNT(g, x, 0) > 0, real(W[x]), 0.0)), 0, U)


@lemma(shared=True)
def lemma_lgsumg_is_firstsum(g: A[int, 1], P: int, n: int):
    ensures(LGSUMG(g, P, n) == FSUMFIRST(g, arrf1(lambda x: lgamma(CNT(g, x, P) + 1)), n))
    decreases(n)
    unfold(LGSUMG(g, P, n), FSUMFIRST(g, arrf1(lambda x: lgamma(CNT(g, x, P) + 1)), n))
    if n > 0:
        lemma_lgsumg_is_firstsum(g, P, n - 1)


@spec
def LGSUMA(g: A[int, 1], P: int, U: int) -> float:
    """sum over the alleles x < U that occur in g of lgamma(copies of x + 1)"""
    return FSUM(arrf1(lambda x: ite(CNT(g, x, P) > 0, lgamma(CNT(g, x, P) + 1), 0.0)), 0, U)


@lemma(shared=True)
def lemma_lgsumg_by_allele(g: A[int, 1], P: int, U: int):
    requires(P >= 0, VALIDA(g, P, U))
    ensures(LGSUMG(g, P, P) == LGSUMA(g, P, U))
    lemma_lgsumg_is_firstsum(g, P, P)
    lemma_first_sum_by_allele(g, arrf1(lambda x: lgamma(CNT(g, x, P) + 1)), P, U)
    unfold(LGSUMA(g, P, U))


@lemma(props=["C02"])
def lemma_perms_ratio(g: A[int, 1], g2: A[int, 1], k: int, a: int, P: int, U: int):
    """replacing copy k (allele cur) by a different allele a changes the log number of equivalent
    permutations by  log(copies of cur before) - log(copies of a after)"""
    requires(P >= 1, VALIDA(g, P, U), 0 <= k, k < P, 0 <= a, a < U, a != g[k], forall(0, P, lambda i: g2[i] == ite(i == k, a, g[i])))
    ensures(LGSUMG(g2, P, P) - LGSUMG(g, P, P) == real(log(CNT(g, a, P) + 1)) - real(log(CNT(g, g[k], P))))
    lemma_lgsumg_by_allele(g, P, U)
    lemma_lgsumg_by_allele(g2, P, U)
    unfold(LGSUMA(g, P, U), LGSUMA(g2, P, U))
    with forall_intro(x, 0, U, CNT(g2, x, P) == CNT(g, x, P) - ite(g[k] == x, 1, 0) + ite(a == x, 1, 0) and CNT(g, x, P) >= 0):
        lemma_cnt_upd(g, g2, x, P, k)
        lemma_cnt_range(g, x, P)
    lemma_cnt_pos(g, P, k)
    # two single-entry updates: first the entry of the old allele, then that of the new one
    M = arrf1(lambda x: ite(x == g[k], ite(CNT(g2, x, P) > 0, lgamma(CNT(g2, x, P) + 1), 0.0), ite(CNT(g, x, P) > 0, lgamma(CNT(g, x, P) + 1), 0.0)))
    lemma_fsum_upd(arrf1(lambda x: ite(CNT(g, x, P) > 0, lgamma(CNT(g, x, P) + 1), 0.0)), M, 0, U, g[k])
    lemma_fsum_upd(M, arrf1(lambda x: ite(CNT(g2, x, P) > 0, lgamma(CNT(g2, x, P) + 1), 0.0)), 0, U, a)
    ax_lgamma_rec(CNT(g, g[k], P))
    ax_lgamma_rec(CNT(g, a, P) + 1)
    ax_lgamma_one()


@lemma(props=["C02"])
def lemma_call_mh_detailed_balance(g: A[int, 1], g2: A[int, 1], k: int, a: int, P: int, U: int, llk: float, llk2: float, lp: float, lp2: float):
    """C02: the Metropolis-Hastings vector of mh_options is in detailed balance.  With
    rho(g) = likelihood x genotype prior / number of equivalent permutations (the target on *ordered* allele
    vectors, whose image on unordered genotypes is likelihood x prior), for g2 = g[k := a], a != g[k]:
        log rho(g) + log accept(g -> g2)  ==  log rho(g2) + log accept(g2 -> g)
    where accept is the closed form proved for mh_options (the uniform 1/(U-1) proposal cancels)."""
    requires(P >= 1, VALIDA(g, P, U), 0 <= k, k < P, 0 <= a, a < U, a != g[k], forall(0, P, lambda i: g2[i] == ite(i == k, a, g[i])))
    requires(finite(llk), finite(llk2), finite(lp), finite(lp2))
    ensures((llk + lp - (lgamma(P + 1) - LGSUMG(g, P, P))) + min(0.0, (llk2 - llk) + (lp2 - lp) + real(log(CNTU(g, k, a, P) / CNT(g, g[k], P)))) == (llk2 + lp2 - (lgamma(P + 1) - LGSUMG(g2, P, P))) + min(0.0, (llk - llk2) + (lp - lp2) + real(log(CNTU(g2, k, g[k], P) / CNT(g2, a, P)))))
    lemma_perms_ratio(g, g2, k, a, P, U)
    unfold(CNTU(g, k, a, P), CNTU(g2, k, g[k], P))
    lemma_cnt_upd(g, g2, a, P, k)
    lemma_cnt_upd(g, g2, g[k], P, k)
    lemma_cnt_pos(g, P, k)
    lemma_cnt_range(g, a, P)
    ax_log_div(CNT(g, a, P) + 1, CNT(g, g[k], P))
    ax_log_div(CNT(g, g[k], P), CNT(g, a, P) + 1)


# ---- the single-allele conditional prior is the exact conditional of the joint prior (C05, C02)


@spec
def DMA(g: A[int, 1], P: int, U: int, al: float) -> float:
    """sum over the alleles x < U that occur in g of lgamma(copies + al) - lgamma(al)"""
    return FSUM(arrf1(lambda x: ite(CNT(g, x, P) > 0, lgamma(CNT(g, x, P) + al) - lgamma(al), 0.0)), 0, U)


@lemma(shared=True)
def lemma_dm_is_firstsum(g: A[int, 1], P: int, al: float, n: int):
    ensures(DMSUMC(g, P, al, n) + LGSUMG(g, P, n) == FSUMFIRST(g, arrf1(lambda x: lgamma(CNT(g, x, P) + al) - lgamma(al)), n))
    decreases(n)
    unfold(DMSUMC(g, P, al, n), LGSUMG(g, P, n), FSUMFIRST(g, arrf1(lambda x: lgamma(CNT(g, x, P) + al) - lgamma(al)), n))
    if n > 0:
        lemma_dm_is_firstsum(g, P, al, n - 1)


@lemma(shared=True)
def lemma_dm_by_allele(g: A[int, 1], P: int, U: int, al: float):
    requires(P >= 0, VALIDA(g, P, U))
    ensures(DMSUMC(g, P, al, P) + LGSUMG(g, P, P) == DMA(g, P, U, al))
    lemma_dm_is_firstsum(g, P, al, P)
    lemma_first_sum_by_allele(g, arrf1(lambda x: lgamma(CNT(g, x, P) + al) - lgamma(al)), P, U)
    unfold(DMA(g, P, U, al))


@spec_inline
def SEQ_FLAT(g: A[int, 1], P: int, U: int, F: float) -> float:
    """log prior of the *ordered* allele vector g: the unordered-genotype prior divided by its number of equivalent permutations"""
    return CPRIOR_FLAT(g, P, U, F) - (lgamma(P + 1) - LGSUMG(g, P, P))


@lemma(props=["C05", "C02"])
def lemma_conditional_prior_is_exact_flat(g: A[int, 1], ga: A[int, 1], gb: A[int, 1], k: int, a: int, b: int, P: int, U: int, F: float):
    """C05 / C02: the single-allele prior used by the Gibbs move (CONDP: Polya urn) is proportional, as a function of
    the allele put at copy k, to the joint prior of the ordered vector -- i.e. it is the exact conditional of the
    genotype prior.  (Flat frequencies; the common denominator of CONDP cancels in the ratio.)"""
    requires(P >= 1, U >= 1, VALIDA(g, P, U), 0 <= k, k < P, 0 <= a, a < U, 0 <= b, b < U, a != b, 0 <= F, F < 1)
    requires(forall(0, P, lambda i: ga[i] == ite(i == k, a, g[i])), forall(0, P, lambda i: gb[i] == ite(i == k, b, g[i])))
    ensures(implies(F == 0, SEQ_FLAT(ga, P, U, F) == SEQ_FLAT(gb, P, U, F)))
    ensures(implies(F > 0, SEQ_FLAT(ga, P, U, F) - SEQ_FLAT(gb, P, U, F) == real(log(ALPHA(F, 1 / U) + CNT(g, a, P) - ite(g[k] == a, 1, 0))) - real(log(ALPHA(F, 1 / U) + CNT(g, b, P) - ite(g[k] == b, 1, 0)))))
    if F > 0:
        lemma_dm_by_allele(ga, P, U, ALPHA(F, 1 / U))
        lemma_dm_by_allele(gb, P, U, ALPHA(F, 1 / U))
        unfold(DMA(ga, P, U, ALPHA(F, 1 / U)), DMA(gb, P, U, ALPHA(F, 1 / U)))
        with forall_intro(x, 0, U, CNT(ga, x, P) == CNT(g, x, P) - ite(g[k] == x, 1, 0) + ite(a == x, 1, 0) and CNT(gb, x, P) == CNT(g, x, P) - ite(g[k] == x, 1, 0) + ite(b == x, 1, 0) and CNT(g, x, P) - ite(g[k] == x, 1, 0) >= 0):
            lemma_cnt_upd(g, ga, x, P, k)
            lemma_cnt_upd(g, gb, x, P, k)
            lemma_cnt_range(g, x, P)
            if g[k] == x:
                lemma_cnt_pos(g, P, k)
        AL = ALPHA(F, 1 / U)
        M = arrf1(lambda x: ite(x == a, ite(CNT(gb, x, P) > 0, lgamma(CNT(gb, x, P) + AL) - lgamma(AL), 0.0), ite(CNT(ga, x, P) > 0, lgamma(CNT(ga, x, P) + AL) - lgamma(AL), 0.0)))
        lemma_fsum_upd(arrf1(lambda x: ite(CNT(ga, x, P) > 0, lgamma(CNT(ga, x, P) + AL) - lgamma(AL), 0.0)), M, 0, U, a)
        lemma_fsum_upd(M, arrf1(lambda x: ite(CNT(gb, x, P) > 0, lgamma(CNT(gb, x, P) + AL) - lgamma(AL), 0.0)), 0, U, b)
        ax_lgamma_rec(AL + CNT(g, a, P) - ite(g[k] == a, 1, 0))
        ax_lgamma_rec(AL + CNT(g, b, P) - ite(g[k] == b, 1, 0))


@spec
def DMAF(g: A[int, 1], P: int, U: int, f: A[float, 1], c: float) -> float:
    return FSUM(arrf1(lambda x: ite(CNT(g, x, P) > 0, lgamma(CNT(g, x, P) + f[x] * c) - lgamma(f[x] * c), 0.0)), 0, U)


@lemma(shared=True)
def lemma_dmf_is_firstsum(g: A[int, 1], P: int, f: A[float, 1], c: float, n: int):
    ensures(DMSUMF(g, P, f, c, n) + LGSUMG(g, P, n) == FSUMFIRST(g, arrf1(lambda x: lgamma(CNT(g, x, P) + f[x] * c) - lgamma(f[x] * c)), n))
    decreases(n)
    unfold(DMSUMF(g, P, f, c, n), LGSUMG(g, P, n), FSUMFIRST(g, arrf1(lambda x: lgamma(CNT(g, x, P) + f[x] * c) - lgamma(f[x] * c)), n))
    if n > 0:
        lemma_dmf_is_firstsum(g, P, f, c, n - 1)


@lemma(shared=True)
def lemma_dmf_by_allele(g: A[int, 1], P: int, U: int, f: A[float, 1], c: float):
    requires(P >= 0, VALIDA(g, P, U))
    ensures(DMSUMF(g, P, f, c, P) + LGSUMG(g, P, P) == DMAF(g, P, U, f, c))
    lemma_dmf_is_firstsum(g, P, f, c, P)
    lemma_first_sum_by_allele(g, arrf1(lambda x: lgamma(CNT(g, x, P) + f[x] * c) - lgamma(f[x] * c)), P, U)
    unfold(DMAF(g, P, U, f, c))


@lemma(shared=True)
def lemma_fprod_upd(f: A[float, 1], g: A[int, 1], g2: A[int, 1], k: int, n: int):
    """g2 = g except at copy k:  FPROD(g2) f[g[k]] == FPROD(g) f[g2[k]]"""
    requires(0 <= k, k < n, forall(0, n, lambda i: implies(i != k, g2[i] == g[i])))
    ensures(FPROD(f, g2, n) * real(f[g[k]]) == FPROD(f, g, n) * real(f[g2[k]]))
    decreases(n)
    unfold(FPROD(f, g2, n), FPROD(f, g, n))
    if k < n - 1:
        lemma_fprod_upd(f, g, g2, k, n - 1)
    else:
        lemma_fprod_ext(f, g, g2, n - 1)


@spec_inline
def SEQ_FREQ(g: A[int, 1], P: int, f: A[float, 1], U: int, F: float) -> float:
    return CPRIOR_FREQ(g, P, f, U, F) - (lgamma(P + 1) - LGSUMG(g, P, P))


@lemma(props=["C05", "C02"])
def lemma_conditional_prior_is_exact_freq(g: A[int, 1], ga: A[int, 1], gb: A[int, 1], k: int, a: int, b: int, P: int, U: int, f: A[float, 1], F: float):
    """... with prior allele frequencies f (all positive): dispersion f[x] (1-F)/F"""
    requires(P >= 1, U >= 1, VALIDA(g, P, U), 0 <= k, k < P, 0 <= a, a < U, 0 <= b, b < U, a != b, 0 <= F, F < 1, forall(0, U, lambda x: real(f[x]) > 0))
    requires(forall(0, P, lambda i: ga[i] == ite(i == k, a, g[i])), forall(0, P, lambda i: gb[i] == ite(i == k, b, g[i])))
    ensures(implies(F == 0, SEQ_FREQ(ga, P, f, U, F) - SEQ_FREQ(gb, P, f, U, F) == real(log(f[a])) - real(log(f[b]))))
    ensures(implies(F > 0, SEQ_FREQ(ga, P, f, U, F) - SEQ_FREQ(gb, P, f, U, F) == real(log(ALPHA(F, f[a]) + CNT(g, a, P) - ite(g[k] == a, 1, 0))) - real(log(ALPHA(F, f[b]) + CNT(g, b, P) - ite(g[k] == b, 1, 0)))))
    with forall_intro(x, 0, U, CNT(ga, x, P) == CNT(g, x, P) - ite(g[k] == x, 1, 0) + ite(a == x, 1, 0) and CNT(gb, x, P) == CNT(g, x, P) - ite(g[k] == x, 1, 0) + ite(b == x, 1, 0) and CNT(g, x, P) - ite(g[k] == x, 1, 0) >= 0):
        lemma_cnt_upd(g, ga, x, P, k)
        lemma_cnt_upd(g, gb, x, P, k)
        lemma_cnt_range(g, x, P)
        if g[k] == x:
            lemma_cnt_pos(g, P, k)
    if F > 0:
        C0 = (1 - F) / F
        lemma_dmf_by_allele(ga, P, U, f, C0)
        lemma_dmf_by_allele(gb, P, U, f, C0)
        unfold(DMAF(ga, P, U, f, C0), DMAF(gb, P, U, f, C0))
        M = arrf1(lambda x: ite(x == a, ite(CNT(gb, x, P) > 0, lgamma(CNT(gb, x, P) + f[x] * C0) - lgamma(f[x] * C0), 0.0), ite(CNT(ga, x, P) > 0, lgamma(CNT(ga, x, P) + f[x] * C0) - lgamma(f[x] * C0), 0.0)))
        lemma_fsum_upd(arrf1(lambda x: ite(CNT(ga, x, P) > 0, lgamma(CNT(ga, x, P) + f[x] * C0) - lgamma(f[x] * C0), 0.0)), M, 0, U, a)
        lemma_fsum_upd(M, arrf1(lambda x: ite(CNT(gb, x, P) > 0, lgamma(CNT(gb, x, P) + f[x] * C0) - lgamma(f[x] * C0), 0.0)), 0, U, b)
        ax_lgamma_rec(real(f[a]) * C0 + CNT(g, a, P) - ite(g[k] == a, 1, 0))
        ax_lgamma_rec(real(f[b]) * C0 + CNT(g, b, P) - ite(g[k] == b, 1, 0))
    else:
        lemma_lgsumg_by_allele(ga, P, U)
        lemma_lgsumg_by_allele(gb, P, U)
        lemma_fprod_upd(f, ga, gb, k, P)
        lemma_fprod_pos(f, ga, P)
        lemma_fprod_pos(f, gb, P)
        ax_log_mul(FPROD(f, gb, P), real(f[a]))
        ax_log_mul(FPROD(f, ga, P), real(f[b]))


@lemma(props=["C02"])
def lemma_gibbs_is_exact_conditional(pa: float, pb: float, llka: float, llkb: float, lpa: float, lpb: float, seqa: float, seqb: float):
    """C02: Gibbs probabilities proportional to exp(llk + conditional log prior) are proportional to the joint
    weights exp(llk + log prior of the ordered vector) whenever the conditional prior differs from the joint prior
    by a constant (lemma_conditional_prior_is_exact_*): the Gibbs move draws from the exact full conditional."""
    requires(finite(pa), finite(pb), finite(llka), finite(llkb), finite(lpa), finite(lpb), finite(seqa), finite(seqb))
    requires(PROPTO(pa, exp(llka + lpa), pb, exp(llkb + lpb)), seqa - seqb == lpa - lpb)
    ensures(PROPTO(pa, exp(llka + seqa), pb, exp(llkb + seqb)))
    unfold(PROPTO(pa, exp(llka + lpa), pb, exp(llkb + lpb)), PROPTO(pa, exp(llka + seqa), pb, exp(llkb + seqb)))
    ax_exp_add(llka + lpa, seqa - lpa)
    ax_exp_add(llkb + lpb, seqb - lpb)
    ax_exp_pos(seqa - lpa)
