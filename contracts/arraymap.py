# C09 -- mchap/assemble/arraymap.py (abstract interface) and the cached likelihood wrappers.
#
# The arraymap get/set contracts below are ASSUMED (trusted=True): they are NOT discharged by the
# VC generator; they are checked at run time on the real arraymap over exhaustive bounded operation
# sequences (rt/r_C09.py) and listed as assumptions in the evidence.  Everything that *uses* the
# map (the cached wrappers, the sampler steps) is verified against them.


@spec
def NODE(tree: A[int, 2], key: A[int, 1], i: int) -> int:
    """the trie node reached after consuming key[0..i), or -1 when the path does not exist"""
    decreases(i)
    if i <= 0:
        return 0
    return ite(NODE(tree, key, i - 1) < 0, -1, tree[NODE(tree, key, i - 1), key[i - 1]])


@lemma(shared=True)
def lemma_node_missing(tree: A[int, 2], key: A[int, 1], i: int, L: int):
    """once a pointer is missing the path stays missing"""
    requires(0 <= i, i <= L, NODE(tree, key, i) < 0)
    ensures(NODE(tree, key, L) < 0)
    decreases(L - i)
    if i < L:
        unfold(NODE(tree, key, i + 1))
        lemma_node_missing(tree, key, i + 1, L)


@spec_inline
def VIDX(tree: A[int, 2], key: A[int, 1], L: int) -> int:
    """slot 0 of the leaf reached by `key` holds the index of its value (or -1)"""
    return ite(NODE(tree, key, L) < 0, -1, tree[NODE(tree, key, L), 0])


@spec_inline
def AGREE(k1: A[int, 1], k2: A[int, 1], n: int) -> bool:
    """the keys agree on their first n entries"""
    return forall(0, n, lambda t: k1[t] == k2[t])


@spec_inline
def AMKEYS(m: ArrayMap) -> bool:
    """for every key: the path stays among the allocated nodes and climbs, the value index is among the
    allocated values, and a stored value is a finite number"""
    return forall_arr1(lambda key: forall(0, m[2] + 1, lambda i: -1 <= NODE(m[0], key, i) and NODE(m[0], key, i) < m[3]) and forall(0, m[2], lambda i: implies(NODE(m[0], key, i + 1) >= 0, NODE(m[0], key, i) < NODE(m[0], key, i + 1))) and -1 <= VIDX(m[0], key, m[2]) and VIDX(m[0], key, m[2]) < m[4] and implies(VIDX(m[0], key, m[2]) >= 0, finite(m[1][VIDX(m[0], key, m[2])])))


@spec_inline
def AMINJ(m: ArrayMap) -> bool:
    """the trie is a tree: a node is reached by exactly one key prefix, a value slot by exactly one key"""
    return forall_arr1(lambda k1, k2: forall(0, m[2] + 1, lambda i1: forall(0, m[2] + 1, lambda i2: implies(NODE(m[0], k1, i1) >= 0 and NODE(m[0], k1, i1) == NODE(m[0], k2, i2), i1 == i2 and AGREE(k1, k2, i1)))) and implies(VIDX(m[0], k1, m[2]) >= 0 and VIDX(m[0], k1, m[2]) == VIDX(m[0], k2, m[2]), AGREE(k1, k2, m[2])))


@spec_inline
def AMFREE(m: ArrayMap) -> bool:
    """rows and value slots that have not been handed out are empty"""
    return forall(lambda r, j: implies(r >= m[3], m[0][r, j] == -1)) and forall(lambda q: implies(q >= m[4], isnan(m[1][q]) and not isninf(m[1][q])))


@spec
def AMOK(m: ArrayMap, T: int, B: int, V: int) -> bool:
    """representation invariant (T, B, V: numbers of tree rows, branches per node, value slots)"""
    return m[2] >= 1 and B >= 1 and 1 <= m[3] and m[3] < T and 0 <= m[4] and m[4] < V and AMKEYS(m) and AMINJ(m) and AMFREE(m)


@spec
def AMMISS(m: ArrayMap, key: A[int, 1]) -> bool:
    """looking up `key` yields the NaN miss sentinel"""
    return VIDX(m[0], key, m[2]) < 0


@spec
def AMGET(m: ArrayMap, key: A[int, 1]) -> float:
    """the value served for `key` when it is not a miss"""
    return real(m[1][VIDX(m[0], key, m[2])])


@contract("mchap.assemble.arraymap.get", machine_ints=True, props=["C09"])
def get(array_map: Opt[ArrayMap], array: A[i1, 1]) -> float:
    requires(implies(array_map is not None, AMOK(array_map, len(array_map[0]), array_map[0].shape[1], len(array_map[1])) and len(array) == array_map[2]))
    requires(implies(array_map is not None, forall(0, len(array), lambda i: 0 <= array[i] and array[i] < array_map[0].shape[1])))
    ensures(not isninf(result))
    ensures(implies(array_map is None, isnan(result)))
    ensures(implies(array_map is not None, isnan(result) == AMMISS(array_map, val(array))))
    ensures(implies(array_map is not None and not isnan(result), result == AMGET(array_map, val(array))))
    with entry():
        if array_map is not None:
            unfold(AMOK(array_map, len(array_map[0]), array_map[0].shape[1], len(array_map[1])))
            instantiate(AMKEYS(array_map), array)
            unfold(AMMISS(array_map, val(array)), AMGET(array_map, val(array)))
            unfold(NODE(array_map[0], array, 0))
    with loop(0):
        invariant(0 <= i, i <= len(array), node == NODE(tree, array, i), node >= 0)
        with head():
            unfold(NODE(tree, array, i + 1))
    with before_stmt("return values[empty_values]"):
        # a missing pointer on the way: the rest of the path is missing too
        lemma_node_missing(tree, array, i + 1, array_length)


@spec_inline
def LLKG(reads: A[float, 3], counts: A[int, 1], G: A[int, 2], P: int, N: int, n: int) -> xfloat:
    """likelihood of the canonical representative of G (depends on G only through [0,P) x [0,N))"""
    return LLK(reads, counts, canon2(G, P, N), P, N, n)


@lemma(shared=True)
def lemma_rhp_ext(reads: A[float, 3], G: A[int, 2], H: A[int, 2], r: int, h: int, j: int):
    requires(j >= 0, forall(0, j, lambda c: G[h, c] == H[h, c]))
    ensures(RHP(reads, G, r, h, j) == RHP(reads, H, r, h, j))
    decreases(j)
    unfold(RHP(reads, G, r, h, j), RHP(reads, H, r, h, j))
    if j >= 1:
        lemma_rhp_ext(reads, G, H, r, h, j - 1)


@lemma(shared=True)
def lemma_rp_ext(reads: A[float, 3], G: A[int, 2], H: A[int, 2], r: int, h: int, N: int, P: int):
    requires(h >= 0, N >= 0, forall(0, h, lambda a: forall(0, N, lambda c: G[a, c] == H[a, c])))
    ensures(RP(reads, G, r, h, N, P) == RP(reads, H, r, h, N, P))
    decreases(h)
    unfold(RP(reads, G, r, h, N, P), RP(reads, H, r, h, N, P))
    if h >= 1:
        lemma_rp_ext(reads, G, H, r, h - 1, N, P)
        lemma_rhp_ext(reads, G, H, r, h - 1, N)


@lemma(shared=True)
def lemma_llk_ext(reads: A[float, 3], counts: A[int, 1], G: A[int, 2], H: A[int, 2], P: int, N: int, n: int):
    """the likelihood depends on the genotype only through its entries in [0,P) x [0,N)"""
    requires(P >= 0, N >= 0, n >= 0, forall(0, P, lambda a: forall(0, N, lambda c: G[a, c] == H[a, c])))
    ensures(LLK(reads, counts, G, P, N, n) == LLK(reads, counts, H, P, N, n))
    decreases(n)
    unfold(LLK(reads, counts, G, P, N, n), LLK(reads, counts, H, P, N, n))
    if n >= 1:
        lemma_llk_ext(reads, counts, G, H, P, N, n - 1)
        lemma_rp_ext(reads, G, H, n - 1, P, N, P)


@spec_inline
def COH(m: ArrayMap, reads: A[float, 3], counts: A[int, 1], P: int, N: int, n: int) -> bool:
    """cache coherence: every value the map serves is the likelihood of the genotype its key encodes"""
    return forall_arr1(lambda k: implies(not AMMISS(m, k), same(AMGET(m, k), LLK(reads, counts, unravel(k, P, N), P, N, n))), pattern=AMMISS(m, k))


@contract("mchap.assemble.likelihood.log_likelihood_cached", machine_ints=True, props=["C09"], opt_result={"1": "cache"})
def log_likelihood_cached(reads: A[f8, 3], genotype: A[i1, 2], read_counts: Opt[A[i8, 1]], cache: Opt[ArrayMap]) -> Tup[float, Opt[ArrayMap]]:
    requires(reads.shape[1] == genotype.shape[1], len(genotype) >= 1)
    requires(implies(read_counts is not None, len(read_counts) == len(reads)))
    requires(forall(0, len(genotype), lambda h: forall(0, genotype.shape[1], lambda j: 0 <= genotype[h, j] and genotype[h, j] < reads.shape[2])))
    requires(READSOK(reads, len(reads), reads.shape[1], reads.shape[2]))
    requires(implies(read_counts is not None, forall(0, len(reads), lambda r: read_counts[r] >= 0 and implies(read_counts[r] == 0, RP(reads, genotype, r, len(genotype), genotype.shape[1], len(genotype)) > 0))))
    # every read has positive probability, so the likelihood is finite and can be cached
    requires(not isninf(LLK(reads, ones_if_none(read_counts), genotype, len(genotype), genotype.shape[1], len(reads))))
    requires(implies(cache is not None, AMOK(cache, len(cache[0]), cache[0].shape[1], len(cache[1])) and cache[2] == len(genotype) * genotype.shape[1] and forall(0, len(genotype), lambda h: forall(0, genotype.shape[1], lambda j: genotype[h, j] < cache[0].shape[1]))))
    requires(implies(cache is not None, COH(cache, reads, ones_if_none(read_counts), len(genotype), genotype.shape[1], len(reads))))
    modifies(cache)
    # the served value equals the freshly computed likelihood, with or without a cache
    ensures(result[0] == LLK(reads, ones_if_none(read_counts), genotype, len(genotype), genotype.shape[1], len(reads)))
    ensures(implies(cache is not None, AMOK(result[1], len(result[1][0]), result[1][0].shape[1], len(result[1][1])) and result[1][2] == cache[2] and result[1][0].shape[1] == cache[0].shape[1]))
    ensures(implies(cache is not None, COH(result[1], reads, ones_if_none(read_counts), len(genotype), genotype.shape[1], len(reads))))
    with entry():
        lemma_llk_ext(reads, ones_if_none(read_counts), genotype, canon2(genotype, len(genotype), genotype.shape[1]), len(genotype), genotype.shape[1], len(reads))


@contract("mchap.assemble.likelihood.log_likelihood_structural_change_cached", machine_ints=True, props=["C09"], opt_result={"1": "cache"})
def log_likelihood_structural_change_cached(reads: A[f8, 3], genotype: A[i1, 2], haplotype_indices: A[i1, 1], interval: Opt[A[i8, 1]], read_counts: Opt[A[i8, 1]], cache: Opt[ArrayMap]) -> Tup[float, Opt[ArrayMap]]:
    requires(reads.shape[1] == genotype.shape[1], len(genotype) >= 1)
    requires(len(haplotype_indices) == len(genotype))
    requires(forall(0, len(genotype), lambda h: 0 <= haplotype_indices[h] and haplotype_indices[h] < len(genotype)))
    requires(implies(interval is not None, len(interval) == 2 and 0 <= interval[0] and interval[0] <= interval[1] and interval[1] <= genotype.shape[1]))
    requires(implies(read_counts is not None, len(read_counts) == len(reads)))
    requires(forall(0, len(genotype), lambda h: forall(0, genotype.shape[1], lambda j: 0 <= genotype[h, j] and genotype[h, j] < reads.shape[2])))
    requires(READSOK(reads, len(reads), reads.shape[1], reads.shape[2]))
    requires(implies(read_counts is not None, forall(0, len(reads), lambda r: read_counts[r] >= 0 and implies(read_counts[r] == 0, RP(reads, GP, r, len(genotype), genotype.shape[1], len(genotype)) > 0))))
    requires(not isninf(LLK(reads, ones_if_none(read_counts), GP, len(genotype), genotype.shape[1], len(reads))))
    requires(implies(cache is not None, AMOK(cache, len(cache[0]), cache[0].shape[1], len(cache[1])) and cache[2] == len(genotype) * genotype.shape[1] and forall(0, len(genotype), lambda h: forall(0, genotype.shape[1], lambda j: genotype[h, j] < cache[0].shape[1]))))
    requires(implies(cache is not None, COH(cache, reads, ones_if_none(read_counts), len(genotype), genotype.shape[1], len(reads))))
    modifies(cache)
    ensures(result[0] == LLK(reads, ones_if_none(read_counts), GP, len(genotype), genotype.shape[1], len(reads)))
    ensures(implies(cache is not None, AMOK(result[1], len(result[1][0]), result[1][0].shape[1], len(result[1][1])) and result[1][2] == cache[2] and result[1][0].shape[1] == cache[0].shape[1]))
    ensures(implies(cache is not None, COH(result[1], reads, ones_if_none(read_counts), len(genotype), genotype.shape[1], len(reads))))
    with defs():
        LO = ite(interval is None, 0, interval[0])
        HI = ite(interval is None, genotype.shape[1], interval[1])
        GP = arr2(lambda a, c: SCE(genotype, haplotype_indices, LO, HI, a, c))
    with after_stmt("structural_change(genotype_new, haplotype_indices=haplotype_indices, interval=interval)"):
        lemma_llk_ext(reads, ones_if_none(read_counts), genotype_new, GP, len(genotype), genotype.shape[1], len(reads))
        lemma_llk_ext(reads, ones_if_none(read_counts), genotype_new, canon2(genotype_new, len(genotype), genotype.shape[1]), len(genotype), genotype.shape[1], len(reads))


@lemma(shared=True)
def lemma_node_empty(tree: A[int, 2], key: A[int, 1], i: int):
    """in a tree whose root row is empty every non-trivial path is missing"""
    requires(i >= 1, tree[0, key[0]] == -1)
    ensures(NODE(tree, key, i) == -1)
    decreases(i)
    unfold(NODE(tree, key, i))
    if i > 1:
        lemma_node_empty(tree, key, i - 1)
    else:
        unfold(NODE(tree, key, 0))


@lemma(shared=True)
def lemma_empty_map_ok(m: ArrayMap):
    """a map whose tree is all -1 and whose values are all NaN, with one node (the root) and no value handed out,
    satisfies the key-quantified parts of the invariant"""
    requires(m[2] >= 1, m[3] == 1, m[4] == 0, forall(lambda r, j: m[0][r, j] == -1), forall(lambda q: isnan(m[1][q]) and not isninf(m[1][q])))
    ensures(AMKEYS(m), AMINJ(m), AMFREE(m))
    with forall_intro_arr1(key, forall(0, m[2] + 1, lambda i: NODE(m[0], key, i) == ite(i == 0, 0, -1))):
        with forall_intro(i, 0, m[2] + 1, NODE(m[0], key, i) == ite(i == 0, 0, -1)):
            if i >= 1:
                lemma_node_empty(m[0], key, i)
            else:
                unfold(NODE(m[0], key, 0))


@contract("mchap.assemble.arraymap.new", machine_ints=True, props=["C09"])
def new(array_length: int, node_branches: int, initial_size: int, max_size: int) -> ArrayMap:
    requires(array_length >= 1, node_branches >= 1, initial_size >= 2)
    ensures(AMOK(result, len(result[0]), result[0].shape[1], len(result[1])), result[2] == array_length, result[0].shape[1] == node_branches)
    ensures(forall_arr1(lambda k: AMMISS(result, k), pattern=AMMISS(result, k)))
    with exit_():
        M = (tree, values, array_length, 1, 0, max_size)
        unfold(AMOK(M, initial_size, node_branches, initial_size))
        lemma_empty_map_ok(M)
        with forall_intro_arr1(k2, AMMISS(M, k2), pattern=AMMISS(M, k2)):
            unfold(AMMISS(M, k2))
            lemma_node_empty(tree, k2, array_length)


@contract("mchap.assemble.likelihood.new_log_likelihood_cache", machine_ints=True, props=["C09"])
def new_log_likelihood_cache(ploidy: int, n_base: int, max_alleles: int, max_size: int) -> ArrayMap:
    requires(ploidy >= 1, n_base >= 1, ploidy * n_base <= 2 ** 48, max_alleles >= 1)
    ensures(AMOK(result, len(result[0]), result[0].shape[1], len(result[1])), result[2] == ploidy * n_base, result[0].shape[1] == max_alleles)
    ensures(forall_arr1(lambda k: AMMISS(result, k), pattern=AMMISS(result, k)))


# ------------------------------------------------------------------------------------------------
# arraymap.set : inserting the path of `array` into the trie
#
# t0 / E0: tree and number of nodes before; t1 / E1: after the descent.  c is the depth of the first missing
# pointer on array's path in t0 (c == L when the whole path existed, then E1 == E0 and t1 == t0).


@spec_inline
def INSREL(t0: A[int, 2], t1: A[int, 2], array: A[int, 1], c: int, E0: int, E1: int, L: int) -> bool:
    """t1 is t0 plus the chain of new nodes E0 .. E1-1 hanging off entry (NODE(t0,array,c), array[c])"""
    return 0 <= c and c <= L and E1 - E0 == L - c and forall(0, c + 1, lambda s: NODE(t0, array, s) >= 0) and implies(c < L, t0[NODE(t0, array, c), array[c]] == -1) and forall(lambda r, j: implies(0 <= r and r < E0, t1[r, j] == ite(c < L and r == NODE(t0, array, c) and j == array[c], E0, t0[r, j]))) and forall(lambda r, j: implies(E0 <= r and r < E1, t1[r, j] == ite(r + 1 < E1 and j == array[c + 1 + (r - E0)], r + 1, -1))) and forall(lambda r, j: implies(r >= E1, t1[r, j] == -1))


@spec_inline
def KEYS0A(t0: A[int, 2], E0: int, L: int) -> bool:
    """node part of AMKEYS for the old tree"""
    return forall_arr1(lambda key: forall(0, L + 1, lambda i: -1 <= NODE(t0, key, i) and NODE(t0, key, i) < E0) and forall(0, L, lambda i: implies(NODE(t0, key, i + 1) >= 0, NODE(t0, key, i) < NODE(t0, key, i + 1))))


@spec_inline
def KEYS0I(t0: A[int, 2], L: int) -> bool:
    """node part of AMINJ for the old tree"""
    return forall_arr1(lambda k1, k2: forall(0, L + 1, lambda i1: forall(0, L + 1, lambda i2: implies(NODE(t0, k1, i1) >= 0 and NODE(t0, k1, i1) == NODE(t0, k2, i2), i1 == i2 and AGREE(k1, k2, i1)))))


@lemma(shared=True)
def lemma_node_nonneg_prefix(tree: A[int, 2], key: A[int, 1], i: int, s: int):
    """an existing node has an existing path"""
    requires(0 <= s, s <= i, NODE(tree, key, i) >= 0)
    ensures(NODE(tree, key, s) >= 0)
    decreases(i - s)
    if s < i:
        unfold(NODE(tree, key, i))
        lemma_node_nonneg_prefix(tree, key, i - 1, s)


@lemma(shared=True)
def lemma_path_increasing(tree: A[int, 2], key: A[int, 1], E: int, L: int, s: int, t: int):
    """along an existing path node indices strictly increase"""
    requires(0 <= s, s < t, t <= L, NODE(tree, key, t) >= 0)
    requires(forall(0, L, lambda i: implies(NODE(tree, key, i + 1) >= 0, NODE(tree, key, i) < NODE(tree, key, i + 1))))
    ensures(NODE(tree, key, s) < NODE(tree, key, t))
    decreases(t - s)
    lemma_node_nonneg_prefix(tree, key, t, t - 1)
    if s < t - 1:
        lemma_path_increasing(tree, key, E, L, s, t - 1)


@lemma(shared=True)
def lemma_ins_array_path(t0: A[int, 2], t1: A[int, 2], array: A[int, 1], c: int, E0: int, E1: int, L: int, s: int):
    """the path of `array` in the new tree: the old nodes down to depth c, then the new chain"""
    requires(INSREL(t0, t1, array, c, E0, E1, L), KEYS0A(t0, E0, L), 0 <= s, s <= L, E0 >= 1)
    ensures(NODE(t1, array, s) == ite(s <= c, NODE(t0, array, s), E0 + (s - c - 1)))
    decreases(s)
    unfold(NODE(t1, array, s), NODE(t0, array, s))
    instantiate(KEYS0A(t0, E0, L), array)
    if s >= 1:
        lemma_ins_array_path(t0, t1, array, c, E0, E1, L, s - 1)
        if s - 1 < c:
            lemma_path_increasing(t0, array, E0, L, s - 1, c)


@lemma(shared=True)
def lemma_node_ext(tree: A[int, 2], k1: A[int, 1], k2: A[int, 1], i: int):
    """the node reached depends on the consumed prefix only"""
    requires(AGREE(k1, k2, i))
    ensures(NODE(tree, k1, i) == NODE(tree, k2, i))
    decreases(i)
    unfold(NODE(tree, k1, i), NODE(tree, k2, i))
    if i >= 1:
        lemma_node_ext(tree, k1, k2, i - 1)


@lemma(shared=True)
def lemma_ins_other_path(t0: A[int, 2], t1: A[int, 2], array: A[int, 1], key: A[int, 1], c: int, E0: int, E1: int, L: int, t: int):
    """a key that shares the first t entries with `array` follows array's (partly new) path; a key that has left
    it walks exactly as in the old tree"""
    requires(INSREL(t0, t1, array, c, E0, E1, L), KEYS0A(t0, E0, L), KEYS0I(t0, L), 0 <= t, t <= L, E0 >= 1)
    ensures(implies(AGREE(key, array, t), NODE(t1, key, t) == NODE(t1, array, t)))
    ensures(implies(not AGREE(key, array, t), NODE(t1, key, t) == NODE(t0, key, t)))
    decreases(t)
    unfold(NODE(t1, key, t), NODE(t0, key, t), NODE(t1, array, t))
    if t >= 1:
        lemma_ins_other_path(t0, t1, array, key, c, E0, E1, L, t - 1)
        lemma_ins_array_path(t0, t1, array, c, E0, E1, L, t - 1)
        instantiate(KEYS0A(t0, E0, L), key)
        instantiate(KEYS0A(t0, E0, L), array)
        instantiate(KEYS0I(t0, L), key, array)
        if AGREE(key, array, t - 1):
            lemma_node_ext(t0, key, array, t - 1)
            if key[t - 1] != array[t - 1]:
                if t - 1 <= c:
                    if t - 1 < c:
                        lemma_path_increasing(t0, array, E0, L, t - 1, c)
                else:
                    lemma_node_ext(t0, key, array, c)
                    unfold(NODE(t0, key, c + 1))
                    lemma_node_missing(t0, key, c + 1, t)


@lemma(shared=True)
def lemma_ins_keys_a(t0: A[int, 2], t1: A[int, 2], array: A[int, 1], c: int, E0: int, E1: int, L: int):
    """after the insertion every path stays among the E1 allocated nodes and climbs"""
    requires(INSREL(t0, t1, array, c, E0, E1, L), KEYS0A(t0, E0, L), KEYS0I(t0, L), E0 >= 1, L >= 1)
    ensures(KEYS0A(t1, E1, L))
    with forall_intro_arr1(key, forall(0, L + 1, lambda i: -1 <= NODE(t1, key, i) and NODE(t1, key, i) < E1) and forall(0, L, lambda i: implies(NODE(t1, key, i + 1) >= 0, NODE(t1, key, i) < NODE(t1, key, i + 1)))):
        instantiate(KEYS0A(t0, E0, L), key)
        instantiate(KEYS0A(t0, E0, L), array)
        with forall_intro(i, 0, L + 1, -1 <= NODE(t1, key, i) and NODE(t1, key, i) < E1):
            lemma_ins_other_path(t0, t1, array, key, c, E0, E1, L, i)
            lemma_ins_array_path(t0, t1, array, c, E0, E1, L, i)
        with forall_intro(i, 0, L, implies(NODE(t1, key, i + 1) >= 0, NODE(t1, key, i) < NODE(t1, key, i + 1))):
            lemma_ins_other_path(t0, t1, array, key, c, E0, E1, L, i)
            lemma_ins_other_path(t0, t1, array, key, c, E0, E1, L, i + 1)
            lemma_ins_array_path(t0, t1, array, c, E0, E1, L, i)
            lemma_ins_array_path(t0, t1, array, c, E0, E1, L, i + 1)
            if AGREE(key, array, i):
                lemma_node_ext(t0, key, array, i)
                if not AGREE(key, array, i + 1):
                    if i > c:
                        lemma_node_ext(t0, key, array, c)
                        unfold(NODE(t0, key, c + 1))
                        lemma_node_missing(t0, key, c + 1, i + 1)


@lemma(shared=True)
def lemma_ins_keys_i(t0: A[int, 2], t1: A[int, 2], array: A[int, 1], c: int, E0: int, E1: int, L: int):
    """after the insertion the trie is still a tree"""
    requires(INSREL(t0, t1, array, c, E0, E1, L), KEYS0A(t0, E0, L), KEYS0I(t0, L), E0 >= 1, L >= 1)
    ensures(KEYS0I(t1, L))
    lemma_ins_keys_a(t0, t1, array, c, E0, E1, L)
    instantiate(KEYS0A(t1, E1, L), array)
    instantiate(KEYS0A(t0, E0, L), array)
    with forall_intro_arr1(k1, forall_arr1(lambda k2: forall(0, L + 1, lambda i1: forall(0, L + 1, lambda i2: implies(NODE(t1, k1, i1) >= 0 and NODE(t1, k1, i1) == NODE(t1, k2, i2), i1 == i2 and AGREE(k1, k2, i1)))))):
        with forall_intro_arr1(k2, forall(0, L + 1, lambda i1: forall(0, L + 1, lambda i2: implies(NODE(t1, k1, i1) >= 0 and NODE(t1, k1, i1) == NODE(t1, k2, i2), i1 == i2 and AGREE(k1, k2, i1))))):
            with forall_intro(i1, 0, L + 1, forall(0, L + 1, lambda i2: implies(NODE(t1, k1, i1) >= 0 and NODE(t1, k1, i1) == NODE(t1, k2, i2), i1 == i2 and AGREE(k1, k2, i1)))):
                with forall_intro(i2, 0, L + 1, implies(NODE(t1, k1, i1) >= 0 and NODE(t1, k1, i1) == NODE(t1, k2, i2), i1 == i2 and AGREE(k1, k2, i1))):
                    lemma_ins_other_path(t0, t1, array, k1, c, E0, E1, L, i1)
                    lemma_ins_other_path(t0, t1, array, k2, c, E0, E1, L, i2)
                    lemma_ins_array_path(t0, t1, array, c, E0, E1, L, i1)
                    lemma_ins_array_path(t0, t1, array, c, E0, E1, L, i2)
                    instantiate(KEYS0I(t0, L), k1, k2)
                    instantiate(KEYS0I(t0, L), array, k2)
                    instantiate(KEYS0I(t0, L), k1, array)
                    instantiate(KEYS0A(t0, E0, L), k1)
                    instantiate(KEYS0A(t0, E0, L), k2)
                    if NODE(t1, k1, i1) >= 0 and NODE(t1, k1, i1) == NODE(t1, k2, i2):
                        if AGREE(k1, array, i1) and AGREE(k2, array, i2):
                            if i1 < i2:
                                lemma_path_increasing(t1, array, E1, L, i1, i2)
                            if i2 < i1:
                                lemma_path_increasing(t1, array, E1, L, i2, i1)


@lemma(shared=True)
def lemma_leaf_store_paths(t1: A[int, 2], t2: A[int, 2], array: A[int, 1], key: A[int, 1], E1: int, L: int, t: int):
    """writing slot 0 of the leaf of `array` does not disturb any path (a leaf is never an inner node)"""
    requires(KEYS0A(t1, E1, L), KEYS0I(t1, L), 0 <= t, t <= L, NODE(t1, array, L) >= 0)
    requires(forall(lambda r, j: implies(r != NODE(t1, array, L) or j != 0, t2[r, j] == t1[r, j])))
    ensures(NODE(t2, key, t) == NODE(t1, key, t))
    decreases(t)
    unfold(NODE(t2, key, t), NODE(t1, key, t))
    if t >= 1:
        lemma_leaf_store_paths(t1, t2, array, key, E1, L, t - 1)
        instantiate(KEYS0I(t1, L), key, array)


@lemma(shared=True)
def lemma_leaf_of(t1: A[int, 2], array: A[int, 1], key: A[int, 1], L: int):
    """exactly the keys that agree with `array` end in array's leaf"""
    requires(KEYS0I(t1, L), L >= 0, NODE(t1, array, L) >= 0)
    ensures((NODE(t1, key, L) == NODE(t1, array, L)) == AGREE(key, array, L))
    instantiate(KEYS0I(t1, L), key, array)
    if AGREE(key, array, L):
        lemma_node_ext(t1, key, array, L)


@lemma(shared=True)
def lemma_ins_vidx(t0: A[int, 2], t1: A[int, 2], array: A[int, 1], key: A[int, 1], c: int, E0: int, E1: int, L: int):
    """value slots after the descent: untouched for the other keys; array's own leaf is new (no value yet)
    exactly when a pointer was missing"""
    requires(INSREL(t0, t1, array, c, E0, E1, L), KEYS0A(t0, E0, L), KEYS0I(t0, L), E0 >= 1, L >= 1)
    ensures(implies(not AGREE(key, array, L), VIDX(t1, key, L) == VIDX(t0, key, L)))
    ensures(implies(AGREE(key, array, L), VIDX(t1, key, L) == ite(c < L, -1, VIDX(t0, array, L))))
    ensures(NODE(t1, array, L) >= 0)
    lemma_ins_other_path(t0, t1, array, key, c, E0, E1, L, L)
    lemma_ins_array_path(t0, t1, array, c, E0, E1, L, L)
    instantiate(KEYS0I(t0, L), key, array)
    instantiate(KEYS0A(t0, E0, L), key)
    instantiate(KEYS0A(t0, E0, L), array)


@lemma(shared=True)
def lemma_keys_of_map(m: ArrayMap):
    """the node parts of the invariant, in the vocabulary of the insertion lemmas"""
    requires(AMKEYS(m), AMINJ(m))
    ensures(KEYS0A(m[0], m[3], m[2]), KEYS0I(m[0], m[2]))
    with forall_intro_arr1(key, forall(0, m[2] + 1, lambda i: -1 <= NODE(m[0], key, i) and NODE(m[0], key, i) < m[3]) and forall(0, m[2], lambda i: implies(NODE(m[0], key, i + 1) >= 0, NODE(m[0], key, i) < NODE(m[0], key, i + 1)))):
        instantiate(AMKEYS(m), key)
    with forall_intro_arr1(k1, forall_arr1(lambda k2: forall(0, m[2] + 1, lambda i1: forall(0, m[2] + 1, lambda i2: implies(NODE(m[0], k1, i1) >= 0 and NODE(m[0], k1, i1) == NODE(m[0], k2, i2), i1 == i2 and AGREE(k1, k2, i1)))))):
        with forall_intro_arr1(k2, forall(0, m[2] + 1, lambda i1: forall(0, m[2] + 1, lambda i2: implies(NODE(m[0], k1, i1) >= 0 and NODE(m[0], k1, i1) == NODE(m[0], k2, i2), i1 == i2 and AGREE(k1, k2, i1))))):
            instantiate(AMINJ(m), k1, k2)


@spec_inline
def SETREL(t0: A[int, 2], v0: A[xfloat, 1], t1: A[int, 2], t2: A[int, 2], v2: A[xfloat, 1], array: A[int, 1], value: float, c: int, E0: int, E1: int, EV0: int, EV2: int, vidx: int, L: int) -> bool:
    """the descent (t0 -> t1), the leaf store (t1 -> t2) and the value store (v0 -> v2) of one `set`"""
    return L >= 1 and E0 >= 1 and EV0 >= 0 and finite(value) and INSREL(t0, t1, array, c, E0, E1, L) and forall(lambda r, j: t2[r, j] == ite(r == NODE(t1, array, L) and j == 0, vidx, t1[r, j])) and vidx == ite(VIDX(t1, array, L) >= 0, VIDX(t1, array, L), EV0) and EV2 == ite(VIDX(t1, array, L) >= 0, EV0, EV0 + 1) and forall(lambda q: implies(q >= 0 and q != vidx, isnan(v2[q]) == isnan(v0[q]) and isninf(v2[q]) == isninf(v0[q]) and (isnan(v0[q]) or real(v2[q]) == real(v0[q])))) and v2[vidx] == value


@spec_inline
def PERKEY(t0: A[int, 2], t1: A[int, 2], t2: A[int, 2], array: A[int, 1], E1: int, EV0: int, vidx: int, L: int) -> bool:
    """what the insertion means for each key"""
    return forall_arr1(lambda key: forall(0, L + 1, lambda t: NODE(t2, key, t) == NODE(t1, key, t) and -1 <= NODE(t1, key, t) and NODE(t1, key, t) < E1) and VIDX(t2, key, L) == ite(AGREE(key, array, L), vidx, VIDX(t1, key, L)) and implies(not AGREE(key, array, L), VIDX(t1, key, L) == VIDX(t0, key, L) and VIDX(t0, key, L) != vidx) and -1 <= VIDX(t0, key, L) and VIDX(t0, key, L) < EV0)


@lemma(shared=True)
def lemma_set_perkey(t0: A[int, 2], v0: A[xfloat, 1], t1: A[int, 2], t2: A[int, 2], v2: A[xfloat, 1], array: A[int, 1], value: float, c: int, E0: int, E1: int, EV0: int, EV2: int, vidx: int, L: int, MS: int):
    requires(SETREL(t0, v0, t1, t2, v2, array, value, c, E0, E1, EV0, EV2, vidx, L))
    requires(AMKEYS((t0, v0, L, E0, EV0, MS)), AMINJ((t0, v0, L, E0, EV0, MS)), KEYS0A(t0, E0, L), KEYS0I(t0, L))
    ensures(KEYS0A(t1, E1, L), KEYS0I(t1, L), PERKEY(t0, t1, t2, array, E1, EV0, vidx, L))
    ensures(0 <= NODE(t1, array, L), NODE(t1, array, L) < E1, 0 <= vidx, vidx < EV2, EV0 <= EV2, E0 <= E1)
    lemma_ins_keys_a(t0, t1, array, c, E0, E1, L)
    lemma_ins_keys_i(t0, t1, array, c, E0, E1, L)
    lemma_ins_array_path(t0, t1, array, c, E0, E1, L, L)
    instantiate(AMKEYS((t0, v0, L, E0, EV0, MS)), array)
    instantiate(KEYS0A(t1, E1, L), array)
    lemma_ins_vidx(t0, t1, array, array, c, E0, E1, L)
    with forall_intro_arr1(key, forall(0, L + 1, lambda t: NODE(t2, key, t) == NODE(t1, key, t) and -1 <= NODE(t1, key, t) and NODE(t1, key, t) < E1) and VIDX(t2, key, L) == ite(AGREE(key, array, L), vidx, VIDX(t1, key, L)) and implies(not AGREE(key, array, L), VIDX(t1, key, L) == VIDX(t0, key, L) and VIDX(t0, key, L) != vidx) and -1 <= VIDX(t0, key, L) and VIDX(t0, key, L) < EV0):
        instantiate(KEYS0A(t1, E1, L), key)
        with forall_intro(t, 0, L + 1, NODE(t2, key, t) == NODE(t1, key, t) and -1 <= NODE(t1, key, t) and NODE(t1, key, t) < E1):
            lemma_leaf_store_paths(t1, t2, array, key, E1, L, t)
        lemma_leaf_of(t1, array, key, L)
        lemma_ins_vidx(t0, t1, array, key, c, E0, E1, L)
        instantiate(AMKEYS((t0, v0, L, E0, EV0, MS)), key)
        instantiate(AMINJ((t0, v0, L, E0, EV0, MS)), key, array)


@spec_inline
def VALREL(v0: A[xfloat, 1], v2: A[xfloat, 1], vidx: int, value: float) -> bool:
    return finite(value) and forall(lambda q: implies(q >= 0 and q != vidx, isnan(v2[q]) == isnan(v0[q]) and isninf(v2[q]) == isninf(v0[q]) and (isnan(v0[q]) or real(v2[q]) == real(v0[q])))) and v2[vidx] == value


@lemma(shared=True)
def lemma_set_keys2(t0: A[int, 2], v0: A[xfloat, 1], t1: A[int, 2], t2: A[int, 2], v2: A[xfloat, 1], array: A[int, 1], value: float, E0: int, E1: int, EV0: int, EV2: int, vidx: int, L: int, MS: int):
    requires(PERKEY(t0, t1, t2, array, E1, EV0, vidx, L), KEYS0A(t1, E1, L), AMKEYS((t0, v0, L, E0, EV0, MS)), VALREL(v0, v2, vidx, value), 0 <= vidx, vidx < EV2, EV0 <= EV2, L >= 1)
    ensures(AMKEYS((t2, v2, L, E1, EV2, MS)))
    with forall_intro_arr1(key, forall(0, L + 1, lambda i: -1 <= NODE(t2, key, i) and NODE(t2, key, i) < E1) and forall(0, L, lambda i: implies(NODE(t2, key, i + 1) >= 0, NODE(t2, key, i) < NODE(t2, key, i + 1))) and -1 <= VIDX(t2, key, L) and VIDX(t2, key, L) < EV2 and implies(VIDX(t2, key, L) >= 0, finite(v2[VIDX(t2, key, L)]))):
        instantiate(PERKEY(t0, t1, t2, array, E1, EV0, vidx, L), key)
        instantiate(KEYS0A(t1, E1, L), key)
        instantiate(AMKEYS((t0, v0, L, E0, EV0, MS)), key)


@lemma(shared=True)
def lemma_set_inj2(t0: A[int, 2], v0: A[xfloat, 1], t1: A[int, 2], t2: A[int, 2], v2: A[xfloat, 1], array: A[int, 1], E0: int, E1: int, EV0: int, EV2: int, vidx: int, L: int, MS: int):
    requires(PERKEY(t0, t1, t2, array, E1, EV0, vidx, L), KEYS0I(t1, L), AMINJ((t0, v0, L, E0, EV0, MS)), L >= 1, vidx >= 0)
    ensures(AMINJ((t2, v2, L, E1, EV2, MS)))
    with generalize(AMINJ((t2, v2, L, E1, EV2, MS)), k1, k2):
        instantiate(PERKEY(t0, t1, t2, array, E1, EV0, vidx, L), k1)
        instantiate(PERKEY(t0, t1, t2, array, E1, EV0, vidx, L), k2)
        instantiate(KEYS0I(t1, L), k1, k2)
        instantiate(AMINJ((t0, v0, L, E0, EV0, MS)), k1, k2)
        # node part: the paths of t2 are those of t1
        with forall_intro(i1, 0, L + 1, forall(0, L + 1, lambda i2: implies(NODE(t2, k1, i1) >= 0 and NODE(t2, k1, i1) == NODE(t2, k2, i2), i1 == i2 and AGREE(k1, k2, i1)))):
            with forall_intro(i2, 0, L + 1, implies(NODE(t2, k1, i1) >= 0 and NODE(t2, k1, i1) == NODE(t2, k2, i2), i1 == i2 and AGREE(k1, k2, i1))):
                assert_(NODE(t2, k1, i1) == NODE(t1, k1, i1) and NODE(t2, k2, i2) == NODE(t1, k2, i2))
        # value part: a shared value slot is either the new one (both keys agree with array) or an old one
        if VIDX(t2, k1, L) >= 0 and VIDX(t2, k1, L) == VIDX(t2, k2, L):
            if AGREE(k1, array, L):
                assert_(AGREE(k2, array, L))
            else:
                assert_(not AGREE(k2, array, L))
                assert_(VIDX(t0, k1, L) == VIDX(t0, k2, L))


@lemma(shared=True)
def lemma_set_frame2(t0: A[int, 2], v0: A[xfloat, 1], t1: A[int, 2], t2: A[int, 2], v2: A[xfloat, 1], array: A[int, 1], value: float, E0: int, E1: int, EV0: int, EV2: int, vidx: int, L: int, MS: int):
    """every key is afterwards a miss, or served what it was served before, or agrees with `array` and is served `value`"""
    requires(PERKEY(t0, t1, t2, array, E1, EV0, vidx, L), VALREL(v0, v2, vidx, value), AMKEYS((t0, v0, L, E0, EV0, MS)), L >= 1, vidx >= 0, finite(value))
    ensures(forall_arr1(lambda k: AMMISS((t2, v2, L, E1, EV2, MS), k) or (not AMMISS((t0, v0, L, E0, EV0, MS), k) and AMGET((t2, v2, L, E1, EV2, MS), k) == AMGET((t0, v0, L, E0, EV0, MS), k)) or (AGREE(k, array, L) and AMGET((t2, v2, L, E1, EV2, MS), k) == value), pattern=AMMISS((t2, v2, L, E1, EV2, MS), k)))
    with forall_intro_arr1(k, AMMISS((t2, v2, L, E1, EV2, MS), k) or (not AMMISS((t0, v0, L, E0, EV0, MS), k) and AMGET((t2, v2, L, E1, EV2, MS), k) == AMGET((t0, v0, L, E0, EV0, MS), k)) or (AGREE(k, array, L) and AMGET((t2, v2, L, E1, EV2, MS), k) == value), pattern=AMMISS((t2, v2, L, E1, EV2, MS), k)):
        unfold(AMMISS((t2, v2, L, E1, EV2, MS), k), AMMISS((t0, v0, L, E0, EV0, MS), k), AMGET((t2, v2, L, E1, EV2, MS), k), AMGET((t0, v0, L, E0, EV0, MS), k))
        instantiate(PERKEY(t0, t1, t2, array, E1, EV0, vidx, L), k)
        instantiate(AMKEYS((t0, v0, L, E0, EV0, MS)), k)


@lemma(shared=True)
def lemma_set_free2(t0: A[int, 2], v0: A[xfloat, 1], t1: A[int, 2], t2: A[int, 2], v2: A[xfloat, 1], array: A[int, 1], value: float, c: int, E0: int, E1: int, EV0: int, EV2: int, vidx: int, L: int, MS: int):
    requires(SETREL(t0, v0, t1, t2, v2, array, value, c, E0, E1, EV0, EV2, vidx, L), AMFREE((t0, v0, L, E0, EV0, MS)), 0 <= NODE(t1, array, L), NODE(t1, array, L) < E1, vidx < EV2, EV0 <= EV2)
    ensures(AMFREE((t2, v2, L, E1, EV2, MS)))


@contract("mchap.assemble.arraymap.set", machine_ints=True, props=["C09"], opt_result={"": "array_map"})
def set(array_map: Opt[ArrayMap], array: A[i1, 1], value: float, empty_if_full: bool) -> Opt[ArrayMap]:
    requires(implies(array_map is not None, AMOK(array_map, len(array_map[0]), array_map[0].shape[1], len(array_map[1])) and len(array) == array_map[2] and empty_if_full))
    requires(implies(array_map is not None, forall(0, len(array), lambda i: 0 <= array[i] and array[i] < array_map[0].shape[1])))
    requires(finite(value))
    modifies(array_map)
    ensures(implies(array_map is not None, AMOK(result, len(result[0]), result[0].shape[1], len(result[1])) and result[2] == array_map[2] and result[0].shape[1] == array_map[0].shape[1]))
    # frame: afterwards every key is a miss, or serves what it served before, or agrees with `array` (on its
    # array_length entries) and serves `value`
    ensures(implies(array_map is not None, forall_arr1(lambda k: AMMISS(result, k) or (not AMMISS(old(array_map), k) and AMGET(result, k) == AMGET(old(array_map), k)) or (AGREE(k, array, array_map[2]) and AMGET(result, k) == value), pattern=AMMISS(result, k))))
    with entry():
        if array_map is not None:
            unfold(AMOK(array_map, len(array_map[0]), array_map[0].shape[1], len(array_map[1])))
            lemma_keys_of_map(array_map)
            T0V = val(array_map[0])
            V0V = val(array_map[1])
            L = array_map[2]
            E0 = array_map[3]
            EV0 = array_map[4]
            B = array_map[0].shape[1]
            instantiate(KEYS0A(T0V, E0, L), array)
            unfold(NODE(T0V, array, 0))
    with loop(0):
        invariant(0 <= i, i <= L, len(array) == L, array_length == L, n_branches == B, tree.shape[1] == B, E0 <= empty_node, empty_node < len(tree), empty_node - E0 <= i)
        invariant(INSREL(T0V, val(tree), array, i - (empty_node - E0), E0, empty_node, i))
        invariant(node == ite(empty_node > E0, empty_node - 1, NODE(T0V, array, i)), 0 <= node)
        invariant(val(values) == V0V, len(values) == len(array_map[1]), empty_values == EV0)
        with head():
            unfold(NODE(T0V, array, i + 1))
            assert_(implies(empty_node > E0, tree[node, array[i]] == -1))
            assert_(implies(empty_node == E0, tree[node, array[i]] == T0V[node, array[i]] and node < E0))
        with tail():
            CN = (i + 1) - (empty_node - E0)
            assert_(0 <= CN and CN <= i + 1 and empty_node - E0 == (i + 1) - CN)
            assert_(forall(0, CN + 1, lambda s: NODE(T0V, array, s) >= 0))
            assert_(implies(CN < i + 1, T0V[NODE(T0V, array, CN), array[CN]] == -1))
            assert_(forall(lambda r, j: implies(0 <= r and r < E0, tree[r, j] == ite(CN < i + 1 and r == NODE(T0V, array, CN) and j == array[CN], E0, T0V[r, j]))))
            assert_(forall(lambda r, j: implies(E0 <= r and r < empty_node, tree[r, j] == ite(r + 1 < empty_node and j == array[CN + 1 + (r - E0)], r + 1, -1))))
            assert_(forall(lambda r, j: implies(r >= empty_node, tree[r, j] == -1)))
        with after():
            T1V = val(tree)
            E1 = empty_node
            CX = L - (empty_node - E0)
            lemma_ins_array_path(T0V, T1V, array, CX, E0, E1, L, L)
            lemma_ins_vidx(T0V, T1V, array, array, CX, E0, E1, L)
            instantiate(AMKEYS(old(array_map)), array)
    with before_stmt("return (tree, values, array_length, 1, 0, max_size)", 0):
        MF = (tree, values, array_length, 1, 0, max_size)
        unfold(AMOK(MF, len(tree), tree.shape[1], len(values)))
        lemma_empty_map_ok(MF)
        with forall_intro_arr1(k2, AMMISS(MF, k2)):
            unfold(AMMISS(MF, k2))
            lemma_node_empty(tree, k2, array_length)
    with before_stmt("return (tree, values, array_length, 1, 0, max_size)", 1):
        MF = (tree, values, array_length, 1, 0, max_size)
        unfold(AMOK(MF, len(tree), tree.shape[1], len(values)))
        lemma_empty_map_ok(MF)
        with forall_intro_arr1(k2, AMMISS(MF, k2)):
            unfold(AMMISS(MF, k2))
            lemma_node_empty(tree, k2, array_length)
    with before_stmt("return (tree, values, array_length, empty_node, empty_values, max_size)"):
        T2V = val(tree)
        V2V = val(values)
        assert_(node == NODE(T1V, array, L))
        assert_(INSREL(T0V, T1V, array, CX, E0, E1, L))
        assert_(forall(lambda r, j: T2V[r, j] == ite(r == NODE(T1V, array, L) and j == 0, value_idx, T1V[r, j])))
        assert_(value_idx == ite(VIDX(T1V, array, L) >= 0, VIDX(T1V, array, L), EV0) and empty_values == ite(VIDX(T1V, array, L) >= 0, EV0, EV0 + 1))
        assert_(forall(lambda q: implies(q >= 0 and q != value_idx, isnan(V2V[q]) == isnan(V0V[q]) and isninf(V2V[q]) == isninf(V0V[q]) and (isnan(V0V[q]) or real(V2V[q]) == real(V0V[q])))))
        assert_(V2V[value_idx] == value)
        lemma_set_perkey(T0V, V0V, T1V, T2V, V2V, array, value, CX, E0, E1, EV0, empty_values, value_idx, L, max_size)
        lemma_set_keys2(T0V, V0V, T1V, T2V, V2V, array, value, E0, E1, EV0, empty_values, value_idx, L, max_size)
        lemma_set_inj2(T0V, V0V, T1V, T2V, V2V, array, E0, E1, EV0, empty_values, value_idx, L, max_size)
        lemma_set_free2(T0V, V0V, T1V, T2V, V2V, array, value, CX, E0, E1, EV0, empty_values, value_idx, L, max_size)
        lemma_set_frame2(T0V, V0V, T1V, T2V, V2V, array, value, E0, E1, EV0, empty_values, value_idx, L, max_size)
        unfold(AMOK((tree, values, array_length, empty_node, empty_values, max_size), len(tree), tree.shape[1], len(values)))
