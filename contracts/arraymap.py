# C09 -- mchap/assemble/arraymap.py (abstract interface) and the cached likelihood wrappers.
#
# The arraymap get/set contracts below are ASSUMED (trusted=True): they are NOT discharged by the
# VC generator; they are checked at run time on the real arraymap over exhaustive bounded operation
# sequences (rt/r_C09.py) and listed as assumptions in the evidence.  Everything that *uses* the
# map (the cached wrappers, the sampler steps) is verified against them.


@spec
def NODE(tree: A[int, 2], key: A[int, 1], i: int) -> int:
    """the trie node reached after consuming key[0..i), or -1 when the path does not exist"""
    decreases(i)
    if i <= 0:
        return 0
    return ite(NODE(tree, key, i - 1) < 0, -1, tree[NODE(tree, key, i - 1), key[i - 1]])


@lemma(shared=True)
def lemma_node_missing(tree: A[int, 2], key: A[int, 1], i: int, L: int):
    """once a pointer is missing the path stays missing"""
    requires(0 <= i, i <= L, NODE(tree, key, i) < 0)
    ensures(NODE(tree, key, L) < 0)
    decreases(L - i)
    if i < L:
        unfold(NODE(tree, key, i + 1))
        lemma_node_missing(tree, key, i + 1, L)


@spec_inline
def VIDX(tree: A[int, 2], key: A[int, 1], L: int) -> int:
    """slot 0 of the leaf reached by `key` holds the index of its value (or -1)"""
    return ite(NODE(tree, key, L) < 0, -1, tree[NODE(tree, key, L), 0])


@spec_inline
def KEYOK(key: A[int, 1], L: int, B: int) -> bool:
    return forall(0, L, lambda i: 0 <= key[i] and key[i] < B)


@spec_inline
def AMKEYS(m: ArrayMap, B: int) -> bool:
    """for every key: the path stays among the allocated nodes, the value index among the allocated values,
    and a stored value is a finite number"""
    return forall_arr1(lambda key: implies(KEYOK(key, m[2], B), forall(0, m[2] + 1, lambda i: -1 <= NODE(m[0], key, i) and NODE(m[0], key, i) < m[3]) and -1 <= VIDX(m[0], key, m[2]) and VIDX(m[0], key, m[2]) < m[4] and implies(VIDX(m[0], key, m[2]) >= 0, finite(m[1][VIDX(m[0], key, m[2])]))))


@spec
def AMOK(m: ArrayMap, T: int, B: int, V: int) -> bool:
    """representation invariant (T, B, V: numbers of tree rows, branches per node, value slots)"""
    return m[2] >= 0 and B >= 1 and 1 <= m[3] and m[3] < T and 0 <= m[4] and m[4] < V and isnan(m[1][m[4]]) and not isninf(m[1][m[4]]) and AMKEYS(m, B)


@spec
def AMMISS(m: ArrayMap, key: A[int, 1]) -> bool:
    """looking up `key` yields the NaN miss sentinel"""
    return VIDX(m[0], key, m[2]) < 0


@spec
def AMGET(m: ArrayMap, key: A[int, 1]) -> float:
    """the value served for `key` when it is not a miss"""
    return real(m[1][VIDX(m[0], key, m[2])])


@contract("mchap.assemble.arraymap.get", machine_ints=True, props=["C09"])
def get(array_map: Opt[ArrayMap], array: A[i1, 1]) -> float:
    requires(implies(array_map is not None, AMOK(array_map, len(array_map[0]), array_map[0].shape[1], len(array_map[1])) and len(array) == array_map[2]))
    requires(implies(array_map is not None, forall(0, len(array), lambda i: 0 <= array[i] and array[i] < array_map[0].shape[1])))
    ensures(not isninf(result))
    ensures(implies(array_map is None, isnan(result)))
    ensures(implies(array_map is not None, isnan(result) == AMMISS(array_map, val(array))))
    ensures(implies(array_map is not None and not isnan(result), result == AMGET(array_map, val(array))))
    with entry():
        if array_map is not None:
            unfold(AMOK(array_map, len(array_map[0]), array_map[0].shape[1], len(array_map[1])))
            instantiate(AMKEYS(array_map, array_map[0].shape[1]), array)
            unfold(AMMISS(array_map, val(array)), AMGET(array_map, val(array)))
            unfold(NODE(array_map[0], array, 0))
    with loop(0):
        invariant(0 <= i, i <= len(array), node == NODE(tree, array, i), node >= 0)
        with head():
            unfold(NODE(tree, array, i + 1))
    with before_stmt("return values[empty_values]"):
        # a missing pointer on the way: the rest of the path is missing too
        lemma_node_missing(tree, array, i + 1, array_length)


@contract("mchap.assemble.arraymap.set", trusted=True, props=["C09"], opt_result={"": "array_map"})
def set(array_map: Opt[ArrayMap], array: A[i1, 1], value: float, empty_if_full: bool) -> Opt[ArrayMap]:
    requires(implies(array_map is not None, AMOK(array_map, len(array_map[0]), array_map[0].shape[1], len(array_map[1])) and len(array) == array_map[2] and empty_if_full))
    requires(implies(array_map is not None, forall(0, len(array), lambda i: 0 <= array[i] and array[i] < array_map[0].shape[1])))
    requires(finite(value))
    modifies(array_map)
    ensures(implies(array_map is not None, AMOK(result, len(result[0]), result[0].shape[1], len(result[1])) and result[2] == array_map[2] and result[0].shape[1] == array_map[0].shape[1]))
    # frame: afterwards every key is a miss, or serves what it served before, or is `array` serving `value`
    ensures(implies(array_map is not None, forall_arr1(lambda k: AMMISS(result, k) or (not AMMISS(old(array_map), k) and AMGET(result, k) == AMGET(old(array_map), k)) or (k == val(array) and AMGET(result, k) == value), pattern=AMMISS(result, k))))


@spec_inline
def LLKG(reads: A[float, 3], counts: A[int, 1], G: A[int, 2], P: int, N: int, n: int) -> xfloat:
    """likelihood of the canonical representative of G (depends on G only through [0,P) x [0,N))"""
    return LLK(reads, counts, canon2(G, P, N), P, N, n)


@lemma(shared=True)
def lemma_rhp_ext(reads: A[float, 3], G: A[int, 2], H: A[int, 2], r: int, h: int, j: int):
    requires(j >= 0, forall(0, j, lambda c: G[h, c] == H[h, c]))
    ensures(RHP(reads, G, r, h, j) == RHP(reads, H, r, h, j))
    decreases(j)
    unfold(RHP(reads, G, r, h, j), RHP(reads, H, r, h, j))
    if j >= 1:
        lemma_rhp_ext(reads, G, H, r, h, j - 1)


@lemma(shared=True)
def lemma_rp_ext(reads: A[float, 3], G: A[int, 2], H: A[int, 2], r: int, h: int, N: int, P: int):
    requires(h >= 0, N >= 0, forall(0, h, lambda a: forall(0, N, lambda c: G[a, c] == H[a, c])))
    ensures(RP(reads, G, r, h, N, P) == RP(reads, H, r, h, N, P))
    decreases(h)
    unfold(RP(reads, G, r, h, N, P), RP(reads, H, r, h, N, P))
    if h >= 1:
        lemma_rp_ext(reads, G, H, r, h - 1, N, P)
        lemma_rhp_ext(reads, G, H, r, h - 1, N)


@lemma(shared=True)
def lemma_llk_ext(reads: A[float, 3], counts: A[int, 1], G: A[int, 2], H: A[int, 2], P: int, N: int, n: int):
    """the likelihood depends on the genotype only through its entries in [0,P) x [0,N)"""
    requires(P >= 0, N >= 0, n >= 0, forall(0, P, lambda a: forall(0, N, lambda c: G[a, c] == H[a, c])))
    ensures(LLK(reads, counts, G, P, N, n) == LLK(reads, counts, H, P, N, n))
    decreases(n)
    unfold(LLK(reads, counts, G, P, N, n), LLK(reads, counts, H, P, N, n))
    if n >= 1:
        lemma_llk_ext(reads, counts, G, H, P, N, n - 1)
        lemma_rp_ext(reads, G, H, n - 1, P, N, P)


@spec_inline
def COH(m: ArrayMap, reads: A[float, 3], counts: A[int, 1], P: int, N: int, n: int) -> bool:
    """cache coherence: every value the map serves is the likelihood of the genotype its key encodes"""
    return forall_arr1(lambda k: implies(not AMMISS(m, k), same(AMGET(m, k), LLK(reads, counts, unravel(k, P, N), P, N, n))), pattern=AMMISS(m, k))


@contract("mchap.assemble.likelihood.log_likelihood_cached", machine_ints=True, props=["C09"], opt_result={"1": "cache"})
def log_likelihood_cached(reads: A[f8, 3], genotype: A[i1, 2], read_counts: Opt[A[i8, 1]], cache: Opt[ArrayMap]) -> Tup[float, Opt[ArrayMap]]:
    requires(reads.shape[1] == genotype.shape[1], len(genotype) >= 1)
    requires(implies(read_counts is not None, len(read_counts) == len(reads)))
    requires(forall(0, len(genotype), lambda h: forall(0, genotype.shape[1], lambda j: 0 <= genotype[h, j] and genotype[h, j] < reads.shape[2])))
    requires(READSOK(reads, len(reads), reads.shape[1], reads.shape[2]))
    requires(implies(read_counts is not None, forall(0, len(reads), lambda r: read_counts[r] >= 0 and implies(read_counts[r] == 0, RP(reads, genotype, r, len(genotype), genotype.shape[1], len(genotype)) > 0))))
    # every read has positive probability, so the likelihood is finite and can be cached
    requires(not isninf(LLK(reads, ones_if_none(read_counts), genotype, len(genotype), genotype.shape[1], len(reads))))
    requires(implies(cache is not None, AMOK(cache, len(cache[0]), cache[0].shape[1], len(cache[1])) and cache[2] == len(genotype) * genotype.shape[1] and forall(0, len(genotype), lambda h: forall(0, genotype.shape[1], lambda j: genotype[h, j] < cache[0].shape[1]))))
    requires(implies(cache is not None, COH(cache, reads, ones_if_none(read_counts), len(genotype), genotype.shape[1], len(reads))))
    modifies(cache)
    # the served value equals the freshly computed likelihood, with or without a cache
    ensures(result[0] == LLK(reads, ones_if_none(read_counts), genotype, len(genotype), genotype.shape[1], len(reads)))
    ensures(implies(cache is not None, AMOK(result[1], len(result[1][0]), result[1][0].shape[1], len(result[1][1])) and result[1][2] == cache[2] and result[1][0].shape[1] == cache[0].shape[1]))
    ensures(implies(cache is not None, COH(result[1], reads, ones_if_none(read_counts), len(genotype), genotype.shape[1], len(reads))))
    with entry():
        lemma_llk_ext(reads, ones_if_none(read_counts), genotype, canon2(genotype, len(genotype), genotype.shape[1]), len(genotype), genotype.shape[1], len(reads))


@contract("mchap.assemble.likelihood.log_likelihood_structural_change_cached", machine_ints=True, props=["C09"], opt_result={"1": "cache"})
def log_likelihood_structural_change_cached(reads: A[f8, 3], genotype: A[i1, 2], haplotype_indices: A[i1, 1], interval: Opt[A[i8, 1]], read_counts: Opt[A[i8, 1]], cache: Opt[ArrayMap]) -> Tup[float, Opt[ArrayMap]]:
    requires(reads.shape[1] == genotype.shape[1], len(genotype) >= 1)
    requires(len(haplotype_indices) == len(genotype))
    requires(forall(0, len(genotype), lambda h: 0 <= haplotype_indices[h] and haplotype_indices[h] < len(genotype)))
    requires(implies(interval is not None, len(interval) == 2 and 0 <= interval[0] and interval[0] <= interval[1] and interval[1] <= genotype.shape[1]))
    requires(implies(read_counts is not None, len(read_counts) == len(reads)))
    requires(forall(0, len(genotype), lambda h: forall(0, genotype.shape[1], lambda j: 0 <= genotype[h, j] and genotype[h, j] < reads.shape[2])))
    requires(READSOK(reads, len(reads), reads.shape[1], reads.shape[2]))
    requires(implies(read_counts is not None, forall(0, len(reads), lambda r: read_counts[r] >= 0 and implies(read_counts[r] == 0, RP(reads, GP, r, len(genotype), genotype.shape[1], len(genotype)) > 0))))
    requires(not isninf(LLK(reads, ones_if_none(read_counts), GP, len(genotype), genotype.shape[1], len(reads))))
    requires(implies(cache is not None, AMOK(cache, len(cache[0]), cache[0].shape[1], len(cache[1])) and cache[2] == len(genotype) * genotype.shape[1] and forall(0, len(genotype), lambda h: forall(0, genotype.shape[1], lambda j: genotype[h, j] < cache[0].shape[1]))))
    requires(implies(cache is not None, COH(cache, reads, ones_if_none(read_counts), len(genotype), genotype.shape[1], len(reads))))
    modifies(cache)
    ensures(result[0] == LLK(reads, ones_if_none(read_counts), GP, len(genotype), genotype.shape[1], len(reads)))
    ensures(implies(cache is not None, AMOK(result[1], len(result[1][0]), result[1][0].shape[1], len(result[1][1])) and result[1][2] == cache[2] and result[1][0].shape[1] == cache[0].shape[1]))
    ensures(implies(cache is not None, COH(result[1], reads, ones_if_none(read_counts), len(genotype), genotype.shape[1], len(reads))))
    with defs():
        LO = ite(interval is None, 0, interval[0])
        HI = ite(interval is None, genotype.shape[1], interval[1])
        GP = arr2(lambda a, c: SCE(genotype, haplotype_indices, LO, HI, a, c))
    with after_stmt("structural_change(genotype_new, haplotype_indices=haplotype_indices, interval=interval)"):
        lemma_llk_ext(reads, ones_if_none(read_counts), genotype_new, GP, len(genotype), genotype.shape[1], len(reads))
        lemma_llk_ext(reads, ones_if_none(read_counts), genotype_new, canon2(genotype_new, len(genotype), genotype.shape[1]), len(genotype), genotype.shape[1], len(reads))


@lemma(shared=True)
def lemma_node_empty(tree: A[int, 2], key: A[int, 1], i: int):
    """in a tree whose root row is empty every non-trivial path is missing"""
    requires(i >= 1, tree[0, key[0]] == -1)
    ensures(NODE(tree, key, i) == -1)
    decreases(i)
    unfold(NODE(tree, key, i))
    if i > 1:
        lemma_node_empty(tree, key, i - 1)
    else:
        unfold(NODE(tree, key, 0))


@contract("mchap.assemble.arraymap.new", machine_ints=True, props=["C09"])
def new(array_length: int, node_branches: int, initial_size: int, max_size: int) -> ArrayMap:
    requires(array_length >= 1, node_branches >= 1, initial_size >= 2)
    ensures(AMOK(result, len(result[0]), result[0].shape[1], len(result[1])), result[2] == array_length, result[0].shape[1] == node_branches)
    ensures(forall_arr1(lambda k: AMMISS(result, k), pattern=AMMISS(result, k)))
    with exit_():
        M = (tree, values, array_length, 1, 0, max_size)
        unfold(AMOK(M, initial_size, node_branches, initial_size))
        with forall_intro_arr1(key, implies(KEYOK(key, array_length, node_branches), forall(0, array_length + 1, lambda i: -1 <= NODE(tree, key, i) and NODE(tree, key, i) < 1) and -1 <= VIDX(tree, key, array_length) and VIDX(tree, key, array_length) < 0 and implies(VIDX(tree, key, array_length) >= 0, finite(values[VIDX(tree, key, array_length)])))):
            if KEYOK(key, array_length, node_branches):
                with forall_intro(i, 0, array_length + 1, -1 <= NODE(tree, key, i) and NODE(tree, key, i) < 1):
                    if i >= 1:
                        lemma_node_empty(tree, key, i)
                    else:
                        unfold(NODE(tree, key, 0))
                lemma_node_empty(tree, key, array_length)
        with forall_intro_arr1(k2, AMMISS(M, k2), pattern=AMMISS(M, k2)):
            unfold(AMMISS(M, k2))
            lemma_node_empty(tree, k2, array_length)


@contract("mchap.assemble.likelihood.new_log_likelihood_cache", machine_ints=True, props=["C09"])
def new_log_likelihood_cache(ploidy: int, n_base: int, max_alleles: int, max_size: int) -> ArrayMap:
    requires(ploidy >= 1, n_base >= 1, ploidy * n_base <= 2 ** 48, max_alleles >= 1)
    ensures(AMOK(result, len(result[0]), result[0].shape[1], len(result[1])), result[2] == ploidy * n_base, result[0].shape[1] == max_alleles)
    ensures(forall_arr1(lambda k: AMMISS(result, k), pattern=AMMISS(result, k)))
