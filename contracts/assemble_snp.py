# C15 -- mchap/assemble/snpcalling.py, mchap/assemble/mcmc.py : the single-SNV posterior that decides which
# SNVs are held fixed (the threshold comparison and the re-insertion of fixed sites are Python glue: R)
#
# GT: ghost table of all genotypes (allele tuples) in VCF order, as for call-exact (exists by C11).


@spec
def SNPW(rp: A[xfloat, 2], counts: A[int, 1], GT: A[int, 2], t: int, P: int, n: int, U: int, F: float) -> xfloat:
    """log prior + log likelihood of the genotype with G-field index t at one SNV with read probabilities rp"""
    return CPRIOR_FLAT(GT[t], P, U, F) + LLK(arrxn(lambda r, j, a: rp[r, a]), counts, arr2(lambda h, j: GT[t, h]), P, 1, n)


@contract("mchap.assemble.snpcalling.snp_posterior", machine_ints=True, props=["C15"], ghost_params={"GT": "A[int, 2]", "T": "int"}, dead_branches=["if n_reads == 0 @0 then"])
def snp_posterior(read_probs: A[f8, 2], n_alleles: int, ploidy: int, inbreeding: float, read_counts: Opt[A[i8, 1]]) -> Tup[A[i1, 2], A[f8, 1]]:
    requires(1 <= ploidy, ploidy <= 127, 1 <= n_alleles, n_alleles <= 127, n_alleles <= read_probs.shape[1], 0 <= inbreeding, inbreeding < 1)
    requires(cwr(n_alleles, ploidy) < 2 ** 53, GTOK(GT, cwr(n_alleles, ploidy), ploidy, n_alleles))
    requires(forall(0, len(read_probs), lambda r: forall(0, read_probs.shape[1], lambda a: not isninf(read_probs[r, a]) and (isnan(read_probs[r, a]) or read_probs[r, a] >= 0))))
    # proved domain: with explicit counts there is at least one read (with none the code reads read_counts[0] out of bounds)
    requires(implies(read_counts is not None, len(read_counts) == len(read_probs) and len(read_probs) >= 1 and forall(0, len(read_probs), lambda r: read_counts[r] >= 1)))
    # proved domain: at least one read (the no-read branch substitutes an all-NaN read; covered by R)
    requires(len(read_probs) >= 1)
    # some genotype is possible (true for error-rate encoded reads)
    requires(0 <= T, T < cwr(n_alleles, ploidy), not isninf(SNPW(read_probs, CN, GT, T, ploidy, len(read_probs), n_alleles, inbreeding)))
    ensures(result[0].shape == (cwr(n_alleles, ploidy), ploidy), len(result[1]) == cwr(n_alleles, ploidy))
    # row i is the genotype with G-field index i, and its probability is its share of exp(prior + likelihood)
    ensures(forall(0, cwr(n_alleles, ploidy), lambda i: forall(0, ploidy, lambda t: result[0][i, t] == GT[i, t])))
    ensures(FSUM(result[1], 0, cwr(n_alleles, ploidy)) == 1)
    ensures(forall(0, cwr(n_alleles, ploidy), lambda i: finite(result[1][i]) and result[1][i] >= 0 and result[1][i] * ESUM(arrx1(lambda t: SNPW(read_probs, CN, GT, t, ploidy, len(read_probs), n_alleles, inbreeding)), 0, cwr(n_alleles, ploidy)) == exp(SNPW(read_probs, CN, GT, i, ploidy, len(read_probs), n_alleles, inbreeding))))
    with defs():
        CN = ones_if_none(read_counts)
    with entry():
        lemma_cwr_nonneg(n_alleles, ploidy)
        lemma_cwr_safe(n_alleles, ploidy)
    with after_stmt("genotype = np.zeros(ploidy, dtype=np.int8)"):
        lemma_idx_zero(genotype, ploidy)
    with loop(0):
        invariant(0 <= i, i <= u_gens, u_gens == cwr(n_alleles, ploidy), genotypes.shape == (u_gens, ploidy), len(log_probabilities) == u_gens, len(genotype) == ploidy)
        invariant(forall(0, ploidy, lambda t: genotype[t] >= 0), forall(1, ploidy, lambda t: genotype[t - 1] <= genotype[t]), IDX(genotype, ploidy) == i)
        invariant(forall(0, i, lambda q: forall(0, ploidy, lambda t: genotypes[q, t] == GT[q, t])))
        invariant(forall(0, i, lambda q: not isnan(log_probabilities[q]) and log_probabilities[q] == SNPW(read_probs, CN, GT, q, ploidy, len(read_probs), n_alleles, inbreeding)))
        with head():
            lemma_idx_range(genotype, ploidy, n_alleles)
            with forall_intro(t, 0, ploidy, genotype[t] < n_alleles):
                lemma_sorted_le(genotype, t, ploidy - 1, ploidy)
            lemma_idx_inj(genotype, GT[i], ploidy)
            lemma_cprior_flat_ext(genotype, GT[i], ploidy, n_alleles, inbreeding)
            unfold(SNPW(read_probs, CN, GT, i, ploidy, len(read_probs), n_alleles, inbreeding))
            lemma_llk_ext(arrxn(lambda r, j, a: read_probs[r, a]), CN, arr2(lambda h, j: genotype[h]), arr2(lambda h, j: GT[i, h]), ploidy, 1, len(read_probs))
    with before_call("normalise_log_probs", 0):
        lemma_esum_pos(log_probabilities, 0, u_gens, T)
        lemma_esum_ext(log_probabilities, arrx1(lambda t: SNPW(read_probs, CN, GT, t, ploidy, len(read_probs), n_alleles, inbreeding)), 0, u_gens)


@spec
def HOMW(reads: A[xfloat, 3], counts: A[int, 1], GT: A[int, 2], i: int, t: int, P: int, n: int, U: int, F: float) -> xfloat:
    """SNPW at SNV i of a read tensor: the reads' probabilities at that SNV only"""
    return SNPW(arrxn(lambda r, a: reads[r, i, a]), counts, GT, t, P, n, U, F)


@spec
def HOMZ(reads: A[xfloat, 3], counts: A[int, 1], GT: A[int, 2], i: int, P: int, n: int, U: int, F: float) -> float:
    """normalising constant of the single-SNV posterior at SNV i: sum over all genotypes"""
    return ESUM(arrx1(lambda t: SNPW(arrxn(lambda r, a: reads[r, i, a]), counts, GT, t, P, n, U, F)), 0, cwr(U, P))


@contract("mchap.assemble.mcmc._homozygosity_probabilities", machine_ints=True, props=["C15"], ghost_params={"GT": "A[int, 2]", "TT": "A[int, 1]"})
def _homozygosity_probabilities(reads: A[f8, 3], n_alleles: A[iN, 1], ploidy: int, inbreeding: float, read_counts: Opt[A[i8, 1]]) -> A[f8, 2]:
    requires(1 <= ploidy, ploidy <= 127, 0 <= inbreeding, inbreeding < 1, len(reads) >= 1, len(n_alleles) == reads.shape[1])
    requires(forall(0, reads.shape[1], lambda i: 1 <= n_alleles[i] and n_alleles[i] <= 127 and n_alleles[i] <= reads.shape[2] and cwr(n_alleles[i], ploidy) < 2 ** 53))
    requires(READSOK(reads, len(reads), reads.shape[1], reads.shape[2]))
    requires(implies(read_counts is not None, len(read_counts) == len(reads) and forall(0, len(reads), lambda r: read_counts[r] >= 1)))
    requires(forall(0, 2 ** 53, lambda t: IDX(GT[t], ploidy) == t and SORTEDA(GT[t], ploidy) and forall(0, ploidy, lambda c: GT[t, c] >= 0)))
    # at every SNV some genotype is possible
    requires(forall(0, reads.shape[1], lambda i: 0 <= TT[i] and TT[i] < cwr(n_alleles[i], ploidy) and not isninf(HOMW(reads, CN, GT, i, TT[i], ploidy, len(reads), n_alleles[i], inbreeding))))
    # C15: entry [i, a] is the posterior probability, under the single-SNV model, that the individual is homozygous for allele a at SNV i
    ensures(result.shape == (reads.shape[1], reads.shape[2]))
    ensures(forall(0, reads.shape[1], lambda i: forall(0, n_alleles[i], lambda a: result[i, a] * HOMZ(reads, CN, GT, i, ploidy, len(reads), n_alleles[i], inbreeding) == exp(HOMW(reads, CN, GT, i, CIDX(a, ploidy), ploidy, len(reads), n_alleles[i], inbreeding)))))
    ensures(forall(0, reads.shape[1], lambda i: forall(n_alleles[i], reads.shape[2], lambda a: result[i, a] == 0)))
    with defs():
        CN = ones_if_none(read_counts)
    with loop(0):
        invariant(0 <= i, i <= n_pos, n_pos == reads.shape[1], max_allele == reads.shape[2], homozygous_probs.shape == (n_pos, max_allele), len(genotype) == ploidy)
        invariant(forall(0, i, lambda q: forall(0, n_alleles[q], lambda a: homozygous_probs[q, a] * HOMZ(reads, CN, GT, q, ploidy, len(reads), n_alleles[q], inbreeding) == exp(HOMW(reads, CN, GT, q, CIDX(a, ploidy), ploidy, len(reads), n_alleles[q], inbreeding)))))
        invariant(forall(0, n_pos, lambda q: forall(0, max_allele, lambda a: implies(q >= i or a >= n_alleles[q], homozygous_probs[q, a] == 0))))
    with before_call("snp_posterior", 0):
        snp_posterior_GT = GT
        snp_posterior_T = TT[i]
        unfold(HOMW(reads, CN, GT, i, TT[i], ploidy, len(reads), n, inbreeding))
        with forall_intro(t, 0, cwr(n, ploidy), VALIDA(GT[t], ploidy, n)):
            lemma_idx_range(GT[t], ploidy, n)
            with forall_intro(c, 0, ploidy, GT[t, c] < n):
                lemma_sorted_le(GT[t], c, ploidy - 1, ploidy)
    with after_call("snp_posterior", 0):
        unfold(HOMZ(reads, CN, GT, i, ploidy, len(reads), n, inbreeding))
    with loop(1):
        invariant(0 <= a, a <= n, n == n_alleles[i], homozygous_probs.shape == (n_pos, max_allele), len(genotype) == ploidy)
        invariant(forall(0, a, lambda b: homozygous_probs[i, b] * HOMZ(reads, CN, GT, i, ploidy, len(reads), n, inbreeding) == exp(HOMW(reads, CN, GT, i, CIDX(b, ploidy), ploidy, len(reads), n, inbreeding))))
        invariant(forall(0, i, lambda q: forall(0, n_alleles[q], lambda b: homozygous_probs[q, b] * HOMZ(reads, CN, GT, q, ploidy, len(reads), n_alleles[q], inbreeding) == exp(HOMW(reads, CN, GT, q, CIDX(b, ploidy), ploidy, len(reads), n_alleles[q], inbreeding)))))
        invariant(forall(0, n_pos, lambda q: forall(0, max_allele, lambda b: implies(q > i or (q == i and b >= a) or b >= n_alleles[q], homozygous_probs[q, b] == 0))))
        with head():
            lemma_cwr_mono_n(a + 1, n, ploidy)
            unfold(HOMW(reads, CN, GT, i, CIDX(a, ploidy), ploidy, len(reads), n, inbreeding))
    with after_stmt("idx = genotype_alleles_as_index(genotype)"):
        lemma_idx_const(genotype, a, ploidy)
