# C11 -- exact binomial / multiset coefficients (mchap/jitutils.py)


@spec
def binom(n: int, k: int) -> int:
    """Pascal's rule; 0 outside 0 <= k <= n.  Independent of the multiplicative algorithm."""
    decreases(n)
    if k < 0 or k > n:
        return 0
    if k == 0:
        return 1
    return binom(n - 1, k - 1) + binom(n - 1, k)


@contract("mchap.jitutils._greatest_common_denominatior", machine_ints=True, props=["C11"], ghost_prefix="gcd")
def _greatest_common_denominatior(x: int, y: int) -> int:
    requires(x >= 1, y >= 1)
    ensures(result >= 1)
    # result is a common divisor (maximality is not needed by _comb)
    ensures(exists(lambda a, b: a >= 1 and b >= 1 and old(x) == a * result and old(y) == b * result, witness=(u, w)))
    with entry():
        u = 1
        v = 0
        w = 0
        s = 1
    with loop(0):
        invariant(x >= 1, y >= 0)
        invariant(u >= 0, v >= 0, w >= 0, s >= 0)
        invariant(old(x) == u * x + v * y, old(y) == w * x + s * y)
        decreases(y)
        with head():
            q = x // y
        with tail():
            u, v, w, s = u * q + v, u, w * q + s, w


@lemma
def lemma_div_exact(p: int, q: int, c: int):
    """p == c*q, q >= 1  ==>  p // q == c"""
    requires(q >= 1, p == c * q)
    ensures(p // q == c)
    assert_(p == q * (p // q) + p % q)
    assert_(q * (c - p // q) == p % q)


@lemma
def lemma_binom_mult(n: int, d: int):
    """multiplicative recurrence  C(n,d)*d == C(n,d-1)*(n-d+1)"""
    requires(n >= 0, d >= 1)
    ensures(binom(n, d) * d == binom(n, d - 1) * (n - d + 1))
    decreases(n)
    unfold(binom(n, d))
    unfold(binom(n, d - 1))
    if d > n:
        if d == n + 1:
            pass
    else:
        lemma_binom_mult(n - 1, d)
        if d >= 2:
            lemma_binom_mult(n - 1, d - 1)
        else:
            unfold(binom(n - 1, 0))
            unfold(binom(n - 1, 1))
            unfold(binom(n - 1, -1))


@lemma
def lemma_binom_pos(n: int, k: int):
    requires(0 <= k, k <= n)
    ensures(binom(n, k) >= 1)
    decreases(n)
    unfold(binom(n, k))
    if k >= 1:
        lemma_binom_pos(n - 1, k - 1)
        if k <= n - 1:
            lemma_binom_pos(n - 1, k)
        else:
            unfold(binom(n - 1, k))


@lemma
def lemma_binom_nonneg(n: int, k: int):
    requires(n >= 0)
    ensures(binom(n, k) >= 0)
    decreases(n)
    unfold(binom(n, k))
    if 1 <= k and k <= n:
        lemma_binom_nonneg(n - 1, k - 1)
        lemma_binom_nonneg(n - 1, k)


@lemma
def lemma_binom_sym(n: int, k: int):
    """C(n,k) == C(n,n-k)"""
    requires(0 <= k, k <= n)
    ensures(binom(n, k) == binom(n, n - k))
    decreases(n)
    unfold(binom(n, k))
    unfold(binom(n, n - k))
    if 1 <= k and k <= n - 1:
        lemma_binom_sym(n - 1, k - 1)
        lemma_binom_sym(n - 1, k)
    else:
        if n >= 1:
            lemma_binom_sym(n - 1, n - 1)
            unfold(binom(n - 1, n))
            unfold(binom(n - 1, 0))
            unfold(binom(n, n))
            unfold(binom(n, 0))


@lemma
def lemma_binom_step_k(n: int, d: int):
    """C(n,d-1) <= C(n,d) while 2d <= n"""
    requires(d >= 1, 2 * d <= n)
    ensures(binom(n, d - 1) <= binom(n, d))
    lemma_binom_mult(n, d)
    lemma_binom_nonneg(n, d - 1)
    lemma_binom_nonneg(n, d)
    assert_(binom(n, d - 1) * (n - d + 1) >= binom(n, d - 1) * d)
    assert_(binom(n, d) * d >= binom(n, d - 1) * d)


@lemma
def lemma_binom_mono_k(n: int, d: int, k: int):
    """C(n,d) <= C(n,k) for d <= k <= n/2"""
    requires(0 <= d, d <= k, 2 * k <= n)
    ensures(binom(n, d) <= binom(n, k))
    decreases(k - d)
    if d < k:
        lemma_binom_mono_k(n, d, k - 1)
        lemma_binom_step_k(n, k)


@lemma
def lemma_binom_mono_n(m: int, n: int, k: int):
    """C(m,k) <= C(n,k) for 0 <= m <= n"""
    requires(0 <= m, m <= n)
    ensures(binom(m, k) <= binom(n, k))
    decreases(n - m)
    if m < n:
        lemma_binom_mono_n(m, n - 1, k)
        unfold(binom(n, k))
        unfold(binom(n - 1, k))
        lemma_binom_nonneg(n - 1, k - 1)
        lemma_binom_nonneg(n - 1, k)


@spec
def pow2(k: int) -> int:
    decreases(k)
    if k <= 0:
        return 1
    return 2 * pow2(k - 1)


@lemma
def lemma_pow2_add(a: int, b: int):
    requires(a >= 0, b >= 0)
    ensures(pow2(a + b) == pow2(a) * pow2(b))
    decreases(b)
    unfold(pow2(b))
    unfold(pow2(a + b))
    if b >= 1:
        lemma_pow2_add(a, b - 1)


@lemma
def lemma_pow2_mono(a: int, b: int):
    requires(0 <= a, a <= b)
    ensures(pow2(a) <= pow2(b), pow2(a) >= 1)
    decreases(b)
    unfold(pow2(b))
    unfold(pow2(a))
    if a < b:
        lemma_pow2_mono(a, b - 1)
    else:
        if a >= 1:
            lemma_pow2_mono(a - 1, b - 1)


@lemma
def lemma_pow2_53():
    ensures(pow2(53) == 2 ** 53)
    unfold(pow2(0))
    unfold(pow2(1))
    lemma_pow2_add(1, 1)
    lemma_pow2_add(2, 2)
    lemma_pow2_add(4, 4)
    lemma_pow2_add(8, 8)
    lemma_pow2_add(16, 16)
    lemma_pow2_add(32, 16)
    lemma_pow2_add(48, 4)
    lemma_pow2_add(52, 1)


@lemma
def lemma_central(k: int):
    """C(2k,k) >= 2^k"""
    requires(k >= 0)
    ensures(binom(2 * k, k) >= pow2(k))
    decreases(k)
    unfold(pow2(k))
    unfold(binom(2 * k, k))
    if k >= 1:
        lemma_central(k - 1)
        lemma_binom_sym(2 * k - 1, k)
        lemma_binom_mono_n(2 * k - 2, 2 * k - 1, k - 1)


@lemma
def lemma_small_k(n: int, k: int):
    """a coefficient below 2^53 in the lower half has k <= 52"""
    requires(0 <= k, 2 * k <= n, binom(n, k) < 2 ** 53)
    ensures(k <= 52)
    if k >= 53:
        lemma_central(k)
        lemma_binom_mono_n(2 * k, n, k)
        lemma_pow2_mono(53, k)
        lemma_pow2_53()


@lemma
def lemma_binom_absorb(n: int, k: int):
    """absorption  C(n,k)*k == n*C(n-1,k-1)"""
    requires(n >= 1, k >= 1)
    ensures(binom(n, k) * k == n * binom(n - 1, k - 1))
    decreases(n)
    unfold(binom(n, k))
    if k > n:
        unfold(binom(n - 1, k - 1))
    else:
        if n >= 2:
            lemma_binom_absorb(n - 1, k)
            unfold(binom(n - 1, k - 1))
            if k >= 2:
                lemma_binom_absorb(n - 1, k - 1)
            else:
                unfold(binom(n - 2, 0), binom(n - 2, -1))
        else:
            unfold(binom(0, 0), binom(0, 1), binom(0, k), binom(0, k - 1))


@lemma
def lemma_binom_mult2(n: int, k: int):
    """C(n,k)*(n-k) == C(n-1,k)*n"""
    requires(n >= 1, k >= 0)
    ensures(binom(n, k) * (n - k) == binom(n - 1, k) * n)
    lemma_binom_mult(n, k + 1)
    lemma_binom_absorb(n, k + 1)


@lemma
def lemma_safe_from_53(n: int, k: int):
    """the property's bound C(n,k) < 2^53 implies that every intermediate value of _comb fits int64"""
    requires(0 <= k, k <= n, binom(n, k) < 2 ** 53)
    ensures(binom(n, k) * min(k, n - k) < 2 ** 63)
    lemma_binom_sym(n, k)
    lemma_binom_nonneg(n, k)
    if k > n - k:
        lemma_small_k(n, n - k)
        assert_(binom(n, k) * (n - k) <= binom(n, k) * 52)
    else:
        lemma_small_k(n, k)
        assert_(binom(n, k) * k <= binom(n, k) * 52)


@contract("mchap.jitutils._comb", machine_ints=True, props=["C11"])
def _comb(n: int, k: int) -> int:
    # SAFE(n,k): weaker than the property's "C(n,k) < 2^53" (lemma_safe_from_53) -- the search
    # in index_as_genotype_alleles probes one coefficient beyond 2^53
    requires(implies(0 <= k and k <= n, binom(n, k) * min(k, n - k) < 2 ** 63))
    requires(n < 2 ** 62)  # side condition: `k + 1` / `n - 1` must not wrap for absurd arguments
    raises(n < 0 or k < 0)
    ensures(result == binom(old(n), old(k)))
    with entry():
        unfold(binom(n, 0))
        if 0 <= k and k <= n:
            lemma_binom_sym(n, k)
    with loop(0):
        invariant(1 <= d, d <= k + 1, 2 * k <= old(n))
        invariant(binom(old(n), k) * k < 2 ** 63)
        invariant(n == old(n) - (d - 1))
        invariant(r == binom(old(n), d - 1), r >= 1)
        with head():
            lemma_binom_mult(old(n), d)
            lemma_binom_pos(old(n), d - 1)
            lemma_binom_pos(old(n), d)
            lemma_binom_mono_k(old(n), d, k)
    with after_stmt("gcd = _greatest_common_denominatior(r, d)"):
        # r = a*g, d = b*g  and  C(n0,d)*d == r*n  ==>  C(n0,d)*b == a*n
        lemma_div_exact(r, gcd, gcd_a)
        lemma_div_exact(d, gcd, gcd_b)
        assert_(gcd * (binom(old(n), d) * gcd_b) == gcd * (gcd_a * n))
        assert_(binom(old(n), d) * gcd_b == gcd_a * n)
        lemma_div_exact(gcd_a * n, gcd_b, binom(old(n), d))
        assert_(gcd_b <= d)
        assert_(binom(old(n), d) * gcd_b <= binom(old(n), d) * k)
        assert_(binom(old(n), d) * k <= binom(old(n), k) * k)
    with exit_():
        unfold(binom(old(n), old(k)))
        unfold(binom(old(n), 0))


@lemma
def lemma_table_bound(n: int, k: int):
    """every entry of the 100 x 12 table is < 2^53 (C(n,k) <= C(99,k), evaluated by Pascal's rule)"""
    requires(0 <= n, n < 100, 0 <= k, k < 12)
    ensures(binom(n, k) < 2 ** 53)
    lemma_binom_mono_n(n, 99, k)
    compute(binom(99, 0), binom(99, 1), binom(99, 2), binom(99, 3), binom(99, 4), binom(99, 5))
    compute(binom(99, 6), binom(99, 7), binom(99, 8), binom(99, 9), binom(99, 10), binom(99, 11))


@contract("mchap.jitutils.__init___COMB_CACHE", props=["C11"])
def init_comb_cache() -> A[i8, 2]:
    ensures(result.shape == (100, 12))
    ensures(forall(0, 100, lambda a: forall(0, 12, lambda b: result[a, b] == binom(a, b))))
    with loop(0):
        invariant(forall(0, n, lambda a: forall(0, 12, lambda b: _COMB_CACHE[a, b] == binom(a, b))))
    with loop(1):
        invariant(forall(0, n, lambda a: forall(0, 12, lambda b: _COMB_CACHE[a, b] == binom(a, b))))
        invariant(forall(0, k, lambda b: _COMB_CACHE[n, b] == binom(n, b)))
        with head():
            lemma_table_bound(n, k)
            if k <= n:
                lemma_safe_from_53(n, k)


@contract("mchap.jitutils.comb", machine_ints=True, props=["C11"])
def comb(n: int, k: int) -> int:
    requires(n >= 0, k >= 0)  # the table path indexes with n, k: negative values would wrap
    requires(implies(k <= n, binom(n, k) * min(k, n - k) < 2 ** 63), n < 2 ** 62)
    ensures(result == binom(n, k))


@spec
def cwr(n: int, k: int) -> int:
    """multiset coefficient C(n+k-1, k); the code's documented quirk cwr(0,0) = 0 is part of the spec"""
    if n == 0 and k == 0:
        return 0
    return binom(n + k - 1, k)


@contract("mchap.jitutils._comb_with_replacement", machine_ints=True, props=["C11"])
def _comb_with_replacement(n: int, k: int) -> int:
    requires(k >= 0, n < 2 ** 61, k < 2 ** 61)
    requires(implies(n >= 1, binom(n + k - 1, k) * min(k, n - 1) < 2 ** 63))
    raises(n < 0)
    ensures(result == cwr(old(n), k))
    with entry():
        unfold(cwr(n, k))


@lemma
def lemma_cwr_table_bound(n: int, k: int):
    requires(0 <= n, n < 100, 0 <= k, k < 12)
    ensures(cwr(n, k) < 2 ** 53)
    unfold(cwr(n, k))
    if n + k >= 1:
        lemma_binom_mono_n(n + k - 1, 109, k)
        compute(binom(109, 0), binom(109, 1), binom(109, 2), binom(109, 3), binom(109, 4), binom(109, 5))
        compute(binom(109, 6), binom(109, 7), binom(109, 8), binom(109, 9), binom(109, 10), binom(109, 11))


@lemma
def lemma_cwr_safe(n: int, k: int):
    """cwr(n,k) < 2^53 implies the SAFE precondition of the coefficient functions"""
    requires(n >= 0, k >= 0, cwr(n, k) < 2 ** 53)
    ensures(implies(n >= 1, binom(n + k - 1, k) * min(k, n - 1) < 2 ** 63))
    unfold(cwr(n, k))
    if n >= 1:
        lemma_safe_from_53(n + k - 1, k)


@contract("mchap.jitutils.__init___COMB_WITH_REPLACEMENT_CACHE", props=["C11"])
def init_cwr_cache() -> A[i8, 2]:
    ensures(result.shape == (100, 12))
    ensures(forall(0, 100, lambda a: forall(0, 12, lambda b: result[a, b] == cwr(a, b))))
    with loop(0):
        invariant(forall(0, n, lambda a: forall(0, 12, lambda b: _COMB_WITH_REPLACEMENT_CACHE[a, b] == cwr(a, b))))
    with loop(1):
        invariant(forall(0, n, lambda a: forall(0, 12, lambda b: _COMB_WITH_REPLACEMENT_CACHE[a, b] == cwr(a, b))))
        invariant(forall(0, k, lambda b: _COMB_WITH_REPLACEMENT_CACHE[n, b] == cwr(n, b)))
        with head():
            lemma_cwr_table_bound(n, k)
            lemma_cwr_safe(n, k)


@contract("mchap.jitutils.comb_with_replacement", machine_ints=True, props=["C11"])
def comb_with_replacement(n: int, k: int) -> int:
    requires(n >= 0, k >= 0, n < 2 ** 61, k < 2 ** 61)
    requires(implies(n >= 1, binom(n + k - 1, k) * min(k, n - 1) < 2 ** 63))
    ensures(result == cwr(n, k))
