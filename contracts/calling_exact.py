# C03 -- mchap/calling/exact.py : enumeration of the exact posterior in VCF genotype order
#
# GT is a ghost table of all genotypes in VCF order: row i is the sorted genotype with G-field index i.
# (It exists by C11: index_as_genotype_alleles is proved to compute such a row for every index.)  The
# contracts hold for every table with that property; the kernels never read it.


@spec_inline
def GTOK(GT: A[int, 2], n: int, P: int, U: int) -> bool:
    return forall(0, n, lambda i: IDX(GT[i], P) == i and VALIDA(GT[i], P, U) and SORTEDA(GT[i], P))


@spec_inline
def LJOINT(ll: float, GT: A[int, 2], i: int, P: int, U: int, F: float) -> float:
    return ll + CPRIOR_FLAT(GT[i], P, U, F)


@contract("mchap.calling.exact.genotype_posteriors", machine_ints=True, props=["C03"], ghost_params={"GT": "A[int, 2]", "T": "int"}, variants=[{"frequencies": "None"}, {"frequencies": "some"}])
def genotype_posteriors(log_likelihoods: A[f8, 1], ploidy: int, n_alleles: int, inbreeding: float, frequencies: Opt[A[f8, 1]]) -> A[f8, 1]:
    requires(1 <= ploidy, ploidy <= 127, 1 <= n_alleles, n_alleles <= 127, 0 <= inbreeding, inbreeding < 1)
    # one likelihood per unordered genotype, in VCF order
    requires(len(log_likelihoods) == cwr(n_alleles, ploidy), len(log_likelihoods) < 2 ** 53, GTOK(GT, len(log_likelihoods), ploidy, n_alleles))
    requires(forall(0, len(log_likelihoods), lambda i: not isnan(log_likelihoods[i])))
    requires(implies(frequencies is not None, len(frequencies) == n_alleles and forall(0, n_alleles, lambda a: finite(frequencies[a]) and frequencies[a] > 0)))
    # some genotype is possible
    requires(0 <= T, T < len(log_likelihoods), not isninf(log_likelihoods[T]))
    # C03: likelihood x prior normalised over all unordered genotypes, listed in VCF genotype order
    ensures(len(result) == len(log_likelihoods), FSUM(result, 0, len(result)) == 1)
    ensures(forall(0, len(result), lambda i: finite(result[i]) and result[i] >= 0))
    ensures(implies(frequencies is None, forall(0, len(result), lambda i: forall(0, len(result), lambda j: PROPTO(result[i], exp(log_likelihoods[i] + CPRIOR_FLAT(GT[i], ploidy, n_alleles, inbreeding)), result[j], exp(log_likelihoods[j] + CPRIOR_FLAT(GT[j], ploidy, n_alleles, inbreeding)))))))
    ensures(implies(frequencies is not None, forall(0, len(result), lambda i: forall(0, len(result), lambda j: PROPTO(result[i], exp(log_likelihoods[i] + CPRIOR_FREQ(GT[i], ploidy, frequencies, n_alleles, inbreeding)), result[j], exp(log_likelihoods[j] + CPRIOR_FREQ(GT[j], ploidy, frequencies, n_alleles, inbreeding)))))))
    with loop(0):
        invariant(0 <= i, i <= n_genotypes, n_genotypes == len(log_likelihoods), len(posteriors) == n_genotypes, len(genotype) == ploidy)
        invariant(forall(0, ploidy, lambda t: genotype[t] >= 0), forall(1, ploidy, lambda t: genotype[t - 1] <= genotype[t]), IDX(genotype, ploidy) == i)
        invariant(implies(frequencies is None, forall(0, i, lambda t: not isnan(posteriors[t]) and posteriors[t] == log_likelihoods[t] + CPRIOR_FLAT(GT[t], ploidy, n_alleles, inbreeding))))
        invariant(implies(frequencies is not None, forall(0, i, lambda t: not isnan(posteriors[t]) and posteriors[t] == log_likelihoods[t] + CPRIOR_FREQ(GT[t], ploidy, frequencies, n_alleles, inbreeding))))
        with head():
            lemma_idx_range(genotype, ploidy, n_alleles)
            with forall_intro(t, 0, ploidy, genotype[t] < n_alleles):
                lemma_sorted_le(genotype, t, ploidy - 1, ploidy)
            lemma_idx_inj(genotype, GT[i], ploidy)
            lemma_cprior_flat_ext(genotype, GT[i], ploidy, n_alleles, inbreeding)
            if frequencies is not None:
                lemma_cprior_freq_ext(genotype, GT[i], ploidy, frequencies, n_alleles, inbreeding)
                lemma_fsum_pos(frequencies, 0, n_alleles)
    with after_stmt("genotype = np.zeros(ploidy, np.int64)"):
        lemma_idx_zero(genotype, ploidy)
    with before_call("normalise_log_probs", 0):
        if frequencies is not None:
            lemma_fprod_pos(frequencies, GT[T], ploidy)
        lemma_esum_pos(posteriors, 0, n_genotypes, T)
    with exit_():
        R = normalise_log_probs_result
        if frequencies is None:
            with forall_intro(i2, 0, n_genotypes, forall(0, n_genotypes, lambda j: PROPTO(R[i2], exp(log_likelihoods[i2] + CPRIOR_FLAT(GT[i2], ploidy, n_alleles, inbreeding)), R[j], exp(log_likelihoods[j] + CPRIOR_FLAT(GT[j], ploidy, n_alleles, inbreeding))))):
                with forall_intro(j2, 0, n_genotypes, PROPTO(R[i2], exp(log_likelihoods[i2] + CPRIOR_FLAT(GT[i2], ploidy, n_alleles, inbreeding)), R[j2], exp(log_likelihoods[j2] + CPRIOR_FLAT(GT[j2], ploidy, n_alleles, inbreeding)))):
                    unfold(PROPTO(R[i2], exp(log_likelihoods[i2] + CPRIOR_FLAT(GT[i2], ploidy, n_alleles, inbreeding)), R[j2], exp(log_likelihoods[j2] + CPRIOR_FLAT(GT[j2], ploidy, n_alleles, inbreeding))))
                    lemma_shares_proportional(R[i2], R[j2], ESUM(posteriors, 0, n_genotypes), exp(posteriors[i2]), exp(posteriors[j2]))
        if frequencies is not None:
            with forall_intro(i2, 0, n_genotypes, forall(0, n_genotypes, lambda j: PROPTO(R[i2], exp(log_likelihoods[i2] + CPRIOR_FREQ(GT[i2], ploidy, frequencies, n_alleles, inbreeding)), R[j], exp(log_likelihoods[j] + CPRIOR_FREQ(GT[j], ploidy, frequencies, n_alleles, inbreeding))))):
                with forall_intro(j2, 0, n_genotypes, PROPTO(R[i2], exp(log_likelihoods[i2] + CPRIOR_FREQ(GT[i2], ploidy, frequencies, n_alleles, inbreeding)), R[j2], exp(log_likelihoods[j2] + CPRIOR_FREQ(GT[j2], ploidy, frequencies, n_alleles, inbreeding)))):
                    unfold(PROPTO(R[i2], exp(log_likelihoods[i2] + CPRIOR_FREQ(GT[i2], ploidy, frequencies, n_alleles, inbreeding)), R[j2], exp(log_likelihoods[j2] + CPRIOR_FREQ(GT[j2], ploidy, frequencies, n_alleles, inbreeding))))
                    lemma_shares_proportional(R[i2], R[j2], ESUM(posteriors, 0, n_genotypes), exp(posteriors[i2]), exp(posteriors[j2]))


@contract("mchap.calling.exact._genotype_likelihoods", machine_ints=True, props=["C03"], ghost_params={"GT": "A[int, 2]"})
def _genotype_likelihoods(reads: A[f8, 3], ploidy: int, haplotypes: A[i1, 2], n_genotypes: int, read_counts: Opt[A[i8, 1]]) -> A[f4, 1]:
    requires(1 <= ploidy, ploidy <= 127, 1 <= U, U <= 127, reads.shape[1] == haplotypes.shape[1])
    requires(n_genotypes == cwr(U, ploidy), n_genotypes < 2 ** 53, GTOK(GT, n_genotypes, ploidy, U))
    requires(implies(read_counts is not None, len(read_counts) == len(reads) and forall(0, len(reads), lambda r: read_counts[r] >= 1)))
    requires(CALLOK(reads, haplotypes, U, haplotypes.shape[1], reads.shape[2], len(reads)))
    # C03: entry i is the likelihood of the genotype with G-field index i  (stored in single precision: A5)
    ensures(len(result) == n_genotypes)
    ensures(forall(0, n_genotypes, lambda i: result[i] == LLKA(reads, CN, haplotypes, GT[i], ploidy, haplotypes.shape[1], len(reads))))
    with defs():
        U = len(haplotypes)
        CN = ones_if_none(read_counts)
    with entry():
        lemma_cwr_nonneg(U, ploidy)
    with after_stmt("genotype = np.zeros(ploidy, np.int64)"):
        lemma_idx_zero(genotype, ploidy)
    with loop(0):
        invariant(0 <= i, i <= n_genotypes, len(likelihoods) == n_genotypes, len(genotype) == ploidy)
        invariant(forall(0, ploidy, lambda t: genotype[t] >= 0), forall(1, ploidy, lambda t: genotype[t - 1] <= genotype[t]), IDX(genotype, ploidy) == i)
        invariant(forall(0, i, lambda t: likelihoods[t] == LLKA(reads, CN, haplotypes, GT[t], ploidy, haplotypes.shape[1], len(reads))))
        with head():
            lemma_idx_range(genotype, ploidy, U)
            with forall_intro(t, 0, ploidy, genotype[t] < U):
                lemma_sorted_le(genotype, t, ploidy - 1, ploidy)
            lemma_idx_inj(genotype, GT[i], ploidy)
            lemma_llka_ext(reads, CN, haplotypes, genotype, GT[i], ploidy, haplotypes.shape[1], len(reads))
            lemma_llka_is_llk(reads, CN, haplotypes, genotype, arr2(lambda a, c: haplotypes[genotype[a], c]), ploidy, haplotypes.shape[1], len(reads))


@spec
def ACNT(post: A[float, 1], GT: A[int, 2], a: int, P: int, n: int) -> float:
    """posterior mean copy number of allele a:  sum over genotypes i < n of post[i] * copies of a in genotype i"""
    decreases(n)
    if n <= 0:
        return 0.0
    return ACNT(post, GT, a, P, n - 1) + post[n - 1] * CNT(GT[n - 1], a, P)


@spec
def AOCC(post: A[float, 1], GT: A[int, 2], a: int, P: int, n: int) -> float:
    """posterior probability that allele a occurs:  sum over genotypes i < n containing a of post[i]"""
    decreases(n)
    if n <= 0:
        return 0.0
    return AOCC(post, GT, a, P, n - 1) + ite(CNT(GT[n - 1], a, P) > 0, real(post[n - 1]), 0.0)


@lemma(shared=True)
def lemma_cnt_zero_below(g: A[int, 1], a: int, n: int):
    """no entry equals a  =>  the count is zero"""
    requires(forall(0, n, lambda t: g[t] != a))
    ensures(CNT(g, a, n) == 0)
    decreases(n)
    unfold(CNT(g, a, n))
    if n > 0:
        lemma_cnt_zero_below(g, a, n - 1)


@contract("mchap.calling.exact.posterior_allele_frequencies", machine_ints=True, props=["C03"], ghost_params={"GT": "A[int, 2]"})
def posterior_allele_frequencies(posteriors: A[f8, 1], ploidy: int, n_alleles: int) -> Tup[A[f8, 1], A[f8, 1], A[f8, 1]]:
    requires(1 <= ploidy, ploidy <= 127, 1 <= n_alleles, n_alleles <= 127)
    requires(len(posteriors) == cwr(n_alleles, ploidy), len(posteriors) < 2 ** 53, GTOK(GT, len(posteriors), ploidy, n_alleles))
    requires(forall(0, len(posteriors), lambda i: finite(posteriors[i])))
    # C03: AFP / ACP / AOP are the posterior mean frequency / count / occurrence of each allele
    ensures(len(result[0]) == n_alleles, len(result[1]) == n_alleles, len(result[2]) == n_alleles)
    ensures(forall(0, n_alleles, lambda a: result[1][a] == ACNT(posteriors, GT, a, ploidy, len(posteriors))))
    ensures(forall(0, n_alleles, lambda a: result[0][a] == ACNT(posteriors, GT, a, ploidy, len(posteriors)) / ploidy))
    ensures(forall(0, n_alleles, lambda a: result[2][a] == AOCC(posteriors, GT, a, ploidy, len(posteriors))))
    with after_stmt("genotype = np.zeros(ploidy, np.int64)"):
        lemma_idx_zero(genotype, ploidy)
        with forall_intro(b, 0, n_alleles, ACNT(posteriors, GT, b, ploidy, 0) == 0 and AOCC(posteriors, GT, b, ploidy, 0) == 0):
            unfold(ACNT(posteriors, GT, b, ploidy, 0), AOCC(posteriors, GT, b, ploidy, 0))
    with loop(0):
        invariant(0 <= i, i <= n_genotypes, n_genotypes == len(posteriors), len(counts) == n_alleles, len(occur) == n_alleles, len(genotype) == ploidy)
        invariant(forall(0, ploidy, lambda t: genotype[t] >= 0), forall(1, ploidy, lambda t: genotype[t - 1] <= genotype[t]), IDX(genotype, ploidy) == i)
        invariant(forall(0, n_alleles, lambda b: finite(counts[b]) and counts[b] == ACNT(posteriors, GT, b, ploidy, i)))
        invariant(forall(0, n_alleles, lambda b: finite(occur[b]) and occur[b] == AOCC(posteriors, GT, b, ploidy, i)))
        with head():
            lemma_idx_range(genotype, ploidy, n_alleles)
            with forall_intro(t, 0, ploidy, genotype[t] < n_alleles):
                lemma_sorted_le(genotype, t, ploidy - 1, ploidy)
            lemma_idx_inj(genotype, GT[i], ploidy)
            with forall_intro(b, 0, n_alleles, CNT(genotype, b, 0) == 0 and CNT(GT[i], b, ploidy) == CNT(genotype, b, ploidy)):
                unfold(CNT(genotype, b, 0))
                lemma_cnt_ext(genotype, GT[i], b, ploidy)
    with loop(1):
        invariant(0 <= j, j <= ploidy, len(counts) == n_alleles, len(occur) == n_alleles)
        invariant(forall(0, n_alleles, lambda b: finite(counts[b]) and counts[b] == ACNT(posteriors, GT, b, ploidy, i) + p * CNT(genotype, b, j)))
        invariant(forall(0, n_alleles, lambda b: finite(occur[b]) and occur[b] == AOCC(posteriors, GT, b, ploidy, i) + ite(CNT(genotype, b, j) > 0, real(p), 0.0)))
        with head():
            with forall_intro(b, 0, n_alleles, CNT(genotype, b, j + 1) == CNT(genotype, b, j) + ite(genotype[j] == b, 1, 0) and CNT(genotype, b, j) >= 0):
                unfold(CNT(genotype, b, j + 1))
                lemma_cnt_range(genotype, b, j)
            if j >= 1:
                if genotype[j] != genotype[j - 1]:
                    with forall_intro(t, 0, j, genotype[t] != genotype[j]):
                        lemma_sorted_le(genotype, t, j - 1, ploidy)
                    lemma_cnt_zero_below(genotype, genotype[j], j)
                else:
                    lemma_cnt_pos(genotype, j, j - 1)
        with after():
            with forall_intro(b, 0, n_alleles, ACNT(posteriors, GT, b, ploidy, i + 1) == ACNT(posteriors, GT, b, ploidy, i) + p * CNT(genotype, b, ploidy) and AOCC(posteriors, GT, b, ploidy, i + 1) == AOCC(posteriors, GT, b, ploidy, i) + ite(CNT(genotype, b, ploidy) > 0, real(p), 0.0)):
                unfold(ACNT(posteriors, GT, b, ploidy, i + 1), AOCC(posteriors, GT, b, ploidy, i + 1))


@spec_inline
def LJ(reads: A[float, 3], counts: A[int, 1], H: A[int, 2], GT: A[int, 2], i: int, P: int, N: int, n: int, U: int, F: float) -> xfloat:
    """log of likelihood x prior (flat frequencies) of the genotype with G-field index i"""
    return LLKA(reads, counts, H, GT[i], P, N, n) + CPRIOR_FLAT(GT[i], P, U, F)


@spec_inline
def LJF(reads: A[float, 3], counts: A[int, 1], H: A[int, 2], GT: A[int, 2], i: int, P: int, N: int, n: int, f: A[float, 1], U: int, F: float) -> xfloat:
    return LLKA(reads, counts, H, GT[i], P, N, n) + CPRIOR_FREQ(GT[i], P, f, U, F)


@contract("mchap.calling.exact._call_posterior_mode", machine_ints=True, props=["C03"], ghost_params={"GT": "A[int, 2]", "T": "int"}, variants=[{"read_counts": "None", "frequencies": "None"}, {"read_counts": "some", "frequencies": "some"}, {"read_counts": "some", "frequencies": "None"}])
def _call_posterior_mode(reads: A[f8, 3], ploidy: int, haplotypes: A[i1, 2], n_genotypes: int, read_counts: Opt[A[i8, 1]], inbreeding: float, frequencies: Opt[A[f8, 1]]) -> Tup[A[i8, 1], float, float, float]:
    requires(1 <= ploidy, ploidy <= 127, 1 <= U, U <= 127, reads.shape[1] == haplotypes.shape[1], 0 <= inbreeding, inbreeding < 1)
    requires(n_genotypes == cwr(U, ploidy), n_genotypes < 2 ** 53, GTOK(GT, n_genotypes, ploidy, U))
    requires(implies(read_counts is not None, len(read_counts) == len(reads) and forall(0, len(reads), lambda r: read_counts[r] >= 1)))
    requires(CALLOK(reads, haplotypes, U, NN, reads.shape[2], len(reads)))
    requires(implies(frequencies is not None, len(frequencies) == U and forall(0, U, lambda a: finite(frequencies[a]) and frequencies[a] > 0)))
    # some genotype is possible
    requires(0 <= T, T < n_genotypes, not isninf(LLKA(reads, CN, haplotypes, GT[T], ploidy, NN, len(reads))))
    # C03: the called genotype maximises likelihood x prior; the normalising constant sums over all unordered genotypes
    ensures(implies(frequencies is None, exp(result[3]) == ESUM(arrx1(lambda i: LJ(reads, CN, haplotypes, GT, i, ploidy, NN, len(reads), U, inbreeding)), 0, n_genotypes)))
    ensures(implies(frequencies is not None, exp(result[3]) == ESUM(arrx1(lambda i: LJF(reads, CN, haplotypes, GT, i, ploidy, NN, len(reads), frequencies, U, inbreeding)), 0, n_genotypes)))
    ensures(len(result[0]) == ploidy, not isninf(result[2]), not isninf(result[3]))
    ensures(exists(lambda m: 0 <= m and m < n_genotypes and forall(0, ploidy, lambda t: result[0][t] == GT[m][t]) and result[1] == LLKA(reads, CN, haplotypes, GT[m], ploidy, NN, len(reads)) and implies(frequencies is None, result[2] == LJ(reads, CN, haplotypes, GT, m, ploidy, NN, len(reads), U, inbreeding)), witness=mode_idx))
    ensures(implies(frequencies is None, forall(0, n_genotypes, lambda i: LJ(reads, CN, haplotypes, GT, i, ploidy, NN, len(reads), U, inbreeding) <= result[2])))
    ensures(implies(frequencies is not None, forall(0, n_genotypes, lambda i: LJF(reads, CN, haplotypes, GT, i, ploidy, NN, len(reads), frequencies, U, inbreeding) <= result[2])))
    with defs():
        U = len(haplotypes)
        NN = haplotypes.shape[1]
        CN = ones_if_none(read_counts)
    with entry():
        lemma_cwr_nonneg(U, ploidy)
        if frequencies is not None:
            lemma_fsum_pos(frequencies, 0, U)
            lemma_fprod_pos(frequencies, GT[T], ploidy)
    with after_stmt("genotype = np.zeros(ploidy, np.int64)"):
        lemma_idx_zero(genotype, ploidy)
    with before_stmt("total_ljoint = -np.inf"):
        if frequencies is None:
            unfold(ESUM(arrx1(lambda i: LJ(reads, CN, haplotypes, GT, i, ploidy, NN, len(reads), U, inbreeding)), 0, 0))
        if frequencies is not None:
            unfold(ESUM(arrx1(lambda i: LJF(reads, CN, haplotypes, GT, i, ploidy, NN, len(reads), frequencies, U, inbreeding)), 0, 0))
    with loop(0):
        invariant(0 <= i, i <= n_genotypes, len(genotype) == ploidy, n_alleles == U, 0 <= mode_idx, mode_idx < n_genotypes)
        invariant(forall(0, ploidy, lambda t: genotype[t] >= 0), forall(1, ploidy, lambda t: genotype[t - 1] <= genotype[t]), IDX(genotype, ploidy) == i)
        invariant(not isnan(mode_ljoint), not isnan(total_ljoint), not isnan(mode_llk))
        invariant(implies(frequencies is None, exp(total_ljoint) == ESUM(arrx1(lambda t: LJ(reads, CN, haplotypes, GT, t, ploidy, NN, len(reads), U, inbreeding)), 0, i)))
        invariant(implies(frequencies is not None, exp(total_ljoint) == ESUM(arrx1(lambda t: LJF(reads, CN, haplotypes, GT, t, ploidy, NN, len(reads), frequencies, U, inbreeding)), 0, i)))
        invariant(implies(frequencies is None, forall(0, i, lambda t: LJ(reads, CN, haplotypes, GT, t, ploidy, NN, len(reads), U, inbreeding) <= mode_ljoint)))
        invariant(implies(frequencies is not None, forall(0, i, lambda t: LJF(reads, CN, haplotypes, GT, t, ploidy, NN, len(reads), frequencies, U, inbreeding) <= mode_ljoint)))
        invariant(implies(not isninf(mode_ljoint), mode_llk == LLKA(reads, CN, haplotypes, GT[mode_idx], ploidy, NN, len(reads))))
        invariant(implies(not isninf(mode_ljoint) and frequencies is None, mode_ljoint == LJ(reads, CN, haplotypes, GT, mode_idx, ploidy, NN, len(reads), U, inbreeding)))
        invariant(implies(i > T, not isninf(mode_ljoint) and not isninf(total_ljoint)))
        with head():
            lemma_idx_range(genotype, ploidy, U)
            with forall_intro(t, 0, ploidy, genotype[t] < U):
                lemma_sorted_le(genotype, t, ploidy - 1, ploidy)
            lemma_idx_inj(genotype, GT[i], ploidy)
            lemma_llka_ext(reads, CN, haplotypes, genotype, GT[i], ploidy, NN, len(reads))
            lemma_llka_is_llk(reads, CN, haplotypes, genotype, arr2(lambda a, c: haplotypes[genotype[a], c]), ploidy, NN, len(reads))
            lemma_cprior_flat_ext(genotype, GT[i], ploidy, U, inbreeding)
            if frequencies is None:
                unfold(ESUM(arrx1(lambda t: LJ(reads, CN, haplotypes, GT, t, ploidy, NN, len(reads), U, inbreeding)), 0, i + 1))
            if frequencies is not None:
                lemma_cprior_freq_ext(genotype, GT[i], ploidy, frequencies, U, inbreeding)
                unfold(ESUM(arrx1(lambda t: LJF(reads, CN, haplotypes, GT, t, ploidy, NN, len(reads), frequencies, U, inbreeding)), 0, i + 1))
                if i == T:
                    lemma_fprod_pos(frequencies, GT[T], ploidy)
            ax_exp_mono_all()
    with after_stmt("mode_genotype = index_as_genotype_alleles(mode_idx, ploidy)"):
        lemma_idx_inj(mode_genotype, GT[mode_idx], ploidy)


@contract("mchap.calling.exact._posterior_allele_frequencies", machine_ints=True, props=["C03"], ghost_params={"GT": "A[int, 2]"}, variants=[{"read_counts": "None", "frequencies": "None"}, {"read_counts": "some", "frequencies": "some"}])
def _posterior_allele_frequencies(ldenominator: float, reads: A[f8, 3], ploidy: int, haplotypes: A[i1, 2], n_genotypes: int, read_counts: Opt[A[i8, 1]], inbreeding: float, frequencies: Opt[A[f8, 1]]) -> Tup[A[f8, 1], A[f8, 1]]:
    requires(1 <= ploidy, ploidy <= 127, 1 <= U, U <= 127, reads.shape[1] == haplotypes.shape[1], 0 <= inbreeding, inbreeding < 1, finite(ldenominator))
    requires(n_genotypes == cwr(U, ploidy), n_genotypes < 2 ** 53, GTOK(GT, n_genotypes, ploidy, U))
    requires(implies(read_counts is not None, len(read_counts) == len(reads) and forall(0, len(reads), lambda r: read_counts[r] >= 1)))
    requires(CALLOK(reads, haplotypes, U, NN, reads.shape[2], len(reads)))
    requires(implies(frequencies is not None, len(frequencies) == U and forall(0, U, lambda a: finite(frequencies[a]) and frequencies[a] > 0)))
    # C03 (streaming path): the same functionals of the distribution  p_i = exp(log joint_i - log denominator)
    ensures(len(result[0]) == U, len(result[1]) == U)
    ensures(implies(frequencies is None, forall(0, U, lambda a: result[0][a] == ACNT(arrf1(lambda i: exp(LJ(reads, CN, haplotypes, GT, i, ploidy, NN, len(reads), U, inbreeding) - ldenominator)), GT, a, ploidy, n_genotypes) / ploidy)))
    ensures(implies(frequencies is None, forall(0, U, lambda a: result[1][a] == AOCC(arrf1(lambda i: exp(LJ(reads, CN, haplotypes, GT, i, ploidy, NN, len(reads), U, inbreeding) - ldenominator)), GT, a, ploidy, n_genotypes))))
    ensures(implies(frequencies is not None, forall(0, U, lambda a: result[0][a] == ACNT(arrf1(lambda i: exp(LJF(reads, CN, haplotypes, GT, i, ploidy, NN, len(reads), frequencies, U, inbreeding) - ldenominator)), GT, a, ploidy, n_genotypes) / ploidy)))
    ensures(implies(frequencies is not None, forall(0, U, lambda a: result[1][a] == AOCC(arrf1(lambda i: exp(LJF(reads, CN, haplotypes, GT, i, ploidy, NN, len(reads), frequencies, U, inbreeding) - ldenominator)), GT, a, ploidy, n_genotypes))))
    with defs():
        U = len(haplotypes)
        NN = haplotypes.shape[1]
        CN = ones_if_none(read_counts)
        PF = named(arrf1(lambda i: exp(ite(frequencies is None, LJ(reads, CN, haplotypes, GT, i, ploidy, NN, len(reads), U, inbreeding), LJF(reads, CN, haplotypes, GT, i, ploidy, NN, len(reads), frequencies, U, inbreeding)) - ldenominator)))
    with entry():
        lemma_cwr_nonneg(U, ploidy)
        if frequencies is not None:
            lemma_fsum_pos(frequencies, 0, U)
    with after_stmt("genotype = np.zeros(ploidy, np.int64)"):
        lemma_idx_zero(genotype, ploidy)
    with after_stmt("occur = np.zeros(n_alleles, dtype=np.float64)"):
        with forall_intro(b, 0, U, ACNT(PF, GT, b, ploidy, 0) == 0 and AOCC(PF, GT, b, ploidy, 0) == 0):
            unfold(ACNT(PF, GT, b, ploidy, 0), AOCC(PF, GT, b, ploidy, 0))
    with loop(0):
        invariant(0 <= _, _ <= n_genotypes, n_alleles == U, len(freqs) == U, len(occur) == U, len(genotype) == ploidy)
        invariant(forall(0, ploidy, lambda t: genotype[t] >= 0), forall(1, ploidy, lambda t: genotype[t - 1] <= genotype[t]), IDX(genotype, ploidy) == _)
        invariant(forall(0, U, lambda b: finite(freqs[b]) and freqs[b] == ACNT(PF, GT, b, ploidy, _)))
        invariant(forall(0, U, lambda b: finite(occur[b]) and occur[b] == AOCC(PF, GT, b, ploidy, _)))
        with head():
            lemma_idx_range(genotype, ploidy, U)
            with forall_intro(t, 0, ploidy, genotype[t] < U):
                lemma_sorted_le(genotype, t, ploidy - 1, ploidy)
            lemma_idx_inj(genotype, GT[_], ploidy)
            lemma_llka_ext(reads, CN, haplotypes, genotype, GT[_], ploidy, NN, len(reads))
            lemma_llka_is_llk(reads, CN, haplotypes, genotype, arr2(lambda a, c: haplotypes[genotype[a], c]), ploidy, NN, len(reads))
            lemma_cprior_flat_ext(genotype, GT[_], ploidy, U, inbreeding)
            if frequencies is not None:
                lemma_cprior_freq_ext(genotype, GT[_], ploidy, frequencies, U, inbreeding)
            with forall_intro(b, 0, U, CNT(genotype, b, 0) == 0 and CNT(GT[_], b, ploidy) == CNT(genotype, b, ploidy)):
                unfold(CNT(genotype, b, 0))
                lemma_cnt_ext(genotype, GT[_], b, ploidy)
    with after_stmt("prob = np.exp(ljoint - ldenominator)"):
        assert_(prob == PF[_])
    with loop(1):
        invariant(0 <= i, i <= ploidy, len(freqs) == U, len(occur) == U)
        invariant(forall(0, U, lambda b: finite(freqs[b]) and freqs[b] == ACNT(PF, GT, b, ploidy, _) + prob * CNT(genotype, b, i)))
        invariant(forall(0, U, lambda b: finite(occur[b]) and occur[b] == AOCC(PF, GT, b, ploidy, _) + ite(CNT(genotype, b, i) > 0, real(prob), 0.0)))
        with head():
            with forall_intro(b, 0, U, CNT(genotype, b, i + 1) == CNT(genotype, b, i) + ite(genotype[i] == b, 1, 0) and CNT(genotype, b, i) >= 0):
                unfold(CNT(genotype, b, i + 1))
                lemma_cnt_range(genotype, b, i)
            if i >= 1:
                if genotype[i] != genotype[i - 1]:
                    with forall_intro(t, 0, i, genotype[t] != genotype[i]):
                        lemma_sorted_le(genotype, t, i - 1, ploidy)
                    lemma_cnt_zero_below(genotype, genotype[i], i)
                else:
                    lemma_cnt_pos(genotype, i, i - 1)
        with after():
            with forall_intro(b, 0, U, ACNT(PF, GT, b, ploidy, _ + 1) == ACNT(PF, GT, b, ploidy, _) + prob * CNT(genotype, b, ploidy) and AOCC(PF, GT, b, ploidy, _ + 1) == AOCC(PF, GT, b, ploidy, _) + ite(CNT(genotype, b, ploidy) > 0, real(prob), 0.0)):
                unfold(ACNT(PF, GT, b, ploidy, _ + 1), AOCC(PF, GT, b, ploidy, _ + 1))
