# helper kernels used by the assemble sampler steps (mchap/jitutils.py, mchap/assemble/prior.py)


@spec_inline
def ROWEQ(G: A[int, 2], a: int, b: int, lo: int, hi: int) -> bool:
    """haplotypes a and b carry the same alleles on [lo, hi)"""
    return forall(lo, hi, lambda c: G[a, c] == G[b, c])


@contract("mchap.jitutils.array_equal", machine_ints=True, props=["C01", "C09", "C05"])
def array_equal(x: A[i1, 1], y: A[i1, 1], interval: Opt[A[i8, 1]]) -> bool:
    requires(implies(interval is None, len(y) >= len(x)))
    requires(implies(interval is not None, len(interval) == 2 and 0 <= interval[0] and interval[1] <= len(x) and interval[1] <= len(y)))
    ensures(result == forall(LO, HI, lambda c: x[c] == y[c]))
    with defs():
        LO = ite(interval is None, 0, interval[0])
        HI = ite(interval is None, len(x), interval[1])
    with loop(0):
        invariant(forall(LO, i, lambda c: x[c] == y[c]))


@spec
def NCOPIES(G: A[int, 2], h: int, N: int, n: int) -> int:
    """number of haplotypes i < n, i != h, equal to haplotype h"""
    decreases(n)
    if n <= 0:
        return 0
    return NCOPIES(G, h, N, n - 1) + ite(n - 1 != h and ROWEQ(G, n - 1, h, 0, N), 1, 0)


@contract("mchap.jitutils.count_haplotype_copies", machine_ints=True, props=["C01", "C09"])
def count_haplotype_copies(genotype: A[i1, 2], h: int) -> int:
    requires(0 <= h, h < len(genotype))
    # copies of haplotype h in the genotype, counting h itself
    ensures(result == 1 + NCOPIES(genotype, h, genotype.shape[1], len(genotype)))
    ensures(result >= 1, result <= len(genotype))
    with entry():
        unfold(NCOPIES(genotype, h, genotype.shape[1], 0))
    with loop(0):
        invariant(0 <= i, i <= ploidy, ploidy == len(genotype))
        invariant(count == 1 + NCOPIES(genotype, h, genotype.shape[1], i))
        invariant(count >= 1, count <= 1 + i - ite(h < i, 1, 0))
        with head():
            unfold(NCOPIES(genotype, h, genotype.shape[1], i + 1))


@spec
def NEQ(G: A[int, 2], h: int, lo: int, hi: int, n: int) -> int:
    """number of haplotypes i < n equal to haplotype h on [lo, hi)  (h itself included when n > h)"""
    decreases(n)
    if n <= 0:
        return 0
    return NEQ(G, h, lo, hi, n - 1) + ite(ROWEQ(G, n - 1, h, lo, hi), 1, 0)


@lemma(shared=True)
def lemma_neq_range(G: A[int, 2], h: int, lo: int, hi: int, n: int):
    requires(n >= 0)
    ensures(0 <= NEQ(G, h, lo, hi, n), NEQ(G, h, lo, hi, n) <= n)
    decreases(n)
    unfold(NEQ(G, h, lo, hi, n))
    if n > 0:
        lemma_neq_range(G, h, lo, hi, n - 1)


@lemma(shared=True)
def lemma_neq_cong(G: A[int, 2], a: int, b: int, lo: int, hi: int, n: int):
    """equal haplotypes have the same number of equals (symmetry and transitivity of ROWEQ)"""
    requires(ROWEQ(G, a, b, lo, hi))
    ensures(NEQ(G, a, lo, hi, n) == NEQ(G, b, lo, hi, n))
    decreases(n)
    unfold(NEQ(G, a, lo, hi, n), NEQ(G, b, lo, hi, n))
    if n > 0:
        lemma_neq_cong(G, a, b, lo, hi, n - 1)


@lemma(shared=True)
def lemma_neq_mono(G: A[int, 2], h: int, lo: int, hi: int, m: int, n: int):
    requires(0 <= m, m <= n)
    ensures(NEQ(G, h, lo, hi, m) <= NEQ(G, h, lo, hi, n))
    decreases(n - m)
    if m < n:
        unfold(NEQ(G, h, lo, hi, n))
        lemma_neq_mono(G, h, lo, hi, m, n - 1)


@spec_inline
def DOSE(G: A[int, 2], h: int, lo: int, hi: int, P: int) -> int:
    """dosage of haplotype h: its number of copies if h is the first copy, else 0"""
    return ite(NEQ(G, h, lo, hi, h) == 0, NEQ(G, h, lo, hi, P), 0)


@contract("mchap.jitutils.get_haplotype_dosage", machine_ints=True, props=["C01", "C09", "C05"])
def get_haplotype_dosage(dosage: A[i1, 1], genotype: A[i1, 2], interval: Opt[A[i8, 1]]):
    requires(len(dosage) == len(genotype), len(genotype) <= 127)
    requires(implies(interval is not None, len(interval) == 2 and 0 <= interval[0] and interval[1] <= genotype.shape[1]))
    modifies(dosage)
    ensures(forall(0, len(dosage), lambda a: 0 <= dosage[a] and dosage[a] <= len(genotype)))
    # each haplotype's first copy carries the number of copies, later copies carry 0
    ensures(forall(0, len(dosage), lambda a: dosage[a] == DOSE(genotype, a, LO, HI, len(genotype))))
    with defs():
        LO = ite(interval is None, 0, interval[0])
        HI = ite(interval is None, genotype.shape[1], interval[1])
    with entry():
        with forall_intro(q, 0, len(genotype), NEQ(genotype, q, LO, HI, 0) == 0):
            unfold(NEQ(genotype, q, LO, HI, 0))
    with loop(0):
        invariant(0 <= h, h <= ploidy, ploidy == len(genotype), len(dosage) == ploidy)
        invariant(forall(0, h, lambda q: dosage[q] == DOSE(genotype, q, LO, HI, ploidy)))
        invariant(forall(h, ploidy, lambda q: dosage[q] == ite(NEQ(genotype, q, LO, HI, h) > 0, 0, 1)))
        with head():
            with forall_intro(q, 0, ploidy, NEQ(genotype, q, LO, HI, h + 1) == NEQ(genotype, q, LO, HI, h) + ite(ROWEQ(genotype, h, q, LO, HI), 1, 0) and NEQ(genotype, q, LO, HI, h) >= 0):
                unfold(NEQ(genotype, q, LO, HI, h + 1))
                lemma_neq_range(genotype, q, LO, HI, h)
            with forall_intro(q, 0, ploidy, implies(ROWEQ(genotype, h, q, LO, HI), NEQ(genotype, q, LO, HI, h) == NEQ(genotype, h, LO, HI, h))):
                if ROWEQ(genotype, h, q, LO, HI):
                    lemma_neq_cong(genotype, h, q, LO, HI, h)
    with exit_():
        with forall_intro(q, 0, len(genotype), 0 <= NEQ(genotype, q, LO, HI, len(genotype)) and NEQ(genotype, q, LO, HI, len(genotype)) <= len(genotype)):
            lemma_neq_range(genotype, q, LO, HI, len(genotype))
    with loop(1):
        invariant(h + 1 <= p, p <= ploidy, len(dosage) == ploidy, NEQ(genotype, h, LO, HI, h) == 0)
        invariant(dosage[h] == NEQ(genotype, h, LO, HI, p), dosage[h] >= 1)
        invariant(forall(0, h, lambda q: dosage[q] == DOSE(genotype, q, LO, HI, ploidy)))
        invariant(forall(h + 1, p, lambda q: dosage[q] == ite(NEQ(genotype, q, LO, HI, h + 1) > 0, 0, 1)))
        invariant(forall(p, ploidy, lambda q: dosage[q] == ite(NEQ(genotype, q, LO, HI, h) > 0, 0, 1)))
        with head():
            unfold(NEQ(genotype, h, LO, HI, p + 1))
            lemma_neq_range(genotype, h, LO, HI, p)
            if ROWEQ(genotype, p, h, LO, HI):
                lemma_neq_cong(genotype, p, h, LO, HI, h)
