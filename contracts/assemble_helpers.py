# helper kernels used by the assemble sampler steps (mchap/jitutils.py, mchap/assemble/prior.py)


@spec_inline
def ROWEQ(G: A[int, 2], a: int, b: int, lo: int, hi: int) -> bool:
    """haplotypes a and b carry the same alleles on [lo, hi)"""
    return forall(lo, hi, lambda c: G[a, c] == G[b, c])


@contract("mchap.jitutils.array_equal", machine_ints=True, props=["C01", "C09", "C05"])
def array_equal(x: A[i1, 1], y: A[i1, 1], interval: Opt[A[i8, 1]]) -> bool:
    requires(implies(interval is None, len(y) >= len(x)))
    requires(implies(interval is not None, len(interval) == 2 and 0 <= interval[0] and interval[1] <= len(x) and interval[1] <= len(y)))
    ensures(result == forall(LO, HI, lambda c: x[c] == y[c]))
    with defs():
        LO = ite(interval is None, 0, interval[0])
        HI = ite(interval is None, len(x), interval[1])
    with loop(0):
        invariant(forall(LO, i, lambda c: x[c] == y[c]))


@spec
def NCOPIES(G: A[int, 2], h: int, N: int, n: int) -> int:
    """number of haplotypes i < n, i != h, equal to haplotype h"""
    decreases(n)
    if n <= 0:
        return 0
    return NCOPIES(G, h, N, n - 1) + ite(n - 1 != h and ROWEQ(G, n - 1, h, 0, N), 1, 0)


@contract("mchap.jitutils.count_haplotype_copies", machine_ints=True, props=["C01", "C09"])
def count_haplotype_copies(genotype: A[i1, 2], h: int) -> int:
    requires(0 <= h, h < len(genotype))
    # copies of haplotype h in the genotype, counting h itself
    ensures(result == 1 + NCOPIES(genotype, h, genotype.shape[1], len(genotype)))
    ensures(result >= 1, result <= len(genotype))
    with entry():
        unfold(NCOPIES(genotype, h, genotype.shape[1], 0))
    with loop(0):
        invariant(0 <= i, i <= ploidy, ploidy == len(genotype))
        invariant(count == 1 + NCOPIES(genotype, h, genotype.shape[1], i))
        invariant(count >= 1, count <= 1 + i - ite(h < i, 1, 0))
        with head():
            unfold(NCOPIES(genotype, h, genotype.shape[1], i + 1))


@contract("mchap.jitutils.get_haplotype_dosage", machine_ints=True, props=["C01", "C09"])
def get_haplotype_dosage(dosage: A[i1, 1], genotype: A[i1, 2], interval: Opt[A[i8, 1]]):
    requires(len(dosage) == len(genotype), len(genotype) <= 127)
    requires(implies(interval is not None, len(interval) == 2 and 0 <= interval[0] and interval[1] <= genotype.shape[1]))
    modifies(dosage)
    ensures(forall(0, len(dosage), lambda a: 0 <= dosage[a] and dosage[a] <= len(genotype)))
    with loop(0):
        invariant(0 <= h, h <= ploidy, ploidy == len(genotype))
        invariant(forall(0, ploidy, lambda a: 0 <= dosage[a] and dosage[a] <= ite(a < h, ploidy - a, 1)))
    with loop(1):
        invariant(h + 1 <= p, p <= ploidy)
        invariant(forall(0, ploidy, lambda a: 0 <= dosage[a] and dosage[a] <= ite(a < h, ploidy - a, ite(a == h, p - h, 1))))
        invariant(dosage[h] >= 1)
