# C09 / C02 / C04 -- mchap/calling/likelihood.py : likelihood of a genotype given as allele indices into a
# table of known haplotypes, and its cache (numba typed dict keyed by the genotype's G-field index)


@spec
def ARP(reads: A[float, 3], H: A[int, 2], g: A[int, 1], r: int, h: int, N: int, P: int) -> float:
    """sum over the copies h' < h of RHP(read r, haplotype H[g[h']]) / P   (h == P: the mean)"""
    decreases(h)
    if h <= 0:
        return 0.0
    return ARP(reads, H, g, r, h - 1, N, P) + RHP(reads, H, r, g[h - 1], N) / P


@spec
def LLKA(reads: A[float, 3], counts: A[int, 1], H: A[int, 2], g: A[int, 1], P: int, N: int, n: int) -> xfloat:
    """sum over reads r < n of count_r * log(mean over the genotype's haplotypes of the product over SNVs)"""
    decreases(n)
    if n <= 0:
        return 0.0
    return LLKA(reads, counts, H, g, P, N, n - 1) + log(ARP(reads, H, g, n - 1, P, N, P)) * counts[n - 1]


@lemma(shared=True)
def lemma_arp_is_rp(reads: A[float, 3], H: A[int, 2], g: A[int, 1], G: A[int, 2], r: int, h: int, N: int, P: int):
    """the allele-index form agrees with the mixture likelihood of the gathered genotype G[a] = H[g[a]]"""
    requires(h >= 0, N >= 0, forall(0, h, lambda a: forall(0, N, lambda c: G[a, c] == H[g[a], c])))
    ensures(RP(reads, G, r, h, N, P) == ARP(reads, H, g, r, h, N, P))
    decreases(h)
    unfold(RP(reads, G, r, h, N, P), ARP(reads, H, g, r, h, N, P))
    if h >= 1:
        lemma_arp_is_rp(reads, H, g, G, r, h - 1, N, P)
        lemma_rhp_row(reads, H, G, r, g[h - 1], h - 1, N)


@lemma(shared=True)
def lemma_llka_is_llk(reads: A[float, 3], counts: A[int, 1], H: A[int, 2], g: A[int, 1], G: A[int, 2], P: int, N: int, n: int):
    requires(P >= 0, N >= 0, n >= 0, forall(0, P, lambda a: forall(0, N, lambda c: G[a, c] == H[g[a], c])))
    ensures(same(LLK(reads, counts, G, P, N, n), LLKA(reads, counts, H, g, P, N, n)))
    decreases(n)
    unfold(LLK(reads, counts, G, P, N, n), LLKA(reads, counts, H, g, P, N, n))
    if n >= 1:
        lemma_llka_is_llk(reads, counts, H, g, G, P, N, n - 1)
        lemma_arp_is_rp(reads, H, g, G, n - 1, P, N, P)


@lemma(shared=True)
def lemma_arp_as_fsum(reads: A[float, 3], H: A[int, 2], g: A[int, 1], r: int, h: int, N: int, P: int):
    requires(h >= 0)
    ensures(ARP(reads, H, g, r, h, N, P) == FSUM(arrf1(lambda t: RHP(reads, H, r, g[t], N) / P), 0, h))
    decreases(h)
    unfold(ARP(reads, H, g, r, h, N, P), FSUM(arrf1(lambda t: RHP(reads, H, r, g[t], N) / P), 0, h))
    if h >= 1:
        lemma_arp_as_fsum(reads, H, g, r, h - 1, N, P)


@lemma(shared=True)
def lemma_arp_perm(reads: A[float, 3], H: A[int, 2], g: A[int, 1], g2: A[int, 1], p: A[int, 1], q: A[int, 1], r: int, N: int, P: int):
    requires(P >= 0, BIJ(p, q, P), forall(0, P, lambda h: g2[h] == g[p[h]]))
    ensures(ARP(reads, H, g2, r, P, N, P) == ARP(reads, H, g, r, P, N, P))
    lemma_arp_as_fsum(reads, H, g, r, P, N, P)
    lemma_arp_as_fsum(reads, H, g2, r, P, N, P)
    lemma_fsum_perm(arrf1(lambda t: RHP(reads, H, r, g[t], N) / P), arrf1(lambda t: RHP(reads, H, r, g2[t], N) / P), p, q, P)


@lemma(shared=True)
def lemma_llka_perm(reads: A[float, 3], counts: A[int, 1], H: A[int, 2], g: A[int, 1], g2: A[int, 1], p: A[int, 1], q: A[int, 1], P: int, N: int, n: int):
    """the likelihood depends on the genotype as a multiset of alleles (sorted genotypes, cache keys)"""
    requires(P >= 0, n >= 0, BIJ(p, q, P), forall(0, P, lambda h: g2[h] == g[p[h]]))
    ensures(same(LLKA(reads, counts, H, g2, P, N, n), LLKA(reads, counts, H, g, P, N, n)))
    decreases(n)
    unfold(LLKA(reads, counts, H, g2, P, N, n), LLKA(reads, counts, H, g, P, N, n))
    if n >= 1:
        lemma_llka_perm(reads, counts, H, g, g2, p, q, P, N, n - 1)
        lemma_arp_perm(reads, H, g, g2, p, q, n - 1, N, P)


@lemma(shared=True)
def lemma_arp_ext(reads: A[float, 3], H: A[int, 2], g: A[int, 1], g2: A[int, 1], r: int, h: int, N: int, P: int):
    requires(forall(0, h, lambda a: g2[a] == g[a]))
    ensures(ARP(reads, H, g2, r, h, N, P) == ARP(reads, H, g, r, h, N, P))
    decreases(h)
    unfold(ARP(reads, H, g2, r, h, N, P), ARP(reads, H, g, r, h, N, P))
    if h >= 1:
        lemma_arp_ext(reads, H, g, g2, r, h - 1, N, P)


@lemma(shared=True)
def lemma_llka_ext(reads: A[float, 3], counts: A[int, 1], H: A[int, 2], g: A[int, 1], g2: A[int, 1], P: int, N: int, n: int):
    requires(forall(0, P, lambda a: g2[a] == g[a]))
    ensures(same(LLKA(reads, counts, H, g2, P, N, n), LLKA(reads, counts, H, g, P, N, n)))
    decreases(n)
    unfold(LLKA(reads, counts, H, g2, P, N, n), LLKA(reads, counts, H, g, P, N, n))
    if n >= 1:
        lemma_llka_ext(reads, counts, H, g, g2, P, N, n - 1)
        lemma_arp_ext(reads, H, g, g2, n - 1, P, N, P)


@spec_inline
def CALLOK(reads: A[xfloat, 3], H: A[int, 2], U: int, N: int, NA: int, n: int) -> bool:
    """well-formed inputs of the callers: haplotype alleles index the read tensor; cells are probabilities or NaN"""
    return forall(0, U, lambda h: forall(0, N, lambda j: 0 <= H[h, j] and H[h, j] < NA)) and READSOK(reads, n, N, NA)


@contract("mchap.calling.likelihood.log_likelihood_alleles", machine_ints=True, props=["C04", "C09", "C02"])
def log_likelihood_alleles(reads: A[f8, 3], read_counts: Opt[A[i8, 1]], haplotypes: A[i1, 2], genotype_alleles: A[iN, 1]) -> float:
    requires(reads.shape[1] == haplotypes.shape[1], len(genotype_alleles) >= 1)
    requires(implies(read_counts is not None, len(read_counts) == len(reads)))
    requires(forall(0, len(genotype_alleles), lambda h: 0 <= genotype_alleles[h] and genotype_alleles[h] < len(haplotypes)))
    requires(forall(0, len(haplotypes), lambda h: forall(0, haplotypes.shape[1], lambda j: 0 <= haplotypes[h, j] and haplotypes[h, j] < reads.shape[2])))
    requires(READSOK(reads, len(reads), reads.shape[1], reads.shape[2]))
    requires(implies(read_counts is not None, forall(0, len(reads), lambda r: read_counts[r] >= 0 and implies(read_counts[r] == 0, ARP(reads, haplotypes, genotype_alleles, r, len(genotype_alleles), haplotypes.shape[1], len(genotype_alleles)) > 0))))
    ensures(result == LLKA(reads, ones_if_none(read_counts), haplotypes, genotype_alleles, len(genotype_alleles), haplotypes.shape[1], len(reads)))
    with entry():
        with forall_intro(r, 0, len(reads), RP(reads, arr2(lambda a, c: haplotypes[genotype_alleles[a], c]), r, len(genotype_alleles), haplotypes.shape[1], len(genotype_alleles)) == ARP(reads, haplotypes, genotype_alleles, r, len(genotype_alleles), haplotypes.shape[1], len(genotype_alleles))):
            lemma_arp_is_rp(reads, haplotypes, genotype_alleles, arr2(lambda a, c: haplotypes[genotype_alleles[a], c]), r, len(genotype_alleles), haplotypes.shape[1], len(genotype_alleles))
        lemma_llka_is_llk(reads, ones_if_none(read_counts), haplotypes, genotype_alleles, arr2(lambda a, c: haplotypes[genotype_alleles[a], c]), len(genotype_alleles), haplotypes.shape[1], len(reads))


@spec_inline
def VALIDA(g: A[int, 1], P: int, U: int) -> bool:
    return forall(0, P, lambda i: 0 <= g[i] and g[i] < U)


@spec_inline
def SORTEDA(g: A[int, 1], P: int) -> bool:
    return forall(1, P, lambda i: g[i - 1] <= g[i])


@spec_inline
def DCOH(cache: FDict, reads: A[float, 3], counts: A[int, 1], H: A[int, 2], P: int, N: int, n: int, U: int) -> bool:
    """cache coherence: the value stored under the G-field index of a sorted genotype is its likelihood"""
    return forall_arr1(lambda g: implies(VALIDA(g, P, U) and SORTEDA(g, P) and (IDX(g, P) in cache), same(cache[IDX(g, P)], LLKA(reads, counts, H, g, P, N, n))), pattern=IDX(g, P))


@contract("mchap.calling.likelihood.log_likelihood_alleles_cached", machine_ints=True, props=["C09", "C02"])
def log_likelihood_alleles_cached(reads: A[f8, 3], read_counts: Opt[A[i8, 1]], haplotypes: A[i1, 2], genotype_alleles: A[iN, 1], cache: Opt[FDict]) -> float:
    requires(reads.shape[1] == haplotypes.shape[1], len(genotype_alleles) >= 1)
    requires(implies(read_counts is not None, len(read_counts) == len(reads)))
    requires(VALIDA(genotype_alleles, PP, len(haplotypes)), CALLOK(reads, haplotypes, len(haplotypes), haplotypes.shape[1], reads.shape[2], len(reads)))
    requires(implies(read_counts is not None, forall(0, len(reads), lambda r: read_counts[r] >= 0 and implies(read_counts[r] == 0, ARP(reads, haplotypes, genotype_alleles, r, PP, haplotypes.shape[1], PP) > 0))))
    # the G-field index of the genotype is exactly representable (C11)
    requires(implies(cache is not None, cwr(len(haplotypes), PP) < 2 ** 53))
    requires(implies(cache is not None, DCOH(cache, reads, CN, haplotypes, PP, haplotypes.shape[1], len(reads), len(haplotypes))))
    modifies(cache)
    # C09: a value served from the cache equals the freshly computed value
    ensures(result == LLKA(reads, CN, haplotypes, genotype_alleles, PP, haplotypes.shape[1], len(reads)))
    ensures(implies(cache is not None, DCOH(cache, reads, CN, haplotypes, PP, haplotypes.shape[1], len(reads), len(haplotypes))))
    with defs():
        PP = len(genotype_alleles)
        CN = ones_if_none(read_counts)
    with before_call("genotype_alleles_as_index", 0):
        S = genotype_alleles_as_index_arg_alleles
        with forall_intro(i, 0, PP, 0 <= S[i] and S[i] < len(haplotypes)):
            assert_(S[i] == genotype_alleles[sort0(i)])
        lemma_cwr_mono_n(S[PP - 1] + 1, len(haplotypes), PP)
    with after_stmt("key = genotype_alleles_as_index(np.sort(genotype_alleles))"):
        # the likelihood of the sorted genotype is the likelihood of the genotype
        lemma_llka_perm(reads, CN, haplotypes, genotype_alleles, S, arr1(lambda i: sort0(i)), arr1(lambda i: sort0_inv(i)), PP, haplotypes.shape[1], len(reads))
        instantiate(DCOH(cache, reads, CN, haplotypes, PP, haplotypes.shape[1], len(reads), len(haplotypes)), S)
    with after_stmt("cache[key] = llk"):
        with forall_intro_arr1(g2, implies(VALIDA(g2, PP, len(haplotypes)) and SORTEDA(g2, PP) and (IDX(g2, PP) in cache), same(cache[IDX(g2, PP)], LLKA(reads, CN, haplotypes, g2, PP, haplotypes.shape[1], len(reads)))), pattern=IDX(g2, PP)):
            if VALIDA(g2, PP, len(haplotypes)) and SORTEDA(g2, PP):
                if IDX(g2, PP) == key:
                    lemma_idx_inj(g2, S, PP)
                    lemma_llka_ext(reads, CN, haplotypes, S, g2, PP, haplotypes.shape[1], len(reads))
                else:
                    instantiate(DCOH(old(cache), reads, CN, haplotypes, PP, haplotypes.shape[1], len(reads), len(haplotypes)), g2)
