# shared vocabulary: finite sums are invariant under a permutation of the index set
# (used for: likelihood invariant to the order of haplotypes / reads, sorted genotypes, cache keys)


@spec_inline
def BIJ(p: A[int, 1], q: A[int, 1], n: int) -> bool:
    """p and q are mutually inverse bijections of [0, n)"""
    return forall(0, n, lambda i: 0 <= p[i] and p[i] < n and q[p[i]] == i and 0 <= q[i] and q[i] < n and p[q[i]] == i)


@lemma(shared=True)
def lemma_fsum_perm(a: A[float, 1], b: A[float, 1], p: A[int, 1], q: A[int, 1], n: int):
    """b[i] = a[p[i]] for a bijection p of [0,n):  FSUM(b) == FSUM(a)"""
    requires(n >= 0, BIJ(p, q, n), forall(0, n, lambda i: real(b[i]) == real(a[p[i]])))
    ensures(FSUM(b, 0, n) == FSUM(a, 0, n))
    decreases(n)
    unfold(FSUM(a, 0, n), FSUM(b, 0, n))
    if n > 0:
        m = p[n - 1]
        # move a[n-1] into slot m and route the index that pointed to n-1 to m
        a2 = arrf1(lambda t: ite(t == m, real(a[n - 1]), real(a[t])))
        p2 = arr1(lambda t: ite(p[t] == n - 1, m, p[t]))
        q2 = arr1(lambda t: ite(t == m, q[n - 1], q[t]))
        lemma_fsum_perm(a2, b, p2, q2, n - 1)
        if m < n - 1:
            lemma_fsum_upd(a, a2, 0, n - 1, m)
        else:
            lemma_fsum_ext(a, a2, 0, n - 1)


@lemma(shared=True)
def lemma_isum_perm(a: A[int, 1], b: A[int, 1], p: A[int, 1], q: A[int, 1], n: int):
    """b[i] = a[p[i]] for a bijection p of [0,n):  ISUM(b) == ISUM(a)"""
    requires(n >= 0, BIJ(p, q, n), forall(0, n, lambda i: b[i] == a[p[i]]))
    ensures(ISUM(b, 0, n) == ISUM(a, 0, n))
    decreases(n)
    unfold(ISUM(a, 0, n), ISUM(b, 0, n))
    if n > 0:
        m = p[n - 1]
        a2 = arr1(lambda t: ite(t == m, a[n - 1], a[t]))
        p2 = arr1(lambda t: ite(p[t] == n - 1, m, p[t]))
        q2 = arr1(lambda t: ite(t == m, q[n - 1], q[t]))
        lemma_isum_perm(a2, b, p2, q2, n - 1)
        if m < n - 1:
            lemma_isum_upd(a, a2, 0, n - 1, m)
        else:
            lemma_isum_ext(a, a2, 0, n - 1)
