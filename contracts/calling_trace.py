# C14 -- mchap/calling/classes.py, mchap/calling/utils.py : summaries of a trace of allele-index genotypes


@spec
def SCNT(G: A[int, 3], a: int, P: int, c: int, s: int) -> int:
    """copies of allele a summed over the first s steps of chain c"""
    decreases(s)
    if s <= 0:
        return 0
    return SCNT(G, a, P, c, s - 1) + CNT(G[c, s - 1], a, P)


@spec
def TCNT(G: A[int, 3], a: int, P: int, S: int, c: int) -> int:
    """... summed over all S steps of the first c chains"""
    decreases(c)
    if c <= 0:
        return 0
    return TCNT(G, a, P, S, c - 1) + SCNT(G, a, P, c - 1, S)


@spec
def SOCC(G: A[int, 3], a: int, P: int, c: int, s: int) -> int:
    """number of the first s steps of chain c whose genotype contains allele a"""
    decreases(s)
    if s <= 0:
        return 0
    return SOCC(G, a, P, c, s - 1) + ite(CNT(G[c, s - 1], a, P) > 0, 1, 0)


@spec
def TOCC(G: A[int, 3], a: int, P: int, S: int, c: int) -> int:
    decreases(c)
    if c <= 0:
        return 0
    return TOCC(G, a, P, S, c - 1) + SOCC(G, a, P, c - 1, S)


@contract("mchap.calling.classes._posterior_frequencies", machine_ints=True, props=["C14"])
def _posterior_frequencies(genotypes: A[iN, 3], n_allele: int) -> Tup[A[f8, 1], A[f8, 1], A[f8, 1]]:
    requires(n_allele >= 1, NC >= 1, NS >= 1, P >= 1, NC * NS <= 2 ** 40, P <= 2 ** 20)
    requires(forall(0, NC, lambda c: forall(0, NS, lambda s: forall(0, P, lambda i: 0 <= genotypes[c, s, i] and genotypes[c, s, i] < n_allele))))
    # C14: allele counts / frequencies / occurrence probabilities are the empirical means over all retained steps of all chains
    ensures(len(result[0]) == n_allele, len(result[1]) == n_allele, len(result[2]) == n_allele)
    ensures(forall(0, n_allele, lambda a: result[1][a] * (NC * NS) == TCNT(genotypes, a, P, NS, NC)))
    ensures(forall(0, n_allele, lambda a: result[0][a] * (NC * NS) * P == TCNT(genotypes, a, P, NS, NC)))
    ensures(forall(0, n_allele, lambda a: result[2][a] * (NC * NS) == TOCC(genotypes, a, P, NS, NC)))
    with defs():
        NC = genotypes.shape[0]
        NS = genotypes.shape[1]
        P = genotypes.shape[2]
    with entry():
        with forall_intro(b, 0, n_allele, TCNT(genotypes, b, P, NS, 0) == 0 and TOCC(genotypes, b, P, NS, 0) == 0):
            unfold(TCNT(genotypes, b, P, NS, 0), TOCC(genotypes, b, P, NS, 0))
    with loop(0):
        invariant(0 <= c, c <= n_chain, n_chain == NC, n_step == NS, ploidy == P, len(counts) == n_allele, len(occurrence) == n_allele)
        invariant(forall(0, n_allele, lambda b: finite(counts[b]) and counts[b] == TCNT(genotypes, b, P, NS, c)))
        invariant(forall(0, n_allele, lambda b: finite(occurrence[b]) and occurrence[b] == TOCC(genotypes, b, P, NS, c)))
        with head():
            with forall_intro(b, 0, n_allele, SCNT(genotypes, b, P, c, 0) == 0 and SOCC(genotypes, b, P, c, 0) == 0 and TCNT(genotypes, b, P, NS, c + 1) == TCNT(genotypes, b, P, NS, c) + SCNT(genotypes, b, P, c, NS) and TOCC(genotypes, b, P, NS, c + 1) == TOCC(genotypes, b, P, NS, c) + SOCC(genotypes, b, P, c, NS)):
                unfold(SCNT(genotypes, b, P, c, 0), SOCC(genotypes, b, P, c, 0), TCNT(genotypes, b, P, NS, c + 1), TOCC(genotypes, b, P, NS, c + 1))
    with loop(1):
        invariant(0 <= s, s <= n_step, len(counts) == n_allele, len(occurrence) == n_allele)
        invariant(forall(0, n_allele, lambda b: finite(counts[b]) and counts[b] == TCNT(genotypes, b, P, NS, c) + SCNT(genotypes, b, P, c, s)))
        invariant(forall(0, n_allele, lambda b: finite(occurrence[b]) and occurrence[b] == TOCC(genotypes, b, P, NS, c) + SOCC(genotypes, b, P, c, s)))
        with head():
            with forall_intro(b, 0, n_allele, CNT(genotypes[c, s], b, 0) == 0 and SCNT(genotypes, b, P, c, s + 1) == SCNT(genotypes, b, P, c, s) + CNT(genotypes[c, s], b, P) and SOCC(genotypes, b, P, c, s + 1) == SOCC(genotypes, b, P, c, s) + ite(CNT(genotypes[c, s], b, P) > 0, 1, 0)):
                unfold(CNT(genotypes[c, s], b, 0), SCNT(genotypes, b, P, c, s + 1), SOCC(genotypes, b, P, c, s + 1))
    with loop(2):
        invariant(0 <= i, i <= ploidy, len(counts) == n_allele, len(occurrence) == n_allele)
        invariant(forall(0, n_allele, lambda b: finite(counts[b]) and counts[b] == TCNT(genotypes, b, P, NS, c) + SCNT(genotypes, b, P, c, s) + CNT(genotypes[c, s], b, i)))
        invariant(forall(0, n_allele, lambda b: finite(occurrence[b]) and occurrence[b] == TOCC(genotypes, b, P, NS, c) + SOCC(genotypes, b, P, c, s) + ite(CNT(genotypes[c, s], b, i) > 0, 1, 0)))
        with head():
            with forall_intro(b, 0, n_allele, CNT(genotypes[c, s], b, i + 1) == CNT(genotypes[c, s], b, i) + ite(genotypes[c, s, i] == b, 1, 0) and CNT(genotypes[c, s], b, i) >= 0):
                unfold(CNT(genotypes[c, s], b, i + 1))
                lemma_cnt_range(genotypes[c, s], b, i)
            unfold(CNT(genotypes[c, s], genotypes[c, s, i], 0))
    with loop(3):
        invariant(0 <= j, j <= i, first == (CNT(genotypes[c, s], a, j) == 0), a == genotypes[c, s, i])
        with head():
            unfold(CNT(genotypes[c, s], a, j + 1))
            lemma_cnt_range(genotypes[c, s], a, j)


@contract("mchap.calling.utils.posterior_as_array", machine_ints=True, props=["C14", "C03"])
def posterior_as_array(observed_genotypes: A[iN, 2], observed_probabilities: A[f8, 1], unique_genotypes: int) -> A[f8, 1]:
    requires(P >= 1, len(observed_probabilities) == NO, unique_genotypes >= 0, unique_genotypes < 2 ** 53)
    # the observed genotypes are sorted allele tuples whose G-field index is in range, and pairwise distinct
    requires(forall(0, NO, lambda i: forall(0, P, lambda t: observed_genotypes[i, t] >= 0) and SORTEDA(observed_genotypes[i], P)))
    requires(forall(0, NO, lambda i: cwr(observed_genotypes[i, P - 1] + 1, P) <= unique_genotypes))
    requires(forall(0, NO, lambda i: forall(0, NO, lambda j: implies(i != j, IDX(observed_genotypes[i], P) != IDX(observed_genotypes[j], P)))))
    # C14 / C03: the G-ordered array carries each observed probability at the VCF position of its genotype and zero elsewhere
    ensures(len(result) == unique_genotypes)
    ensures(forall(0, NO, lambda i: same(result[IDX(observed_genotypes[i], P)], observed_probabilities[i])))
    ensures(forall(0, unique_genotypes, lambda k: implies(forall(0, NO, lambda i: IDX(observed_genotypes[i], P) != k), result[k] == 0)))
    with defs():
        NO = observed_genotypes.shape[0]
        P = observed_genotypes.shape[1]
    with loop(0):
        invariant(0 <= i, i <= n_observed, n_observed == NO, len(probabilities) == unique_genotypes)
        invariant(forall(0, i, lambda t: same(probabilities[IDX(observed_genotypes[t], P)], observed_probabilities[t])))
        invariant(forall(0, unique_genotypes, lambda k: implies(forall(0, i, lambda t: IDX(observed_genotypes[t], P) != k), same(probabilities[k], 0.0))))
