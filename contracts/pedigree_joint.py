# C18 -- the Markov blanket is sufficient: the joint pedigree prior (sum over ALL individuals of the log probability of
# the trio in which the individual is the child) splits into the blanket probability of an individual t, which the
# sampler evaluates, and a rest that does not read t's genotype.  Hence the ratio of blanket probabilities used by
# the Metropolis-Hastings moves IS the ratio of the joint prior, for every pedigree (founders, duos, trios,
# half-sibs, selfing, multi-generation), with the children matrix as sample_children_matrix builds it.
#
# TRIO (the pmf of one trio) stays abstract: prior.trio_log_pmf is an assumed contract.


@spec
def JOINT(SG: A[int, 2], ploidy: A[int, 1], parents: A[int, 2], tau: A[int, 2], lam: A[float, 2], err: A[float, 2], lf: A[xfloat, 1], NS: int, n: int) -> xfloat:
    """log joint inheritance probability of the first n individuals given their parents"""
    decreases(n)
    if n <= 0:
        return 0.0
    return JOINT(SG, ploidy, parents, tau, lam, err, lf, NS, n - 1) + TRIOI(n - 1, SG, ploidy, parents, tau, lam, err, lf, NS)


@spec
def REST(t: int, SG: A[int, 2], ploidy: A[int, 1], parents: A[int, 2], tau: A[int, 2], lam: A[float, 2], err: A[float, 2], lf: A[xfloat, 1], NS: int, n: int) -> xfloat:
    """the trios in which t is neither the child nor a parent"""
    decreases(n)
    if n <= 0:
        return 0.0
    return REST(t, SG, ploidy, parents, tau, lam, err, lf, NS, n - 1) + ite(n - 1 == t or ISCH(parents, n - 1, t), 0.0, TRIOI(n - 1, SG, ploidy, parents, tau, lam, err, lf, NS))


@spec
def BLC(t: int, SG: A[int, 2], ploidy: A[int, 1], parents: A[int, 2], tau: A[int, 2], lam: A[float, 2], err: A[float, 2], lf: A[xfloat, 1], NS: int, n: int) -> xfloat:
    """the trios of the children of t among the first n individuals"""
    decreases(n)
    if n <= 0:
        return 0.0
    return BLC(t, SG, ploidy, parents, tau, lam, err, lf, NS, n - 1) + ite(ISCH(parents, n - 1, t), TRIOI(n - 1, SG, ploidy, parents, tau, lam, err, lf, NS), 0.0)


@spec_inline
def CHOK(children: A[int, 2], parents: A[int, 2], NS: int, MC: int) -> bool:
    """the postcondition of sample_children_matrix"""
    return forall(0, NS, lambda c: forall(0, NS, lambda p: implies(ISCH(parents, c, p), CC(parents, p, c) < MC and children[p, CC(parents, p, c)] == c))) and forall(0, NS, lambda p: forall(0, MC, lambda x: ite(x < CC(parents, p, NS), 0 <= children[p, x] and children[p, x] < NS and ISCH(parents, children[p, x], p), children[p, x] == -1))) and forall(0, NS, lambda p: CC(parents, p, NS) <= MC)


@spec_inline
def IGNP(SG: A[int, 2], SG2: A[int, 2], ploidy: A[int, 1], parents: A[int, 2], tau: A[int, 2], lam: A[float, 2], err: A[float, 2], lf: A[xfloat, 1], NS: int) -> bool:
    """HYPOTHESIS about the assumed trio pmf: for an individual with an unknown parent the code passes the wrapped-around row
    `sample_genotypes[-1]` with ploidy 0 and error 1, and the pmf ignores that row (checked at run time, rt/r_C18.py)"""
    return forall(0, NS, lambda i: implies((parents[i, 0] < 0 or parents[i, 1] < 0) and SG2[i] == SG[i] and implies(parents[i, 0] >= 0, SG2[parents[i, 0]] == SG[parents[i, 0]]) and implies(parents[i, 1] >= 0, SG2[parents[i, 1]] == SG[parents[i, 1]]), TRIOI(i, SG2, ploidy, parents, tau, lam, err, lf, NS) == TRIOI(i, SG, ploidy, parents, tau, lam, err, lf, NS)))


@lemma(props=["C18"])
def lemma_joint_split(t: int, SG: A[int, 2], ploidy: A[int, 1], parents: A[int, 2], tau: A[int, 2], lam: A[float, 2], err: A[float, 2], lf: A[xfloat, 1], NS: int, n: int):
    requires(0 <= t, t < NS, 0 <= n, n <= NS, forall(0, NS, lambda x: parents[x, 0] != x and parents[x, 1] != x))
    ensures(JOINT(SG, ploidy, parents, tau, lam, err, lf, NS, n) == REST(t, SG, ploidy, parents, tau, lam, err, lf, NS, n) + BLC(t, SG, ploidy, parents, tau, lam, err, lf, NS, n) + ite(t < n, TRIOI(t, SG, ploidy, parents, tau, lam, err, lf, NS), 0.0))
    decreases(n)
    unfold(JOINT(SG, ploidy, parents, tau, lam, err, lf, NS, n), REST(t, SG, ploidy, parents, tau, lam, err, lf, NS, n), BLC(t, SG, ploidy, parents, tau, lam, err, lf, NS, n))
    if n >= 1:
        lemma_joint_split(t, SG, ploidy, parents, tau, lam, err, lf, NS, n - 1)


@lemma(props=["C18"])
def lemma_blc_chsum(t: int, SG: A[int, 2], ploidy: A[int, 1], parents: A[int, 2], children: A[int, 2], tau: A[int, 2], lam: A[float, 2], err: A[float, 2], lf: A[xfloat, 1], NS: int, MC: int, n: int):
    """summing over the individuals whose parent is t == summing over row t of the children matrix"""
    requires(0 <= t, t < NS, 0 <= n, n <= NS, CHOK(children, parents, NS, MC))
    ensures(BLC(t, SG, ploidy, parents, tau, lam, err, lf, NS, n) == CHSUM(t, CC(parents, t, n), SG, ploidy, parents, children, tau, lam, err, lf, NS))
    decreases(n)
    unfold(BLC(t, SG, ploidy, parents, tau, lam, err, lf, NS, n), CC(parents, t, n))
    lemma_cc_nonneg(parents, t, n)
    if n >= 1:
        lemma_blc_chsum(t, SG, ploidy, parents, children, tau, lam, err, lf, NS, MC, n - 1)
        lemma_cc_nonneg(parents, t, n - 1)
        if ISCH(parents, n - 1, t):
            unfold(CHSUM(t, CC(parents, t, n - 1) + 1, SG, ploidy, parents, children, tau, lam, err, lf, NS))
    else:
        unfold(CHSUM(t, 0, SG, ploidy, parents, children, tau, lam, err, lf, NS))


@lemma(props=["C18"])
def lemma_rest_same(t: int, SG: A[int, 2], SG2: A[int, 2], ploidy: A[int, 1], parents: A[int, 2], tau: A[int, 2], lam: A[float, 2], err: A[float, 2], lf: A[xfloat, 1], NS: int, n: int):
    """the rest does not read the genotype of t"""
    requires(0 <= t, t < NS, 0 <= n, n <= NS, forall(0, NS, lambda x: -1 <= parents[x, 0] and parents[x, 0] < NS and -1 <= parents[x, 1] and parents[x, 1] < NS))
    requires(forall(0, NS, lambda x: implies(x != t, SG2[x] == SG[x])), IGNP(SG, SG2, ploidy, parents, tau, lam, err, lf, NS))
    ensures(REST(t, SG2, ploidy, parents, tau, lam, err, lf, NS, n) == REST(t, SG, ploidy, parents, tau, lam, err, lf, NS, n))
    decreases(n)
    unfold(REST(t, SG2, ploidy, parents, tau, lam, err, lf, NS, n), REST(t, SG, ploidy, parents, tau, lam, err, lf, NS, n))
    if n >= 1:
        lemma_rest_same(t, SG, SG2, ploidy, parents, tau, lam, err, lf, NS, n - 1)
        if not (n - 1 == t or ISCH(parents, n - 1, t)):
            if parents[n - 1, 0] >= 0 and parents[n - 1, 1] >= 0:
                unfold(TRIOI(n - 1, SG2, ploidy, parents, tau, lam, err, lf, NS), TRIOI(n - 1, SG, ploidy, parents, tau, lam, err, lf, NS))


@lemma(props=["C18"])
def lemma_blanket_sufficient(t: int, SG: A[int, 2], SG2: A[int, 2], ploidy: A[int, 1], parents: A[int, 2], children: A[int, 2], tau: A[int, 2], lam: A[float, 2], err: A[float, 2], lf: A[xfloat, 1], NS: int, MC: int):
    """joint prior = (a factor that does not depend on t's genotype) x (Markov-blanket probability of t)"""
    requires(0 <= t, t < NS, MC >= 0, CHOK(children, parents, NS, MC))
    requires(forall(0, NS, lambda x: -1 <= parents[x, 0] and parents[x, 0] < NS and -1 <= parents[x, 1] and parents[x, 1] < NS and parents[x, 0] != x and parents[x, 1] != x))
    requires(forall(0, NS, lambda x: implies(x != t, SG2[x] == SG[x])), IGNP(SG, SG2, ploidy, parents, tau, lam, err, lf, NS))
    ensures(JOINT(SG, ploidy, parents, tau, lam, err, lf, NS, NS) == REST(t, SG, ploidy, parents, tau, lam, err, lf, NS, NS) + MBLP(t, SG, ploidy, parents, children, tau, lam, err, lf, NS, MC))
    ensures(JOINT(SG2, ploidy, parents, tau, lam, err, lf, NS, NS) == REST(t, SG, ploidy, parents, tau, lam, err, lf, NS, NS) + MBLP(t, SG2, ploidy, parents, children, tau, lam, err, lf, NS, MC))
    lemma_joint_split(t, SG, ploidy, parents, tau, lam, err, lf, NS, NS)
    lemma_joint_split(t, SG2, ploidy, parents, tau, lam, err, lf, NS, NS)
    lemma_blc_chsum(t, SG, ploidy, parents, children, tau, lam, err, lf, NS, MC, NS)
    lemma_blc_chsum(t, SG2, ploidy, parents, children, tau, lam, err, lf, NS, MC, NS)
    lemma_rest_same(t, SG, SG2, ploidy, parents, tau, lam, err, lf, NS, NS)
    lemma_cc_nonneg(parents, t, NS)
    lemma_nch(children, t, 0, CC(parents, t, NS), MC)
    unfold(MBLP(t, SG, ploidy, parents, children, tau, lam, err, lf, NS, MC), MBLP(t, SG2, ploidy, parents, children, tau, lam, err, lf, NS, MC))
