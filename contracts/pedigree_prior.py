# C17 -- mchap/pedigree/prior.py : building blocks of the gamete enumeration (the inheritance pmf itself and its
# sum-to-one property are bounded R checks: see DESIGN.md)


@spec
def BPROD(par: A[int, 1], gam: A[int, 1], n: int) -> int:
    """product over i < n of C(par[i], gam[i]): ways to draw the gamete's dosage from the parent's without replacement"""
    decreases(n)
    if n <= 0:
        return 1
    return BPROD(par, gam, n - 1) * binom(par[n - 1], gam[n - 1])


@spec
def pow924(n: int) -> int:
    decreases(n)
    if n <= 0:
        return 1
    return 924 * pow924(n - 1)


@lemma
def lemma_binom_le_924(n: int, k: int):
    """C(n, k) <= C(12, 6) = 924 for n <= 12"""
    requires(0 <= n, n <= 12, 0 <= k)
    ensures(0 <= binom(n, k), binom(n, k) <= 924)
    lemma_binom_nonneg(n, k)
    if k <= 12:
        lemma_binom_mono_n(n, 12, k)
        compute(binom(12, 0), binom(12, 1), binom(12, 2), binom(12, 3), binom(12, 4), binom(12, 5), binom(12, 6))
        compute(binom(12, 7), binom(12, 8), binom(12, 9), binom(12, 10), binom(12, 11), binom(12, 12))
    else:
        unfold(binom(n, k))


@contract("mchap.pedigree.prior.dosage_permutations", machine_ints=True, props=["C17"])
def dosage_permutations(gamete_dosage: A[iN, 1], parent_dosage: A[iN, 1]) -> int:
    # proved domain: at most 6 distinct alleles with at most 12 copies each (so that the product fits in int64)
    requires(len(gamete_dosage) <= 6, len(parent_dosage) >= len(gamete_dosage))
    requires(forall(0, len(gamete_dosage), lambda i: 0 <= parent_dosage[i] and parent_dosage[i] <= 12 and 0 <= gamete_dosage[i] and gamete_dosage[i] <= 12))
    # C17: the number of ways the gamete's dosage can be drawn from the parent's copies without replacement
    ensures(result == BPROD(parent_dosage, gamete_dosage, len(gamete_dosage)), result >= 0)
    with entry():
        unfold(BPROD(parent_dosage, gamete_dosage, 0), pow924(0))
        compute(pow924(6))
    with loop(0):
        invariant(0 <= i, i <= len(gamete_dosage), n == BPROD(parent_dosage, gamete_dosage, i), 0 <= n, n <= pow924(i), pow924(i) <= pow924(6), pow924(i) >= 1)
        with head():
            unfold(BPROD(parent_dosage, gamete_dosage, i + 1), pow924(i + 1))
            lemma_binom_le_924(parent_dosage[i], gamete_dosage[i])
            lemma_pow924_mono(i + 1, 6)
            lemma_mul_mono(n, pow924(i), binom(parent_dosage[i], gamete_dosage[i]))
            lemma_mul_mono(binom(parent_dosage[i], gamete_dosage[i]), 924, pow924(i))


@lemma
def lemma_pow924_mono(a: int, b: int):
    requires(0 <= a, a <= b)
    ensures(1 <= pow924(a), pow924(a) <= pow924(b))
    decreases(b)
    unfold(pow924(b), pow924(a))
    if a < b:
        lemma_pow924_mono(a, b - 1)
    if a >= 1:
        lemma_pow924_mono(a - 1, a - 1)


@contract("mchap.pedigree.prior.set_initial_dosage", machine_ints=True, props=["C17"])
def set_initial_dosage(ploidy: int, constraint: A[iN, 1], out: A[iN, 1]):
    requires(0 <= ploidy, ploidy <= 127, len(constraint) >= len(out), forall(0, len(out), lambda i: 0 <= constraint[i]))
    raises(ploidy > ISUM(constraint, 0, len(out)))
    modifies(out)
    # C17: the first gamete of the enumeration: as many copies as allowed, from the left, tau copies in total
    ensures(forall(0, len(out), lambda i: 0 <= out[i] and out[i] <= constraint[i]), ISUM(out, 0, len(out)) == old(ploidy))
    with entry():
        unfold(ISUM(out, 0, 0), ISUM(constraint, 0, 0))
    with loop(0):
        invariant(0 <= i, i <= len(out), 0 <= ploidy, ploidy <= old(ploidy), len(out) == len(old(out)))
        invariant(forall(0, i, lambda t: 0 <= out[t] and out[t] <= constraint[t]), ISUM(out, 0, i) + ploidy == old(ploidy))
        invariant(implies(ploidy > 0, ISUM(out, 0, i) == ISUM(constraint, 0, i)))
        with head():
            unfold(ISUM(constraint, 0, i + 1))
            OUTH = val(out)
        with tail():
            lemma_isum_ext(OUTH, out, 0, i)
            unfold(ISUM(out, 0, i + 1))
    with exit_():
        lemma_isum_pointwise_le(out, constraint, 0, len(out))


@contract("mchap.pedigree.prior.gamete_log_pmf", machine_ints=True, props=["C17"])
def gamete_log_pmf(gamete_dose: A[iN, 1], gamete_ploidy: int, parent_dose: A[iN, 1], parent_ploidy: int, gamete_lambda: float) -> float:
    # proved domain: <= 6 alleles x <= 12 copies; double reduction (lambda > 0) for diploid gametes
    requires(0 <= gamete_lambda, gamete_lambda <= 1, len(gamete_dose) <= 6, len(parent_dose) >= len(gamete_dose), 0 <= gamete_ploidy, gamete_ploidy <= parent_ploidy, 1 <= parent_ploidy, parent_ploidy <= 12)
    requires(forall(0, len(gamete_dose), lambda i: 0 <= parent_dose[i] and parent_dose[i] <= 12 and 0 <= gamete_dose[i] and gamete_dose[i] <= 12))
    requires(implies(gamete_lambda > 0, gamete_ploidy == 2 and ISUM(gamete_dose, 0, len(gamete_dose)) == 2))
    # C17: (1 - lambda) x multivariate hypergeometric  +  lambda x (copies of the doubled allele / ploidy)
    ensures(not isnan(result), exp(result) == (BPROD(parent_dose, gamete_dose, len(gamete_dose)) / binom(parent_ploidy, gamete_ploidy)) * (1 - gamete_lambda) + ite(gamete_lambda > 0, (ISUM(arr1(lambda i: ite(gamete_dose[i] == 2, parent_dose[i], 0)), 0, len(gamete_dose)) / parent_ploidy) * gamete_lambda, 0.0))
    with entry():
        lemma_binom_le_924(parent_ploidy, gamete_ploidy)
        lemma_binom_pos(parent_ploidy, gamete_ploidy)
        lemma_isum_nonneg(arr1(lambda i: ite(gamete_dose[i] == 2, parent_dose[i], 0)), 0, len(gamete_dose))
    with before_stmt("return np.log(prob)"):
        ax_exp_log(prob)


@contract("mchap.pedigree.prior.double_reduction_permutations", machine_ints=True, props=["C17"])
def double_reduction_permutations(gamete_dosage: A[iN, 1], parent_dosage: A[iN, 1]) -> int:
    # a diploid gamete: non-negative dosages summing to two
    requires(len(parent_dosage) >= len(gamete_dosage), forall(0, len(gamete_dosage), lambda i: gamete_dosage[i] >= 0), ISUM(gamete_dosage, 0, len(gamete_dosage)) == 2)
    # C17: the parent's copies of the allele the gamete carries twice (0 if it carries two different alleles)
    ensures(result == ISUM(arr1(lambda i: ite(gamete_dosage[i] == 2, parent_dosage[i], 0)), 0, len(gamete_dosage)))
    with entry():
        unfold(ISUM(arr1(lambda i: ite(gamete_dosage[i] == 2, parent_dosage[i], 0)), 0, 0))
    with loop(0):
        invariant(0 <= i, i <= len(gamete_dosage), n == ISUM(arr1(lambda t: ite(gamete_dosage[t] == 2, parent_dosage[t], 0)), 0, i))
        invariant(forall(0, i, lambda t: gamete_dosage[t] == 0 or gamete_dosage[t] == 2))
        with head():
            unfold(ISUM(arr1(lambda t: ite(gamete_dosage[t] == 2, parent_dosage[t], 0)), 0, i + 1))
            if gamete_dosage[i] == 2:
                # every other dosage is zero, so nothing has been counted yet
                with forall_intro(t, 0, i, gamete_dosage[t] == 0):
                    lemma_isum_ge2(gamete_dosage, 0, len(gamete_dosage), t, i)
                lemma_isum_le(arr1(lambda t: ite(gamete_dosage[t] == 2, parent_dosage[t], 0)), 0, i, 0)
                lemma_isum_pointwise_le(arr1(lambda t: 0), arr1(lambda t: ite(gamete_dosage[t] == 2, parent_dosage[t], 0)), 0, i)
                lemma_isum_le(arr1(lambda t: 0), 0, i, 0)
                lemma_isum_nonneg(arr1(lambda t: 0), 0, i)
    with before_stmt("return 0"):
        # a dosage of one (or more than two): no allele is carried exactly twice
        with forall_intro(t, 0, len(gamete_dosage), gamete_dosage[t] != 2):
            if t < i:
                lemma_isum_ge2(gamete_dosage, 0, len(gamete_dosage), t, i)
            if t > i:
                lemma_isum_ge2(gamete_dosage, 0, len(gamete_dosage), i, t)
            lemma_isum_ge(gamete_dosage, 0, len(gamete_dosage), i)
        lemma_isum_le(arr1(lambda t: ite(gamete_dosage[t] == 2, parent_dosage[t], 0)), 0, len(gamete_dosage), 0)
        lemma_isum_pointwise_le(arr1(lambda t: 0), arr1(lambda t: ite(gamete_dosage[t] == 2, parent_dosage[t], 0)), 0, len(gamete_dosage))
        lemma_isum_le(arr1(lambda t: 0), 0, len(gamete_dosage), 0)
        lemma_isum_nonneg(arr1(lambda t: 0), 0, len(gamete_dosage))


# ---- dosage arrays of a trio (inputs of the gamete enumeration and of the Mendelian validity test) ----------------


@contract("mchap.pedigree.prior.set_allelic_dosage", machine_ints=True, props=["C17"])
def set_allelic_dosage(genotype_alleles: A[iN, 1], out: A[iN, 1]):
    requires(len(genotype_alleles) <= 127, len(out) == len(genotype_alleles))
    modifies(out)
    # out[j] = copies of allele g[j] if j is its first occurrence (padding, i.e. negative entries, is skipped), else 0
    ensures(forall(0, len(genotype_alleles), lambda j: out[j] == ite(genotype_alleles[j] >= 0 and FIRST(genotype_alleles, j), CNT(genotype_alleles, genotype_alleles[j], len(genotype_alleles)), 0)))
    with entry():
        with forall_intro(q, 0, len(genotype_alleles), CNT(genotype_alleles, genotype_alleles[q], 0) == 0):
            unfold(CNT(genotype_alleles, genotype_alleles[q], 0))
    with after_stmt("j = 0"):
        unfold(CNT(genotype_alleles, a, 0))
    with loop(0):
        invariant(0 <= i, i <= max_ploidy, max_ploidy == len(genotype_alleles), len(out) == max_ploidy)
        invariant(forall(0, max_ploidy, lambda q: 0 <= out[q] and out[q] <= i))
        invariant(forall(0, max_ploidy, lambda q: out[q] == ite(genotype_alleles[q] >= 0 and FIRST(genotype_alleles, q), CNT(genotype_alleles, genotype_alleles[q], i), 0)))
        with head():
            lemma_cnt_range(genotype_alleles, genotype_alleles[i], i)
        with tail():
            with forall_intro(q, 0, max_ploidy, out[q] == ite(genotype_alleles[q] >= 0 and FIRST(genotype_alleles, q), CNT(genotype_alleles, genotype_alleles[q], i + 1), 0)):
                unfold(CNT(genotype_alleles, genotype_alleles[q], i + 1))
                if genotype_alleles[i] >= 0:
                    if q < j:
                        lemma_cnt_pos(genotype_alleles, j, q)
                    if q > j:
                        lemma_cnt_pos(genotype_alleles, q, j)
    with loop(1):
        decreases(i - j + ite(searching, 1, 0))
        invariant(0 <= j, j <= i, a == genotype_alleles[i], a >= 0, CNT(genotype_alleles, a, j) == 0, len(out) == max_ploidy)
        invariant(implies(searching, val(out) == at("loop1", out)))
        invariant(implies(not searching, genotype_alleles[j] == a and forall(0, max_ploidy, lambda q: out[q] == at("loop1", out)[q] + ite(q == j, 1, 0))))
        with head():
            unfold(CNT(genotype_alleles, a, j + 1))
            lemma_cnt_range(genotype_alleles, a, j)


@spec_inline
def PCOPIES(parent: A[int, 1], progeny: A[int, 1], j: int, n: int) -> int:
    """parental copies of the progeny allele at j, reported at the first occurrence of that allele in the progeny"""
    return ite(progeny[j] >= 0 and FIRST(progeny, j), CNT(parent, progeny[j], n), 0)


@contract("mchap.pedigree.prior.set_parental_copies", machine_ints=True, props=["C17"])
def set_parental_copies(parent_alleles: A[iN, 1], progeny_alleles: A[iN, 1], out: A[iN, 1]):
    requires(len(parent_alleles) <= 127, len(out) == len(progeny_alleles))
    modifies(out)
    ensures(forall(0, len(progeny_alleles), lambda j: out[j] == PCOPIES(parent_alleles, progeny_alleles, j, len(parent_alleles))))
    with entry():
        with forall_intro(q, 0, len(progeny_alleles), CNT(parent_alleles, progeny_alleles[q], 0) == 0):
            unfold(CNT(parent_alleles, progeny_alleles[q], 0))
        unfold(CNT(progeny_alleles, parent_alleles[0], 0))
    with loop(0):
        invariant(0 <= i, i <= len(parent_alleles), len(out) == len(progeny_alleles))
        invariant(forall(0, len(progeny_alleles), lambda q: 0 <= out[q] and out[q] <= i))
        invariant(forall(0, len(progeny_alleles), lambda q: out[q] == PCOPIES(parent_alleles, progeny_alleles, q, i)))
        with head():
            hit = -1
            unfold(CNT(progeny_alleles, parent_alleles[i], 0))
        with tail():
            with forall_intro(q, 0, len(progeny_alleles), out[q] == PCOPIES(parent_alleles, progeny_alleles, q, i + 1)):
                unfold(CNT(parent_alleles, progeny_alleles[q], i + 1))
                if hit >= 0 and q > hit:
                    lemma_cnt_pos(progeny_alleles, q, hit)
    with loop(1):
        invariant(0 <= j, j <= len(progeny_alleles), a == parent_alleles[i], a >= 0, hit == -1, CNT(progeny_alleles, a, j) == 0, val(out) == at("loop1", out))
        invariant(forall(0, j, lambda q: progeny_alleles[q] != a))
        with head():
            unfold(CNT(progeny_alleles, a, j + 1))
    with after_stmt("out[j] += 1"):
        hit = j


@contract("mchap.pedigree.prior.set_complimentary_gamete", machine_ints=True, props=["C17"])
def set_complimentary_gamete(dosage: A[iN, 1], gamete: A[iN, 1], out: A[iN, 1]):
    requires(len(gamete) >= len(dosage), len(out) >= len(dosage))
    requires(forall(0, len(dosage), lambda i: 0 <= gamete[i] and gamete[i] <= dosage[i]))
    modifies(out)
    ensures(forall(0, len(dosage), lambda i: out[i] == dosage[i] - gamete[i]), forall(len(dosage), len(out), lambda i: out[i] == old(out)[i]))
    with loop(0):
        invariant(0 <= i, i <= len(dosage), forall(0, i, lambda x: out[x] == dosage[x] - gamete[x]), forall(i, len(out), lambda x: out[x] == old(out)[x]))


@spec
def DUOC(progeny: A[int, 1], parent: A[int, 1], j: int, n: int, dr: bool) -> int:
    """how many copies of the progeny allele at j the parent can have contributed: min(progeny copies, parental copies),
    or 2 when double reduction is possible (a single parental copy transmitted twice)"""
    return ite(dr and ite(progeny[j] >= 0 and FIRST(progeny, j), CNT(progeny, progeny[j], n), 0) >= 2 and PCOPIES(parent, progeny, j, n) == 1, 2, ite(ite(progeny[j] >= 0 and FIRST(progeny, j), CNT(progeny, progeny[j], n), 0) <= PCOPIES(parent, progeny, j, n), ite(progeny[j] >= 0 and FIRST(progeny, j), CNT(progeny, progeny[j], n), 0), PCOPIES(parent, progeny, j, n)))


@spec
def DUOSUM(progeny: A[int, 1], parent: A[int, 1], n: int, dr: bool, m: int) -> int:
    decreases(m)
    if m <= 0:
        return 0
    return DUOSUM(progeny, parent, n, dr, m - 1) + DUOC(progeny, parent, m - 1, n, dr)


@lemma(shared=True)
def lemma_duosum(c: A[int, 1], progeny: A[int, 1], parent: A[int, 1], n: int, dr: bool, m: int):
    requires(forall(0, m, lambda j: c[j] == DUOC(progeny, parent, j, n, dr)))
    ensures(ISUM(c, 0, m) == DUOSUM(progeny, parent, n, dr, m))
    decreases(m)
    unfold(ISUM(c, 0, m), DUOSUM(progeny, parent, n, dr, m))
    if m > 0:
        lemma_duosum(c, progeny, parent, n, dr, m - 1)


@contract("mchap.pedigree.validation.duo_valid", machine_ints=True, props=["C17"])
def duo_valid(progeny: A[iN, 1], parent: A[iN, 1], tau: int, lambda_: float) -> bool:
    requires(len(progeny) <= 127, len(parent) == len(progeny), len(progeny) >= 1)
    raises(lambda_ > 0.0 and tau != 2)
    # C17 (PEDERR): a duo is Mendelian-valid iff the alleles the parent can have contributed cover the gamete ploidy
    ensures(result == (DUOSUM(progeny, parent, len(progeny), lambda_ > 0.0, len(progeny)) >= tau))
    with defs():
        n = len(progeny)
    with after_stmt("constraint_p = np.minimum(dosage, dosage_p)"):
        with forall_intro(x, 0, n, constraint_p[x] == DUOC(progeny, parent, x, n, False)):
            unfold(DUOC(progeny, parent, x, n, False))
    with loop(0):
        invariant(0 <= i, i <= n, len(constraint_p) == n, len(dosage) == n, val(dosage) == at("loop0", dosage))
        invariant(forall(0, i, lambda x: constraint_p[x] == DUOC(progeny, parent, x, n, True)))
        invariant(forall(i, n, lambda x: constraint_p[x] == DUOC(progeny, parent, x, n, False)))
        with head():
            unfold(DUOC(progeny, parent, i, n, True), DUOC(progeny, parent, i, n, False))
    with exit_():
        lemma_duosum(constraint_p, progeny, parent, n, lambda_ > 0.0, n)


# ---- the gamete enumeration: one step ----------------------------------------------------------------------------


@contract("mchap.pedigree.prior.increment_dosage", machine_ints=True, may_raise=True, props=["C17"])
def increment_dosage(dosage: A[iN, 1], constraint: A[iN, 1]):
    requires(n >= 1, n <= 2 ** 20, len(constraint) == n)
    requires(forall(0, n, lambda x: 0 <= dosage[x] and dosage[x] <= constraint[x]), ISUM(dosage, 0, n) >= 1, ISUM(constraint, 0, n) <= 2 ** 40)
    modifies(dosage)
    # C17 (on normal return; the ValueError at the end of the enumeration is left unspecified): the next gamete is again a
    # sub-multiset within the constraint with the same number of copies, and it is strictly smaller in lexicographic order
    # (one position k lost exactly one copy, everything left of k is untouched) -- so the enumeration never leaves
    # the set of admissible gametes, never repeats a gamete and terminates
    ensures(forall(0, n, lambda x: 0 <= dosage[x] and dosage[x] <= constraint[x]))
    ensures(ISUM(dosage, 0, n) == ISUM(old(dosage), 0, n))
    ensures(exists(lambda k: 0 <= k and k < n and dosage[k] == old(dosage)[k] - 1 and forall(0, k, lambda x: dosage[x] == old(dosage)[x]), witness=(i,)))
    with defs():
        n = len(dosage)
    with entry():
        S0 = ISUM(dosage, 0, n)
        lemma_isum_pointwise_le(dosage, constraint, 0, n)
        lemma_isum_zero(dosage, n, n)
        lemma_isum_split(dosage, 0, n, n)
        with forall_intro(x, 0, n, ISUM(constraint, x, n) >= 0 and ISUM(constraint, 0, x) >= 0):
            lemma_isum_nonneg(constraint, x, n)
            lemma_isum_nonneg(constraint, 0, x)
    with loop(0):
        decreases(i)
        invariant(0 <= i, i < n, max_ploidy == n, change == 0, val(dosage) == old(dosage))
        invariant(forall(i + 1, n, lambda x: dosage[x] == 0), ISUM(dosage, 0, i + 1) >= 1)
        with head():
            unfold(ISUM(dosage, 0, i + 1))
            unfold(ISUM(dosage, 0, 0))
    with before_stmt("dosage[i] -= 1", 0):
        SN = val(dosage)
    with after_stmt("dosage[i] -= 1", 0):
        lemma_isum_upd(SN, dosage, 0, n, i)
        K = i
    with loop(1):
        decreases(n - j)
        invariant(i == K, i < j, j <= n, 0 <= change, change <= 1, ISUM(dosage, 0, n) + change == S0)
        invariant(forall(0, n, lambda x: 0 <= dosage[x] and dosage[x] <= constraint[x]))
        invariant(forall(0, i, lambda x: dosage[x] == old(dosage)[x]), dosage[i] == old(dosage)[i] - 1)
        invariant(implies(change > 0, forall(i + 1, j, lambda x: constraint[x] == 0) and forall(i + 1, n, lambda x: dosage[x] == 0)))
    with before_stmt("dosage[j] += 1"):
        SN = val(dosage)
    with after_stmt("dosage[j] += 1"):
        lemma_isum_upd(SN, dosage, 0, n, j)
    with before_stmt("dosage[i] = 0", 0):
        SN = val(dosage)
    with after_stmt("dosage[i] = 0", 0):
        lemma_isum_upd(SN, dosage, 0, n, i)
    with after_stmt("space = constraint[i]"):
        lemma_isum_zero(constraint, i + 1, n)
        lemma_isum_peel_left(constraint, i, n)
        lemma_isum_split(constraint, 0, i, n)
    with loop(2):
        decreases(i + ite(searching, 1, 0))
        invariant(0 <= i, i < n, change >= 1, ISUM(dosage, 0, n) + change == S0, 0 <= space, space <= ISUM(constraint, 0, n))
        invariant(forall(0, n, lambda x: 0 <= dosage[x] and dosage[x] <= constraint[x]))
        invariant(forall(0, i, lambda x: dosage[x] == old(dosage)[x]))
        invariant(implies(searching, space == ISUM(constraint, i, n) and forall(i, n, lambda x: dosage[x] == 0)))
        invariant(implies(not searching, change <= ISUM(constraint, i + 1, n) and forall(i + 1, n, lambda x: dosage[x] == 0) and dosage[i] == old(dosage)[i] - 1))
        with head():
            if i >= 1:
                lemma_isum_peel_left(constraint, i - 1, n)
                lemma_isum_split(constraint, 0, i - 1, n)
            lemma_isum_split(constraint, 0, i, n)
            lemma_isum_nonneg(dosage, 0, n)
            if i >= 1:
                lemma_isum_ge(dosage, 0, n, i - 1)
    with before_stmt("dosage[i] -= 1", 1):
        SN = val(dosage)
    with after_stmt("dosage[i] -= 1", 1):
        lemma_isum_upd(SN, dosage, 0, n, i)
    with before_stmt("dosage[i] = 0", 1):
        SN = val(dosage)
    with after_stmt("dosage[i] = 0", 1):
        lemma_isum_upd(SN, dosage, 0, n, i)
    with loop(3):
        decreases(n - j)
        invariant(0 <= i, i < j, j <= n, 0 <= change, change <= ISUM(constraint, j, n), ISUM(dosage, 0, n) + change == S0)
        invariant(forall(0, n, lambda x: 0 <= dosage[x] and dosage[x] <= constraint[x]), forall(j, n, lambda x: dosage[x] == 0))
        invariant(forall(0, i, lambda x: dosage[x] == old(dosage)[x]), dosage[i] == old(dosage)[i] - 1)
        with head():
            if j >= n:
                unfold(ISUM(constraint, j, n))
            else:
                lemma_isum_peel_left(constraint, j, n)
                lemma_isum_nonneg(constraint, j + 1, n)
    with before_stmt("dosage[j] += value"):
        SN = val(dosage)
    with after_stmt("dosage[j] += value"):
        lemma_isum_upd(SN, dosage, 0, n, j)
