# C15 / C01 / C09 -- mchap/assemble/structural.py


@contract("mchap.assemble.structural.random_breaks", machine_ints=True, props=["C15"], dead_branches=["if len(options) == 0 @1 then"])
def random_breaks(breaks: int, n: int) -> A[i8, 2]:
    requires(0 <= breaks, n <= 2 ** 40)
    raises(breaks >= n)
    # the intervals partition [0, n) into breaks+1 contiguous non-empty intervals
    ensures(result.shape == (breaks + 1, 2))
    ensures(result[0, 0] == 0, result[breaks, 1] == n)
    ensures(forall(0, breaks + 1, lambda i: result[i, 0] < result[i, 1]))
    ensures(forall(0, breaks, lambda i: result[i, 1] == result[i + 1, 0]))
    ensures(forall(0, breaks + 1, lambda i: 0 <= result[i, 0] and result[i, 1] <= n))
    with before_stmt("indicies[0] = False"):
        lemma_bcount_all(indicies, 0, n + 1)
        I0 = val(indicies)
    with after_stmt("indicies[0] = False"):
        lemma_bcount_clear(I0, indicies, 0, n + 1, 0)
        I1 = val(indicies)
    with after_stmt("indicies[-1] = False"):
        lemma_bcount_clear(I1, indicies, 0, n + 1, n)
    with loop(0):
        invariant(0 <= _, _ <= breaks, len(indicies) == n + 1)
        invariant(not indicies[0], not indicies[n])
        invariant(BCOUNT(indicies, 0, n + 1) == n - 1 - _)
        with head():
            IB = val(indicies)
    with after_stmt("indicies[point] = False"):
        lemma_bcount_clear(IB, indicies, 0, n + 1, point)
    with after_stmt("points = np.where(~indicies)[0]"):
        pass
    with before_stmt("points = np.where(~indicies)[0]"):
        NI = arrb1(lambda t: not indicies[t])
        lemma_bcount_not(indicies, NI, 0, n + 1)
    with loop(1):
        invariant(0 <= i, i <= breaks + 1, len(points) == breaks + 2, intervals.shape == (breaks + 1, 2))
        invariant(forall(0, i, lambda t: intervals[t, 0] == points[t] and intervals[t, 1] == points[t + 1]))
    with exit_():
        assert_(points[where_rank1(0)] == 0)
        assert_(points[where_rank1(n)] == n)


# The label / option enumerators are small pure integer functions on (ploidy, 2) label matrices.  The two counting
# functions (*_n_options) are PROVED against recursive counting specs (RNOPT, DNOPT).  The labelling function and the
# two option enumerators stay ASSUMED (trusted=True): shapes, ranges and "every option has a way back" (its own option
# count is >= 1).  They are checked at run time on the real functions for every label matrix with entries in [0, P),
# P <= 3 (thorough: 4), and seeded ones up to ploidy 6 (rt/r_C01.py check_option_functions); their combinatorial
# meaning (neighbourhood symmetry) is also what the exhaustive detailed-balance check decides.


@contract("mchap.assemble.structural._label_haplotypes", machine_ints=True, props=["C01", "C09"])
def _label_haplotypes(labels: A[i1, 1], genotype: A[i1, 2], interval: Opt[A[i8, 1]]):
    requires(len(labels) == len(genotype), len(genotype) >= 1, len(genotype) <= 127)
    requires(implies(interval is not None, len(interval) == 2 and 0 <= interval[0] and interval[1] <= genotype.shape[1]))
    modifies(labels)
    # every label is the index of a haplotype at or before the labelled one
    ensures(forall(0, len(genotype), lambda h: 0 <= labels[h] and labels[h] <= h))
    with loop(0):
        invariant(ploidy == len(genotype), n_base == genotype.shape[1], len(labels) == ploidy)
        invariant(forall(0, ploidy, lambda h: 0 <= labels[h] and labels[h] <= h))
    with loop(1):
        invariant(1 <= j, j <= ploidy, forall(0, ploidy, lambda h: 0 <= labels[h] and labels[h] <= h))
    with loop(2):
        invariant(j + 1 <= k, k <= ploidy, forall(0, ploidy, lambda h: 0 <= labels[h] and labels[h] <= h))


@contract("mchap.assemble.structural._interval_inverse_mask", machine_ints=True, props=["C01", "C09"])
def _interval_inverse_mask(interval: Opt[A[i8, 1]], n: int) -> A[b1, 1]:
    requires(n >= 0, implies(interval is not None, len(interval) == 2 and 0 <= interval[0] and interval[1] <= n))
    ensures(len(result) == n)
    # True exactly outside the interval
    ensures(forall(0, n, lambda c: result[c] == (interval is not None and not (LO <= c and c < HI))))
    with defs():
        LO = ite(interval is None, 0, interval[0])
        HI = ite(interval is None, 0, interval[1])


@contract("mchap.assemble.structural.haplotype_segment_labels", machine_ints=True, props=["C01", "C09"])
def haplotype_segment_labels(genotype: A[i1, 2], interval: Opt[A[i8, 1]]) -> A[i1, 2]:
    requires(len(genotype) >= 1, len(genotype) <= 127)
    requires(implies(interval is not None, len(interval) == 2 and 0 <= interval[0] and interval[1] <= genotype.shape[1]))
    ensures(result.shape == (len(genotype), 2))
    ensures(forall(0, len(genotype), lambda h: 0 <= result[h, 0] and result[h, 0] < len(genotype) and 0 <= result[h, 1] and result[h, 1] < len(genotype)))


@spec_inline
def RECSW(O: A[int, 2], L: A[int, 2], P: int, a: int, b: int) -> bool:
    """O is L with the interval labels (column 0) of the haplotypes a < b exchanged; a and b differ inside and outside the interval"""
    return 0 <= a and a < b and b < P and L[a, 0] != L[b, 0] and L[a, 1] != L[b, 1] and forall(0, P, lambda h: O[h, 1] == L[h, 1] and O[h, 0] == ite(h == a, L[b, 0], ite(h == b, L[a, 0], L[h, 0])))


@contract("mchap.assemble.structural.recombination_step_options", machine_ints=True, props=["C01", "C09"])
def recombination_step_options(labels: A[i1, 2]) -> A[i1, 3]:
    requires(labels.shape[1] == 2, len(labels) <= 127)
    requires(forall(0, len(labels), lambda h: 0 <= labels[h, 0] and labels[h, 0] < len(labels)))
    ensures(result.shape[1] == len(labels), result.shape[2] == 2, len(result) == RNOPT(labels, len(labels)))
    ensures(forall(lambda i, h: implies(0 <= i and i < len(result) and 0 <= h and h < len(labels), 0 <= result[i, h, 0] and result[i, h, 0] < len(labels))))
    # every option exchanges the interval segments of two haplotypes that differ inside and outside the interval ...
    ensures(forall(0, len(result), lambda i: exists(lambda a, b: RECSW(result[i], labels, len(labels), a, b), witness=(WA[i], WB[i]))))
    # ... and (lemma_recombination_reversible) can be undone: the reverse proposal count is at least one
    ensures(forall(0, len(result), lambda i: RNOPT(result[i], len(labels)) >= 1))
    with defs():
        P = len(labels)
    with before_call("comb"):
        lemma_binom2(P)
        lemma_pairs_binom(P)
        lemma_binom_nonneg(P, 2)
    with loop(0):
        invariant(0 <= i, i <= max_options, max_options == binom(P, 2), ploidy == P, options.shape == (max_options, P, 2))
        invariant(forall(lambda o, h, c: implies(0 <= o and o < i and 0 <= h and h < P and 0 <= c and c < 2, options[o, h, c] == labels[h, c])))
    with loop(1):
        invariant(0 <= j, j <= P)
        invariant(forall(lambda o, h, c: implies(0 <= o and o < i and 0 <= h and h < P and 0 <= c and c < 2, options[o, h, c] == labels[h, c])))
        invariant(forall(lambda h, c: implies(0 <= h and h < j and 0 <= c and c < 2, options[i, h, c] == labels[h, c])))
    with loop(2):
        invariant(0 <= k, k <= 2)
        invariant(forall(lambda o, h, c: implies(0 <= o and o < i and 0 <= h and h < P and 0 <= c and c < 2, options[o, h, c] == labels[h, c])))
        invariant(forall(lambda h, c: implies(0 <= h and h < j and 0 <= c and c < 2, options[i, h, c] == labels[h, c])))
        invariant(forall(0, k, lambda c: options[i, j, c] == labels[j, c]))
    with after_stmt("opt = 0"):
        unfold(RCNT(labels, P, 0), PAIRS(P, 0))
        WA = arr1(lambda t: 0)
        WB = arr1(lambda t: 0)
    with loop(3):
        invariant(0 <= h_0, h_0 <= P, opt == RCNT(labels, P, h_0), 0 <= opt, opt <= PAIRS(P, h_0), PAIRS(P, h_0) <= PAIRS(P, P), max_options == PAIRS(P, P), options.shape == (max_options, P, 2))
        invariant(forall(0, P, lambda a: dosage[a] == DOSE(labels, a, 0, 2, P)))
        invariant(forall(lambda o, h, c: implies(opt <= o and o < max_options and 0 <= h and h < P and 0 <= c and c < 2, options[o, h, c] == labels[h, c])))
        invariant(forall(0, opt, lambda o: RECSW(options[o], labels, P, WA[o], WB[o])))
        with head():
            unfold(RCNT(labels, P, h_0 + 1), PAIRS(P, h_0 + 1))
            unfold(RCIN(labels, P, h_0, h_0 + 1))
            lemma_rcin_le(labels, P, h_0, P)
            lemma_pairs_closed(P, h_0)
            lemma_pairs_closed(P, h_0 + 1)
            lemma_pairs_closed(P, P)
    with loop(4):
        invariant(h_0 + 1 <= h_1, h_1 <= P, opt == RCNT(labels, P, h_0) + RCIN(labels, P, h_0, h_1), 0 <= opt, RCIN(labels, P, h_0, h_1) <= h_1 - h_0 - 1, opt < max_options or h_1 == P, options.shape == (max_options, P, 2))
        invariant(forall(lambda o, h, c: implies(opt <= o and o < max_options and 0 <= h and h < P and 0 <= c and c < 2, options[o, h, c] == labels[h, c])))
        invariant(forall(0, opt, lambda o: RECSW(options[o], labels, P, WA[o], WB[o])))
        with head():
            unfold(RCIN(labels, P, h_0, h_1 + 1))
            lemma_rcin_le(labels, P, h_0, h_1 + 1)
            lemma_rcin_le(labels, P, h_0, h_1)
    with before_stmt("opt += 1"):
        WA = arr1(lambda t: ite(t == opt, h_0, WA[t]))
        WB = arr1(lambda t: ite(t == opt, h_1, WB[t]))
    with before_stmt("return options[0:opt]"):
        unfold(RNOPT(labels, P))
        with forall_intro(o, 0, opt, RNOPT(options[o], P) >= 1):
            lemma_recombination_reversible(labels, options[o], P, WA[o], WB[o])


@spec_inline
def DOSSW(O: A[int, 2], L: A[int, 2], P: int, a: int, b: int) -> bool:
    """O is L with the interval label (column 0) of haplotype a overwritten by that of haplotype b; the two segments differ
    and a's segment is not the only copy of that segment"""
    return 0 <= a and a < P and 0 <= b and b < P and L[a, 0] != L[b, 0] and NEQ(L, a, 0, 1, P) >= 2 and forall(0, P, lambda h: O[h, 1] == L[h, 1] and O[h, 0] == ite(h == a, L[b, 0], L[h, 0]))


@contract("mchap.assemble.structural.dosage_step_options", machine_ints=True, props=["C01", "C09"])
def dosage_step_options(labels: A[i1, 2]) -> A[i1, 3]:
    requires(labels.shape[1] == 2, len(labels) >= 1, len(labels) <= 127)
    requires(forall(0, len(labels), lambda h: 0 <= labels[h, 0] and labels[h, 0] < len(labels)))
    ensures(result.shape[1] == len(labels), result.shape[2] == 2, len(result) == DNOPT(labels, len(labels)))
    ensures(forall(lambda i, h: implies(0 <= i and i < len(result) and 0 <= h and h < len(labels), 0 <= result[i, h, 0] and result[i, h, 0] < len(labels))))
    # every option overwrites the interval segment of one haplotype (whose segment is not the last copy) by a different segment ...
    ensures(forall(0, len(result), lambda i: exists(lambda a, b: DOSSW(result[i], labels, len(labels), a, b), witness=(WA[i], WB[i]))))
    # ... and (lemma_dosage_reversible) can be undone
    ensures(forall(0, len(result), lambda i: DNOPT(result[i], len(labels)) >= 1))
    with defs():
        P = len(labels)
    with after_call("get_haplotype_dosage", 1):
        with forall_intro(a, 0, P, segment_dosage[a] == DOSE(labels, a, 0, 1, P)):
            lemma_neq_ext(get_haplotype_dosage_arg_genotype, labels, a, 0, 1, a)
            lemma_neq_ext(get_haplotype_dosage_arg_genotype, labels, a, 0, 1, P)
    with after_stmt("max_recievers = np.sum(segment_dosage[segment_dosage > 1])"):
        lemma_msel_sum(msel_res0, segment_dosage, msel_mask0, P)
        lemma_msum_is_mr(segment_dosage, msel_mask0, labels, P, P)
    with before_stmt("max_donors = np.sum(segment_dosage > 0) - 1"):
        lemma_mr_bound(labels, P, P)
    with after_stmt("max_donors = np.sum(segment_dosage > 0) - 1"):
        lemma_bcount_is_nsegf(cmp_res1, labels, P, P)
        lemma_bcount_range(cmp_res1, 0, P)
        lemma_dosage_options_bound(labels, P)
        unfold(DNOPT(labels, P))
        lemma_mul_bound(max_recievers, max_donors, 127 * 127, 127)
    with loop(0):
        invariant(0 <= i, i <= max_options, ploidy == P, options.shape == (max_options, P, 2))
        invariant(forall(lambda o, h, c: implies(0 <= o and o < i and 0 <= h and h < P and 0 <= c and c < 2, options[o, h, c] == labels[h, c])))
    with loop(1):
        invariant(0 <= j, j <= P)
        invariant(forall(lambda o, h, c: implies(0 <= o and o < i and 0 <= h and h < P and 0 <= c and c < 2, options[o, h, c] == labels[h, c])))
        invariant(forall(lambda h, c: implies(0 <= h and h < j and 0 <= c and c < 2, options[i, h, c] == labels[h, c])))
    with loop(2):
        invariant(0 <= k, k <= 2)
        invariant(forall(lambda o, h, c: implies(0 <= o and o < i and 0 <= h and h < P and 0 <= c and c < 2, options[o, h, c] == labels[h, c])))
        invariant(forall(lambda h, c: implies(0 <= h and h < j and 0 <= c and c < 2, options[i, h, c] == labels[h, c])))
        invariant(forall(0, k, lambda c: options[i, j, c] == labels[j, c]))
    with after_stmt("opt = 0"):
        unfold(DCNT(labels, P, 0))
        WA = arr1(lambda t: 0)
        WB = arr1(lambda t: 0)
    with loop(3):
        invariant(0 <= h_0, h_0 <= P, opt == DCNT(labels, P, h_0), 0 <= opt, DCNT(labels, P, P) <= max_options, options.shape == (max_options, P, 2))
        invariant(forall(0, P, lambda a: haplotype_dosage[a] == DOSE(labels, a, 0, 2, P)), forall(0, P, lambda a: segment_dosage[a] == DOSE(labels, a, 0, 1, P)))
        invariant(forall(lambda o, h, c: implies(opt <= o and o < max_options and 0 <= h and h < P and 0 <= c and c < 2, options[o, h, c] == labels[h, c])))
        invariant(forall(0, opt, lambda o: DOSSW(options[o], labels, P, WA[o], WB[o])))
        with head():
            unfold(DCNT(labels, P, h_0 + 1))
            unfold(DCIN(labels, P, h_0, 0))
            lemma_dcnt_mono(labels, P, h_0 + 1, P)
            lemma_mult_of_later_copy(labels, h_0, 0, 1, P)
            lemma_neq_range(labels, h_0, 0, 1, h_0)
    with loop(4):
        invariant(0 <= h_1, h_1 <= P, opt == DCNT(labels, P, h_0) + DCIN(labels, P, h_0, h_1), 0 <= opt, options.shape == (max_options, P, 2))
        invariant(forall(lambda o, h, c: implies(opt <= o and o < max_options and 0 <= h and h < P and 0 <= c and c < 2, options[o, h, c] == labels[h, c])))
        invariant(forall(0, opt, lambda o: DOSSW(options[o], labels, P, WA[o], WB[o])))
        with head():
            unfold(DCIN(labels, P, h_0, h_1 + 1))
            lemma_dcin_mono(labels, P, h_0, h_1 + 1, P)
    with before_stmt("opt += 1"):
        WA = arr1(lambda t: ite(t == opt, h_0, WA[t]))
        WB = arr1(lambda t: ite(t == opt, h_1, WB[t]))
    with before_stmt("return options[0:opt]"):
        unfold(DNOPT(labels, P))
        with forall_intro(o, 0, opt, DNOPT(options[o], P) >= 1):
            lemma_dosage_reversible(labels, options[o], P, WA[o], WB[o])


@spec
def RCIN(L: A[int, 2], P: int, h0: int, m: int) -> int:
    """recombination partners of h0 among the haplotypes h0 < h1 < m: first copies that differ from h0 both inside and outside the interval"""
    decreases(m - h0)
    if m <= h0 + 1:
        return 0
    return RCIN(L, P, h0, m - 1) + ite(DOSE(L, m - 1, 0, 2, P) != 0 and L[h0, 0] != L[m - 1, 0] and L[h0, 1] != L[m - 1, 1], 1, 0)


@spec
def RCNT(L: A[int, 2], P: int, k: int) -> int:
    decreases(k)
    if k <= 0:
        return 0
    return RCNT(L, P, k - 1) + ite(DOSE(L, k - 1, 0, 2, P) != 0, RCIN(L, P, k - 1, P), 0)


@spec
def RNOPT(labels: A[int, 2], P: int) -> int:
    """number of recombination options of a label matrix: unordered pairs of distinct haplotypes (first copies) that
    differ both inside and outside the interval"""
    return RCNT(labels, P, P)


@spec
def DCIN(L: A[int, 2], P: int, h0: int, m: int) -> int:
    """donors for h0 among the haplotypes h1 < m: first copies of a segment different from h0's"""
    decreases(m)
    if m <= 0:
        return 0
    return DCIN(L, P, h0, m - 1) + ite(DOSE(L, m - 1, 0, 1, P) != 0 and L[h0, 0] != L[m - 1, 0], 1, 0)


@spec
def DCNT(L: A[int, 2], P: int, k: int) -> int:
    decreases(k)
    if k <= 0:
        return 0
    return DCNT(L, P, k - 1) + ite(DOSE(L, k - 1, 0, 2, P) != 0 and DOSE(L, k - 1, 0, 1, P) != 1, DCIN(L, P, k - 1, P), 0)


@spec
def DNOPT(labels: A[int, 2], P: int) -> int:
    """number of dosage-swap options of a label matrix: (receiver, donor segment) pairs -- the receiver a first copy of a
    haplotype whose segment is not the only copy of that segment, the donor the first copy of a different segment"""
    return DCNT(labels, P, P)


@lemma(shared=True)
def lemma_neq_ext(G: A[int, 2], H: A[int, 2], h: int, lo: int, hi: int, n: int):
    """NEQ reads the columns [lo, hi) only"""
    requires(forall(lambda x, c: implies(0 <= x and lo <= c and c < hi, G[x, c] == H[x, c])), h >= 0)
    ensures(NEQ(G, h, lo, hi, n) == NEQ(H, h, lo, hi, n))
    decreases(n)
    unfold(NEQ(G, h, lo, hi, n), NEQ(H, h, lo, hi, n))
    if n > 0:
        lemma_neq_ext(G, H, h, lo, hi, n - 1)


@contract("mchap.assemble.structural.recombination_step_n_options", machine_ints=True, props=["C01", "C09"])
def recombination_step_n_options(labels: A[i1, 2]) -> int:
    requires(len(labels) <= 127, labels.shape[1] == 2)
    ensures(result == RNOPT(labels, len(labels)), 0 <= result, result <= 2 ** 20)
    with defs():
        P = len(labels)
    with loop(0):
        invariant(0 <= h_0, h_0 <= P, ploidy == P, len(dosage) == P, n == RCNT(labels, P, h_0), 0 <= n, n <= 127 * h_0)
        invariant(forall(0, P, lambda a: dosage[a] == DOSE(labels, a, 0, 2, P)))
        with head():
            unfold(RCNT(labels, P, h_0 + 1))
            unfold(RCIN(labels, P, h_0, h_0 + 1))
    with loop(1):
        invariant(h_0 + 1 <= h_1, h_1 <= P, n == RCNT(labels, P, h_0) + RCIN(labels, P, h_0, h_1), 0 <= n, n <= 127 * h_0 + (h_1 - h_0 - 1))
        with head():
            unfold(RCIN(labels, P, h_0, h_1 + 1))
    with after_stmt("n = 0"):
        unfold(RCNT(labels, P, 0))
    with before_stmt("return n"):
        unfold(RNOPT(labels, P))


@contract("mchap.assemble.structural.dosage_step_n_options", machine_ints=True, props=["C01", "C09"])
def dosage_step_n_options(labels: A[i1, 2]) -> int:
    requires(len(labels) <= 127, labels.shape[1] == 2)
    ensures(result == DNOPT(labels, len(labels)), 0 <= result, result <= 2 ** 20)
    with defs():
        P = len(labels)
    with after_call("get_haplotype_dosage", 1):
        with forall_intro(a, 0, P, segment_dosage[a] == DOSE(labels, a, 0, 1, P)):
            lemma_neq_ext(get_haplotype_dosage_arg_genotype, labels, a, 0, 1, a)
            lemma_neq_ext(get_haplotype_dosage_arg_genotype, labels, a, 0, 1, P)
    with loop(0):
        invariant(0 <= h_0, h_0 <= P, ploidy == P, n == DCNT(labels, P, h_0), 0 <= n, n <= 127 * h_0)
        invariant(forall(0, P, lambda a: haplotype_dosage[a] == DOSE(labels, a, 0, 2, P)), forall(0, P, lambda a: segment_dosage[a] == DOSE(labels, a, 0, 1, P)))
        with head():
            unfold(DCNT(labels, P, h_0 + 1))
            unfold(DCIN(labels, P, h_0, 0))
    with loop(1):
        invariant(0 <= h_1, h_1 <= P, n == DCNT(labels, P, h_0) + DCIN(labels, P, h_0, h_1), 0 <= n, n <= 127 * h_0 + h_1)
        with head():
            unfold(DCIN(labels, P, h_0, h_1 + 1))
    with after_stmt("n = 0"):
        unfold(DCNT(labels, P, 0))
    with before_stmt("return n"):
        unfold(DNOPT(labels, P))


@spec
def SMHLOG(llk_a: float, llk0: float, lp_a: float, lp0: float, temp: float, nret: int, nopt: int) -> float:
    """C01: log Metropolis-Hastings acceptance of one structural proposal at inverse temperature temp:
    min(0, temp * (log-likelihood ratio + log-prior ratio) + log(proposal probability back / proposal probability there))"""
    return min(0.0, ((llk_a - llk0) + (lp_a - lp0)) * temp + (real(log(1 / nret)) - real(log(1 / nopt))))


@contract("mchap.assemble.structural.interval_step", machine_ints=True, props=["C09", "C01"], opt_result={"1": "cache"}, ghost_params={"NA": "A[int, 1]"}, dead_branches=["if step_type == 1 @4 else"])
def interval_step(genotype: A[i1, 2], reads: A[f8, 3], llk: float, log_unique_haplotypes: float, inbreeding: float, interval: Opt[A[i8, 1]], step_type: int, temp: float, read_counts: Opt[A[i8, 1]], cache: Opt[ArrayMap]) -> Tup[float, Opt[ArrayMap]]:
    requires(len(genotype) >= 1, len(genotype) <= 127, reads.shape[1] == genotype.shape[1])
    requires(0 <= temp, temp <= 1, 0 <= inbreeding, inbreeding < 1, finite(log_unique_haplotypes))
    requires(implies(interval is not None, len(interval) == 2 and 0 <= interval[0] and interval[0] <= interval[1] and interval[1] <= genotype.shape[1]))
    requires(implies(read_counts is not None, len(read_counts) == len(reads) and forall(0, len(reads), lambda r: read_counts[r] >= 1)))
    requires(READSOK(reads, len(reads), reads.shape[1], reads.shape[2]))
    # NA (ghost): the number of alleles of each SNV
    requires(forall(0, N, lambda y: 2 <= NA[y] and NA[y] <= reads.shape[2]))
    requires(VALIDG(genotype, NA, P, N), POSREADS(reads, CN, NA, P, N, len(reads)))
    requires(llk == LLK(reads, CN, genotype, P, N, len(reads)))
    requires(implies(cache is not None, AMOK(cache, len(cache[0]), cache[0].shape[1], len(cache[1])) and cache[2] == P * N and forall(0, N, lambda y: NA[y] <= cache[0].shape[1])))
    requires(implies(cache is not None, COH(cache, reads, CN, P, N, len(reads))))
    raises(step_type != 0 and step_type != 1)
    modifies(genotype, cache)
    ensures(result[0] == LLK(reads, CN, genotype, P, N, len(reads)))
    ensures(VALIDG(genotype, NA, P, N))
    ensures(implies(cache is not None, AMOK(result[1], len(result[1][0]), result[1][0].shape[1], len(result[1][1])) and result[1][2] == cache[2] and result[1][0].shape[1] == cache[0].shape[1]))
    ensures(implies(cache is not None, COH(result[1], reads, CN, P, N, len(reads))))
    with defs():
        P = len(genotype)
        N = genotype.shape[1]
        CN = ones_if_none(read_counts)
        LO = ite(interval is None, 0, interval[0])
        HI = ite(interval is None, genotype.shape[1], interval[1])
    with loop(0):
        invariant(0 <= i, i <= n_options, n_options == len(option_labels), n_options >= 1, len(llks) == n_options + 1, len(log_accept) == n_options + 1, len(dosage) == P, ploidy == P)
        invariant(option_labels.shape[1] == P, option_labels.shape[2] == 2)
        invariant(val(genotype) == old(genotype))
        invariant(forall(0, i, lambda a: llks[a] == LLK(reads, CN, arr2(lambda x, y: SCE(old(genotype), option_labels[a, :, 0], LO, HI, x, y)), P, N, len(reads))))
        invariant(forall(0, i, lambda a: not isnan(log_accept[a]) and implies(not isninf(log_accept[a]), log_accept[a] <= 0)))
        invariant(isninf(log_accept[n_options]), not isnan(log_accept[n_options]))
        # C01: the Metropolis-Hastings log acceptance of every proposal (prior of a proposal = prior of its label matrix)
        invariant(lprior == GPRIOR(old(genotype), P, N, log_unique_haplotypes, inbreeding), finite(lprior), log_proposal_prob == log(1 / n_options))
        invariant(forall(0, i, lambda a: log_accept[a] == SMHLOG(real(llks[a]), real(llk), GPRIOR(option_labels[a], P, 2, log_unique_haplotypes, inbreeding), lprior, temp, ite(step_type == 0, RNOPT(option_labels[a], P), DNOPT(option_labels[a], P)), n_options)))
        invariant(implies(cache is not None, AMOK(cache, len(cache[0]), cache[0].shape[1], len(cache[1])) and cache[2] == P * N and forall(0, N, lambda y: NA[y] <= cache[0].shape[1])))
        invariant(implies(cache is not None, COH(cache, reads, CN, P, N, len(reads))))
        with tail():
            unfold(SMHLOG(real(llks[i]), real(llk), GPRIOR(option_labels[i], P, 2, log_unique_haplotypes, inbreeding), lprior, temp, ite(step_type == 0, RNOPT(option_labels[i], P), DNOPT(option_labels[i], P)), n_options))
            assert_(log_accept[i] == SMHLOG(real(llks[i]), real(llk), GPRIOR(option_labels[i], P, 2, log_unique_haplotypes, inbreeding), lprior, temp, ite(step_type == 0, RNOPT(option_labels[i], P), DNOPT(option_labels[i], P)), n_options))
        with head():
            GPI = arr2(lambda x, y: SCE(genotype, option_labels[i, :, 0], LO, HI, x, y))
            assert_(VALIDG(GPI, NA, P, N))
            instantiate(POSREADS(reads, CN, NA, P, N, len(reads)), GPI)
            instantiate(POSREADS(reads, CN, NA, P, N, len(reads)), genotype)
    with after_call("log_genotype_prior", 0):
        unfold(GPRIOR(old(genotype), P, N, log_unique_haplotypes, inbreeding))
        lemma_laprior_ext(dosage, arr1(lambda q: DOSE(old(genotype), q, 0, N, P)), P, log_unique_haplotypes, inbreeding)
    with after_call("log_genotype_prior", 1):
        unfold(GPRIOR(option_labels[i], P, 2, log_unique_haplotypes, inbreeding))
        lemma_laprior_ext(dosage, arr1(lambda q: DOSE(option_labels[i], q, 0, 2, P)), P, log_unique_haplotypes, inbreeding)
    with before_stmt("probabilities[-1] = 1 - probabilities.sum()"):
        # C01: the vector handed to the sampler is proposal probability x Metropolis-Hastings acceptance of every option
        assert_(forall(0, n_options, lambda a: probabilities[a] == exp(SMHLOG(real(llks[a]), real(llk), GPRIOR(option_labels[a], P, 2, log_unique_haplotypes, inbreeding), lprior, temp, ite(step_type == 0, RNOPT(option_labels[a], P), DNOPT(option_labels[a], P)), n_options) - real(log(n_options)))))
        PB = val(probabilities)
        ax_exp_mono_all()
        lemma_exp_neg_log(n_options)
        lemma_fsum_bound(PB, 0, n_options + 1, exp(-real(log(n_options))), n_options)
    with after_stmt("probabilities[-1] = 1 - probabilities.sum()"):
        lemma_fsum_upd(PB, probabilities, 0, n_options + 1, n_options)
    with after_stmt("structural_change(genotype, option_labels[choice, :, 0], interval)"):
        lemma_llk_ext(reads, CN, genotype, arr2(lambda x, y: SCE(old(genotype), option_labels[choice, :, 0], LO, HI, x, y)), P, N, len(reads))


@contract("mchap.assemble.structural.compound_step", machine_ints=True, props=["C15", "C09", "C01"], opt_result={"1": "cache"}, ghost_params={"NA": "A[int, 1]"})
def compound_step(genotype: A[i1, 2], reads: A[f8, 3], llk: float, intervals: A[i8, 2], log_unique_haplotypes: float, inbreeding: float, step_type: int, randomize: bool, temp: float, read_counts: Opt[A[i8, 1]], cache: Opt[ArrayMap]) -> Tup[float, Opt[ArrayMap]]:
    requires(len(genotype) >= 1, len(genotype) <= 127, reads.shape[1] == genotype.shape[1])
    requires(0 <= temp, temp <= 1, 0 <= inbreeding, inbreeding < 1, finite(log_unique_haplotypes))
    requires(step_type == 0 or step_type == 1)
    requires(intervals.shape[1] == 2)
    requires(forall(0, len(intervals), lambda r: 0 <= intervals[r, 0] and intervals[r, 0] <= intervals[r, 1] and intervals[r, 1] <= genotype.shape[1]))
    requires(implies(read_counts is not None, len(read_counts) == len(reads) and forall(0, len(reads), lambda r: read_counts[r] >= 1)))
    requires(READSOK(reads, len(reads), reads.shape[1], reads.shape[2]))
    requires(forall(0, N, lambda y: 2 <= NA[y] and NA[y] <= reads.shape[2]))
    requires(VALIDG(genotype, NA, P, N), POSREADS(reads, CN, NA, P, N, len(reads)))
    requires(llk == LLK(reads, CN, genotype, P, N, len(reads)))
    requires(implies(cache is not None, AMOK(cache, len(cache[0]), cache[0].shape[1], len(cache[1])) and cache[2] == P * N and forall(0, N, lambda y: NA[y] <= cache[0].shape[1])))
    requires(implies(cache is not None, COH(cache, reads, CN, P, N, len(reads))))
    modifies(genotype, cache)
    ensures(result[0] == LLK(reads, CN, genotype, P, N, len(reads)))
    ensures(VALIDG(genotype, NA, P, N))
    ensures(implies(cache is not None, AMOK(result[1], len(result[1][0]), result[1][0].shape[1], len(result[1][1])) and result[1][2] == cache[2] and result[1][0].shape[1] == cache[0].shape[1]))
    ensures(implies(cache is not None, COH(result[1], reads, CN, P, N, len(reads))))
    with defs():
        P = len(genotype)
        N = genotype.shape[1]
        CN = ones_if_none(read_counts)
    with entry():
        interval_step_NA = NA
    with loop(0):
        invariant(0 <= i, i <= n_intervals, n_intervals == len(intervals), intervals.shape[1] == 2)
        # C15: every interval handed to interval_step is a row of the input set (each row once when shuffled)
        invariant(forall(0, n_intervals, lambda r: 0 <= intervals[r, 0] and intervals[r, 0] <= intervals[r, 1] and intervals[r, 1] <= N))
        invariant(implies(randomize, forall(0, n_intervals, lambda r: intervals[r, 0] == old(intervals)[perm0(r), 0] and intervals[r, 1] == old(intervals)[perm0(r), 1])))
        invariant(implies(not randomize, val(intervals) == old(intervals)))
        invariant(llk == LLK(reads, CN, genotype, P, N, len(reads)), VALIDG(genotype, NA, P, N))
        invariant(implies(cache is not None, AMOK(cache, len(cache[0]), cache[0].shape[1], len(cache[1])) and cache[2] == P * N and forall(0, N, lambda y: NA[y] <= cache[0].shape[1])))
        invariant(implies(cache is not None, COH(cache, reads, CN, P, N, len(reads))))
