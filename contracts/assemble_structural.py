# C15 / C01 / C09 -- mchap/assemble/structural.py


@contract("mchap.assemble.structural.random_breaks", machine_ints=True, props=["C15"], dead_branches=["if len(options) == 0 @1 then"])
def random_breaks(breaks: int, n: int) -> A[i8, 2]:
    requires(0 <= breaks, n <= 2 ** 40)
    raises(breaks >= n)
    # the intervals partition [0, n) into breaks+1 contiguous non-empty intervals
    ensures(result.shape == (breaks + 1, 2))
    ensures(result[0, 0] == 0, result[breaks, 1] == n)
    ensures(forall(0, breaks + 1, lambda i: result[i, 0] < result[i, 1]))
    ensures(forall(0, breaks, lambda i: result[i, 1] == result[i + 1, 0]))
    ensures(forall(0, breaks + 1, lambda i: 0 <= result[i, 0] and result[i, 1] <= n))
    with before_stmt("indicies[0] = False"):
        lemma_bcount_all(indicies, 0, n + 1)
        I0 = val(indicies)
    with after_stmt("indicies[0] = False"):
        lemma_bcount_clear(I0, indicies, 0, n + 1, 0)
        I1 = val(indicies)
    with after_stmt("indicies[-1] = False"):
        lemma_bcount_clear(I1, indicies, 0, n + 1, n)
    with loop(0):
        invariant(0 <= _, _ <= breaks, len(indicies) == n + 1)
        invariant(not indicies[0], not indicies[n])
        invariant(BCOUNT(indicies, 0, n + 1) == n - 1 - _)
        with head():
            IB = val(indicies)
    with after_stmt("indicies[point] = False"):
        lemma_bcount_clear(IB, indicies, 0, n + 1, point)
    with after_stmt("points = np.where(~indicies)[0]"):
        pass
    with before_stmt("points = np.where(~indicies)[0]"):
        NI = arrb1(lambda t: not indicies[t])
        lemma_bcount_not(indicies, NI, 0, n + 1)
    with loop(1):
        invariant(0 <= i, i <= breaks + 1, len(points) == breaks + 2, intervals.shape == (breaks + 1, 2))
        invariant(forall(0, i, lambda t: intervals[t, 0] == points[t] and intervals[t, 1] == points[t + 1]))
    with exit_():
        assert_(points[where_rank1(0)] == 0)
        assert_(points[where_rank1(n)] == n)


# The label / option enumerators are small pure integer functions on (ploidy, 2) label matrices.  Their
# contracts below are ASSUMED (trusted=True): shapes and ranges only.  They are checked at run time on the
# real functions for EVERY label matrix up to ploidy 5 (rt/r_C01.py check_option_functions), and their
# combinatorial meaning (neighbourhood symmetry) is what the exhaustive detailed-balance check decides.


@contract("mchap.assemble.structural.haplotype_segment_labels", trusted=True, props=["C01", "C09"])
def haplotype_segment_labels(genotype: A[i1, 2], interval: Opt[A[i8, 1]]) -> A[i1, 2]:
    requires(len(genotype) >= 1, len(genotype) <= 127)
    ensures(result.shape == (len(genotype), 2))
    ensures(forall(0, len(genotype), lambda h: 0 <= result[h, 0] and result[h, 0] < len(genotype) and 0 <= result[h, 1] and result[h, 1] < len(genotype)))


@contract("mchap.assemble.structural.recombination_step_options", trusted=True, props=["C01", "C09"])
def recombination_step_options(labels: A[i1, 2]) -> A[i1, 3]:
    requires(labels.shape[1] == 2)
    ensures(result.shape[1] == len(labels), result.shape[2] == 2)
    ensures(forall(lambda i, h: implies(0 <= i and i < len(result) and 0 <= h and h < len(labels), 0 <= result[i, h, 0] and result[i, h, 0] < len(labels))))


@contract("mchap.assemble.structural.dosage_step_options", trusted=True, props=["C01", "C09"])
def dosage_step_options(labels: A[i1, 2]) -> A[i1, 3]:
    requires(labels.shape[1] == 2)
    ensures(result.shape[1] == len(labels), result.shape[2] == 2)
    ensures(forall(lambda i, h: implies(0 <= i and i < len(result) and 0 <= h and h < len(labels), 0 <= result[i, h, 0] and result[i, h, 0] < len(labels))))


@spec_abstract
def RNOPT(labels: A[int, 2], P: int) -> int:
    """number of recombination options of a label matrix (abstract: the result of the assumed helper)"""


@spec_abstract
def DNOPT(labels: A[int, 2], P: int) -> int:
    """number of dosage-swap options of a label matrix (abstract: the result of the assumed helper)"""


@contract("mchap.assemble.structural.recombination_step_n_options", trusted=True, props=["C01", "C09"])
def recombination_step_n_options(labels: A[i1, 2]) -> int:
    # at least one way back: called on an option produced from the current labels
    ensures(result >= 1, result <= 2 ** 20, result == RNOPT(labels, len(labels)))


@contract("mchap.assemble.structural.dosage_step_n_options", trusted=True, props=["C01", "C09"])
def dosage_step_n_options(labels: A[i1, 2]) -> int:
    ensures(result >= 1, result <= 2 ** 20, result == DNOPT(labels, len(labels)))


@spec
def SMHLOG(llk_a: float, llk0: float, lp_a: float, lp0: float, temp: float, nret: int, nopt: int) -> float:
    """C01: log Metropolis-Hastings acceptance of one structural proposal at inverse temperature temp:
    min(0, temp * (log-likelihood ratio + log-prior ratio) + log(proposal probability back / proposal probability there))"""
    return min(0.0, ((llk_a - llk0) + (lp_a - lp0)) * temp + (real(log(1 / nret)) - real(log(1 / nopt))))


@contract("mchap.assemble.structural.interval_step", machine_ints=True, props=["C09", "C01"], opt_result={"1": "cache"}, ghost_params={"NA": "A[int, 1]"}, dead_branches=["if step_type == 1 @4 else"])
def interval_step(genotype: A[i1, 2], reads: A[f8, 3], llk: float, log_unique_haplotypes: float, inbreeding: float, interval: Opt[A[i8, 1]], step_type: int, temp: float, read_counts: Opt[A[i8, 1]], cache: Opt[ArrayMap]) -> Tup[float, Opt[ArrayMap]]:
    requires(len(genotype) >= 1, len(genotype) <= 127, reads.shape[1] == genotype.shape[1])
    requires(0 <= temp, temp <= 1, 0 <= inbreeding, inbreeding < 1, finite(log_unique_haplotypes))
    requires(implies(interval is not None, len(interval) == 2 and 0 <= interval[0] and interval[0] <= interval[1] and interval[1] <= genotype.shape[1]))
    requires(implies(read_counts is not None, len(read_counts) == len(reads) and forall(0, len(reads), lambda r: read_counts[r] >= 1)))
    requires(READSOK(reads, len(reads), reads.shape[1], reads.shape[2]))
    # NA (ghost): the number of alleles of each SNV
    requires(forall(0, N, lambda y: 2 <= NA[y] and NA[y] <= reads.shape[2]))
    requires(VALIDG(genotype, NA, P, N), POSREADS(reads, CN, NA, P, N, len(reads)))
    requires(llk == LLK(reads, CN, genotype, P, N, len(reads)))
    requires(implies(cache is not None, AMOK(cache, len(cache[0]), cache[0].shape[1], len(cache[1])) and cache[2] == P * N and forall(0, N, lambda y: NA[y] <= cache[0].shape[1])))
    requires(implies(cache is not None, COH(cache, reads, CN, P, N, len(reads))))
    raises(step_type != 0 and step_type != 1)
    modifies(genotype, cache)
    ensures(result[0] == LLK(reads, CN, genotype, P, N, len(reads)))
    ensures(VALIDG(genotype, NA, P, N))
    ensures(implies(cache is not None, AMOK(result[1], len(result[1][0]), result[1][0].shape[1], len(result[1][1])) and result[1][2] == cache[2] and result[1][0].shape[1] == cache[0].shape[1]))
    ensures(implies(cache is not None, COH(result[1], reads, CN, P, N, len(reads))))
    with defs():
        P = len(genotype)
        N = genotype.shape[1]
        CN = ones_if_none(read_counts)
        LO = ite(interval is None, 0, interval[0])
        HI = ite(interval is None, genotype.shape[1], interval[1])
    with loop(0):
        invariant(0 <= i, i <= n_options, n_options == len(option_labels), n_options >= 1, len(llks) == n_options + 1, len(log_accept) == n_options + 1, len(dosage) == P, ploidy == P)
        invariant(option_labels.shape[1] == P, option_labels.shape[2] == 2)
        invariant(val(genotype) == old(genotype))
        invariant(forall(0, i, lambda a: llks[a] == LLK(reads, CN, arr2(lambda x, y: SCE(old(genotype), option_labels[a, :, 0], LO, HI, x, y)), P, N, len(reads))))
        invariant(forall(0, i, lambda a: not isnan(log_accept[a]) and implies(not isninf(log_accept[a]), log_accept[a] <= 0)))
        invariant(isninf(log_accept[n_options]), not isnan(log_accept[n_options]))
        # C01: the Metropolis-Hastings log acceptance of every proposal (prior of a proposal = prior of its label matrix)
        invariant(lprior == GPRIOR(old(genotype), P, N, log_unique_haplotypes, inbreeding), finite(lprior), log_proposal_prob == log(1 / n_options))
        invariant(forall(0, i, lambda a: log_accept[a] == SMHLOG(real(llks[a]), real(llk), GPRIOR(option_labels[a], P, 2, log_unique_haplotypes, inbreeding), lprior, temp, ite(step_type == 0, RNOPT(option_labels[a], P), DNOPT(option_labels[a], P)), n_options)))
        invariant(implies(cache is not None, AMOK(cache, len(cache[0]), cache[0].shape[1], len(cache[1])) and cache[2] == P * N and forall(0, N, lambda y: NA[y] <= cache[0].shape[1])))
        invariant(implies(cache is not None, COH(cache, reads, CN, P, N, len(reads))))
        with head():
            unfold(SMHLOG(real(LLK(reads, CN, arr2(lambda x, y: SCE(old(genotype), option_labels[i, :, 0], LO, HI, x, y)), P, N, len(reads))), real(llk), GPRIOR(option_labels[i], P, 2, log_unique_haplotypes, inbreeding), lprior, temp, ite(step_type == 0, RNOPT(option_labels[i], P), DNOPT(option_labels[i], P)), n_options))
            GPI = arr2(lambda x, y: SCE(genotype, option_labels[i, :, 0], LO, HI, x, y))
            assert_(VALIDG(GPI, NA, P, N))
            instantiate(POSREADS(reads, CN, NA, P, N, len(reads)), GPI)
            instantiate(POSREADS(reads, CN, NA, P, N, len(reads)), genotype)
    with after_call("log_genotype_prior", 0):
        unfold(GPRIOR(old(genotype), P, N, log_unique_haplotypes, inbreeding))
        lemma_laprior_ext(dosage, arr1(lambda q: DOSE(old(genotype), q, 0, N, P)), P, log_unique_haplotypes, inbreeding)
    with after_call("log_genotype_prior", 1):
        unfold(GPRIOR(option_labels[i], P, 2, log_unique_haplotypes, inbreeding))
        lemma_laprior_ext(dosage, arr1(lambda q: DOSE(option_labels[i], q, 0, 2, P)), P, log_unique_haplotypes, inbreeding)
    with before_stmt("probabilities[-1] = 1 - probabilities.sum()"):
        # C01: the vector handed to the sampler is proposal probability x Metropolis-Hastings acceptance of every option
        assert_(forall(0, n_options, lambda a: probabilities[a] == exp(SMHLOG(real(llks[a]), real(llk), GPRIOR(option_labels[a], P, 2, log_unique_haplotypes, inbreeding), lprior, temp, ite(step_type == 0, RNOPT(option_labels[a], P), DNOPT(option_labels[a], P)), n_options) - real(log(n_options)))))
        PB = val(probabilities)
        ax_exp_mono_all()
        lemma_exp_neg_log(n_options)
        lemma_fsum_bound(PB, 0, n_options + 1, exp(-real(log(n_options))), n_options)
    with after_stmt("probabilities[-1] = 1 - probabilities.sum()"):
        lemma_fsum_upd(PB, probabilities, 0, n_options + 1, n_options)
    with after_stmt("structural_change(genotype, option_labels[choice, :, 0], interval)"):
        lemma_llk_ext(reads, CN, genotype, arr2(lambda x, y: SCE(old(genotype), option_labels[choice, :, 0], LO, HI, x, y)), P, N, len(reads))


@contract("mchap.assemble.structural.compound_step", machine_ints=True, props=["C15", "C09", "C01"], opt_result={"1": "cache"}, ghost_params={"NA": "A[int, 1]"})
def compound_step(genotype: A[i1, 2], reads: A[f8, 3], llk: float, intervals: A[i8, 2], log_unique_haplotypes: float, inbreeding: float, step_type: int, randomize: bool, temp: float, read_counts: Opt[A[i8, 1]], cache: Opt[ArrayMap]) -> Tup[float, Opt[ArrayMap]]:
    requires(len(genotype) >= 1, len(genotype) <= 127, reads.shape[1] == genotype.shape[1])
    requires(0 <= temp, temp <= 1, 0 <= inbreeding, inbreeding < 1, finite(log_unique_haplotypes))
    requires(step_type == 0 or step_type == 1)
    requires(intervals.shape[1] == 2)
    requires(forall(0, len(intervals), lambda r: 0 <= intervals[r, 0] and intervals[r, 0] <= intervals[r, 1] and intervals[r, 1] <= genotype.shape[1]))
    requires(implies(read_counts is not None, len(read_counts) == len(reads) and forall(0, len(reads), lambda r: read_counts[r] >= 1)))
    requires(READSOK(reads, len(reads), reads.shape[1], reads.shape[2]))
    requires(forall(0, N, lambda y: 2 <= NA[y] and NA[y] <= reads.shape[2]))
    requires(VALIDG(genotype, NA, P, N), POSREADS(reads, CN, NA, P, N, len(reads)))
    requires(llk == LLK(reads, CN, genotype, P, N, len(reads)))
    requires(implies(cache is not None, AMOK(cache, len(cache[0]), cache[0].shape[1], len(cache[1])) and cache[2] == P * N and forall(0, N, lambda y: NA[y] <= cache[0].shape[1])))
    requires(implies(cache is not None, COH(cache, reads, CN, P, N, len(reads))))
    modifies(genotype, cache)
    ensures(result[0] == LLK(reads, CN, genotype, P, N, len(reads)))
    ensures(VALIDG(genotype, NA, P, N))
    ensures(implies(cache is not None, AMOK(result[1], len(result[1][0]), result[1][0].shape[1], len(result[1][1])) and result[1][2] == cache[2] and result[1][0].shape[1] == cache[0].shape[1]))
    ensures(implies(cache is not None, COH(result[1], reads, CN, P, N, len(reads))))
    with defs():
        P = len(genotype)
        N = genotype.shape[1]
        CN = ones_if_none(read_counts)
    with entry():
        interval_step_NA = NA
    with loop(0):
        invariant(0 <= i, i <= n_intervals, n_intervals == len(intervals), intervals.shape[1] == 2)
        # C15: every interval handed to interval_step is a row of the input set (each row once when shuffled)
        invariant(forall(0, n_intervals, lambda r: 0 <= intervals[r, 0] and intervals[r, 0] <= intervals[r, 1] and intervals[r, 1] <= N))
        invariant(implies(randomize, forall(0, n_intervals, lambda r: intervals[r, 0] == old(intervals)[perm0(r), 0] and intervals[r, 1] == old(intervals)[perm0(r), 1])))
        invariant(implies(not randomize, val(intervals) == old(intervals)))
        invariant(llk == LLK(reads, CN, genotype, P, N, len(reads)), VALIDG(genotype, NA, P, N))
        invariant(implies(cache is not None, AMOK(cache, len(cache[0]), cache[0].shape[1], len(cache[1])) and cache[2] == P * N and forall(0, N, lambda y: NA[y] <= cache[0].shape[1])))
        invariant(implies(cache is not None, COH(cache, reads, CN, P, N, len(reads))))
