# C09 (call-pedigree) / C04 -- mchap/pedigree/likelihood.py : likelihood of one sample's genotype with reads
# of zero count masked out, cached in a numba dict keyed by (sample, G-field index)


@spec
def LLKAZ(reads: A[float, 3], counts: A[int, 1], H: A[int, 2], g: A[int, 1], P: int, N: int, n: int) -> xfloat:
    """sum over the reads r < n with a positive count of count_r * log(mean over haplotypes ...)"""
    decreases(n)
    if n <= 0:
        return 0.0
    return LLKAZ(reads, counts, H, g, P, N, n - 1) + ite(counts[n - 1] > 0, log(ARP(reads, H, g, n - 1, P, N, P)) * counts[n - 1], 0.0)


@lemma(shared=True)
def lemma_arp_readrow(reads: A[float, 3], reads2: A[float, 3], H: A[int, 2], g: A[int, 1], r: int, r2: int, h: int, N: int, P: int):
    requires(h >= 0, N >= 0, forall(0, h, lambda a: forall(0, N, lambda c: CELL(reads2, r2, c, H[g[a], c]) == CELL(reads, r, c, H[g[a], c]))))
    ensures(ARP(reads2, H, g, r2, h, N, P) == ARP(reads, H, g, r, h, N, P))
    decreases(h)
    unfold(ARP(reads2, H, g, r2, h, N, P), ARP(reads, H, g, r, h, N, P))
    if h >= 1:
        lemma_arp_readrow(reads, reads2, H, g, r, r2, h - 1, N, P)
        lemma_rhp_readrow(reads, reads2, H, r, r2, g[h - 1], N)


@lemma(shared=True)
def lemma_llka_compact(reads: A[float, 3], counts: A[int, 1], R: A[float, 3], C: A[int, 1], mask: A[bool, 1], H: A[int, 2], g: A[int, 1], P: int, N: int, n: int):
    """R, C are the rows of reads, counts with a positive count, in order (boolean-mask selection):
    the plain likelihood of the compacted arrays is the masked likelihood of the originals"""
    requires(n >= 0, P >= 0, N >= 0, forall(0, n, lambda p: mask[p] == (counts[p] > 0)))
    requires(forall(0, n, lambda p: implies(mask[p], C[BCOUNT(mask, 0, p)] == counts[p] and forall(0, P, lambda a: forall(0, N, lambda c: CELL(R, BCOUNT(mask, 0, p), c, H[g[a], c]) == CELL(reads, p, c, H[g[a], c]))))))
    ensures(same(LLKA(R, C, H, g, P, N, BCOUNT(mask, 0, n)), LLKAZ(reads, counts, H, g, P, N, n)))
    decreases(n)
    unfold(BCOUNT(mask, 0, n), LLKAZ(reads, counts, H, g, P, N, n))
    if n >= 1:
        lemma_llka_compact(reads, counts, R, C, mask, H, g, P, N, n - 1)
        lemma_bcount_range(mask, 0, n - 1)
        if mask[n - 1]:
            unfold(LLKA(R, C, H, g, P, N, BCOUNT(mask, 0, n - 1) + 1))
            lemma_arp_readrow(reads, R, H, g, n - 1, BCOUNT(mask, 0, n - 1), P, N, P)
    else:
        unfold(LLKA(R, C, H, g, P, N, 0))


@lemma(shared=True)
def lemma_llkaz_ext(reads: A[float, 3], counts: A[int, 1], H: A[int, 2], g: A[int, 1], g2: A[int, 1], P: int, N: int, n: int):
    requires(forall(0, P, lambda a: g2[a] == g[a]))
    ensures(same(LLKAZ(reads, counts, H, g2, P, N, n), LLKAZ(reads, counts, H, g, P, N, n)))
    decreases(n)
    unfold(LLKAZ(reads, counts, H, g2, P, N, n), LLKAZ(reads, counts, H, g, P, N, n))
    if n >= 1:
        lemma_llkaz_ext(reads, counts, H, g, g2, P, N, n - 1)
        lemma_arp_ext(reads, H, g, g2, n - 1, P, N, P)


@spec_inline
def DCOH2(cache: FDict2, sample: int, reads: A[float, 3], counts: A[int, 1], H: A[int, 2], P: int, N: int, n: int, U: int) -> bool:
    """the entries of `sample` hold the likelihood of that sample's own reads for the (sorted) genotype with that G-field index"""
    return forall_arr1(lambda g: implies(VALIDA(g, P, U) and SORTEDA(g, P) and ((sample, IDX(g, P)) in cache), same(cache[sample, IDX(g, P)], LLKAZ(reads, counts, H, g, P, N, n))), pattern=IDX(g, P))


@contract("mchap.pedigree.likelihood.log_likelihood_alleles_cached", machine_ints=True, props=["C09", "C18"])
def log_likelihood_alleles_cached(reads: A[f8, 3], read_counts: A[i8, 1], haplotypes: A[i1, 2], sample: int, genotype_alleles: A[iN, 1], cache: Opt[FDict2]) -> float:
    requires(reads.shape[1] == haplotypes.shape[1], PP >= 1, len(read_counts) == len(reads))
    requires(VALIDA(genotype_alleles, PP, len(haplotypes)), SORTEDA(genotype_alleles, PP), CALLOK(reads, haplotypes, len(haplotypes), NN, reads.shape[2], len(reads)))
    requires(forall(0, len(reads), lambda r: read_counts[r] >= 0))
    requires(cwr(len(haplotypes), PP) < 2 ** 53)
    requires(implies(cache is not None, DCOH2(cache, sample, reads, read_counts, haplotypes, PP, NN, len(reads), len(haplotypes))))
    modifies(cache)
    # C09: computed or served from the cache, the value is the likelihood of this sample's reads (zero counts masked)
    ensures(result == LLKAZ(reads, read_counts, haplotypes, genotype_alleles, PP, NN, len(reads)))
    ensures(implies(cache is not None, DCOH2(cache, sample, reads, read_counts, haplotypes, PP, NN, len(reads), len(haplotypes))))
    # entries of other samples are untouched
    ensures(implies(cache is not None, forall(lambda s2, k: implies(s2 != sample, ((s2, k) in cache) == ((s2, k) in old(cache)) and same(cache[s2, k], old(cache)[s2, k])))))
    with defs():
        PP = len(genotype_alleles)
        NN = haplotypes.shape[1]
    with entry():
        lemma_cwr_mono_n(genotype_alleles[PP - 1] + 1, len(haplotypes), PP)
    with before_call("log_likelihood", 0):
        R = log_likelihood_arg_reads
        C = log_likelihood_arg_read_counts
    with after_call("log_likelihood", 0):
        lemma_llka_is_llk(R, C, haplotypes, genotype_alleles, arr2(lambda a, c: haplotypes[genotype_alleles[a], c]), PP, NN, len(R))
        lemma_llka_compact(reads, read_counts, R, C, msel_mask0, haplotypes, genotype_alleles, PP, NN, len(reads))
    with before_call("log_likelihood", 1):
        R = log_likelihood_arg_reads
        C = log_likelihood_arg_read_counts
    with after_call("log_likelihood", 1):
        lemma_llka_is_llk(R, C, haplotypes, genotype_alleles, arr2(lambda a, c: haplotypes[genotype_alleles[a], c]), PP, NN, len(R))
        lemma_llka_compact(reads, read_counts, R, C, msel_mask0, haplotypes, genotype_alleles, PP, NN, len(reads))
    with after_stmt("key = (sample, genotype_index)"):
        instantiate(DCOH2(cache, sample, reads, read_counts, haplotypes, PP, NN, len(reads), len(haplotypes)), genotype_alleles)
    with after_stmt("cache[key] = llk"):
        with forall_intro_arr1(g2, implies(VALIDA(g2, PP, len(haplotypes)) and SORTEDA(g2, PP) and ((sample, IDX(g2, PP)) in cache), same(cache[sample, IDX(g2, PP)], LLKAZ(reads, read_counts, haplotypes, g2, PP, NN, len(reads)))), pattern=IDX(g2, PP)):
            if VALIDA(g2, PP, len(haplotypes)) and SORTEDA(g2, PP):
                if IDX(g2, PP) == genotype_index:
                    lemma_idx_inj(g2, genotype_alleles, PP)
                    lemma_llkaz_ext(reads, read_counts, haplotypes, genotype_alleles, g2, PP, NN, len(reads))
                else:
                    instantiate(DCOH2(old(cache), sample, reads, read_counts, haplotypes, PP, NN, len(reads), len(haplotypes)), g2)
