# C19 -- mchap/application/find_snvs.py : the depth accumulator (the pileup / read filtering is pysam: R)


@contract("mchap.application.find_snvs._count_alleles", machine_ints=True, props=["C19"])
def _count_alleles(zeros: A[iN, 1], alleles: A[iN, 1]):
    requires(forall(0, len(alleles), lambda i: alleles[i] < len(zeros)))
    # the counters cannot overflow their integer type
    requires(forall(0, len(zeros), lambda b: zeros[b] >= 0 and zeros[b] + len(alleles) <= dtype_max(zeros)))
    modifies(zeros)
    # C19: each depth grows by the number of base calls of that nucleotide; negative codes (no call) are ignored
    ensures(forall(0, len(zeros), lambda b: zeros[b] == old(zeros)[b] + CNT(alleles, b, len(alleles))))
    with entry():
        with forall_intro(b, 0, len(zeros), CNT(alleles, b, 0) == 0):
            unfold(CNT(alleles, b, 0))
    with loop(0):
        invariant(0 <= i, i <= n, n == len(alleles), len(zeros) == len(old(zeros)))
        invariant(forall(0, len(zeros), lambda b: zeros[b] == old(zeros)[b] + CNT(alleles, b, i) and CNT(alleles, b, i) <= i))
        with head():
            with forall_intro(b, 0, len(zeros), CNT(alleles, b, i + 1) == CNT(alleles, b, i) + ite(alleles[i] == b, 1, 0)):
                unfold(CNT(alleles, b, i + 1))
