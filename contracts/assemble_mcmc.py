# C09 / C01 / C15 -- mchap/assemble/mcmc.py : the orchestration of the assemble sampler


@contract("mchap.assemble.mcmc._denovo_assembler", machine_ints=True, merge_branches=True, props=["C09", "C01"], dead_branches=["if return_heated_trace @2 then", "if return_heated_trace @8 then"], variants=[{"read_counts": "None"}, {"read_counts": "some"}])
def _denovo_assembler(genotype: A[i1, 2], inbreeding: float, reads: A[f8, 3], read_counts: Opt[A[i8, 1]], n_alleles: A[i1, 1], steps: int, break_dist: A[f8, 1], recombination_step_probability: float, partial_dosage_step_probability: float, dosage_step_probability: float, temperatures: A[f8, 1], return_heated_trace: bool, llk_cache_threshold: int) -> Tup[A[i1, 4], A[f8, 2]]:
    requires(not return_heated_trace)  # the application always records the cold chain only
    requires(len(genotype) >= 1, len(genotype) <= 127, genotype.shape[1] >= 1, len(genotype) * genotype.shape[1] <= 2 ** 40)
    requires(reads.shape[1] == genotype.shape[1], len(n_alleles) == genotype.shape[1], len(reads) <= 2 ** 20)
    requires(0 <= inbreeding, inbreeding < 1, steps >= 0, steps <= 2 ** 40)
    requires(finite(recombination_step_probability), finite(partial_dosage_step_probability), finite(dosage_step_probability))
    requires(forall(0, N, lambda y: 2 <= n_alleles[y] and n_alleles[y] <= reads.shape[2]))
    requires(implies(read_counts is not None, len(read_counts) == len(reads) and forall(0, len(reads), lambda r: read_counts[r] >= 1)))
    requires(READSOK(reads, len(reads), reads.shape[1], reads.shape[2]))
    requires(VALIDG(genotype, n_alleles, P, N), POSREADS(reads, CN, n_alleles, P, N, len(reads)))
    # a temperature ladder: inverse temperatures in [0,1], strictly ascending
    requires(len(temperatures) >= 1, forall(0, len(temperatures), lambda t: finite(temperatures[t]) and 0 <= temperatures[t] and temperatures[t] <= 1))
    requires(forall(1, len(temperatures), lambda t: temperatures[t - 1] < temperatures[t]))
    # the distribution of the number of break points
    requires(len(break_dist) >= 1, len(break_dist) <= genotype.shape[1], FSUM(break_dist, 0, len(break_dist)) == 1)
    requires(forall(0, len(break_dist), lambda b: finite(break_dist[b]) and break_dist[b] >= 0))
    # C09: every recorded likelihood is the likelihood of the recorded genotype
    ensures(result[0].shape == (1, steps, P, N), result[1].shape == (1, steps))
    ensures(forall(0, steps, lambda s: result[1][0, s] == LLK(reads, CN, result[0][0, s], P, N, len(reads))))
    with defs():
        P = len(genotype)
        N = genotype.shape[1]
        CN = ones_if_none(read_counts)
    with entry():
        instantiate(POSREADS(reads, CN, n_alleles, P, N, len(reads)), genotype)
        compound_step_NA = n_alleles
    with loop(0):
        invariant(0 <= t, t <= n_temps, genotypes.shape == (n_temps, P, N))
        invariant(forall(0, t, lambda a: genotypes[a] == val(genotype)))
    with after_stmt("llks[:] = log_likelihood(reads, genotype, read_counts=read_counts)"):
        pass
    with loop(1):
        invariant(0 <= i, i <= steps, genotype_trace.shape == (1, steps, P, N), llk_trace.shape == (1, steps), genotypes.shape == (n_temps, P, N), len(llks) == n_temps, n_temps == len(temperatures), ploidy == P, n_base == N)
        invariant(forall(0, n_temps, lambda a: llks[a] == LLK(reads, CN, genotypes[a], P, N, len(reads)) and VALIDG(genotypes[a], n_alleles, P, N)))
        invariant(forall(0, i, lambda s: llk_trace[0, s] == LLK(reads, CN, genotype_trace[0, s], P, N, len(reads))))
        invariant(implies(cache is not None, AMOK(cache, len(cache[0]), cache[0].shape[1], len(cache[1])) and cache[2] == P * N and forall(0, N, lambda y: n_alleles[y] <= cache[0].shape[1])))
        invariant(implies(cache is not None, COH(cache, reads, CN, P, N, len(reads))))
    with loop(2):
        invariant(0 <= t, t <= n_temps)
        invariant(forall(0, n_temps, lambda a: llks[a] == LLK(reads, CN, genotypes[a], P, N, len(reads)) and VALIDG(genotypes[a], n_alleles, P, N)))
        invariant(implies(cache is not None, AMOK(cache, len(cache[0]), cache[0].shape[1], len(cache[1])) and cache[2] == P * N and forall(0, N, lambda y: n_alleles[y] <= cache[0].shape[1])))
        invariant(implies(cache is not None, COH(cache, reads, CN, P, N, len(reads))))
        invariant(implies(t >= 1, genotype.shape == (P, N) and val(genotype) == genotypes[t - 1] and llk == llks[t - 1]))
