# C05 -- mchap/assemble/prior.py and jitutils.ln_equivalent_permutations (log-gamma closed forms)


@spec
def LGSUM(d: A[int, 1], n: int) -> float:
    """sum_{i<n} lgamma(d[i] + 1)  (log of the product of dosage factorials)"""
    decreases(n)
    if n <= 0:
        return 0.0
    return LGSUM(d, n - 1) + lgamma(d[n - 1] + 1)


@spec_inline
def LNPERMS(d: A[int, 1], n: int) -> float:
    """log multinomial coefficient  log( P! / prod d_i! ),  P = sum d"""
    return lgamma(ISUM(d, 0, n) + 1) - LGSUM(d, n)


@contract("mchap.jitutils.ln_equivalent_permutations", machine_ints=True, props=["C05", "C01", "C09"])
def ln_equivalent_permutations(dosage: A[iN, 1]) -> float:
    requires(forall(0, len(dosage), lambda i: dosage[i] >= 0 and dosage[i] <= 127))
    ensures(result == LNPERMS(dosage, len(dosage)), finite(result))
    with entry():
        lemma_isum_nonneg(dosage, 0, len(dosage))
        lemma_isum_le(dosage, 0, len(dosage), 127)
        unfold(LGSUM(dosage, 0))
    with loop(0):
        invariant(0 <= i, i <= len(dosage), ln_denom == LGSUM(dosage, i))
        with head():
            unfold(LGSUM(dosage, i + 1))


@spec_inline
def LNULL(d: A[int, 1], n: int, lu: float) -> float:
    """log multinomial pmf with flat frequencies over u = exp(lu) haplotypes"""
    return LNPERMS(d, n) - ISUM(d, 0, n) * lu


@contract("mchap.assemble.prior.log_genotype_null_prior", machine_ints=True, props=["C05", "C01", "C09"])
def log_genotype_null_prior(dosage: A[i1, 1], log_unique_haplotypes: float) -> float:
    requires(forall(0, len(dosage), lambda i: dosage[i] >= 0), finite(log_unique_haplotypes))
    ensures(result == LNULL(dosage, len(dosage), log_unique_haplotypes), finite(result))


@spec
def DMSUM(d: A[int, 1], disp: float, n: int) -> float:
    """sum over i<n with d[i] > 0 of lgamma(d_i + a) - lgamma(d_i + 1) - lgamma(a)"""
    decreases(n)
    if n <= 0:
        return 0.0
    return DMSUM(d, disp, n - 1) + ite(d[n - 1] > 0, lgamma(d[n - 1] + disp) - (lgamma(d[n - 1] + 1) + lgamma(disp)), 0.0)


@spec_inline
def LDM(d: A[int, 1], n: int, disp: float, sdisp: float) -> float:
    """log Dirichlet-multinomial pmf with per-haplotype dispersion disp and total dispersion sdisp"""
    return lgamma(ISUM(d, 0, n) + 1) + lgamma(sdisp) - lgamma(ISUM(d, 0, n) + sdisp) + DMSUM(d, disp, n)


@contract("mchap.assemble.prior.log_dirichlet_multinomial_pmf", machine_ints=True, props=["C05", "C01", "C09"])
def log_dirichlet_multinomial_pmf(dosage: A[i1, 1], log_dispersion: float, log_unique_haplotypes: float) -> float:
    requires(forall(0, len(dosage), lambda i: dosage[i] >= 0), finite(log_dispersion), finite(log_unique_haplotypes))
    ensures(result == LDM(dosage, len(dosage), exp(log_dispersion), exp(log_dispersion + log_unique_haplotypes)), finite(result))
    with entry():
        lemma_isum_nonneg(dosage, 0, len(dosage))
        lemma_isum_le(dosage, 0, len(dosage), 127)
        unfold(DMSUM(dosage, exp(log_dispersion), 0))
        ax_exp_pos(log_dispersion)
        ax_exp_pos(log_dispersion + log_unique_haplotypes)
    with loop(0):
        invariant(0 <= i, i <= len(dosage), prod == DMSUM(dosage, exp(log_dispersion), i))
        with head():
            unfold(DMSUM(dosage, exp(log_dispersion), i + 1))


@spec_inline
def LAPRIOR(d: A[int, 1], n: int, lu: float, F: float) -> float:
    """assemble genotype prior: multinomial (F == 0) or Dirichlet-multinomial with dispersion
    alpha = exp(log((1-F)/F) - lu) = (1/u) (1-F)/F per haplotype, u alpha in total"""
    return ite(F == 0, LNULL(d, n, lu), LDM(d, n, exp(log((1 - F) / F) - lu), exp(log((1 - F) / F) - lu + lu)))


@contract("mchap.assemble.prior.log_genotype_prior", machine_ints=True, props=["C05", "C01", "C09"])
def log_genotype_prior(dosage: A[i1, 1], log_unique_haplotypes: float, inbreeding: float) -> float:
    requires(forall(0, len(dosage), lambda i: dosage[i] >= 0), finite(log_unique_haplotypes))
    requires(0 <= inbreeding, inbreeding < 1)
    ensures(result == LAPRIOR(dosage, len(dosage), log_unique_haplotypes, inbreeding), finite(result))


# ---- the prior depends on the dosage vector only through its first n entries


@lemma(shared=True)
def lemma_lgsum_ext(d: A[int, 1], e: A[int, 1], n: int):
    requires(forall(0, n, lambda i: d[i] == e[i]))
    ensures(LGSUM(d, n) == LGSUM(e, n))
    decreases(n)
    unfold(LGSUM(d, n), LGSUM(e, n))
    if n > 0:
        lemma_lgsum_ext(d, e, n - 1)


@lemma(shared=True)
def lemma_dmsum_ext(d: A[int, 1], e: A[int, 1], disp: float, n: int):
    requires(forall(0, n, lambda i: d[i] == e[i]))
    ensures(DMSUM(d, disp, n) == DMSUM(e, disp, n))
    decreases(n)
    unfold(DMSUM(d, disp, n), DMSUM(e, disp, n))
    if n > 0:
        lemma_dmsum_ext(d, e, disp, n - 1)


@lemma(shared=True)
def lemma_laprior_ext(d: A[int, 1], e: A[int, 1], n: int, lu: float, F: float):
    requires(finite(lu), forall(0, n, lambda i: d[i] == e[i]))
    ensures(LAPRIOR(d, n, lu, F) == LAPRIOR(e, n, lu, F))
    lemma_lgsum_ext(d, e, n)
    lemma_isum_ext(d, e, 0, n)
    lemma_dmsum_ext(d, e, exp(log((1 - F) / F) - lu), n)
