# C01 / C09 -- mchap/assemble/tempering.py : temperature exchange


@contract("mchap.assemble.tempering.chain_swap_acceptance", props=["C01", "C09"])
def chain_swap_acceptance(llk_i: float, log_prior_i: float, temp_i: float, llk_j: float, log_prior_j: float, temp_j: float) -> float:
    requires(finite(llk_i), finite(llk_j), finite(log_prior_i), finite(log_prior_j), finite(temp_i), finite(temp_j))
    requires(temp_i > temp_j)  # the in-code assert: strictly ascending ladder
    # acceptance = min(1, exp((U_j - U_i)(T_i - T_j)))  with U = llk + log prior
    ensures(result == ite(exp(((llk_j + log_prior_j) - (llk_i + log_prior_i)) * temp_i + ((llk_i + log_prior_i) - (llk_j + log_prior_j)) * temp_j) > 1.0, 1.0, exp(((llk_j + log_prior_j) - (llk_i + log_prior_i)) * temp_i + ((llk_i + log_prior_i) - (llk_j + log_prior_j)) * temp_j)))
    ensures(0 < result, result <= 1)
    # the exponent is (U_j - U_i)(T_i - T_j)
    ensures(((llk_j + log_prior_j) - (llk_i + log_prior_i)) * temp_i + ((llk_i + log_prior_i) - (llk_j + log_prior_j)) * temp_j == ((llk_j + log_prior_j) - (llk_i + log_prior_i)) * (temp_i - temp_j))


@contract("mchap.assemble.tempering.chain_swap_step", machine_ints=True, props=["C01", "C09"])
def chain_swap_step(genotype_i: A[i1, 2], llk_i: float, temp_i: float, genotype_j: A[i1, 2], llk_j: float, temp_j: float, log_unique_haplotypes: float, inbreeding: float) -> Tup[float, float]:
    requires(genotype_i.shape == genotype_j.shape, len(genotype_i) >= 1, len(genotype_i) <= 127)
    requires(finite(llk_i), finite(llk_j), finite(temp_i), finite(temp_j), temp_i > temp_j)
    requires(finite(log_unique_haplotypes), 0 <= inbreeding, inbreeding < 1)
    modifies(genotype_i, genotype_j)
    # C09: genotypes and likelihoods are exchanged together, or nothing changes
    ensures((val(genotype_i) == old(genotype_j) and val(genotype_j) == old(genotype_i) and result[0] == llk_j and result[1] == llk_i) or (val(genotype_i) == old(genotype_i) and val(genotype_j) == old(genotype_j) and result[0] == llk_i and result[1] == llk_j))
    with after_call("log_genotype_prior", 0):
        unfold(GPRIOR(genotype_i, len(genotype_i), genotype_i.shape[1], log_unique_haplotypes, inbreeding))
        lemma_laprior_ext(dosage, arr1(lambda q: DOSE(genotype_i, q, 0, genotype_i.shape[1], len(genotype_i))), len(genotype_i), log_unique_haplotypes, inbreeding)
    with after_call("log_genotype_prior", 1):
        unfold(GPRIOR(genotype_j, len(genotype_i), genotype_i.shape[1], log_unique_haplotypes, inbreeding))
        lemma_laprior_ext(dosage, arr1(lambda q: DOSE(genotype_j, q, 0, genotype_i.shape[1], len(genotype_i))), len(genotype_i), log_unique_haplotypes, inbreeding)
    with after_stmt("acceptance = chain_swap_acceptance(llk_i, prior_i, temp_i, llk_j, prior_j, temp_j)"):
        # C01: the exchange is accepted with probability min(1, exp((U_j - U_i)(T_i - T_j))), U = llk + GPRIOR(genotype)
        # (lemma_exchange_detailed_balance: this acceptance is in detailed balance for the product of tempered targets)
        assert_(acceptance == ite(exp(((llk_j + GPRIOR(genotype_j, len(genotype_i), genotype_i.shape[1], log_unique_haplotypes, inbreeding)) - (llk_i + GPRIOR(genotype_i, len(genotype_i), genotype_i.shape[1], log_unique_haplotypes, inbreeding))) * (temp_i - temp_j)) > 1.0, 1.0, exp(((llk_j + GPRIOR(genotype_j, len(genotype_i), genotype_i.shape[1], log_unique_haplotypes, inbreeding)) - (llk_i + GPRIOR(genotype_i, len(genotype_i), genotype_i.shape[1], log_unique_haplotypes, inbreeding))) * (temp_i - temp_j))))
