# C02 / C05 / C14 -- mchap/calling/utils.py : allele counts of a genotype (any signed integer dtype)


@spec
def CNT(g: A[int, 1], a: int, n: int) -> int:
    """number of i < n with g[i] == a"""
    decreases(n)
    if n <= 0:
        return 0
    return CNT(g, a, n - 1) + ite(g[n - 1] == a, 1, 0)


@lemma(shared=True)
def lemma_cnt_range(g: A[int, 1], a: int, n: int):
    requires(n >= 0)
    ensures(0 <= CNT(g, a, n), CNT(g, a, n) <= n)
    decreases(n)
    unfold(CNT(g, a, n))
    if n > 0:
        lemma_cnt_range(g, a, n - 1)


@lemma(shared=True)
def lemma_cnt_ext(g: A[int, 1], h: A[int, 1], a: int, n: int):
    requires(forall(0, n, lambda i: g[i] == h[i]))
    ensures(CNT(g, a, n) == CNT(h, a, n))
    decreases(n)
    unfold(CNT(g, a, n), CNT(h, a, n))
    if n > 0:
        lemma_cnt_ext(g, h, a, n - 1)


@lemma(shared=True)
def lemma_cnt_pos(g: A[int, 1], n: int, t: int):
    """an allele that occurs is counted"""
    requires(0 <= t, t < n)
    ensures(CNT(g, g[t], n) >= 1)
    decreases(n)
    unfold(CNT(g, g[t], n))
    if t < n - 1:
        lemma_cnt_pos(g, n - 1, t)
    else:
        lemma_cnt_range(g, g[t], n - 1)


@lemma(shared=True)
def lemma_cnt_upd(g: A[int, 1], h: A[int, 1], a: int, n: int, k: int):
    """h = g except at k: the count of a changes by the two indicator terms"""
    requires(0 <= k, k < n, forall(0, n, lambda i: implies(i != k, g[i] == h[i])))
    ensures(CNT(h, a, n) == CNT(g, a, n) - ite(g[k] == a, 1, 0) + ite(h[k] == a, 1, 0))
    decreases(n)
    unfold(CNT(g, a, n), CNT(h, a, n))
    if k < n - 1:
        lemma_cnt_upd(g, h, a, n - 1, k)
    else:
        lemma_cnt_ext(g, h, a, n - 1)


@contract("mchap.calling.utils.count_allele", machine_ints=True, props=["C02", "C05", "C14"])
def count_allele(genotype_alleles: A[iN, 1], allele: int) -> int:
    ensures(result == CNT(genotype_alleles, allele, len(genotype_alleles)), 0 <= result, result <= len(genotype_alleles))
    with entry():
        unfold(CNT(genotype_alleles, allele, 0))
    with loop(0):
        invariant(0 <= i, i <= len(genotype_alleles), count == CNT(genotype_alleles, allele, i), 0 <= count, count <= i)
        with head():
            unfold(CNT(genotype_alleles, allele, i + 1))


@spec_inline
def FIRST(g: A[int, 1], j: int) -> bool:
    """j is the first position holding the allele g[j]"""
    return CNT(g, g[j], j) == 0


@contract("mchap.calling.utils.allelic_dosage", machine_ints=True, props=["C02", "C05", "C14"])
def allelic_dosage(genotype_alleles: A[iN, 1]) -> A[iN, 1]:
    requires(len(genotype_alleles) <= 127)
    # dosage[j] = copies of allele g[j] if j is its first occurrence, else 0
    ensures(len(result) == len(genotype_alleles), ISUM(result, 0, len(genotype_alleles)) == len(genotype_alleles))
    ensures(forall(0, len(genotype_alleles), lambda j: 0 <= result[j] and result[j] <= len(genotype_alleles)))
    ensures(forall(0, len(genotype_alleles), lambda j: result[j] == ite(FIRST(genotype_alleles, j), CNT(genotype_alleles, genotype_alleles[j], len(genotype_alleles)), 0)))
    with entry():
        with forall_intro(q, 0, len(genotype_alleles), CNT(genotype_alleles, genotype_alleles[q], 0) == 0):
            unfold(CNT(genotype_alleles, genotype_alleles[q], 0))
    with after_stmt("dosage = np.zeros(ploidy, dtype=genotype_alleles.dtype)"):
        lemma_isum_le(dosage, 0, ploidy, 0)
        lemma_isum_nonneg(dosage, 0, ploidy)
    with after_stmt("j = 0"):
        unfold(CNT(genotype_alleles, a, 0))
    with loop(0):
        invariant(0 <= i, i <= ploidy, ploidy == len(genotype_alleles), len(dosage) == ploidy, ISUM(dosage, 0, ploidy) == i)
        invariant(forall(0, ploidy, lambda q: 0 <= dosage[q] and dosage[q] <= i))
        invariant(forall(0, ploidy, lambda q: dosage[q] == ite(FIRST(genotype_alleles, q), CNT(genotype_alleles, genotype_alleles[q], i), 0)))
        with head():
            lemma_cnt_range(genotype_alleles, genotype_alleles[i], i)
        with tail():
            lemma_isum_upd(at("loop1", dosage), dosage, 0, ploidy, j)
            with forall_intro(q, 0, ploidy, dosage[q] == ite(FIRST(genotype_alleles, q), CNT(genotype_alleles, genotype_alleles[q], i + 1), 0)):
                unfold(CNT(genotype_alleles, genotype_alleles[q], i + 1))
                if q < j:
                    lemma_cnt_pos(genotype_alleles, j, q)
                if q > j:
                    lemma_cnt_pos(genotype_alleles, q, j)
    with loop(1):
        decreases(i - j + ite(searching, 1, 0))
        invariant(0 <= j, j <= i, a == genotype_alleles[i], CNT(genotype_alleles, a, j) == 0, len(dosage) == ploidy)
        invariant(implies(searching, val(dosage) == at("loop1", dosage)))
        invariant(implies(not searching, genotype_alleles[j] == a and forall(0, ploidy, lambda q: dosage[q] == at("loop1", dosage)[q] + ite(q == j, 1, 0))))
        with head():
            unfold(CNT(genotype_alleles, a, j + 1))
            lemma_cnt_range(genotype_alleles, a, j)
