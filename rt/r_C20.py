"""C20 bounded run-time contracts: `mchap atomize` emits the per-SNV projection of every haplotype
record.  Real pysam.VariantRecords parsed from generated haplotype VCF text are passed to
format_vcf_snv_block and compared with a projection written from the property statement."""
import itertools
import os
import shutil
import tempfile

import numpy as np
import pysam

from mchap.application import atomize as AT

RULE = "generated haplotype VCFs (1-5 haplotypes of 6 bases, 0-3 SNVPOS incl. sites monomorphic among the listed haplotypes and ALT-less records, mixed ploidy, '.' alleles, with/without ACP/AFP/SNVDP); one evaluation per (record, site); non-trivial = multi-allelic site or mixed ploidy; distinct by seed"

HEADER = """##fileformat=VCFv4.3
##contig=<ID=CHR1,length=100000>
##INFO=<ID=SNVPOS,Number=.,Type=Integer,Description="s">
##INFO=<ID=REFMASKED,Number=0,Type=Flag,Description="m">
##FORMAT=<ID=GT,Number=1,Type=String,Description="g">
##FORMAT=<ID=SQ,Number=1,Type=Integer,Description="q">
##FORMAT=<ID=ACP,Number=R,Type=Float,Description="a">
##FORMAT=<ID=AFP,Number=R,Type=Float,Description="a">
##FORMAT=<ID=SNVDP,Number=.,Type=Integer,Description="d">
#CHROM\tPOS\tID\tREF\tALT\tQUAL\tFILTER\tINFO\tFORMAT\tS0\tS1\tS2
"""


def gen(rng, n):
    recs = []
    for i in range(n):
        L = 6
        n_hap = int(rng.integers(1, 6))
        n_snv = int(rng.integers(0, 4))
        pos_all = sorted(rng.choice(np.arange(1, L + 1), size=n_snv, replace=False).tolist())
        ref = list("ACGTAC")
        haps = [ref]
        tries = 0
        while len(haps) < n_hap and tries < 50:
            tries += 1
            h = list(ref)
            for p in pos_all:
                if rng.random() < 0.5:
                    h[p - 1] = str(rng.choice([b for b in "ACGT" if b != ref[p - 1]]))
            if h not in haps:
                haps.append(h)
        n_hap = len(haps)
        ploidies = [int(x) for x in rng.choice([2, 4, 6], size=3)]
        mode = str(rng.choice(["ACP", "AFP", "none"]))
        with_dp = rng.random() < 0.6
        samples = []
        for pl in ploidies:
            gt = [int(x) for x in np.sort(rng.integers(0, n_hap, size=pl))]
            if rng.random() < 0.25:
                gt[-1] = None
            if rng.random() < 0.1:
                gt = [None] * pl
            w = rng.integers(0, 5, size=n_hap).astype(float)
            if w.sum() == 0:
                w[0] = 1
            acp = w / w.sum() * pl
            dp = [int(x) for x in rng.integers(0, 30, size=n_snv)]
            samples.append({"gt": gt, "acp": acp.tolist(), "ploidy": pl, "dp": dp, "sq": int(rng.integers(0, 60))})
        recs.append({"pos": 100 + 50 * i, "haps": ["".join(h) for h in haps], "snvpos": pos_all, "samples": samples, "mode": mode, "with_dp": with_dp})
    return recs


def fmt(x):
    return ("%.4f" % x).rstrip("0").rstrip(".")


def write_vcf(path, recs):
    with open(path, "w") as f:
        f.write(HEADER)
        for r in recs:
            alt = ",".join(r["haps"][1:]) if len(r["haps"]) > 1 else "."
            info = "SNVPOS=%s" % (",".join(str(p) for p in r["snvpos"]) if r["snvpos"] else ".")
            keys = ["GT", "SQ"]
            if r["mode"] != "none":
                keys.append(r["mode"])
            if r["with_dp"] and r["snvpos"]:
                keys.append("SNVDP")
            cols = []
            for s in r["samples"]:
                v = ["/".join("." if a is None else str(a) for a in s["gt"]), str(s["sq"])]
                if r["mode"] == "ACP":
                    v.append(",".join(fmt(x) for x in s["acp"]))
                elif r["mode"] == "AFP":
                    v.append(",".join(fmt(x / s["ploidy"]) for x in s["acp"]))
                if r["with_dp"] and r["snvpos"]:
                    v.append(",".join(str(d) for d in s["dp"]))
                cols.append(":".join(v))
            f.write("CHR1\t%d\tH%d\t%s\t%s\t.\tPASS\t%s\t%s\t%s\n" % (r["pos"], r["pos"], r["haps"][0], alt, info, ":".join(keys), "\t".join(cols)))


def project(r):
    """expected per-site rows: dict pos -> (ref, alts, per-sample GT strings, AC, per-sample DS, ACP)"""
    out = {}
    for si, p in enumerate(r["snvpos"]):
        bases = [h[p - 1] for h in r["haps"]]
        order = []
        for b in bases:
            if b not in order:
                order.append(b)
        idx = [order.index(b) for b in bases]
        gts = []
        ac = [0] * len(order)
        ds = []
        tot = np.zeros(len(order))
        for s in r["samples"]:
            gts.append("|".join("." if a is None else str(idx[a]) for a in s["gt"]))
            for a in s["gt"]:
                if a is not None:
                    ac[idx[a]] += 1
            if r["mode"] == "none":
                ds.append(None)
            else:
                # the text values (4 decimals) are what atomize reads; renormalise like the documentation says
                vals = [float(fmt(x)) if r["mode"] == "ACP" else float(fmt(x / s["ploidy"])) * s["ploidy"] for x in s["acp"]]
                site = np.zeros(len(order))
                for h, c in enumerate(vals):
                    site[idx[h]] += c
                d = site.sum()
                site = site / d * s["ploidy"] if d > 0 else np.full(len(order), np.nan)
                ds.append(site[1:])
                tot += site
        out[r["pos"] + p - 1] = {"ref": order[0], "alts": order[1:], "gt": gts, "ac": ac[1:], "ds": ds, "acp": None if r["mode"] == "none" else tot}
    return out


def parse_info(s):
    d = {}
    for kv in s.split(";"):
        k, _, v = kv.partition("=")
        d[k] = v
    return d


def floats(s):
    return [float("nan") if x in (".", "") else float(x) for x in s.split(",")] if s not in (".", "") else []


def check_atomize(tier, seed):
    rng = np.random.default_rng(seed + 20)
    tmp = tempfile.mkdtemp(prefix="verif_c20_")
    ev = nontriv = 0
    fails = []
    samples_out = []

    def bad(key, inp, obs, exp, how=""):
        if len(fails) < 6 and not any(f["key"] == key for f in fails):
            fails.append({"key": key, "check": "mchap.application.atomize.format_vcf_snv_block", "input": inp, "observed": obs, "expected": exp, "how": how})

    try:
        recs = gen(rng, 60 if tier == "quick" else 600)
        path = os.path.join(tmp, "haps.vcf")
        write_vcf(path, recs)
        with pysam.VariantFile(path) as vf:
            records = list(vf.fetch())
        for r, rec in zip(recs, records):
            inp = {"haplotypes": r["haps"], "snvpos": r["snvpos"], "GT": [s["gt"] for s in r["samples"]], "fields": r["mode"], "record": str(rec).strip()[:300]}
            exp = project(r)
            try:
                block = AT.format_vcf_snv_block(rec)
            except Exception as ex:
                ev += 1
                bad("rt/atomize_rejects_record:" + type(ex).__name__, inp, repr(ex), "every record shape produced by assemble/call/call-exact is accepted (%d sites expected)" % len(exp))
                continue
            rows = {} if block is None else {int(row["POS"]): row for _, row in block.iterrows()}
            for pos, e in exp.items():
                ev += 1
                nontriv += len(e["alts"]) > 1 or len({s["ploidy"] for s in r["samples"]}) > 1
                if pos not in rows:
                    if e["alts"]:
                        bad("rt/atomize_missing_site", dict(inp, site=pos), sorted(rows), "a line at POS + SNVPOS - 1 = %d" % pos)
                    continue  # a site without alternative base may be omitted
                row = rows[pos]
                alt = str(row["ALT"])
                alts = [] if alt in (".", "") else alt.split(",")
                if str(row["REF"]) != e["ref"] or alts != e["alts"] or (not e["alts"] and alt != "."):
                    bad("rt/atomize_ref_alt", dict(inp, site=pos), {"REF": str(row["REF"]), "ALT": alt}, {"REF": e["ref"], "ALT": ",".join(e["alts"]) or "."}, "bases of the listed haplotypes at the site, numbered by first appearance, REF first; '.' when there is no alternative base")
                info = parse_info(str(row["INFO"]))
                if info.get("PS") != str(r["pos"]):
                    bad("rt/atomize_ps", dict(inp, site=pos), info.get("PS"), str(r["pos"]))
                for si, s in enumerate(r["samples"]):
                    cell = str(row["S%d" % si]).split(":")
                    if cell[0] != e["gt"][si]:
                        bad("rt/atomize_gt_projection", dict(inp, site=pos, sample=si), cell[0], e["gt"][si], "phased GT = haplotype GT projected onto the site")
                    got_ds = floats(cell[4]) if len(cell) > 4 else []
                    if e["ds"][si] is not None and e["alts"]:
                        want = e["ds"][si]
                        if len(got_ds) != len(want) or any((abs(a - b) > 2e-3) and not (np.isnan(a) and np.isnan(b)) for a, b in zip(got_ds, want)):
                            bad("rt/atomize_ds", dict(inp, site=pos, sample=si), got_ds, want.tolist(), "haplotype-level posterior counts marginalised to the site")
                ac = [int(float(x)) for x in info.get("AC", "").split(",")] if info.get("AC", ".") not in (".", "") else []
                if e["alts"] and ac != e["ac"]:
                    bad("rt/atomize_ac", dict(inp, site=pos), ac, e["ac"], "haplotype-level allele counts marginalised to the site")
                if e["acp"] is not None and e["alts"]:
                    got = floats(info.get("ACP", "."))
                    if len(got) != len(e["acp"]) or any(abs(a - b) > 5e-3 and not (np.isnan(a) and np.isnan(b)) for a, b in zip(got, e["acp"])):
                        bad("rt/atomize_acp", dict(inp, site=pos), got, e["acp"].tolist())
            extra = set(rows) - set(exp)
            if extra:
                bad("rt/atomize_extra_lines", inp, sorted(extra), sorted(exp))
            if len(samples_out) < 2:
                samples_out.append({"haplotypes": r["haps"], "snvpos": r["snvpos"]})
    finally:
        shutil.rmtree(tmp, ignore_errors=True)
    return {"bound": "generated haplotype records x every SNVPOS", "evaluations": ev, "distinct_nontrivial": nontriv, "failures": fails, "samples": samples_out, "exhaustive": False}


CHECKS = [check_atomize]
REPLAY = {}
