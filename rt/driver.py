"""python -m rt.driver <PROP> --tier T --seed S : runs rt/r_<PROP>.py CHECKS, prints one JSON line."""
import argparse
import importlib
import json
import sys
import time
import traceback


def main():
    ap = argparse.ArgumentParser()
    ap.add_argument("prop")
    ap.add_argument("--tier", default="quick")
    ap.add_argument("--seed", type=int, default=0)
    a = ap.parse_args()
    mod = importlib.import_module("rt.r_" + a.prop)
    out = {"checks": [], "failures": [], "evaluations": 0, "distinct_nontrivial": 0, "samples": [], "rule": getattr(mod, "RULE", ""), "exhaustive": True}
    for chk in mod.CHECKS:
        t0 = time.time()
        try:
            r = chk(a.tier, a.seed)
        except Exception:
            out.setdefault("crashes", []).append("check %s crashed:\n%s" % (chk.__name__, traceback.format_exc()[-1500:]))
            out["exhaustive"] = False
            continue
        r.setdefault("name", chk.__name__)
        r["wall_s"] = round(time.time() - t0, 2)
        out["evaluations"] += int(r.get("evaluations", 0))
        out["distinct_nontrivial"] += int(r.get("distinct_nontrivial", 0))
        out["exhaustive"] = out["exhaustive"] and bool(r.get("exhaustive", False))
        for f in r.pop("failures", []):
            out["failures"].append(f)
        for s in r.pop("samples", [])[:2]:
            out["samples"].append({"check": r["name"], "case": s})
        out["checks"].append(r)
    print(json.dumps(out, default=str))
    return 0


if __name__ == "__main__":
    sys.exit(main())
