"""C18 bounded run-time contracts: the pedigree sampler moves target the joint pedigree posterior
prod_i L_i(g_i) P(g_i | parents).  Gibbs vector == exact full conditional; MH and the parental
allele exchange satisfy detailed balance.  Oracle: rt/ped_oracle.py + rt/oracles.lik."""
import itertools
import math

import numpy as np

from mchap.pedigree import mcmc as PM
from rt.ped_oracle import trio_pmf_table
from rt.oracles import lik, perms, make_reads, first_failure

RULE = "enumerated small pedigrees (founders, duo, trio, half-sibs, selfing, two generations, mixed ploidy, unbalanced and clonal gametes) x seeded random joint states x every (individual, allele copy); non-trivial = target has a known parent or a child; distinct by (pedigree, state, target)"
TOL = 1e-8

H = np.array([[0, 0], [0, 1], [1, 1]], dtype=np.int8)
FREQS = [0.5, 0.3, 0.2]


def pedigrees():
    """name, ploidy, parents, tau, lambda, error"""
    P = []
    P.append(("founders", [4, 2], [[-1, -1], [-1, -1]], [[2, 2], [1, 1]], None, None))
    P.append(("duo", [4, 4], [[-1, -1], [0, -1]], [[2, 2], [2, 2]], None, None))
    P.append(("duo-unknown-first", [4, 4], [[-1, -1], [-1, 0]], [[2, 2], [2, 2]], None, None))
    P.append(("trio", [4, 4, 4], [[-1, -1], [-1, -1], [0, 1]], [[2, 2], [2, 2], [2, 2]], None, None))
    P.append(("trio-lambda", [4, 4, 4], [[-1, -1], [-1, -1], [0, 1]], [[2, 2], [2, 2], [2, 2]], [[0, 0], [0, 0], [0.2, 0.1]], None))
    P.append(("half-sibs", [4, 4, 4, 4, 4], [[-1, -1], [-1, -1], [-1, -1], [0, 1], [0, 2]], [[2, 2]] * 5, None, None))
    P.append(("selfing", [4, 4], [[-1, -1], [0, 0]], [[2, 2], [2, 2]], None, None))
    P.append(("two-generations", [2, 2, 2, 2], [[-1, -1], [-1, -1], [0, 1], [2, 1]], [[1, 1]] * 4, None, None))
    P.append(("mixed-ploidy", [2, 4, 3], [[-1, -1], [-1, -1], [0, 1]], [[1, 1], [2, 2], [1, 2]], None, None))
    P.append(("unbalanced-3-1", [4, 4, 4], [[-1, -1], [-1, -1], [0, 1]], [[2, 2], [2, 2], [3, 1]], None, None))
    P.append(("unbalanced-1-3", [4, 4, 4], [[-1, -1], [-1, -1], [0, 1]], [[2, 2], [2, 2], [1, 3]], None, None))
    P.append(("clone", [4, 4, 4], [[-1, -1], [-1, -1], [0, 1]], [[2, 2], [2, 2], [0, 4]], None, None))
    P.append(("two-families", [4, 4, 4, 4, 4, 2, 2, 2], [[-1, -1], [-1, -1], [0, 1], [0, 1], [0, 1], [-1, -1], [-1, -1], [5, 6]], [[2, 2]] * 5 + [[1, 1]] * 3, None, None))
    return P


class Ped:
    def __init__(self, spec, rng):
        self.name, ploidy, parents, tau, lam, err = spec
        self.ploidy = np.array(ploidy, dtype=np.int64)
        self.n = len(ploidy)
        self.parents = np.array(parents, dtype=np.int64)
        self.tau = np.array(tau, dtype=np.int64)
        self.lam = np.zeros((self.n, 2)) if lam is None else np.array(lam, dtype=float)
        self.err = np.full((self.n, 2), 0.05)
        self.err[:, 1] = 0.1
        self.err[self.parents < 0] = 1.0
        self.width = int(self.ploidy.max())
        self.children = PM.sample_children_matrix(self.parents)
        nr = [int(x) for x in rng.integers(1, 5, size=self.n)]
        self.max_reads = max(nr)
        self.dists = np.full((self.n, self.max_reads, 2, 2), np.nan)
        self.counts = np.zeros((self.n, self.max_reads), dtype=np.int64)
        for s in range(self.n):
            r, c = make_reads(rng, nr[s], 2, 2, gaps=False)
            self.dists[s, : nr[s]] = r
            self.counts[s, : nr[s]] = c
        self.logf = np.log(np.array(FREQS))
        self._lik = {}
        self._pmf = {}

    def scratch(self):
        return [np.zeros(self.width, dtype=np.int64) for _ in range(7)] + [np.zeros(self.width)]

    def random_state(self, rng):
        g = np.full((self.n, self.width), -1, dtype=np.int64)
        for i in range(self.n):
            g[i, : self.ploidy[i]] = rng.integers(0, len(H), size=self.ploidy[i])
        return g

    def L(self, i, geno):
        k = (i, tuple(sorted(geno)))
        if k not in self._lik:
            idx = self.counts[i] > 0
            self._lik[k] = lik(self.dists[i][idx], self.counts[i][idx], H[list(k[1])])
        return self._lik[k]

    def log_pmf(self, i, state):
        """log P(g_i | parents) from the brute-force model"""
        p, q = int(self.parents[i, 0]), int(self.parents[i, 1])
        pp = None if p < 0 else tuple(sorted(int(x) for x in state[p, : self.ploidy[p]]))
        pq = None if q < 0 else tuple(sorted(int(x) for x in state[q, : self.ploidy[q]]))
        key = (i, pp, pq)
        if key not in self._pmf:
            self._pmf[key] = trio_pmf_table(pp, pq, int(self.tau[i, 0]), int(self.tau[i, 1]), float(self.lam[i, 0]), float(self.lam[i, 1]), float(self.err[i, 0]), float(self.err[i, 1]), FREQS)
        g = tuple(sorted(int(x) for x in state[i, : self.ploidy[i]]))
        v = self._pmf[key].get(g, 0.0)
        return -math.inf if v == 0 else math.log(v)

    def log_pi_ordered(self, state, members):
        """log of prod over `members` of L_i pmf_i / perms_i  (terms that can change)"""
        tot = 0.0
        for i in members:
            g = [int(x) for x in state[i, : self.ploidy[i]]]
            tot += self.L(i, g) + self.log_pmf(i, state) - math.log(perms(g))
        return tot

    def blanket(self, i):
        # children derived from the parent table independently of sample_children_matrix
        kids = [c for c in range(self.n) if i in (int(self.parents[c, 0]), int(self.parents[c, 1]))]
        return [i] + kids


def check_gibbs_and_mh(tier, seed):
    rng = np.random.default_rng(seed + 18)
    ev = nontriv = 0
    fails = []
    samples = []
    n_states = 6 if tier == "quick" else 40

    def bad(key, fn, inp, obs, exp, how=""):
        if len(fails) < 6 and not any(f["key"] == key and f["input"].get("pedigree") == inp.get("pedigree") for f in fails):
            fails.append({"key": key, "check": fn, "input": inp, "observed": obs, "expected": exp, "how": how})

    for spec in pedigrees():
        ped = Ped(spec, rng)
        for _ in range(n_states):
            state = ped.random_state(rng)
            for i in range(ped.n):
                members = ped.blanket(i)
                for k in range(int(ped.ploidy[i])):
                    sc = ped.scratch()
                    w = []
                    for a in range(len(H)):
                        s2 = state.copy()
                        s2[i, k] = a
                        lp = ped.log_pi_ordered(s2, members)
                        w.append(0.0 if lp == -math.inf else math.exp(lp))
                    tot = sum(w)
                    if tot == 0:
                        continue
                    exp = [x / tot for x in w]
                    inp = {"pedigree": ped.name, "target": i, "allele_index": k, "state": state.tolist(), "parents": ped.parents.tolist(), "tau": ped.tau.tolist(), "lambda": ped.lam.tolist(), "error": ped.err.tolist()}
                    st = state.copy()
                    got = PM.gibbs_probabilities(i, k, st, ped.ploidy, ped.parents, ped.children, ped.tau, ped.lam, ped.err, ped.dists, ped.counts, H, ped.logf, None, *sc)
                    ev += 1
                    nontriv += (ped.parents[i] >= 0).any() or len(members) > 1
                    if not np.array_equal(st, state):
                        bad("rt/ped_gibbs_state_not_restored", "mchap.pedigree.mcmc.gibbs_probabilities", inp, st.tolist(), state.tolist())
                    if any(abs(x - y) > TOL * max(1e-3, y) for x, y in zip(got, exp)):
                        bad("rt/ped_gibbs_is_full_conditional", "mchap.pedigree.mcmc.gibbs_probabilities", inp, np.asarray(got).tolist(), exp, "Gibbs vector vs exact full conditional of prod_i L_i P(g_i|parents) (brute-force inheritance model)")
                    st = state.copy()
                    p = np.asarray(PM.metropolis_hastings_probabilities(i, k, st, ped.ploidy, ped.parents, ped.children, ped.tau, ped.lam, ped.err, ped.dists, ped.counts, H, ped.logf, None, *sc)).copy()
                    if abs(p.sum() - 1) > 1e-9 or (p < -1e-12).any():
                        bad("rt/ped_mh_not_a_distribution", "mchap.pedigree.mcmc.metropolis_hastings_probabilities", inp, p.tolist(), "distribution")
                    cur = int(state[i, k])
                    for a in range(len(H)):
                        if a == cur:
                            continue
                        s2 = state.copy()
                        s2[i, k] = a
                        st2 = s2.copy()
                        q = np.asarray(PM.metropolis_hastings_probabilities(i, k, st2, ped.ploidy, ped.parents, ped.children, ped.tau, ped.lam, ped.err, ped.dists, ped.counts, H, ped.logf, None, *sc)).copy()
                        l1, l2 = ped.log_pi_ordered(state, members), ped.log_pi_ordered(s2, members)
                        if l1 == -math.inf or l2 == -math.inf:
                            continue
                        lhs = l1 + math.log(max(p[a], 1e-300))
                        rhs = l2 + math.log(max(q[cur], 1e-300))
                        ev += 1
                        if abs(lhs - rhs) > TOL * max(1.0, abs(lhs)):
                            bad("rt/ped_mh_detailed_balance", "mchap.pedigree.mcmc.metropolis_hastings_probabilities", dict(inp, to_allele=a), {"lhs": lhs, "rhs": rhs}, "pi(s) p(s->s') == pi(s') p(s'->s)", "MH vectors at both states; joint from the brute-force model")
        if len(samples) < 3:
            samples.append({"pedigree": ped.name, "individuals": ped.n})
    return {"bound": "%d pedigrees x %d random joint states x all (individual, allele copy) x 3 alleles" % (len(pedigrees()), n_states), "evaluations": ev, "distinct_nontrivial": nontriv, "failures": fails, "samples": samples, "exhaustive": False}


def check_parental_swap(tier, seed):
    rng = np.random.default_rng(seed + 181)
    ev = nontriv = 0
    fails = []
    samples = []
    n_states = 5 if tier == "quick" else 30
    real_randint, real_rand = np.random.randint, np.random.rand
    feed = []

    def fake_randint(n):
        return feed.pop(0)

    for spec in pedigrees():
        ped = Ped(spec, rng)
        pairs, blankets = PM.parental_pair_markov_blankets(ped.parents, ped.children)
        if len(pairs) == 0:
            continue
        for _ in range(n_states):
            state = ped.random_state(rng)
            for pi in range(len(pairs)):
                p, q = int(pairs[pi, 0]), int(pairs[pi, 1])
                members = [int(x) for x in blankets[pi] if x >= 0]
                for ip in range(int(ped.ploidy[p])):
                    for iq in range(int(ped.ploidy[q])):
                        if state[p, ip] == state[q, iq]:
                            continue

                        def accept_prob(s):
                            st = s.copy()
                            del feed[:]
                            feed.extend([ip, iq])
                            np.random.randint, np.random.rand = fake_randint, (lambda: 2.0)
                            try:
                                pa, acc = PM.pair_allele_swap_step.py_func(p, q, blankets[pi], st, ped.ploidy, ped.parents, ped.tau, ped.lam, ped.err, ped.dists, ped.counts, H, ped.logf, None, *ped.scratch())
                            finally:
                                np.random.randint, np.random.rand = real_randint, real_rand
                            return float(pa), st

                        a1, st1 = accept_prob(state)
                        s2 = state.copy()
                        s2[p, ip], s2[q, iq] = state[q, iq], state[p, ip]
                        a2, _ = accept_prob(s2)
                        l1, l2 = ped.log_pi_ordered(state, members), ped.log_pi_ordered(s2, members)
                        ev += 1
                        nontriv += 1
                        inp = {"pedigree": ped.name, "pair": [p, q], "indices": [ip, iq], "state": state.tolist(), "parents": ped.parents.tolist(), "tau": ped.tau.tolist()}
                        if not np.array_equal(st1, state) and len(fails) < 4:
                            fails.append({"key": "rt/ped_swap_reject_restores_state", "check": "mchap.pedigree.mcmc.pair_allele_swap_step", "input": inp, "observed": st1.tolist(), "expected": state.tolist()})
                        if l1 == -math.inf and l2 == -math.inf:
                            continue
                        lhs = l1 + math.log(max(a1, 1e-300)) if l1 > -math.inf else -math.inf
                        rhs = l2 + math.log(max(a2, 1e-300)) if l2 > -math.inf else -math.inf
                        if (lhs == -math.inf) != (rhs == -math.inf) or (lhs > -math.inf and abs(lhs - rhs) > TOL * max(1.0, abs(lhs))):
                            if len(fails) < 4 and not any(f["key"] == "rt/ped_swap_detailed_balance" and f["input"]["pedigree"] == ped.name for f in fails):
                                fails.append({"key": "rt/ped_swap_detailed_balance", "check": "mchap.pedigree.mcmc.pair_allele_swap_step", "input": inp, "observed": {"log pi(s)+log A(s->s')": lhs, "log pi(s')+log A(s'->s)": rhs, "A": [a1, a2]}, "expected": "equal", "how": "acceptance probabilities from pair_allele_swap_step.py_func with forced indices; joint from the brute-force model"})
        if len(samples) < 3:
            samples.append({"pedigree": ped.name, "pairs": int(len(pairs))})
    return {"bound": "pedigrees with parental pairs x %d random states x every pair of allele copies" % n_states, "evaluations": ev, "distinct_nontrivial": nontriv, "failures": fails, "samples": samples, "exhaustive": False}


def check_unknown_parent_row_ignored(tier, seed):
    """Hypothesis IGNP of contracts/pedigree_joint.py: for an unknown parent the samplers pass the wrapped-around row
    sample_genotypes[-1] with ploidy 0 and error 1 -- trio_log_pmf / trio_allele_log_pmf must not depend on that row.
    Also: sample_children_matrix == brute-force children lists (run-time twin of its U contract)."""
    from mchap.pedigree import prior as PP
    from mchap.pedigree.mcmc import sample_children_matrix

    rng = np.random.default_rng(seed + 181)
    ev = nontriv = 0
    fails = []
    n = 150 if tier == "quick" else 1500
    width = 4
    for _ in range(n):
        ploidy = int(rng.choice([2, 4]))
        prog = np.full(width, -1, dtype=np.int64)
        prog[:ploidy] = np.sort(rng.integers(0, 3, size=ploidy))
        known = np.full(width, -1, dtype=np.int64)
        kp = int(rng.choice([2, 4]))
        known[:kp] = np.sort(rng.integers(0, 3, size=kp))
        unknown_first = bool(rng.integers(0, 2))
        both_unknown = rng.random() < 0.25
        logf = np.log(np.array([0.5, 0.3, 0.2]))
        tau_k = int(rng.integers(0, ploidy + 1)) if not both_unknown else ploidy // 2
        tau_u = ploidy - tau_k
        err_k = float(rng.choice([0.0, 0.1, 1.0]))
        outs = []
        outs_a = []
        for rep in range(3):
            junk = rng.integers(-1, 3, size=width).astype(np.int64)
            junk2 = rng.integers(-1, 3, size=width).astype(np.int64)
            sc = [np.zeros(width, dtype=np.int64) for _ in range(7)]
            dlf = np.zeros(width)
            if both_unknown:
                args = (prog, junk, junk2, 0, 0, tau_k, tau_u, 0.0, 0.0, 1.0, 1.0)
            elif unknown_first:
                args = (prog, junk, known, 0, kp, tau_u, tau_k, 0.0, 0.0, 1.0, err_k)
            else:
                args = (prog, known, junk, kp, 0, tau_k, tau_u, 0.0, 0.0, err_k, 1.0)
            outs.append(float(PP.trio_log_pmf(*args, logf, *sc, dlf)))
            k = int(rng.integers(0, ploidy)) if rep == 0 else k
            outs_a.append(float(PP.trio_allele_log_pmf(k, *args, logf, *sc, dlf)))
        ev += 1
        nontriv += outs[0] > -np.inf
        if not (outs[0] == outs[1] == outs[2]) or not (outs_a[0] == outs_a[1] == outs_a[2]):
            if len(fails) < 3:
                fails.append({"key": "rt/unknown_parent_row_ignored", "check": "mchap.pedigree.prior.trio_log_pmf", "input": {"progeny": prog.tolist(), "known_parent": known.tolist(), "unknown_first": unknown_first, "both_unknown": bool(both_unknown), "tau": [tau_k, tau_u], "error_known": err_k}, "observed": [outs, outs_a], "expected": "identical for every content of the unknown parent's row"})
    # children matrix
    for _ in range(n // 3):
        ns = int(rng.integers(1, 9))
        parents = np.full((ns, 2), -1, dtype=np.int64)
        for i in range(1, ns):
            for j in range(2):
                if rng.random() < 0.6:
                    parents[i, j] = int(rng.integers(0, i))
        perm = rng.permutation(ns)  # parents need not precede their children
        inv = np.argsort(perm)
        par2 = np.full((ns, 2), -1, dtype=np.int64)
        for i in range(ns):
            for j in range(2):
                par2[perm[i], j] = -1 if parents[i, j] < 0 else perm[parents[i, j]]
        ch = sample_children_matrix(par2)
        ev += 1
        nontriv += ch.shape[1] > 0
        for p_ in range(ns):
            exp = [i for i in range(ns) if par2[i, 0] == p_ or par2[i, 1] == p_]
            got = [int(x) for x in ch[p_] if x >= 0]
            pad_ok = all(int(x) == -1 for x in ch[p_, len(got):])
            if got != exp or not pad_ok:
                if len(fails) < 3:
                    fails.append({"key": "rt/children_matrix", "check": "mchap.pedigree.mcmc.sample_children_matrix", "input": {"sample_parents": par2.tolist()}, "observed": ch.tolist(), "expected": {"row": p_, "children": exp}})
    return {"bound": "%d random (progeny, known parent, unknown parent row) triples x 3 junk rows; %d random pedigrees of <= 8 individuals" % (n, n // 3), "evaluations": ev, "distinct_nontrivial": int(nontriv), "failures": fails, "samples": [], "exhaustive": False}


CHECKS = [check_gibbs_and_mh, check_parental_swap, check_unknown_parent_row_ignored]
REPLAY = {
    "mchap.pedigree.mcmc.gibbs_probabilities": first_failure(check_gibbs_and_mh),
    "mchap.pedigree.mcmc.metropolis_hastings_probabilities": first_failure(check_gibbs_and_mh),
    "mchap.pedigree.mcmc.pair_allele_swap_step": first_failure(check_parental_swap),
    "mchap.pedigree.prior.trio_log_pmf": first_failure(check_unknown_parent_row_ignored),
    "mchap.pedigree.mcmc.sample_children_matrix": first_failure(check_unknown_parent_row_ignored),
}
