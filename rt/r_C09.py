"""C09 bounded run-time contracts.

* the ASSUMED arraymap get/set contracts of /verif/contracts/arraymap.py, checked on the real
  arraymap over exhaustive bounded operation sequences against a dict model (growth + flush);
* cached likelihood wrappers transparent under tiny caches (repeated flushes);
* llk traces of the assemble / call samplers equal the likelihood recomputed from scratch
  (all temperatures, cache on / off, identical trajectories with and without the cache);
* pedigree: every entry left in a caller-supplied cache equals the likelihood recomputed for
  THAT sample's own reads (unequal numbers of distinct reads per sample).
"""
import itertools
import math

import numpy as np

from mchap.assemble import arraymap as AM
from mchap.assemble import likelihood as AL
from mchap.assemble import mcmc as AMC
from mchap.calling import mcmc as CMC
from mchap.calling import likelihood as CL
from mchap.pedigree import mcmc as PMC
from mchap import jitutils as J

RULE = "exhaustive arraymap operation sequences over a small key universe (dict model oracle); seeded sampler runs on small synthetic read sets; a case is non-trivial when the map grows or flushes at least once / the trace visits more than one genotype; distinct by (parameters, sequence)"
TOL = 1e-9


def close(a, b):
    if a == b:
        return True
    if math.isnan(a) or math.isnan(b) or math.isinf(a) or math.isinf(b):
        return False
    return abs(a - b) <= TOL * max(1.0, abs(a), abs(b))


# ------------------------------------------------------------------ arraymap vs dict model
def check_arraymap_sequences(tier, seed):
    L_opts = (1, 2, 3)
    maxlen = 4 if tier == "quick" else 6
    ev = nontriv = 0
    fails = []
    samples = []
    for L, nb, init, mx in itertools.product(L_opts, (2, 3), (2, 4), (4, 8, 16)):
        keys = [np.array(k, dtype=np.int8) for k in itertools.product(range(nb), repeat=L)]
        if len(keys) > 9:
            keys = keys[:: max(1, len(keys) // 9)][:9]
        n_seq = 0
        for seq in itertools.product(range(len(keys)), repeat=maxlen):
            if tier == "quick" and n_seq >= 400:
                break
            n_seq += 1
            m = AM.new(L, nb, initial_size=init, max_size=mx)
            model = {}
            grew = False
            flushed = False
            ok = True
            for step, ki in enumerate(seq):
                key = keys[ki]
                val = float(step) + 0.5 + 10.0 * ki
                size_before = (len(m[0]), len(m[1]))
                try:
                    m = AM.set(m, key, val, empty_if_full=True)
                except Exception as ex:
                    fails.append({"key": "rt/arraymap_set_raises", "check": "mchap.assemble.arraymap.set", "input": {"L": L, "branches": nb, "initial_size": init, "max_size": mx, "sequence": [keys[i].tolist() for i in seq[: step + 1]]}, "observed": repr(ex), "expected": "no exception with empty_if_full=True"})
                    ok = False
                    break
                model[key.tobytes()] = val
                grew |= (len(m[0]), len(m[1])) != size_before
                # structural facts the wrappers rely on
                if not (1 <= m[3] < len(m[0]) and 0 <= m[4] < len(m[1]) and m[2] == L):
                    ok = False
                served = {}
                for k2 in keys:
                    g = float(AM.get(m, k2))
                    served[k2.tobytes()] = g
                    if not math.isnan(g) and (k2.tobytes() not in model or model[k2.tobytes()] != g):
                        ok = False
                if all(math.isnan(v) for v in served.values()):
                    flushed = True
                    model = {}
                else:
                    # a non-flush set must serve the new value
                    if math.isnan(served[key.tobytes()]):
                        ok = False
                if not ok:
                    break
            ev += 1
            nontriv += grew or flushed
            if not ok and len(fails) < 3:
                fails.append({"key": "rt/arraymap_frame", "check": "mchap.assemble.arraymap.set", "input": {"L": L, "branches": nb, "initial_size": init, "max_size": mx, "sequence": [keys[i].tolist() for i in seq]}, "observed": "a lookup served a value that was never stored for that key (or lost the key just stored)", "expected": "every served value is the last value stored for that key since the last flush"})
        if len(samples) < 2:
            samples.append({"key_length": L, "branches": nb, "initial_size": init, "max_size": mx, "sequences": n_seq})
    return {"bound": "key length<=3, branches<=3, initial_size in {2,4}, max_size in {4,8,16}, all op sequences of length %d over <=9 keys (quick: first 400 per configuration)" % maxlen, "evaluations": ev, "distinct_nontrivial": nontriv, "failures": fails, "samples": samples, "exhaustive": tier != "quick"}


# ------------------------------------------------------------------ synthetic data
def make_reads(rng, n_reads, n_base, n_all, gaps=True):
    reads = rng.random((n_reads, n_base, n_all)) * 0.9 + 0.05
    reads /= reads.sum(axis=-1, keepdims=True)
    if gaps:
        reads[rng.random((n_reads, n_base)) < 0.2] = np.nan
    counts = rng.integers(1, 4, size=n_reads).astype(np.int64)
    return reads, counts


def check_cached_wrappers(tier, seed):
    rng = np.random.default_rng(seed + 9)
    ev = nontriv = 0
    fails = []
    samples = []
    reps = 6 if tier == "quick" else 40
    for rep in range(reps):
        P, N, A = int(rng.integers(1, 4)), int(rng.integers(1, 4)), int(rng.integers(2, 4))
        reads, counts = make_reads(rng, 3, N, A)
        for max_size in (4, 8, 64):
            cache = AM.new(P * N, A, initial_size=2, max_size=max_size)
            for step in range(30):
                G = rng.integers(0, A, size=(P, N)).astype(np.int8)
                rc = counts if step % 2 else None
                # NB: a cache is tied to one (reads, counts); use counts consistently per cache
                rc = counts
                llk, cache = AL.log_likelihood_cached(reads, G, read_counts=rc, cache=cache)
                exp = float(AL.log_likelihood(reads, G, read_counts=rc))
                ev += 1
                if not close(float(llk), exp) and len(fails) < 3:
                    fails.append({"key": "rt/log_likelihood_cached", "check": "mchap.assemble.likelihood.log_likelihood_cached", "input": {"genotype": G.tolist(), "max_size": max_size, "step": step}, "observed": float(llk), "expected": exp})
                idx = rng.integers(0, P, size=P).astype(np.int8)
                lo = int(rng.integers(0, N + 1))
                hi = int(rng.integers(lo, N + 1))
                iv = np.array([lo, hi])
                llk2, cache = AL.log_likelihood_structural_change_cached(reads, G, idx, interval=iv, read_counts=rc, cache=cache)
                G2 = G.copy()
                J.structural_change(G2, idx, iv)
                exp2 = float(AL.log_likelihood(reads, G2, read_counts=rc))
                ev += 1
                nontriv += 1
                if not close(float(llk2), exp2) and len(fails) < 3:
                    fails.append({"key": "rt/log_likelihood_structural_change_cached", "check": "mchap.assemble.likelihood.log_likelihood_structural_change_cached", "input": {"genotype": G.tolist(), "idx": idx.tolist(), "interval": [lo, hi], "max_size": max_size}, "observed": float(llk2), "expected": exp2})
        if len(samples) < 2:
            samples.append({"ploidy": P, "n_base": N, "alleles": A})
    return {"bound": "%d random (ploidy<=3, snvs<=3, alleles<=3) read sets x cache max_size {4,8,64} x 30 steps" % reps, "evaluations": ev, "distinct_nontrivial": nontriv, "failures": fails, "samples": samples, "exhaustive": False}


def _assembler_run(reads, counts, genotype, n_alleles, temps, seed, cache_threshold, heated=True, steps=40, inbreeding=0.1):
    np.random.seed(seed)
    J.seed_numba(seed)
    break_dist = np.array([0.5, 0.5]) if genotype.shape[1] > 1 else np.array([1.0])
    return AMC._denovo_assembler(
        genotype=genotype.copy(),
        inbreeding=inbreeding,
        reads=reads,
        read_counts=counts,
        n_alleles=n_alleles,
        steps=steps,
        break_dist=break_dist,
        recombination_step_probability=0.5,
        partial_dosage_step_probability=0.5,
        dosage_step_probability=1.0,
        temperatures=np.array(temps, dtype=float),
        return_heated_trace=heated,
        llk_cache_threshold=cache_threshold,
    )


def check_assemble_traces(tier, seed):
    rng = np.random.default_rng(seed + 19)
    ev = nontriv = 0
    fails = []
    samples = []
    reps = 3 if tier == "quick" else 15
    for rep in range(reps):
        P = int(rng.choice([2, 3, 4]))
        N = int(rng.choice([2, 3, 4]))
        n_alleles = rng.integers(2, 4, size=N).astype(np.int8)
        A = int(n_alleles.max())
        reads, counts = make_reads(rng, 5, N, A, gaps=True)
        for j in range(N):
            reads[:, j, n_alleles[j]:] = 0.0  # zero-probability non-alleles
        G0 = np.array([[rng.integers(0, n_alleles[j]) for j in range(N)] for _ in range(P)], dtype=np.int8)
        for temps in ((1.0,), (0.2, 0.6, 1.0)):
            runs = {}
            for thr in (-1, 0):
                gt, lt = _assembler_run(reads, counts, G0, n_alleles, temps, seed + rep, thr)
                runs[thr] = (gt.copy(), lt.copy())
                distinct = set()
                for t in range(gt.shape[0]):
                    for s in range(gt.shape[1]):
                        exp = float(AL.log_likelihood(reads, gt[t, s], read_counts=counts))
                        ev += 1
                        distinct.add(gt[t, s].tobytes())
                        if not close(float(lt[t, s]), exp) and len(fails) < 3:
                            fails.append({"key": "rt/assemble_trace_llk", "check": "mchap.assemble.mcmc._denovo_assembler", "input": {"ploidy": P, "n_base": N, "temperatures": list(temps), "cache_threshold": thr, "seed": seed + rep, "chain": t, "step": s, "genotype": gt[t, s].tolist()}, "observed": float(lt[t, s]), "expected": exp, "how": "recorded llk vs log_likelihood(recorded genotype)"})
                nontriv += len(distinct) > 1
            # enabling the cache must not change the trajectory
            if not (np.array_equal(runs[-1][0], runs[0][0]) and np.allclose(runs[-1][1], runs[0][1], rtol=1e-12, atol=0)) and len(fails) < 3:
                fails.append({"key": "rt/assemble_cache_changes_trajectory", "check": "mchap.assemble.mcmc._denovo_assembler", "input": {"ploidy": P, "n_base": N, "temperatures": list(temps), "seed": seed + rep}, "observed": "traces differ between llk_cache_threshold=-1 and 0", "expected": "identical traces"})
        if len(samples) < 2:
            samples.append({"ploidy": P, "n_base": N, "n_alleles": n_alleles.tolist()})
    return {"bound": "%d random loci (ploidy 2-4, 2-4 SNVs, bi/tri-allelic, gaps, counts) x {cold, 3-temperature ladder} x cache {off,on}, 40 steps, all chains" % reps, "evaluations": ev, "distinct_nontrivial": nontriv, "failures": fails, "samples": samples, "exhaustive": False}


def check_call_traces(tier, seed):
    rng = np.random.default_rng(seed + 29)
    ev = nontriv = 0
    fails = []
    samples = []
    reps = 4 if tier == "quick" else 20
    for rep in range(reps):
        P = int(rng.choice([2, 3, 4]))
        N = 3
        A = 2
        H = np.unique(rng.integers(0, A, size=(6, N)).astype(np.int8), axis=0)
        if len(H) < 2:
            continue
        reads, counts = make_reads(rng, 6, N, A)
        for step_type in (0, 1):
            for cache in (False, True):
                J.seed_numba(seed + rep)
                init = np.sort(rng.integers(0, len(H), size=P)).astype(np.int64)
                gt, lt = CMC.mcmc_sampler(init, H, reads, counts, 0.1, None, 60, cache, step_type)
                distinct = set()
                for s in range(len(gt)):
                    exp = float(CL.log_likelihood_alleles(reads, counts, H, gt[s]))
                    ev += 1
                    distinct.add(gt[s].tobytes())
                    if not close(float(lt[s]), exp) and len(fails) < 3:
                        fails.append({"key": "rt/call_trace_llk", "check": "mchap.calling.mcmc.compound_step", "input": {"ploidy": P, "haplotypes": H.tolist(), "step_type": step_type, "cache": cache, "step": s, "genotype": gt[s].tolist()}, "observed": float(lt[s]), "expected": exp, "how": "recorded llk vs log_likelihood_alleles(recorded genotype)"})
                nontriv += len(distinct) > 1
        if len(samples) < 2:
            samples.append({"ploidy": P, "n_haplotypes": int(len(H))})
    return {"bound": "%d random haplotype sets x {Gibbs, MH} x cache {off,on}, 60 steps" % reps, "evaluations": ev, "distinct_nontrivial": nontriv, "failures": fails, "samples": samples, "exhaustive": False}


# ------------------------------------------------------------------ pedigree cache ownership
def _pedigree_setup(rng, n_reads_per_sample):
    from numba.typed import Dict
    from numba import types

    N, A = 3, 2
    H = np.array([[0, 0, 0], [0, 1, 1], [1, 0, 1], [1, 1, 0]], dtype=np.int8)
    n_samples = 3
    ploidy = np.array([4, 4, 4], dtype=np.int64)
    parents = np.array([[-1, -1], [-1, -1], [0, 1]], dtype=np.int64)
    max_reads = max(n_reads_per_sample)
    dists = np.full((n_samples, max_reads, N, A), np.nan)
    cnts = np.zeros((n_samples, max_reads), dtype=np.int64)
    for s in range(n_samples):
        r, c = make_reads(rng, n_reads_per_sample[s], N, A, gaps=False)
        dists[s, : len(r)] = r
        cnts[s, : len(r)] = c
    genotypes = np.sort(rng.integers(0, len(H), size=(n_samples, 4)), axis=1).astype(np.int64)
    tau = np.full((n_samples, 2), 2, dtype=np.int64)
    lam = np.zeros((n_samples, 2))
    err = np.full((n_samples, 2), 0.01)
    err[parents < 0] = 1.0
    logf = np.log(np.full(len(H), 1.0 / len(H)))
    cache = Dict.empty(key_type=types.UniTuple(types.int64, 2), value_type=types.float64)
    return H, ploidy, parents, dists, cnts, genotypes, tau, lam, err, logf, cache


def check_pedigree_cache(tier, seed):
    rng = np.random.default_rng(seed + 39)
    ev = nontriv = 0
    fails = []
    samples = []
    reps = 6 if tier == "quick" else 30
    from mchap.assemble.likelihood import log_likelihood

    for rep in range(reps):
        nr = [int(x) for x in rng.integers(1, 6, size=3)]
        H, ploidy, parents, dists, cnts, genotypes, tau, lam, err, logf, cache = _pedigree_setup(rng, nr)
        children = PMC.sample_children_matrix(parents)
        pairs, blankets = PMC.parental_pair_markov_blankets(parents, children)
        mp = int(ploidy.max())
        n_all = len(H)
        scratch = [np.zeros(n_all, dtype=np.int64) for _ in range(7)]
        dlf = np.zeros(n_all)
        for it in range(25):
            J.seed_numba(seed * 100 + rep * 31 + it)
            for k in range(len(pairs)):
                PMC.pair_allele_swap_step(int(pairs[k, 0]), int(pairs[k, 1]), blankets[k], genotypes, ploidy, parents, tau, lam, err, dists, cnts, H, logf, cache, scratch[0], scratch[1], scratch[2], scratch[3], scratch[4], scratch[5], scratch[6], dlf)
        # every cache entry must be the likelihood of that sample's own reads
        bad = []
        for (s, gi), v in cache.items():
            g = np.array(J.index_as_genotype_alleles(int(gi), int(ploidy[s])))
            idx = cnts[s] > 0
            exp = float(log_likelihood(dists[s][idx], H[g], read_counts=cnts[s][idx]))
            ev += 1
            if not close(float(v), exp):
                bad.append({"sample": int(s), "genotype": g.tolist(), "cached": float(v), "recomputed": exp})
        nontriv += len(set(nr)) > 1
        if bad and len(fails) < 2:
            fails.append({"key": "rt/pedigree_cache_entries_own_reads", "check": "mchap.pedigree.mcmc.pair_allele_swap_step", "input": {"distinct_reads_per_sample": nr, "parents": parents.tolist(), "rep": rep}, "observed": bad[:4], "expected": "cache[(sample, genotype)] == log_likelihood of that sample's own reads", "how": "caller-supplied typed-dict cache inspected after 25 pair_allele_swap_step calls"})
        if len(samples) < 2:
            samples.append({"distinct_reads_per_sample": nr, "cache_entries": len(cache)})
    return {"bound": "%d trios (2 founders + 1 child, tetraploid) with 1..5 distinct reads per sample, 25 parental swap steps each" % reps, "evaluations": ev, "distinct_nontrivial": nontriv, "failures": fails, "samples": samples, "exhaustive": False}


def _first_failure(chk):
    def f(model, seed, given):
        r = chk("quick", seed)
        if r["failures"]:
            x = r["failures"][0]
            return {"found": True, "input": x["input"], "observed": x["observed"], "expected": x["expected"], "how": x.get("how", ""), "failed_clause": x["key"]}
        return {"found": False}

    return f


CHECKS = [check_arraymap_sequences, check_cached_wrappers, check_assemble_traces, check_call_traces, check_pedigree_cache]
REPLAY = {
    "mchap.assemble.arraymap.set": _first_failure(check_arraymap_sequences),
    "mchap.assemble.arraymap.get": _first_failure(check_arraymap_sequences),
    "mchap.assemble.likelihood.log_likelihood_cached": _first_failure(check_cached_wrappers),
    "mchap.assemble.likelihood.log_likelihood_structural_change_cached": _first_failure(check_cached_wrappers),
    "mchap.assemble.mutation.base_step": _first_failure(check_assemble_traces),
    "mchap.assemble.mutation.compound_step": _first_failure(check_assemble_traces),
    "mchap.assemble.mcmc._denovo_assembler": _first_failure(check_assemble_traces),
    "mchap.pedigree.mcmc.pair_allele_swap_step": _first_failure(check_pedigree_cache),
}
