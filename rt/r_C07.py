"""C07 bounded run-time contracts: every line written by assemble, call, call-exact and call-pedigree
is a valid VCF record under the emitted header and internally consistent.  The four programs are
run in-process on the repository's small test alignments for several --report sets; the output is
parsed by an independent text parser (and by pysam.VariantFile)."""
import io
import math
import os
import shutil
import sys
import tempfile

import numpy as np
import pysam

RULE = "four programs x datasets from the repository's test alignments (incl. loci without reads / with masked reference / ALT-less, mixed ploidy pools) x --report sets {default, AFP ACP AOP, GP GL, all}; one evaluation per record; non-trivial = record with >= 1 ALT; distinct by (program, report set, record)"


def run(cls, command):
    out = io.StringIO()
    saved = sys.stdout
    sys.stdout = out
    try:
        cls.cli(command).run_stdout()
    finally:
        sys.stdout = saved
    return out.getvalue()


def parse(text):
    info, fmt, samples, rows = {}, {}, [], []
    for line in text.splitlines():
        if line.startswith("##INFO=") or line.startswith("##FORMAT="):
            body = line[line.index("<") + 1 : line.rindex(">")]
            d = {}
            for part in body.split(",", 3):
                k, _, v = part.partition("=")
                d[k] = v
            (info if line.startswith("##INFO") else fmt)[d["ID"]] = d
        elif line.startswith("#CHROM"):
            samples = line.split("\t")[9:]
        elif line and not line.startswith("#"):
            rows.append(line.split("\t"))
    return info, fmt, samples, rows


def n_values(s):
    return 0 if s == "" else len(s.split(","))


def check_card(number, value, n_alt, ploidy):
    """True if the value string has the declared cardinality (a lone '.' = missing field)"""
    if value == ".":
        return True
    n = n_values(value)
    if number == "1":
        return n == 1
    if number == "A":
        return n == n_alt
    if number == "R":
        return n == n_alt + 1
    if number == "G":
        return ploidy is not None and n == math.comb(n_alt + 1 + ploidy - 1, ploidy)
    if number == ".":
        return n >= 1
    if number.isdigit():
        return n == int(number)
    return True


def check_programs(tier, seed):
    from mchap.application import assemble, call, call_exact, call_pedigree
    import mchap

    data = os.path.join(os.path.dirname(mchap.__file__), "tests", "test_io", "data")
    ref = os.path.join(data, "simple.fasta")
    bams = [os.path.join(data, "simple.sample1.bam"), os.path.join(data, "simple.sample2.deep.bam"), os.path.join(data, "simple.sample3.bam")]
    ev = nontriv = 0
    fails = []
    samples_out = []
    tmp = tempfile.mkdtemp(prefix="verif_c07_")

    def bad(key, inp, obs, exp, how=""):
        if len(fails) < 8 and not any(f["key"] == key for f in fails):
            fails.append({"key": key, "check": "vcf output", "input": inp, "observed": obs, "expected": exp, "how": how})

    try:
        reports = [[], ["AFP", "ACP", "AOP", "AOPSUM"], ["GP", "GL"], ["AFP", "ACP", "AOP", "AOPSUM", "GP", "GL", "SNVDP", "AFPRIOR"]]
        # single prefixed fields: each INFO field must be computable on its own
        singles = [["INFO/ACP"], ["INFO/AFP"], ["INFO/AOP"], ["INFO/AOPSUM"], ["FORMAT/AFP"], ["INFO/SNVDP"], ["FORMAT/GL"], ["FORMAT/GP"]]
        if tier == "quick":
            reports = [reports[0], reports[3]]
            singles = [singles[(seed + i) % len(singles)] for i in range(3)] + [["INFO/ACP"]]
        reports = reports + singles
        asm_base = ["mchap", "assemble", "--bam"] + bams + ["--targets", os.path.join(data, "simple.bed.gz"), "--variants", os.path.join(data, "simple.vcf.gz"), "--reference", ref, "--mcmc-steps", "300", "--mcmc-burn", "100", "--mcmc-seed", str(7 + seed)]
        jobs = []
        for rep in reports:
            rp = (["--report"] + [r for r in rep if r != "AFPRIOR"]) if rep else []
            if rep in singles and rep != ["INFO/ACP"]:
                jobs.append(("assemble", assemble.program, asm_base + ["--ploidy", "4"] + rp))
                continue
            jobs.append(("assemble", assemble.program, asm_base + ["--ploidy", "4"] + rp))
            jobs.append(("assemble-pools", assemble.program, asm_base + ["--ploidy", os.path.join(data, "simple.pools-ploidy"), "--sample-pool", os.path.join(data, "simple.pools")] + rp))
            jobs.append(("assemble-strict", assemble.program, asm_base + ["--ploidy", "4", "--haplotype-posterior-threshold", "0.95", "--mapping-quality", "50"] + rp))
        hap = os.path.join(data, "simple.output.mixed_depth.assemble.vcf")
        mock = os.path.join(data, "mock.input.frequencies.vcf")
        for rep in reports:
            rp = (["--report"] + rep) if rep else []
            for name, cls, extra in (("call", call.program, ["--mcmc-steps", "200", "--mcmc-burn", "100"]), ("call-exact", call_exact.program, [])):
                jobs.append((name, cls, ["mchap", name, "--bam"] + bams + ["--ploidy", "4", "--haplotypes", hap] + extra + rp))
                jobs.append((name + "-prior", cls, ["mchap", name, "--bam"] + bams + ["--ploidy", "4", "--haplotypes", mock, "--prior-frequencies", "AFP", "--filter-input-haplotypes", "AFP>=0.1"] + extra + rp))
            jobs.append(("call-pedigree", call_pedigree.program, ["mchap", "call-pedigree", "--bam"] + bams + ["--ploidy", "4", "--haplotypes", hap, "--sample-parents", os.path.join(data, "simple.pedigree.132.txt"), "--gamete-error", "0.1", "--mcmc-steps", "200", "--mcmc-burn", "100"] + rp))
        # input haplotypes whose prior frequency is exactly zero at the end / in the middle / at the first ALT of the allele list
        # (--prior-frequencies AFP without a filter): alleles with zero prior stay listed, every R/A/G field keeps its cardinality
        zero_vcf = os.path.join(tmp, "zero_prior.vcf")
        refseq20 = "A" * 20
        zrecs = [
            ("CHR1", 6, "z_last3", ["AAAAAAAAAAGAAAAAATAA", "ACAAAAAAAAGAAAAAACAA"], "0.2,0.8,0"),
            ("CHR2", 11, "z_last4", ["AAAAAAAAAGAAAAAAAAAA", "AAAAAAAAATAAAAAAAAAA", "AAAATAAAAGAAAAAAAAAA"], "0.5,0.3,0.2,0"),
            ("CHR2", 11, "z_mid4", ["AAAAAAAAAGAAAAAAAAAA", "AAAAAAAAATAAAAAAAAAA", "AAAATAAAAGAAAAAAAAAA"], "0.5,0,0.3,0.2"),
            ("CHR1", 6, "z_two_last", ["AAAAAAAAAAGAAAAAATAA", "ACAAAAAAAAGAAAAAACAA"], "1,0,0"),
            ("CHR3", 21, "z_all", ["AAAAAAAAAAGAAAAAATAA", "ACAAAAAAAAGAAAAAACAA"], "0,0,0"),
        ]
        with open(zero_vcf, "w") as f:
            f.write("##fileformat=VCFv4.3\n##contig=<ID=CHR1,length=60>\n##contig=<ID=CHR2,length=60>\n##contig=<ID=CHR3,length=60>\n")
            f.write('##INFO=<ID=END,Number=1,Type=Integer,Description="End">\n##INFO=<ID=AFP,Number=R,Type=Float,Description="freq">\n')
            f.write("#CHROM\tPOS\tID\tREF\tALT\tQUAL\tFILTER\tINFO\n")
            for chrom_, pos_, name_, alts_, afp_ in zrecs:
                f.write("\t".join([chrom_, str(pos_), name_, refseq20, ",".join(alts_), ".", ".", "END=%d;AFP=%s" % (pos_ + 19, afp_)]) + "\n")
        full_rp = ["--report", "AFP", "ACP", "AOP", "AOPSUM", "GP", "AFPRIOR"]
        jobs.append(("call-zero-prior", call.program, ["mchap", "call", "--bam"] + bams + ["--ploidy", "4", "--haplotypes", zero_vcf, "--prior-frequencies", "AFP", "--mcmc-steps", "200", "--mcmc-burn", "100"] + full_rp))
        jobs.append(("call-exact-zero-prior", call_exact.program, ["mchap", "call-exact", "--bam"] + bams + ["--ploidy", "4", "--haplotypes", zero_vcf, "--prior-frequencies", "AFP"] + full_rp))
        jobs.append(("call-pedigree-zero-prior", call_pedigree.program, ["mchap", "call-pedigree", "--bam"] + bams + ["--ploidy", "4", "--haplotypes", zero_vcf, "--prior-frequencies", "AFP", "--sample-parents", os.path.join(data, "simple.pedigree.132.txt"), "--gamete-error", "0.1", "--mcmc-steps", "200", "--mcmc-burn", "100"] + full_rp))
        # mixed-ploidy pedigree (4x, 2x founders, 3x progeny) with masked / zero-prior alleles: GT has exactly `ploidy` entries
        ped_f = os.path.join(tmp, "ped.txt")
        open(ped_f, "w").write("SAMPLE1\t.\t.\nSAMPLE3\t.\t.\nSAMPLE2\tSAMPLE1\tSAMPLE3\n")
        plo_f = os.path.join(tmp, "ploidy.txt")
        open(plo_f, "w").write("SAMPLE1\t4\nSAMPLE2\t3\nSAMPLE3\t2\n")
        tau_f = os.path.join(tmp, "tau.txt")
        open(tau_f, "w").write("SAMPLE1\t2\t2\nSAMPLE2\t2\t1\nSAMPLE3\t1\t1\n")
        expect_ploidy = {"call-pedigree-mixed-ploidy": {"SAMPLE1": 4, "SAMPLE2": 3, "SAMPLE3": 2}}
        jobs.append(("call-pedigree-mixed-ploidy", call_pedigree.program, ["mchap", "call-pedigree", "--bam"] + bams + ["--haplotypes", mock, "--sample-parents", ped_f, "--ploidy", plo_f, "--gamete-ploidy", tau_f, "--gamete-error", "0.1", "--prior-frequencies", "AFP", "--filter-input-haplotypes", "AFP>=0.1", "--mcmc-steps", "200", "--mcmc-burn", "100"] + full_rp))
        jobs.append(("call-pedigree-mixed-ploidy", call_pedigree.program, ["mchap", "call-pedigree", "--bam"] + bams + ["--haplotypes", zero_vcf, "--sample-parents", ped_f, "--ploidy", plo_f, "--gamete-ploidy", tau_f, "--gamete-error", "0.1", "--prior-frequencies", "AFP", "--mcmc-steps", "200", "--mcmc-burn", "100"] + full_rp))
        fasta = pysam.FastaFile(ref)
        for name, cls, cmd in jobs:
            inp0 = {"program": name, "command": " ".join(os.path.basename(a) if "/" in a else a for a in cmd[1:])}
            try:
                text = run(cls, cmd)
            except Exception as ex:
                ev += 1
                bad("rt/program_raises:" + name, inp0, repr(ex) + " <- " + repr(getattr(ex, "__cause__", None)), "VCF output")
                continue
            info, fmt, samples, rows = parse(text)
            # pysam must be able to read it
            path = os.path.join(tmp, "o.vcf")
            with open(path, "w") as f:
                f.write(text)
            try:
                with pysam.VariantFile(path) as vf:
                    n_py = sum(1 for _ in vf)
                if n_py != len(rows):
                    bad("rt/pysam_record_count", inp0, n_py, len(rows))
            except Exception as ex:
                bad("rt/pysam_cannot_parse", inp0, repr(ex), "parsable VCF")
            for row in rows:
                ev += 1
                chrom, pos, rid, refseq, alt, qual, flt, infos, fkeys = row[:9]
                cols = row[9:]
                n_alt = 0 if alt == "." else len(alt.split(","))
                nontriv += n_alt >= 1
                inp = dict(inp0, record="\t".join(row)[:400])
                infod = {}
                for kv in infos.split(";"):
                    k, eq, v = kv.partition("=")
                    infod[k] = v if eq else True
                for k, v in infod.items():
                    if k not in info:
                        bad("rt/undeclared_info_key", inp, k, sorted(info))
                    elif v is not True and not check_card(info[k]["Number"], v, n_alt, None):
                        bad("rt/info_cardinality", inp, {k: v}, "Number=%s with %d ALT" % (info[k]["Number"], n_alt))
                keys = fkeys.split(":")
                if len(cols) != len(samples):
                    bad("rt/sample_columns", inp, len(cols), len(samples))
                gts = []
                for c in cols:
                    vals = c.split(":")
                    if len(vals) != len(keys):
                        bad("rt/format_value_count", inp, c, fkeys)
                        continue
                    d = dict(zip(keys, vals))
                    gt = d["GT"].replace("|", "/").split("/")
                    ploidy = len(gt)
                    want_pl = expect_ploidy.get(name, {}).get(samples[len(gts)])
                    if want_pl is not None and ploidy != want_pl:
                        bad("rt/gt_has_ploidy_entries", inp, {samples[len(gts)]: d["GT"]}, want_pl, "GT has exactly the sample's ploidy entries (mixed-ploidy pedigree)")
                    called = [int(a) for a in gt if a != "."]
                    gts.append(called)
                    if any(a > n_alt for a in called) or called != sorted(called) or gt != [str(a) for a in called] + ["."] * (ploidy - len(called)):
                        bad("rt/gt_wellformed", inp, d["GT"], "listed alleles, sorted, '.' last")
                    if "REFMASKED" in infod and 0 in called:
                        bad("rt/gt_uses_masked_reference", inp, d["GT"], "no allele 0 when REFMASKED")
                    for k, v in d.items():
                        if k not in fmt:
                            bad("rt/undeclared_format_key", inp, k, sorted(fmt))
                        elif k != "GT" and not check_card(fmt[k]["Number"], v, n_alt, ploidy):
                            bad("rt/format_cardinality", inp, {k: v, "ploidy": ploidy}, "Number=%s with %d ALT" % (fmt[k]["Number"], n_alt))
                    for k in ("AFP", "GP"):
                        if k in d and d[k] != ".":
                            tot = sum(float(x) for x in d[k].split(",") if x != ".")
                            if tot > 1.0 + 0.003 * n_values(d[k]):
                                bad("rt/%s_sums_above_one" % k, inp, {k: d[k]}, "<= 1 (3-decimal rounding tolerance)")
                # REF / ALT against the reference sequence and SNVPOS
                end = int(infod.get("END", 0)) if infod.get("END") not in (None, True, ".") else None
                if end is not None:
                    seq = fasta.fetch(chrom, int(pos) - 1, end).upper()
                    if seq != refseq:
                        bad("rt/ref_is_reference_sequence", inp, refseq, seq)
                snvpos = [] if infod.get("SNVPOS") in (None, True, ".") else [int(x) for x in infod["SNVPOS"].split(",")]
                for a in ([] if alt == "." else alt.split(",")):
                    diff = [i + 1 for i in range(min(len(a), len(refseq))) if a[i] != refseq[i]]
                    if len(a) != len(refseq) or (snvpos and not set(diff) <= set(snvpos)):
                        bad("rt/alt_differs_only_at_snvpos", inp, {"ALT": a, "diff": diff}, {"len": len(refseq), "SNVPOS": snvpos})
                # INFO ACP sums to the total ploidy of the called samples (posterior allele counts)
                if "ACP" in infod and infod["ACP"] not in (True, ".") and "NOA" not in flt and "AF0" not in flt:
                    vals_ = [float(x) for x in infod["ACP"].split(",") if x != "."]
                    tot_pl = sum(len(c.split(":")[keys.index("GT")].replace("|", "/").split("/")) for c in cols)
                    if name.startswith("call") and abs(sum(vals_) - tot_pl) > 0.01 * max(1, len(vals_)):
                        bad("rt/info_acp_sums_to_total_ploidy", inp, infod["ACP"], tot_pl)
                # AC / AN / UAN / NS recomputed from the sample columns
                counts = [0] * (n_alt + 1)
                for g in gts:
                    for a in g:
                        if a <= n_alt:
                            counts[a] += 1
                exp = {"AC": ",".join(str(x) for x in counts[1:]) if n_alt else ".", "AN": str(sum(counts)), "UAN": str(sum(1 for x in counts if x > 0)), "NS": str(sum(1 for g in gts if g))}
                for k, v in exp.items():
                    if k in infod and infod[k] != v:
                        bad("rt/info_%s_recomputed" % k, inp, infod[k], v)
            if len(samples_out) < 3 and rows:
                samples_out.append({"program": name, "records": len(rows), "first": "\t".join(rows[0][:8])[:200]})
    finally:
        shutil.rmtree(tmp, ignore_errors=True)
    return {"bound": "%d program runs on the repository test alignments" % len(jobs), "evaluations": ev, "distinct_nontrivial": nontriv, "failures": fails, "samples": samples_out, "exhaustive": False}


def check_vcfstr(tier, seed):
    """numeric fields read back as the internal values rounded to three decimals"""
    from mchap.io.vcf.util import vcfstr

    rng = np.random.default_rng(seed + 7)
    ev = 0
    fails = []
    for _ in range(2000 if tier == "quick" else 20000):
        k = int(rng.integers(0, 4))
        if k == 0:
            x = float(rng.choice([0.0, 1.0, 0.5, 0.9995, 0.0004999, 1e-7, 123.0, 2.0004, 10.0, 100.0, 0.1 + 0.2]))
        elif k == 1:
            x = float(rng.random() * 10.0 ** int(rng.integers(-6, 4)))
        elif k == 2:
            x = float(np.round(rng.random(), int(rng.integers(0, 5))))
        else:
            x = float(rng.integers(0, 1000))
        for obj in (x, np.array([x, 0.0, x]), np.float64(x)):
            s = vcfstr(obj)
            ev += 1
            try:
                vals = [float(v) for v in s.split(",")]
                # rounded to three decimals: within half a unit of the third decimal (ties may go either way)
                dec = max(len(v.partition(".")[2]) for v in s.split(","))
                ok = dec <= 3 and abs(vals[0] - x) <= 0.0005 + 1e-9 and (not isinstance(obj, np.ndarray) or (len(vals) == 3 and abs(vals[2] - x) <= 0.0005 + 1e-9 and vals[1] == 0.0))
            except ValueError:
                ok = False
            if not ok and len(fails) < 3:
                fails.append({"key": "rt/vcfstr_rounding", "check": "mchap.io.vcf.util.vcfstr", "input": {"value": repr(obj)}, "observed": s, "expected": repr(round(x, 3))})
    return {"bound": "random floats incl. rounding boundaries, scalar / array / numpy scalar", "evaluations": ev, "distinct_nontrivial": ev, "failures": fails, "samples": [{"cases": ev}], "exhaustive": False}


CHECKS = [check_programs, check_vcfstr]
REPLAY = {}
