"""C03 bounded run-time contracts: call-exact reports the normalised posterior in VCF genotype order;
GT/GPM/SPM/AFP/ACP/AOP are its functionals; the streaming and full-array paths agree (kernel level
and through program.call_sample_genotypes with different --report sets)."""
import itertools
import math

import numpy as np

from mchap.calling import exact as EX
from mchap.application import call_exact
import mchap.io.vcf.formatfields as FORMAT
from rt.oracles import exact_posterior, make_reads, close, first_failure
from rt.apphelp import FakeLocusPrior, make_data, make_program

RULE = "random read sets over enumerated (ploidy, haplotypes) shapes x inbreeding {0,.1,.6} x frequency vectors {flat, skewed, with a zero}; every (shape, parameters, report set) is one evaluation; non-trivial = posterior mode probability < 0.999; distinct by construction"


def functionals(gens, post, n_alleles, ploidy):
    i = max(range(len(post)), key=lambda k: post[k])
    mode = gens[i]
    supp = set(mode)
    spm = sum(p for g, p in zip(gens, post) if set(g) == supp)
    afp = [0.0] * n_alleles
    aop = [0.0] * n_alleles
    for g, p in zip(gens, post):
        for a in g:
            afp[a] += p / ploidy
        for a in set(g):
            aop[a] += p
    return i, mode, post[i], spm, afp, aop


def cases(tier, seed):
    rng = np.random.default_rng(seed + 3)
    shapes = [(2, 3), (3, 3), (4, 3), (2, 5)] if tier == "quick" else [(2, 3), (3, 4), (4, 4), (6, 3), (2, 8), (5, 3)]
    reps = 2 if tier == "quick" else 6
    for ploidy, nh in shapes:
        N = 4
        for _ in range(reps):
            H = np.unique(rng.integers(0, 2, size=(60, N)).astype(np.int8), axis=0)
            H = H[rng.permutation(len(H))][:nh]
            reads, counts = make_reads(rng, int(rng.integers(1, 7)), N, 2)
            v = rng.random(len(H)) + 0.1
            v /= v.sum()
            z = v.copy()
            z[int(rng.integers(0, len(H)))] = 0.0
            z /= z.sum()
            for F in (0.0, 0.1, 0.6):
                for fr in (None, v, z):
                    yield ploidy, H, reads, counts, F, fr
    # concentrated posteriors (mode probability between ~0.9 and 1): reads drawn from a true genotype with a small
    # error rate at increasing depth -- the functionals must still be the posterior means, not the mode's dosage
    for ploidy, nh in ([(2, 3), (4, 3)] if tier == "quick" else [(2, 3), (3, 3), (4, 3), (6, 3), (4, 4)]):
        N = 4
        H = np.unique(rng.integers(0, 2, size=(60, N)).astype(np.int8), axis=0)
        H = H[rng.permutation(len(H))][:nh]
        true = np.sort(rng.integers(0, len(H), size=ploidy))
        for depth in ((4, 8, 12, 16, 24) if tier == "quick" else (4, 6, 8, 10, 12, 16, 20, 24, 32, 48)):
            for q in (0.65, 0.75, 0.85, 0.95):
                reads = np.empty((depth, N, 2))
                for r in range(depth):
                    h = H[true[int(rng.integers(0, ploidy))]]
                    for j in range(N):
                        reads[r, j, h[j]] = q
                        reads[r, j, 1 - h[j]] = 1 - q
                counts = np.ones(depth, dtype=np.int64)
                v = rng.random(len(H)) + 0.1
                v /= v.sum()
                for F, fr in ((0.0, None), (0.2, v)):
                    yield ploidy, H, reads, counts, F, fr


def deep_cases(tier, seed):
    """high ploidy, three or more distinct alleles in the true genotype, deep reads: the support of the mode has many dosage
    configurations whose posterior terms are far from monotone in enumeration order"""
    rng = np.random.default_rng(seed + 303)
    N = 4
    for ploidy, nh, depth in ([(5, 3, 48), (6, 4, 64)] if tier == "quick" else [(5, 3, 48), (6, 3, 64), (6, 4, 64), (7, 3, 80), (5, 4, 96)]):
        H = np.unique(rng.integers(0, 2, size=(60, N)).astype(np.int8), axis=0)
        H = H[rng.permutation(len(H))][:nh]
        k = min(len(H), 3)
        true = np.sort(np.concatenate([np.arange(k), rng.integers(0, k, size=ploidy - k)]))
        reads = np.empty((depth, N, 2))
        for r in range(depth):
            h = H[true[int(rng.integers(0, ploidy))]]
            for j in range(N):
                reads[r, j, h[j]] = 0.97
                reads[r, j, 1 - h[j]] = 0.03
        counts = np.ones(depth, dtype=np.int64)
        for F in (0.0, 0.2):
            yield ploidy, H, reads, counts, F, None
    # ploidy 8 - 12 (dosages of 8 and more copies of one allele), few haplotypes, shallow reads
    for ploidy, nh in ([(8, 2), (10, 2)] if tier == "quick" else [(8, 2), (8, 3), (10, 2), (12, 2), (9, 3)]):
        H = np.unique(rng.integers(0, 2, size=(60, N)).astype(np.int8), axis=0)
        H = H[rng.permutation(len(H))][:nh]
        reads, counts = make_reads(rng, int(rng.integers(2, 6)), N, 2)
        v = rng.random(len(H)) + 0.1
        v /= v.sum()
        for F in (0.0, 0.1):
            for fr in (None, v):
                yield ploidy, H, reads, counts, F, fr


def check_exact_kernels(tier, seed):
    ev = nontriv = concentrated = 0
    fails = []
    samples = []

    def bad(key, fn, inp, obs, exp, how=""):
        if len(fails) < 5 and not any(f["key"] == key for f in fails):
            fails.append({"key": key, "check": fn, "input": inp, "observed": obs, "expected": exp, "how": how})

    for ploidy, H, reads, counts, F, fr in itertools.chain(cases(tier, seed), deep_cases(tier, seed)):
        nh = len(H)
        f_or = [1.0 / nh] * nh if fr is None else fr.tolist()
        gens, post = exact_posterior(reads, counts, H, ploidy, f_or, F)
        i, mode, gpm, spm, afp, aop = functionals(gens, post, nh, ploidy)
        inp = {"ploidy": ploidy, "haplotypes": H.tolist(), "inbreeding": F, "frequencies": None if fr is None else fr.tolist(), "reads": reads.tolist(), "read_counts": counts.tolist()}
        ev += 1
        nontriv += gpm < 0.999
        concentrated += 0.99 < gpm < 1 - 1e-6
        # full-array path
        llks = EX.genotype_likelihoods(reads=reads, ploidy=ploidy, haplotypes=H, read_counts=counts)
        probs = np.asarray(EX.genotype_posteriors(llks, ploidy, nh, F, fr), dtype=float)
        if len(probs) != len(post) or np.abs(probs - np.array(post)).max() > 2e-5:
            bad("rt/genotype_posteriors", "mchap.calling.exact.genotype_posteriors", inp, probs.tolist(), post, "array path vs normalised lik x prior in VCF genotype order (float32 GL tolerance 2e-5)")
        freqs, cnts, occur = EX.posterior_allele_frequencies(np.array(post), ploidy, nh)
        if np.abs(freqs - np.array(afp)).max() > 1e-9 or np.abs(occur - np.array(aop)).max() > 1e-9 or np.abs(cnts - ploidy * np.array(afp)).max() > 1e-9:
            bad("rt/posterior_allele_frequencies", "mchap.calling.exact.posterior_allele_frequencies", inp, [freqs.tolist(), cnts.tolist(), occur.tolist()], [afp, aop], "AFP/ACP/AOP from a posterior vector")
        _, sp = EX.alternate_dosage_posteriors(np.array(mode, dtype=np.int64), np.array(post))
        if abs(sp.sum() - spm) > 1e-9:
            bad("rt/alternate_dosage_posteriors", "mchap.calling.exact.alternate_dosage_posteriors", inp, float(sp.sum()), spm, "support probability of the mode")
        # streaming path
        res = EX.posterior_mode(reads, ploidy, H, counts, F, fr, True, True, True)
        g_s, llk_s, gpm_s, spm_s, afp_s, aop_s = res
        tie = sorted(post, reverse=True)
        is_tie = len(tie) > 1 and abs(tie[0] - tie[1]) < 1e-9
        ok = (tuple(int(x) for x in g_s) == tuple(mode) or is_tie) and abs(gpm_s - gpm) < 1e-9 and (abs(spm_s - spm) < 1e-9 or is_tie) and np.abs(np.array(afp_s) - np.array(afp)).max() < 1e-9 and np.abs(np.array(aop_s) - np.array(aop)).max() < 1e-9
        if not ok:
            bad("rt/posterior_mode_streaming", "mchap.calling.exact.posterior_mode", inp, {"GT": [int(x) for x in g_s], "GPM": float(gpm_s), "SPM": float(spm_s), "AFP": np.asarray(afp_s).tolist(), "AOP": np.asarray(aop_s).tolist()}, {"GT": list(mode), "GPM": gpm, "SPM": spm, "AFP": afp, "AOP": aop}, "streaming path vs independent enumeration")
        if not (abs(sum(afp_s) - 1) < 1e-9 and gpm_s <= spm_s + 1e-12 and spm_s <= 1 + 1e-9):
            bad("rt/posterior_mode_invariants", "mchap.calling.exact.posterior_mode", inp, {"sumAFP": float(sum(afp_s)), "GPM": float(gpm_s), "SPM": float(spm_s)}, "sum AFP = 1, GPM <= SPM <= 1")
        if len(samples) < 2:
            samples.append({"ploidy": ploidy, "haplotypes": nh, "GPM": gpm})
    if concentrated == 0:
        bad("rt/posterior_mode_domain", "rt.r_C03.cases", {}, 0, ">0", "harness: no case with 0.99 < GPM < 1-1e-6 generated")
    return {"bound": "shapes x reps x F {0,.1,.6} x 3 frequency vectors + depth x read-quality sweep (%d cases with 0.99 < GPM < 1-1e-6)" % concentrated, "evaluations": ev, "distinct_nontrivial": nontriv, "failures": fails, "samples": samples, "exhaustive": False}


def check_application_paths(tier, seed):
    """program.call_sample_genotypes: several samples (mixed ploidy, per-sample inbreeding) x --report sets"""
    rng = np.random.default_rng(seed + 33)
    ev = nontriv = 0
    fails = []
    samples_out = []
    report_sets = [[], [FORMAT.GP], [FORMAT.GL], [FORMAT.GP, FORMAT.GL, FORMAT.AFP]]
    reps = 4 if tier == "quick" else 20
    for rep in range(reps):
        N = 4
        nh = int(rng.integers(2, 6))
        H = np.unique(rng.integers(0, 2, size=(60, N)).astype(np.int8), axis=0)
        H = H[rng.permutation(len(H))][:nh]
        nh = len(H)
        fr = rng.random(nh) + 0.1
        fr /= fr.sum()
        names = ["S%d" % i for i in range(4)]
        ploidy = {"S0": 4, "S1": 4, "S2": 2, "S3": 4}
        inb = {"S0": 0.0, "S1": 0.5, "S2": 0.2, "S3": 0.05}
        reads = {}
        counts = {}
        for s in names:
            reads[s], counts[s] = make_reads(rng, int(rng.integers(1, 6)), N, 2)
        expected = {}
        for s in names:
            gens, post = exact_posterior(reads[s], counts[s], H, ploidy[s], fr.tolist(), inb[s])
            expected[s] = (gens, post) + functionals(gens, post, nh, ploidy[s])
        for fmt in report_sets:
            fields = [FORMAT.GT, FORMAT.GPM, FORMAT.SPM, FORMAT.AFP, FORMAT.ACP, FORMAT.AOP] + fmt
            prog = make_program(call_exact.program, names, ploidy, inb, fields)
            locus = FakeLocusPrior(H, fr)
            data = make_data(locus, names, ploidy, inb, reads, counts, fields)
            data = prog.call_sample_genotypes(data)
            for s in names:
                gens, post, i, mode, gpm, spm, afp, aop = expected[s]
                ev += 1
                nontriv += gpm < 0.999
                gt = tuple(int(x) for x in data.sampledata[FORMAT.GT][s])
                tol = 3e-5 if fmt else 1e-9
                tie = sorted(post, reverse=True)
                is_tie = len(tie) > 1 and abs(tie[0] - tie[1]) < 1e-6
                ok = (gt == tuple(mode) or is_tie)
                ok &= abs(float(data.sampledata[FORMAT.GPM][s]) - gpm) < tol
                ok &= abs(float(data.sampledata[FORMAT.SPM][s]) - spm) < tol or is_tie
                ok &= np.abs(np.asarray(data.sampledata[FORMAT.AFP][s]) - np.array(afp)).max() < tol
                ok &= np.abs(np.asarray(data.sampledata[FORMAT.ACP][s]) - ploidy[s] * np.array(afp)).max() < tol * ploidy[s]
                ok &= np.abs(np.asarray(data.sampledata[FORMAT.AOP][s]) - np.array(aop)).max() < tol
                if FORMAT.GP in fmt:
                    gp = np.asarray(data.sampledata[FORMAT.GP][s], dtype=float)
                    ok &= len(gp) == len(post) and np.abs(gp - np.array(post)).max() < tol
                if not ok and len(fails) < 3:
                    fails.append({"key": "rt/call_exact_application", "check": "mchap.application.call_exact.program.call_sample_genotypes", "input": {"sample": s, "ploidy": ploidy[s], "inbreeding": inb[s], "report": [f.id for f in fmt], "haplotypes": H.tolist(), "frequencies": fr.tolist(), "reads": reads[s].tolist(), "read_counts": counts[s].tolist()}, "observed": {"GT": list(gt), "GPM": float(data.sampledata[FORMAT.GPM][s]), "SPM": float(data.sampledata[FORMAT.SPM][s]), "AFP": np.asarray(data.sampledata[FORMAT.AFP][s]).tolist()}, "expected": {"GT": list(mode), "GPM": gpm, "SPM": spm, "AFP": afp}, "how": "call_sample_genotypes on 4 samples (mixed ploidy / inbreeding) vs independent enumeration"})
        if len(samples_out) < 2:
            samples_out.append({"haplotypes": nh, "samples": 4})
    return {"bound": "%d loci x 4 samples (ploidy 4,4,2,4; F 0,.5,.2,.05) x 4 report sets" % reps, "evaluations": ev, "distinct_nontrivial": nontriv, "failures": fails, "samples": samples_out, "exhaustive": False}


def check_many_haplotypes(tier, seed):
    """more than 128 known haplotypes (allele indices beyond int8)"""
    rng = np.random.default_rng(seed + 333)
    N = 8
    H = np.unique(rng.integers(0, 2, size=(2000, N)).astype(np.int8), axis=0)[:140]
    nh = len(H)
    ev = 0
    fails = []
    for rep in range(2 if tier == "quick" else 8):
        true = rng.integers(120, nh, size=2)
        reads = np.full((6, N, 2), 0.02)
        for r in range(6):
            h = H[true[r % 2]]
            for j in range(N):
                reads[r, j, h[j]] = 0.98
        counts = np.ones(6, dtype=np.int64)
        gens, post = exact_posterior(reads, counts, H, 2, [1.0 / nh] * nh, 0.1)
        i, mode, gpm, spm, afp, aop = functionals(gens, post, nh, 2)
        res = EX.posterior_mode(reads, 2, H, counts, 0.1, None, True, True, True)
        ev += 1
        ok = tuple(int(x) for x in res[0]) == tuple(mode) and abs(res[2] - gpm) < 1e-9 and abs(res[3] - spm) < 1e-9
        if not ok and len(fails) < 2:
            fails.append({"key": "rt/exact_many_haplotypes", "check": "mchap.calling.exact.posterior_mode", "input": {"n_haplotypes": nh, "true_genotype": true.tolist()}, "observed": {"GT": [int(x) for x in res[0]], "GPM": float(res[2]), "SPM": float(res[3])}, "expected": {"GT": list(mode), "GPM": gpm, "SPM": spm}})
    return {"bound": "140 haplotypes, diploid, called alleles >= 120", "evaluations": ev, "distinct_nontrivial": ev, "failures": fails, "samples": [{"n_haplotypes": nh}], "exhaustive": False}


CHECKS = [check_exact_kernels, check_application_paths, check_many_haplotypes]
REPLAY = {
    "mchap.calling.exact._call_posterior_mode": first_failure(check_exact_kernels),
    "mchap.calling.exact.genotype_posteriors": first_failure(check_exact_kernels),
    "mchap.calling.exact._posterior_allele_frequencies": first_failure(check_exact_kernels),
    "mchap.calling.exact.posterior_allele_frequencies": first_failure(check_exact_kernels),
}
