"""Independent brute-force oracle of the pedigree inheritance model (written from the property
statement / documentation): gametes are drawn without replacement from the parent (with
probability lambda a diploid gamete is a duplicated single copy), or -- with probability `error`
(always, for an unknown parent) -- as independent draws from the allele frequencies; the progeny is
the union of its two gametes."""
import itertools
import math


def multisets(n_alleles, k):
    return list(itertools.combinations_with_replacement(range(n_alleles), k))


def gamete_dist(parent, tau, lam, err, freqs):
    """dict: sorted tuple (gamete) -> probability"""
    out = {}
    if tau == 0:
        return {(): 1.0}
    n = len(freqs)
    if parent is None:
        err = 1.0
    if err < 1.0:
        P = len(parent)
        combos = list(itertools.combinations(range(P), tau))
        w = (1 - err) * (1 - lam) / len(combos) if combos else 0.0
        for c in combos:
            g = tuple(sorted(parent[i] for i in c))
            out[g] = out.get(g, 0.0) + w
        if lam > 0:
            assert tau == 2
            for i in range(P):
                g = (parent[i], parent[i])
                out[g] = out.get(g, 0.0) + (1 - err) * lam / P
    if err > 0:
        for g in multisets(n, tau):
            p = math.factorial(tau)
            for a in set(g):
                p /= math.factorial(g.count(a))
            for a in g:
                p *= freqs[a]
            out[g] = out.get(g, 0.0) + err * p
    return out


def trio_pmf_table(parent_p, parent_q, tau_p, tau_q, lam_p, lam_q, err_p, err_q, freqs):
    """dict: sorted progeny tuple -> probability"""
    gp = gamete_dist(parent_p, tau_p, lam_p, err_p, freqs)
    gq = gamete_dist(parent_q, tau_q, lam_q, err_q, freqs)
    out = {}
    for a, pa in gp.items():
        for b, pb in gq.items():
            g = tuple(sorted(a + b))
            out[g] = out.get(g, 0.0) + pa * pb
    return out
