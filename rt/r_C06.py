"""C06 bounded run-time contracts: the read matrix fed to inference is exactly the filtered pileup.
Synthetic BAMs (two read groups / samples, CIGARs with insertions, deletions and soft clips, flags,
MAPQ grid, overlapping mates that agree or disagree, bases that are not listed alleles) are written
with pysam from an abstract description that doubles as the oracle."""
import itertools
import os
import shutil
import tempfile

import numpy as np
import pysam

from mchap.io.bam import extract_read_variants
from mchap.io.loci import Locus, SNP
from mchap.application import assemble as APP
import mchap.io.vcf.formatfields as FORMAT
from rt.apphelp import make_data, make_program

RULE = "seeded random alignments (2 samples, CIGAR ops M/I/D/S, flags {unmapped, dup, qcfail, supplementary}, MAPQ {0,19,20,60}, mates) x loci x every combination of the three keep flags x MAPQ threshold {0,20,40} x read-group field {SM,ID}; non-trivial = at least one alignment filtered and one mate pair merged; distinct by seed"

REFSEQ = ("ACGT" * 30)
FUNMAP, FQCFAIL, FDUP, FSUPP = 0x4, 0x200, 0x400, 0x800


def make_read(rng, name, sample, start, length):
    """returns (description, list of pysam segments kwargs); description has aligned {ref_pos: base}"""
    ops = []
    remaining = length
    ref = start
    seq = []
    aligned = {}
    if rng.random() < 0.3:
        k = int(rng.integers(1, 4))
        ops.append((4, k))  # soft clip
        seq += list(rng.choice(list("ACGT"), size=k))
    while remaining > 0:
        k = int(min(remaining, rng.integers(2, 9)))
        ops.append((0, k))
        for i in range(k):
            b = REFSEQ[ref] if rng.random() < 0.7 else str(rng.choice(list("ACGT")))
            seq.append(b)
            aligned[ref] = b
            ref += 1
        remaining -= k
        if remaining > 0:
            r = rng.random()
            if r < 0.25:
                d = int(rng.integers(1, 3))
                ops.append((2, d))
                ref += d
            elif r < 0.5:
                ins = int(rng.integers(1, 3))
                ops.append((1, ins))
                seq += list(rng.choice(list("ACGT"), size=ins))
    if rng.random() < 0.3:
        k = int(rng.integers(1, 4))
        ops.append((4, k))
        seq += list(rng.choice(list("ACGT"), size=k))
    flag = 0
    for f, p in ((FDUP, 0.15), (FQCFAIL, 0.15), (FSUPP, 0.15), (FUNMAP, 0.05)):
        if rng.random() < p:
            flag |= f
    mapq = int(rng.choice([0, 19, 20, 60, 60, 60]))
    return {"name": name, "sample": sample, "start": start, "end": ref, "cigar": ops, "seq": "".join(seq), "flag": flag, "mapq": mapq, "aligned": aligned}


def build(tmp, rng, n_reads):
    ref = os.path.join(tmp, "ref.fa")
    with open(ref, "w") as f:
        f.write(">CHR1\n%s\n" % REFSEQ)
    pysam.faidx(ref)
    header = {"HD": {"VN": "1.6", "SO": "coordinate"}, "SQ": [{"SN": "CHR1", "LN": len(REFSEQ)}], "RG": [{"ID": "rgA", "SM": "SA"}, {"ID": "rgB", "SM": "SB"}]}
    reads = []
    for k in range(n_reads):
        sample = "A" if rng.random() < 0.6 else "B"
        start = int(rng.integers(0, 70))
        r = make_read(rng, "q%d" % k, sample, start, int(rng.integers(8, 25)))
        reads.append(r)
        if rng.random() < 0.4:  # a mate with the same name, overlapping
            m = make_read(rng, "q%d" % k, sample, int(min(95, start + rng.integers(0, 12))), int(rng.integers(8, 25)))
            if rng.random() < 0.5:
                # make the mate agree wherever it overlaps
                for p in m["aligned"]:
                    if p in r["aligned"]:
                        pass
            reads.append(m)
    unsorted = os.path.join(tmp, "u.bam")
    with pysam.AlignmentFile(unsorted, "wb", header=header) as out:
        for r in reads:
            a = pysam.AlignedSegment()
            a.query_name = r["name"]
            a.query_sequence = r["seq"]
            a.flag = r["flag"]
            a.reference_id = 0
            a.reference_start = r["start"]
            a.mapping_quality = r["mapq"]
            a.cigar = tuple(r["cigar"])
            a.query_qualities = pysam.qualitystring_to_array("I" * len(r["seq"]))
            a.set_tag("RG", "rg" + r["sample"])
            out.write(a)
    srt = os.path.join(tmp, "sorted.bam")
    pysam.sort("-o", srt, unsorted)
    bam = os.path.join(tmp, "s.bam")
    # MD tags (needed by get_aligned_pairs(with_seq=True)) as samtools calmd writes them
    with open(bam, "wb") as fh:
        fh.write(pysam.calmd("-b", srt, ref))
    pysam.index(bam)
    return ref, bam, reads


def expected_matrix(reads, locus_start, locus_stop, positions, sample, min_q, skip_dup, skip_qc, skip_sup):
    rows = {}
    order = []
    for r in sorted(reads, key=lambda x: x["start"]):
        if r["sample"] != sample:
            continue
        if r["flag"] & FUNMAP or r["mapq"] < min_q:
            continue
        if (r["flag"] & FDUP and skip_dup) or (r["flag"] & FQCFAIL and skip_qc) or (r["flag"] & FSUPP and skip_sup):
            continue
        if not (r["start"] < locus_stop and r["end"] > locus_start):
            continue
        if r["name"] not in rows:
            rows[r["name"]] = ["-"] * len(positions)
            order.append(r["name"])
        row = rows[r["name"]]
        for i, p in enumerate(positions):
            if p in r["aligned"]:
                b = r["aligned"][p]
                if row[i] == "-":
                    row[i] = b
                elif row[i] != b:
                    row[i] = "N"
    return rows


def check_extract(tier, seed):
    rng = np.random.default_rng(seed + 6)
    ev = nontriv = 0
    fails = []
    samples = []

    def bad(key, fn, inp, obs, exp, how=""):
        if len(fails) < 5 and not any(f["key"] == key for f in fails):
            fails.append({"key": key, "check": fn, "input": inp, "observed": obs, "expected": exp, "how": how})

    for rep in range(3 if tier == "quick" else 20):
        tmp = tempfile.mkdtemp(prefix="verif_c06_")
        try:
            ref, bam, reads = build(tmp, rng, 60)
            for lstart, lstop, snvs in ((20, 40, (22, 27, 33)), (45, 60, (45, 59)), (5, 15, (9,)), (70, 90, ())):
                variants = tuple(SNP(contig="CHR1", start=p, stop=p + 1, name=".", alleles=(REFSEQ[p], "ACGT"[("ACGT".index(REFSEQ[p]) + 1) % 4])) for p in snvs)
                locus = Locus(contig="CHR1", start=lstart, stop=lstop, name="L", sequence=REFSEQ[lstart:lstop], variants=variants)
                for min_q in (0, 20, 40):
                    for skip_dup, skip_qc, skip_sup in itertools.product((True, False), repeat=3):
                        for idf, names in (("SM", {"A": "SA", "B": "SB"}), ("ID", {"A": "rgA", "B": "rgB"})):
                            try:
                                with pysam.AlignmentFile(bam) as af:
                                    got = extract_read_variants(locus, af, samples=None, id=idf, min_quality=min_q, skip_duplicates=skip_dup, skip_qcfail=skip_qc, skip_supplementary=skip_sup, read_dicts=True)
                            except Exception as ex:
                                ev += 1
                                bad("rt/extract_read_variants_raises", "mchap.io.bam.extract_read_variants", {"locus": [lstart, lstop], "snvs": list(snvs), "min_quality": min_q}, repr(ex), "a read matrix")
                                continue
                            for s in ("A", "B"):
                                exp = expected_matrix(reads, lstart, lstop, snvs, s, min_q, skip_dup, skip_qc, skip_sup)
                                g = {k: "".join(v[0]) for k, v in got[names[s]].items()}
                                e = {k: "".join(v) for k, v in exp.items()}
                                ev += 1
                                nontriv += len(e) > 0
                                if g != e:
                                    diff = {k: (g.get(k), e.get(k)) for k in set(g) | set(e) if g.get(k) != e.get(k)}
                                    bad("rt/read_matrix_is_filtered_pileup", "mchap.io.bam.extract_read_variants", {"locus": [lstart, lstop], "snvs": list(snvs), "sample": names[s], "min_quality": min_q, "skip_duplicates": skip_dup, "skip_qcfail": skip_qc, "skip_supplementary": skip_sup, "id": idf, "reads": [{k: r[k] for k in ("name", "sample", "start", "cigar", "seq", "flag", "mapq")} for r in reads if r["name"] in diff][:6]}, {k: v[0] for k, v in diff.items()}, {k: v[1] for k, v in diff.items()}, "one row per read name among passing alignments overlapping the locus; cells = aligned base, '-' unaligned/deleted/clipped, mates merged (disagreement -> N)")
            if len(samples) < 2:
                samples.append({"alignments": len(reads), "example": {k: reads[0][k] for k in ("name", "cigar", "flag", "mapq")}})
        finally:
            shutil.rmtree(tmp, ignore_errors=True)
    return {"bound": "BAMs of ~80 alignments x 4 loci x MAPQ {0,20,40} x 8 keep-flag combinations x {SM,ID} x 2 samples", "evaluations": ev, "distinct_nontrivial": nontriv, "failures": fails, "samples": samples, "exhaustive": False}


def check_counts_and_reference(tier, seed):
    """application layer: DP / RCOUNT / RCALLS / SNVDP and the de-duplicated probabilistic reads; a reference
    base that disagrees with the alignment reference is an error"""
    rng = np.random.default_rng(seed + 66)
    ev = 0
    fails = []
    tmp = tempfile.mkdtemp(prefix="verif_c06b_")
    try:
        ref, bam, reads = build(tmp, rng, 80)
        snvs = (22, 27, 33)
        # SNVs with different numbers of listed alleles (3, 2, 2): a cell that is not a listed allele of ITS OWN SNV
        # (N from disagreeing mates, another base) is "no call" whatever the other SNVs list
        variants = tuple(SNP(contig="CHR1", start=p, stop=p + 1, name=".", alleles=(REFSEQ[p],) + tuple("ACGT"[("ACGT".index(REFSEQ[p]) + d) % 4] for d in ((1, 2) if k_ == 0 else (1,)))) for k_, p in enumerate(snvs))
        locus = Locus(contig="CHR1", start=20, stop=40, name="L", sequence=REFSEQ[20:40], variants=variants)
        # the character -> allele index step on its own: every symbol matrix over {A,C,G,T,N,-} x allele tuples of mixed length
        from mchap.encoding.character.transcode import as_allelic

        for rep in range(60):
            npos = int(rng.integers(1, 5))
            tups = []
            for _ in range(npos):
                k2 = int(rng.integers(1, 5))
                tups.append(tuple(rng.permutation(list("ACGT"))[:k2]))
            chars = rng.choice(list("ACGTN-"), size=(int(rng.integers(1, 7)), npos))
            got_idx = as_allelic(chars, alleles=tups)
            exp_idx = np.array([[tups[i].index(c) if c in tups[i] else -1 for i, c in enumerate(r)] for r in chars])
            ev += 1
            if not np.array_equal(np.asarray(got_idx), exp_idx) and len(fails) < 3:
                fails.append({"key": "rt/allele_index_of_read_symbols", "check": "mchap.encoding.character.transcode.as_allelic", "input": {"symbols": chars.tolist(), "alleles": [list(t) for t in tups]}, "observed": np.asarray(got_idx).tolist(), "expected": exp_idx.tolist(), "how": "index of the symbol among the alleles listed for its own SNV, -1 (no call) otherwise"})
        for min_q, keep in itertools.product((0, 20), itertools.product((True, False), repeat=3)):
            names = ["SA", "SB"]
            prog = make_program(APP.program, names, {n: 2 for n in names}, {n: 0.0 for n in names}, [FORMAT.GT], sample_mcmc_temperatures={n: [1.0] for n in names}, mapping_quality=min_q, skip_duplicates=keep[0], skip_qcfail=keep[1], skip_supplementary=keep[2])
            prog.ref = ref
            data = make_data(locus, names, {n: 2 for n in names}, {n: 0.0 for n in names}, {n: np.zeros((0, 3, 2)) for n in names}, {n: np.zeros(0, dtype=np.int64) for n in names}, [FORMAT.GT])
            data.sample_bams = {n: [(n, bam)] for n in names}
            try:
                data = prog.encode_sample_reads(data)
            except Exception as ex:
                ev += 1
                if len(fails) < 3:
                    fails.append({"key": "rt/encode_sample_reads_raises", "check": "mchap.application.baseclass.program.encode_sample_reads", "input": {"mapping_quality": min_q, "skip": list(keep)}, "observed": repr(ex) + " <- " + repr(ex.__cause__), "expected": "encoded reads"})
                continue
            for s, n in (("A", "SA"), ("B", "SB")):
                exp = expected_matrix(reads, 20, 40, snvs, s, min_q, *keep)
                rows = list(exp.values())
                rcount = len(rows)
                alleles = [v.alleles for v in variants]
                calls = [[alleles[i].index(c) if c in alleles[i] else -1 for i, c in enumerate(r)] for r in rows]
                rcalls = sum(1 for r in calls for c in r if c >= 0)
                snvdp = [sum(1 for r in rows if r[i] not in "-") for i in range(3)]  # called bases incl. N / non-alleles
                ev += 1
                got = {"RCOUNT": int(data.sampledata[FORMAT.RCOUNT][n]), "RCALLS": int(data.sampledata[FORMAT.RCALLS][n]), "reads_total": int(np.sum(data.read_counts[n]))}
                want = {"RCOUNT": rcount, "RCALLS": rcalls, "reads_total": rcount}
                if got != want and len(fails) < 3:
                    fails.append({"key": "rt/read_counts_fields", "check": "mchap.application.baseclass.program.encode_sample_reads", "input": {"sample": n, "mapping_quality": min_q, "skip": list(keep)}, "observed": got, "expected": want, "how": "RCOUNT = rows, RCALLS = called alleles, de-duplicated read counts sum to RCOUNT"})
        # reference mismatch is reported, not used
        bad_variants = (SNP(contig="CHR1", start=22, stop=23, name=".", alleles=("ACGT"[("ACGT".index(REFSEQ[22]) + 2) % 4], REFSEQ[22])),)
        bad_locus = Locus(contig="CHR1", start=20, stop=40, name="L", sequence=REFSEQ[20:40], variants=bad_variants)
        ev += 1
        try:
            with pysam.AlignmentFile(bam) as af:
                extract_read_variants(bad_locus, af, min_quality=0)
            fails.append({"key": "rt/reference_mismatch_not_reported", "check": "mchap.io.bam.extract_read_variants", "input": {"variant_ref": bad_variants[0].alleles[0], "alignment_ref": REFSEQ[22]}, "observed": "no error", "expected": "ValueError"})
        except ValueError:
            pass
    finally:
        shutil.rmtree(tmp, ignore_errors=True)
    return {"bound": "one synthetic BAM x MAPQ {0,20} x 8 keep-flag combinations x 2 samples + reference mismatch", "evaluations": ev, "distinct_nontrivial": ev, "failures": fails, "samples": [{"cases": ev}], "exhaustive": False}


def check_cli_filter_wiring(tier, seed):
    """the read-filter options given on the command line reach the extraction: for every program and every combination of
    --keep-duplicate-reads / --keep-qcfail-reads / --keep-supplementary-reads / --mapping-quality the program object
    built by the real CLI parser carries exactly those settings (they are what encode_sample_reads forwards)"""
    import mchap
    from mchap.application import assemble, call, call_exact, call_pedigree

    data = os.path.join(os.path.dirname(mchap.__file__), "tests", "test_io", "data")
    bams = [os.path.join(data, "simple.sample1.bam"), os.path.join(data, "simple.sample2.deep.bam"), os.path.join(data, "simple.sample3.bam")]
    hap = os.path.join(data, "simple.output.mixed_depth.assemble.vcf")
    progs = {
        "assemble": (assemble.program, ["--targets", os.path.join(data, "simple.bed.gz"), "--variants", os.path.join(data, "simple.vcf.gz"), "--reference", os.path.join(data, "simple.fasta")]),
        "call": (call.program, ["--haplotypes", hap]),
        "call-exact": (call_exact.program, ["--haplotypes", hap]),
        "call-pedigree": (call_pedigree.program, ["--haplotypes", hap, "--sample-parents", os.path.join(data, "simple.pedigree.132.txt")]),
    }
    ev = 0
    fails = []
    for name, (cls, extra) in progs.items():
        for kd, kq, ks in itertools.product((False, True), repeat=3):
            for mq in (None, 0, 35):
                cmd = ["mchap", name, "--bam"] + bams + ["--ploidy", "4"] + extra
                cmd += ["--keep-duplicate-reads"] * kd + ["--keep-qcfail-reads"] * kq + ["--keep-supplementary-reads"] * ks
                if mq is not None:
                    cmd += ["--mapping-quality", str(mq)]
                ev += 1
                try:
                    prog = cls.cli(cmd)
                    got = {"skip_duplicates": bool(prog.skip_duplicates), "skip_qcfail": bool(prog.skip_qcfail), "skip_supplementary": bool(prog.skip_supplementary), "mapping_quality": int(prog.mapping_quality)}
                except Exception as ex:
                    got = repr(ex)
                want = {"skip_duplicates": not kd, "skip_qcfail": not kq, "skip_supplementary": not ks, "mapping_quality": 20 if mq is None else mq}
                if got != want and len(fails) < 3:
                    fails.append({"key": "rt/cli_read_filter_options_reach_the_program", "check": "mchap.application.arguments.collect_default_program_arguments", "input": {"program": name, "options": [c for c in cmd if c.startswith("--keep") or c.startswith("--mapping")] + ([str(mq)] if mq is not None else [])}, "observed": got, "expected": want})
    return {"bound": "4 programs x 8 keep-flag combinations x mapping quality {default, 0, 35} through the real CLI parser", "evaluations": ev, "distinct_nontrivial": ev, "failures": fails, "samples": [], "exhaustive": True}


def check_locus_reference_consistency(tier, seed):
    """building a locus from an SNV file (what assemble does): records of one site are merged into one allele list, and ANY
    record whose REF disagrees with the FASTA is an error -- also the second record of a duplicated site"""
    from mchap.io import Locus

    rng = np.random.default_rng(seed + 67)
    tmp = tempfile.mkdtemp(prefix="verif_c06c_")
    ev = 0
    fails = []
    try:
        seq = "GATTACAGGTACCGTTAGCATGCAATCGGATCCTAGGCTTAACGTGCATCGATCGGATTA"
        fa = os.path.join(tmp, "ref.fasta")
        open(fa, "w").write(">chr1\n%s\n" % seq)
        pysam.faidx(fa)

        def write_vcf(name, records):
            path = os.path.join(tmp, name)
            with open(path, "w") as f:
                f.write("##fileformat=VCFv4.2\n##contig=<ID=chr1,length=%d>\n#CHROM\tPOS\tID\tREF\tALT\tQUAL\tFILTER\tINFO\n" % len(seq))
                for pos0, ref_, alt in records:
                    f.write("chr1\t%d\t.\t%s\t%s\t.\tPASS\t.\n" % (pos0 + 1, ref_, alt))
            return pysam.tabix_index(path, preset="vcf", force=True)

        others = lambda b: [x for x in "ACGT" if x != b]
        for rep in range(12 if tier == "quick" else 60):
            sites = sorted(int(x) for x in rng.choice(np.arange(8, 42), size=3, replace=False))
            recs, expect = [], []
            for p_ in sites:
                alts = list(rng.permutation(others(seq[p_])))
                if rng.random() < 0.6:
                    recs += [(p_, seq[p_], alts[0]), (p_, seq[p_], alts[1])]  # a site split over two records
                    expect.append((seq[p_], alts[0], alts[1]))
                else:
                    recs.append((p_, seq[p_], alts[0]))
                    expect.append((seq[p_], alts[0]))
            ev += 1
            try:
                locus = Locus.from_region_string("chr1:5-45", name="t").set_sequence(fa).set_variants(write_vcf("ok%d.vcf" % rep, recs))
                got = [tuple(a) for a in locus.alleles]
            except Exception as ex:
                got = repr(ex)
            if got != expect and len(fails) < 3:
                fails.append({"key": "rt/locus_alleles_from_snv_records", "check": "mchap.io.loci.Locus.set_variants", "input": {"records": recs}, "observed": got, "expected": expect, "how": "records of one site merged in order, REF first"})
            # one record (first, or second of a duplicated site) claims a REF that is not the FASTA base
            k = int(rng.integers(0, len(recs)))
            p_, r_, a_ = recs[k]
            wrong = [x for x in "ACGT" if x not in (r_, a_)][0]
            bad_recs = list(recs)
            bad_recs[k] = (p_, wrong, a_)
            ev += 1
            try:
                Locus.from_region_string("chr1:5-45", name="t").set_sequence(fa).set_variants(write_vcf("bad%d.vcf" % rep, bad_recs))
                raised = False
            except ValueError:
                raised = True
            except Exception:
                raised = True
            if not raised and len(fails) < 3:
                fails.append({"key": "rt/reference_mismatch_in_snv_file_not_reported", "check": "mchap.io.loci.Locus.set_variants", "input": {"records": bad_recs, "fasta_base": seq[p_]}, "observed": "locus built", "expected": "ValueError"})
    finally:
        shutil.rmtree(tmp, ignore_errors=True)
    return {"bound": "seeded SNV files with sites split over several records; one record with a REF that is not the FASTA base", "evaluations": ev, "distinct_nontrivial": ev, "failures": fails, "samples": [], "exhaustive": False}


CHECKS = [check_extract, check_counts_and_reference, check_cli_filter_wiring, check_locus_reference_consistency]
REPLAY = {}
