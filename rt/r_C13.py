"""C13 bounded run-time contracts: haplotype reporting threshold and unknown-allele semantics of
`mchap assemble` -- call_posterior_haplotypes, _genotype_as_alleles, _genotype_posterior_as_array and
program.call_sample_genotypes (with the MCMC replaced by prescribed traces)."""
import itertools
import math

import numpy as np

from mchap.assemble.haplotype_calling import call_posterior_haplotypes
from mchap.jitutils import genotype_alleles_as_index
from mchap.assemble.classes import PosteriorGenotypeDistribution, GenotypeMultiTrace
from mchap.application import assemble as APP
from mchap.io.loci import Locus, SNP
import mchap.io.vcf.formatfields as FORMAT
import mchap.io.vcf.infofields as INFO
import mchap.io.vcf.columns as COLUMN
from rt.apphelp import make_data, make_program
from rt.oracles import first_failure

RULE = "seeded random collections of per-sample posteriors (<=3 samples, mixed ploidy 2/4/6, <=5 haplotypes over 3 bi-allelic SNVs, dyadic probabilities) x thresholds {0, 1/8.., 1}; non-trivial = at least one haplotype excluded and one included; distinct by (seed, threshold)"


def random_posterior(rng, ploidy, haps):
    k = int(rng.integers(1, 5))
    gens = []
    seen = set()
    for _ in range(k):
        g = haps[np.sort(rng.integers(0, len(haps), size=ploidy))]
        key = g.tobytes()
        if rng.random() < 0.5:
            g = g[rng.permutation(ploidy)]  # the haplotypes of a genotype in any storage order (copies need not be adjacent)
        if key not in seen:
            seen.add(key)
            gens.append(g)
    # dyadic probabilities (multiples of 1/16): occurrence sums and thresholds are exact in floating point
    c = np.ones(len(gens), dtype=int)
    for _ in range(16 - len(gens)):
        c[int(rng.integers(0, len(gens)))] += 1
    p = c / 16.0
    order = np.argsort(-p, kind="stable")
    return PosteriorGenotypeDistribution(np.array(gens)[order], p[order])


def occurrence_and_dosage(post):
    occ, dos = {}, {}
    for g, p in zip(post.genotypes, post.probabilities):
        rows = [tuple(int(x) for x in r) for r in g]
        for h in set(rows):
            occ[h] = occ.get(h, 0.0) + p
        for h in rows:
            dos[h] = dos.get(h, 0.0) + p
    return occ, dos


def check_call_posterior_haplotypes(tier, seed):
    rng = np.random.default_rng(seed + 13)
    ev = nontriv = 0
    fails = []
    samples = []
    haps = np.array(list(itertools.product((0, 1), repeat=3)), dtype=np.int8)[:5]
    ref = (0, 0, 0)

    def bad(key, inp, obs, exp, how=""):
        if len(fails) < 5 and not any(f["key"] == key for f in fails):
            fails.append({"key": key, "check": "mchap.assemble.haplotype_calling.call_posterior_haplotypes", "input": inp, "observed": obs, "expected": exp, "how": how})

    for rep in range(150 if tier == "quick" else 1500):
        n_s = int(rng.integers(1, 4))
        ploidies = [int(rng.choice([2, 4, 6])) for _ in range(n_s)]
        pool = haps[rng.permutation(len(haps))[: int(rng.integers(1, 6))]]
        posts = [random_posterior(rng, pl, pool) for pl in ploidies]
        thr = float(rng.choice([0.0, 0.0625, 0.125, 0.25, 0.5, 0.75, 1.0, 0.3, 0.01]))
        inp = {"posteriors": [{"genotypes": p.genotypes.tolist(), "probabilities": p.probabilities.tolist()} for p in posts], "threshold": thr}
        called, ref_obs = call_posterior_haplotypes(posts, threshold=thr)
        ev += 1
        meets = {}
        weight = {}
        for p in posts:
            occ, dos = occurrence_and_dosage(p)
            for h, o in occ.items():
                if o >= thr:
                    meets[h] = True
                    weight[h] = weight.get(h, 0.0) + dos[h]
        exp_alts = {h for h in meets if h != ref}
        got = [tuple(int(x) for x in r) for r in called]
        nontriv += 0 < len(exp_alts) < len({tuple(r) for p in posts for g in p.genotypes for r in g.tolist()})
        if got[0] != ref:
            bad("rt/ref_is_allele_0", inp, got, "reference first")
        if set(got[1:]) != exp_alts or len(got[1:]) != len(exp_alts):
            bad("rt/alt_iff_threshold", inp, got[1:], sorted(exp_alts), "ALT listed iff posterior probability of occurring >= threshold in at least one sample")
        if bool(ref_obs) != (ref in meets):
            bad("rt/refmasked_iff_ref_below_threshold", inp, bool(ref_obs), ref in meets)
        ws = [weight[h] for h in got[1:] if h in weight]
        if any(ws[i] < ws[i + 1] - 1e-9 for i in range(len(ws) - 1)):
            bad("rt/alt_order_by_summed_dosage", inp, [(list(h), weight.get(h)) for h in got[1:]], "decreasing posterior dosage summed over the samples in which the haplotype met the threshold")
        if len(samples) < 2:
            samples.append({"samples": n_s, "threshold": thr, "called": len(got)})
    return {"bound": "seeded random posterior collections x 8 thresholds", "evaluations": ev, "distinct_nontrivial": nontriv, "failures": fails, "samples": samples, "exhaustive": False}


def make_locus(n_snv=3, length=12):
    positions = [2 + 3 * i for i in range(n_snv)]
    seq = "A" * length
    variants = tuple(SNP(contig="CHR1", start=10 + p, stop=10 + p + 1, name=".", alleles=("A", "C")) for p in positions)
    return Locus(contig="CHR1", start=10, stop=10 + length, name="L1", sequence=seq, variants=variants)


class StubMCMC:
    """stands in for DenovoMCMC: returns the prescribed trace of the next sample"""

    queue = []

    def __init__(self, **kw):
        pass

    def fit(self, reads=None, read_counts=None):
        return GenotypeMultiTrace(StubMCMC.queue.pop(0), None) if False else _trace(StubMCMC.queue.pop(0))


def _trace(genotypes):
    g = np.asarray(genotypes)
    return GenotypeMultiTrace(g[None, ...], np.zeros((1, len(g))))


def check_assemble_application(tier, seed):
    rng = np.random.default_rng(seed + 131)
    ev = nontriv = 0
    fails = []
    samples = []
    haps = np.array(list(itertools.product((0, 1), repeat=3)), dtype=np.int8)[:5]
    locus = make_locus()
    real = APP.DenovoMCMC
    APP.DenovoMCMC = StubMCMC

    def bad(key, fn, inp, obs, exp, how=""):
        if len(fails) < 5 and not any(f["key"] == key for f in fails):
            fails.append({"key": key, "check": fn, "input": inp, "observed": obs, "expected": exp, "how": how})

    try:
        for rep in range(80 if tier == "quick" else 800):
            n_s = int(rng.integers(1, 4))
            names = ["S%d" % i for i in range(n_s)]
            ploidy = {s: int(rng.choice([2, 4])) for s in names}
            inb = {s: 0.0 for s in names}
            thr = float(rng.choice([0.0, 0.2, 0.5, 0.9, 1.0]))
            steps = 8
            traces = {}
            no_ref = rng.random() < 0.5
            pool = haps[1:] if no_ref else haps
            for s in names:
                k = int(rng.integers(1, 4))
                gens = [pool[np.sort(rng.integers(0, len(pool), size=ploidy[s]))] for _ in range(k)]
                traces[s] = np.array([gens[int(rng.integers(0, k))] for _ in range(steps)])
            if rep % 4 == 0:
                # nothing reaches the threshold in any sample (NOA), yet the called genotypes contain
                # the reference haplotype
                thr = 1.0
                for s in names:
                    a = haps[np.zeros(ploidy[s], dtype=int)]
                    b = haps[np.sort(rng.integers(1, len(haps), size=ploidy[s]))]
                    b[0] = haps[1 + (ev % (len(haps) - 1))]
                    traces[s] = np.array([a] * 5 + [b] * 3)
            fields = [FORMAT.GT, FORMAT.GPM, FORMAT.SPM, FORMAT.AFP, FORMAT.AOP, FORMAT.ACP, FORMAT.GP]
            prog = make_program(APP.program, names, ploidy, inb, fields, info_fields=[INFO.REFMASKED], haplotype_posterior_threshold=thr, mcmc_burn=0, sample_mcmc_temperatures={s: [1.0] for s in names})
            reads = {s: np.zeros((1, 3, 2)) + 0.5 for s in names}
            counts = {s: np.ones(1, dtype=np.int64) for s in names}
            data = make_data(locus, names, ploidy, inb, reads, counts, fields, [INFO.REFMASKED])
            StubMCMC.queue = [traces[s] for s in names]
            inp = {"traces": {s: traces[s].tolist() for s in names}, "threshold": thr, "ploidy": ploidy}
            ev += 1
            try:
                data = prog.call_sample_genotypes(data)
            except Exception as ex:
                bad("rt/assemble_call_sample_genotypes_raises", "mchap.application.assemble.program.call_sample_genotypes", inp, repr(ex) + " <- " + repr(ex.__cause__), "a record (every record shape the sampler can produce is accepted)")
                continue
            masked = bool(data.infodata[INFO.REFMASKED])
            alts = list(data.columndata[COLUMN.ALT])
            n_rec = 1 + len(alts)
            # independent expectation from the traces
            occ_any = {}
            for s in names:
                cnt = {}
                for g in traces[s]:
                    for h in {tuple(int(x) for x in r) for r in g}:
                        cnt[h] = cnt.get(h, 0) + 1
                for h, c in cnt.items():
                    if c / steps >= thr - 1e-12:
                        occ_any[h] = True
            exp_masked = (0, 0, 0) not in occ_any
            nontriv += exp_masked
            if masked != exp_masked:
                bad("rt/assemble_refmasked", "mchap.application.assemble.program.call_sample_genotypes", inp, masked, exp_masked)
            if len(alts) != len([h for h in occ_any if h != (0, 0, 0)]):
                bad("rt/assemble_alt_count", "mchap.application.assemble.program.call_sample_genotypes", inp, alts, sorted(h for h in occ_any if h != (0, 0, 0)))
            label = {"".join("AC"[a] if i in (2, 5, 8) else "A" for i, a in zip(range(12), _expand(h))): h for h in occ_any}
            for s in names:
                gt = [int(x) for x in data.sampledata[FORMAT.GT][s]]
                if len(gt) != ploidy[s] or any(a >= n_rec for a in gt) or (masked and 0 in gt):
                    bad("rt/assemble_gt_alleles", "mchap.application.assemble._genotype_as_alleles", dict(inp, sample=s), gt, "ploidy entries, listed alleles only, allele 0 never used when REFMASKED")
                called = [a for a in gt if a >= 0]
                if called != sorted(called) or gt != called + [-1] * (len(gt) - len(called)):
                    bad("rt/assemble_gt_sorted_missing_last", "mchap.application.assemble._genotype_as_alleles", dict(inp, sample=s), gt, "sorted with '.' last")
                # '.' exactly for haplotypes of the called genotype that were excluded
                mode_g = _mode_genotype(traces[s])
                n_excl = None if mode_g is None else sum(1 for r in mode_g if tuple(int(x) for x in r) not in occ_any)
                if n_excl is not None and gt.count(-1) != n_excl:
                    bad("rt/assemble_gt_missing_iff_excluded", "mchap.application.assemble._genotype_as_alleles", dict(inp, sample=s), gt, "%d unknown alleles" % n_excl)
                gp = np.asarray(data.sampledata[FORMAT.GP][s], dtype=float)
                afp = np.asarray(data.sampledata[FORMAT.AFP][s], dtype=float)
                if len(gp) != math.comb(n_rec + ploidy[s] - 1, ploidy[s]) or gp.sum() > 1 + 1e-9:
                    bad("rt/assemble_gp_cardinality", "mchap.application.assemble._genotype_posterior_as_array", dict(inp, sample=s), {"len": int(len(gp)), "sum": float(gp.sum())}, {"len": math.comb(n_rec + ploidy[s] - 1, ploidy[s]), "sum": "<= 1"}, "GP has one entry per genotype over the record's alleles")
                else:
                    # GP content: the posterior of every genotype made of listed (called, unmasked) haplotypes only, at its VCF
                    # position; genotypes containing an excluded haplotype or the masked reference get nothing
                    seq2allele = {q: 1 + k_ for k_, q in enumerate(alts)}
                    hap2allele = {}
                    for q, h in label.items():
                        if h == (0, 0, 0):
                            if not masked:
                                hap2allele[h] = 0
                        elif q in seq2allele:
                            hap2allele[h] = seq2allele[q]
                    exp_gp = np.zeros(len(gp))
                    for g in traces[s]:
                        rows = [tuple(int(x) for x in r) for r in g]
                        if all(r in hap2allele for r in rows):
                            idx = int(genotype_alleles_as_index(np.array(sorted(hap2allele[r] for r in rows), dtype=np.int64)))
                            exp_gp[idx] += 1.0 / steps
                    if np.abs(gp - exp_gp).max() > 1e-9:
                        bad("rt/assemble_gp_is_posterior_of_listed_genotypes", "mchap.application.assemble._genotype_posterior_as_array", dict(inp, sample=s, alts=alts, refmasked=masked), gp.tolist(), exp_gp.tolist(), "GP[i] = posterior probability of the i-th genotype (VCF order) over the listed alleles; nothing for genotypes using an excluded haplotype or a masked reference")
                if len(afp) != n_rec or afp.sum() > 1 + 1e-9:
                    bad("rt/assemble_afp", "mchap.application.assemble.program.call_sample_genotypes", dict(inp, sample=s), afp.tolist(), "R-length, sums to at most one")
            if len(samples) < 2:
                samples.append({"samples": n_s, "threshold": thr, "refmasked": masked, "alts": len(alts)})
    finally:
        APP.DenovoMCMC = real
    return {"bound": "seeded random prescribed traces (<=3 samples, ploidy 2/4, 8 steps) x thresholds {0,.2,.5,.9,1}", "evaluations": ev, "distinct_nontrivial": nontriv, "failures": fails, "samples": samples, "exhaustive": False}


def _expand(h):
    out = [0] * 12
    for i, a in zip((2, 5, 8), h):
        out[i] = a
    return out


def _mode_genotype(trace):
    """the called genotype: most frequent genotype within the best-supported haplotype set"""
    from collections import Counter

    canon = [tuple(sorted(tuple(int(x) for x in r) for r in g)) for g in trace]
    post = Counter(canon)
    sup = {}
    for g, c in post.items():
        sup[frozenset(g)] = sup.get(frozenset(g), 0) + c
    best = max(sup.values())
    cands = [k for k, v in sup.items() if v == best]
    if len(cands) > 1:
        return None  # tie between supports: the called genotype is not determined
    members = {g: c for g, c in post.items() if frozenset(g) == cands[0]}
    top = max(members.values())
    if sum(1 for c in members.values() if c == top) > 1:
        return None
    return max(members, key=lambda g: members[g])


CHECKS = [check_call_posterior_haplotypes, check_assemble_application]
REPLAY = {}
