"""C19 bounded run-time contracts (narrow): find-snvs allele depths equal the number of base calls among
reads passing the configured read filters.  A synthetic BAM with known per-read flags / MAPQ / bases
is written with pysam, then bam_region_depths is called with the option values the CLI forwards."""
import inspect
import itertools
import os
import shutil
import tempfile

import numpy as np
import pysam

from mchap.application import find_snvs as FS

RULE = "synthetic single-end alignments: every combination of {duplicate, qc-fail, supplementary} flags x MAPQ {0,10,19,20,30,60} x base {A,C,G,T}, all base qualities 40; every filter option combination x MAPQ threshold {0,20,40}; non-trivial = option combination that changes the expected depth; distinct by construction"
FDUP, FQCFAIL, FSUPP = 0x400, 0x200, 0x800


def build(tmp):
    ref = os.path.join(tmp, "ref.fa")
    seq = "ACGT" * 25
    with open(ref, "w") as f:
        f.write(">CHR1\n%s\n" % seq)
    pysam.faidx(ref)
    header = {"HD": {"VN": "1.6", "SO": "coordinate"}, "SQ": [{"SN": "CHR1", "LN": len(seq)}], "RG": [{"ID": "rg1", "SM": "S1"}]}
    unsorted = os.path.join(tmp, "u.bam")
    reads = []
    with pysam.AlignmentFile(unsorted, "wb", header=header) as out:
        k = 0
        for flags in itertools.product((0, FDUP), (0, FQCFAIL), (0, FSUPP)):
            for mapq in (0, 10, 19, 20, 30, 60):
                for base in "ACGT":
                    a = pysam.AlignedSegment()
                    a.query_name = "r%d" % k
                    k += 1
                    start = 20
                    s = list(seq[start : start + 20])
                    s[10] = base  # target position 30
                    a.query_sequence = "".join(s)
                    a.flag = sum(flags)
                    a.reference_id = 0
                    a.reference_start = start
                    a.mapping_quality = mapq
                    a.cigar = ((0, 20),)
                    a.query_qualities = pysam.qualitystring_to_array("I" * 20)
                    a.set_tag("RG", "rg1")
                    out.write(a)
                    reads.append({"flag": sum(flags), "mapq": mapq, "base": base})
    bam = os.path.join(tmp, "s.bam")
    pysam.sort("-o", bam, unsorted)
    pysam.index(bam)
    return ref, bam, reads


def expected(reads, mapq_min, skip_dup, skip_qcfail, skip_supp):
    d = [0, 0, 0, 0]
    for r in reads:
        if r["mapq"] < mapq_min:
            continue
        if skip_dup and r["flag"] & FDUP:
            continue
        if skip_qcfail and r["flag"] & FQCFAIL:
            continue
        if skip_supp and r["flag"] & FSUPP:
            continue
        d["ACGT".index(r["base"])] += 1
    return d


def check_depths(tier, seed):
    tmp = tempfile.mkdtemp(prefix="verif_c19_")
    ev = nontriv = 0
    fails = []
    samples = []
    try:
        ref, bam, reads = build(tmp)
        base_case = expected(reads, 0, True, True, True)
        for mapq_min in (0, 20, 40):
            for skip_dup, skip_qcfail, skip_supp in itertools.product((True, False), repeat=3):
                # exactly the keyword arguments write_vcf_block forwards
                got = FS.bam_region_depths([bam], ref, "CHR1", 30, 31, dtype=np.int64, min_quality=mapq_min, skip_duplicates=skip_dup, skip_qcfail=skip_qcfail, skip_supplementary=skip_supp)
                got = [int(x) for x in got[0, 0]]
                exp = expected(reads, mapq_min, skip_dup, skip_qcfail, skip_supp)
                ev += 1
                nontriv += exp != base_case
                if got != exp and len(fails) < 3:
                    fails.append({"key": "rt/find_snvs_depths_follow_read_filters", "check": "mchap.application.find_snvs.bam_region_depths", "input": {"mapping_quality": mapq_min, "skip_duplicates": skip_dup, "skip_qcfail": skip_qcfail, "skip_supplementary": skip_supp, "reads": "8 flag combinations x MAPQ {0,10,19,20,30,60} x 4 bases at the target"}, "observed": got, "expected": exp, "how": "bam_region_depths on a synthetic BAM written with pysam, keyword arguments as forwarded by write_vcf_block"})
                if len(samples) < 2:
                    samples.append({"mapping_quality": mapq_min, "skip": [skip_dup, skip_qcfail, skip_supp], "depths": got})
    finally:
        shutil.rmtree(tmp, ignore_errors=True)
    return {"bound": "192 synthetic reads; MAPQ threshold {0,20,40} x 8 filter combinations", "evaluations": ev, "distinct_nontrivial": nontriv, "failures": fails, "samples": samples, "exhaustive": True}


def check_count_kernels(tier, seed):
    rng = np.random.default_rng(seed + 19)
    ev = 0
    fails = []
    for _ in range(200):
        n = int(rng.integers(0, 30))
        chars = rng.choice(list("ACGTNacgtn-*"), size=n)
        idx = FS.bases_to_indices(list(chars)) if n else np.zeros(0, dtype=np.int64)
        z = np.zeros(4, dtype=np.int64)
        FS._count_alleles(z, idx)
        exp = [sum(1 for c in chars if c.upper() == b) for b in "ACGT"]
        ev += 1
        if [int(x) for x in z] != exp and len(fails) < 2:
            fails.append({"key": "rt/find_snvs_count_alleles", "check": "mchap.application.find_snvs._count_alleles", "input": {"bases": "".join(chars)}, "observed": [int(x) for x in z], "expected": exp})
    return {"bound": "200 random base strings incl. N, gaps, lower case", "evaluations": ev, "distinct_nontrivial": ev, "failures": fails, "samples": [{"cases": ev}], "exhaustive": False}


CHECKS = [check_depths, check_count_kernels]
REPLAY = {}
