"""C19 bounded run-time contracts (narrow): find-snvs allele depths equal the number of base calls among
reads passing the configured read filters.  A synthetic BAM with known per-read flags / MAPQ / bases
is written with pysam, then bam_region_depths is called with the option values the CLI forwards."""
import inspect
import itertools
import os
import shutil
import tempfile

import numpy as np
import pysam

from mchap.application import find_snvs as FS

RULE = "synthetic single-end alignments: every combination of {duplicate, qc-fail, supplementary} flags x MAPQ {0,10,19,20,30,60} x base {A,C,G,T}, all base qualities 40; every filter option combination x MAPQ threshold {0,20,40}; non-trivial = option combination that changes the expected depth; distinct by construction"
FDUP, FQCFAIL, FSUPP = 0x400, 0x200, 0x800


def build(tmp):
    ref = os.path.join(tmp, "ref.fa")
    seq = "ACGT" * 25
    with open(ref, "w") as f:
        f.write(">CHR1\n%s\n" % seq)
    pysam.faidx(ref)
    header = {"HD": {"VN": "1.6", "SO": "coordinate"}, "SQ": [{"SN": "CHR1", "LN": len(seq)}], "RG": [{"ID": "rg1", "SM": "S1"}]}
    unsorted = os.path.join(tmp, "u.bam")
    reads = []
    with pysam.AlignmentFile(unsorted, "wb", header=header) as out:
        k = 0
        for cls_i, flags in enumerate(itertools.product((0, FDUP), (0, FQCFAIL), (0, FSUPP))):
            for mapq in (0, 10, 19, 20, 30, 60):
                # each flag class has its own base composition, so no two filters are interchangeable
                for base in "ACGT"[: 1 + cls_i % 4] * (1 + cls_i // 2):
                    a = pysam.AlignedSegment()
                    a.query_name = "r%d" % k
                    k += 1
                    start = 20
                    s = list(seq[start : start + 20])
                    s[10] = base  # target position 30
                    a.query_sequence = "".join(s)
                    a.flag = sum(flags)
                    a.reference_id = 0
                    a.reference_start = start
                    a.mapping_quality = mapq
                    a.cigar = ((0, 20),)
                    a.query_qualities = pysam.qualitystring_to_array("I" * 20)
                    a.set_tag("RG", "rg1")
                    out.write(a)
                    reads.append({"flag": sum(flags), "mapq": mapq, "base": base})
    bam = os.path.join(tmp, "s.bam")
    pysam.sort("-o", bam, unsorted)
    pysam.index(bam)
    return ref, bam, reads


def expected(reads, mapq_min, skip_dup, skip_qcfail, skip_supp):
    d = [0, 0, 0, 0]
    for r in reads:
        if r["mapq"] < mapq_min:
            continue
        if skip_dup and r["flag"] & FDUP:
            continue
        if skip_qcfail and r["flag"] & FQCFAIL:
            continue
        if skip_supp and r["flag"] & FSUPP:
            continue
        d["ACGT".index(r["base"])] += 1
    return d


def check_depths(tier, seed):
    tmp = tempfile.mkdtemp(prefix="verif_c19_")
    ev = nontriv = 0
    fails = []
    samples = []
    try:
        ref, bam, reads = build(tmp)
        base_case = expected(reads, 0, True, True, True)
        for mapq_min in (0, 20, 40):
            for skip_dup, skip_qcfail, skip_supp in itertools.product((True, False), repeat=3):
                # exactly the keyword arguments write_vcf_block forwards
                got = FS.bam_region_depths([bam], ref, "CHR1", 30, 31, dtype=np.int64, min_quality=mapq_min, skip_duplicates=skip_dup, skip_qcfail=skip_qcfail, skip_supplementary=skip_supp)
                got = [int(x) for x in got[0, 0]]
                exp = expected(reads, mapq_min, skip_dup, skip_qcfail, skip_supp)
                ev += 1
                nontriv += exp != base_case
                if got != exp and len(fails) < 3:
                    fails.append({"key": "rt/find_snvs_depths_follow_read_filters", "check": "mchap.application.find_snvs.bam_region_depths", "input": {"mapping_quality": mapq_min, "skip_duplicates": skip_dup, "skip_qcfail": skip_qcfail, "skip_supplementary": skip_supp, "reads": "8 flag combinations x MAPQ {0,10,19,20,30,60} x 4 bases at the target"}, "observed": got, "expected": exp, "how": "bam_region_depths on a synthetic BAM written with pysam, keyword arguments as forwarded by write_vcf_block"})
                if len(samples) < 2:
                    samples.append({"mapping_quality": mapq_min, "skip": [skip_dup, skip_qcfail, skip_supp], "depths": got})
    finally:
        shutil.rmtree(tmp, ignore_errors=True)
    return {"bound": "192 synthetic reads; MAPQ threshold {0,20,40} x 8 filter combinations", "evaluations": ev, "distinct_nontrivial": nontriv, "failures": fails, "samples": samples, "exhaustive": True}


def check_count_kernels(tier, seed):
    rng = np.random.default_rng(seed + 19)
    ev = 0
    fails = []
    for _ in range(200):
        n = int(rng.integers(0, 30))
        chars = rng.choice(list("ACGTNacgtn-*"), size=n)
        idx = FS.bases_to_indices(list(chars)) if n else np.zeros(0, dtype=np.int64)
        z = np.zeros(4, dtype=np.int64)
        FS._count_alleles(z, idx)
        exp = [sum(1 for c in chars if c.upper() == b) for b in "ACGT"]
        ev += 1
        if [int(x) for x in z] != exp and len(fails) < 2:
            fails.append({"key": "rt/find_snvs_count_alleles", "check": "mchap.application.find_snvs._count_alleles", "input": {"bases": "".join(chars)}, "observed": [int(x) for x in z], "expected": exp})
    return {"bound": "200 random base strings incl. N, gaps, lower case", "evaluations": ev, "distinct_nontrivial": ev, "failures": fails, "samples": [{"cases": ev}], "exhaustive": False}


def _write_bam(tmp, name, sample, reads, seq):
    header = {"HD": {"VN": "1.6", "SO": "coordinate"}, "SQ": [{"SN": "CHR1", "LN": len(seq)}], "RG": [{"ID": "rg" + sample, "SM": sample}]}
    u = os.path.join(tmp, name + ".u.bam")
    with pysam.AlignmentFile(u, "wb", header=header) as out:
        for k, (start, bases) in enumerate(reads):
            a = pysam.AlignedSegment()
            a.query_name = "%s_%d" % (sample, k)
            a.query_sequence = bases
            a.flag = 0
            a.reference_id = 0
            a.reference_start = start
            a.mapping_quality = 60
            a.cigar = ((0, len(bases)),)
            a.query_qualities = pysam.qualitystring_to_array("I" * len(bases))
            a.set_tag("RG", "rg" + sample)
            out.write(a)
    b = os.path.join(tmp, name + ".bam")
    pysam.sort("-o", b, u)
    pysam.index(b)
    return b


def check_thresholds(tier, seed):
    """write_vcf_block: an allele is listed iff it meets the individual and population thresholds, only
    positions with >= 2 such alleles are emitted, REF is the reference base (REFMASKED if it failed), ALT by
    decreasing mean sample frequency"""
    import io
    import sys

    rng = np.random.default_rng(seed + 190)
    tmp = tempfile.mkdtemp(prefix="verif_c19t_")
    ev = nontriv = 0
    fails = []
    samples_out = []
    try:
        seq = "ACGT" * 10
        ref = os.path.join(tmp, "ref.fa")
        with open(ref, "w") as f:
            f.write(">CHR1\n%s\n" % seq)
        pysam.faidx(ref)
        depths_per_sample = (5, 100, 10)
        L = 12
        start = 10
        truth = np.zeros((L, 3, 4), dtype=int)
        bams = []
        for si, depth in enumerate(depths_per_sample):
            reads = []
            cols = []
            for p in range(L):
                refb = "ACGT".index(seq[start + p])
                mix = rng.choice(["ref", "het", "rare", "alt", "tri"], p=[0.2, 0.3, 0.2, 0.15, 0.15])
                if p == 3:
                    mix = "alt"  # every read of a sample carries the same base: a count equal to the depth (100, 10: powers of ten)
                if p < 3:
                    # the same allele is frequent-but-shallow in the shallow sample and deep-but-rare in the
                    # deep ones: no single individual meets both individual thresholds
                    mix = "split"
                if mix == "split":
                    x = 0.4 if depth < 10 else 0.08
                    w = (1 - x) * np.eye(4)[refb] + x * np.eye(4)[(refb + 2) % 4]
                    col = np.full(depth, refb)
                    col[: int(round(x * depth))] = (refb + 2) % 4
                    cols.append(col)
                    continue
                if mix == "ref":
                    w = np.eye(4)[refb]
                elif mix == "het":
                    w = 0.5 * np.eye(4)[refb] + 0.5 * np.eye(4)[(refb + 1) % 4]
                elif mix == "rare":
                    w = 0.92 * np.eye(4)[refb] + 0.08 * np.eye(4)[(refb + 2) % 4]
                elif mix == "alt":
                    w = np.eye(4)[(refb + 1) % 4]
                else:
                    w = 0.4 * np.eye(4)[refb] + 0.35 * np.eye(4)[(refb + 1) % 4] + 0.25 * np.eye(4)[(refb + 3) % 4]
                cols.append(rng.choice(4, size=depth, p=w))
            cols = np.array(cols)  # L x depth
            for r in range(depth):
                bases = "".join("ACGT"[cols[p, r]] for p in range(L))
                reads.append((start, bases))
                for p in range(L):
                    truth[p, si, cols[p, r]] += 1
            bams.append(_write_bam(tmp, "s%d" % si, "S%d" % si, reads, seq))
        grid = list(itertools.product((0.0, 0.1, 0.3), (0, 20), (0.1, 0.3), (3, 1, 10), (1, 2, 3)))
        if tier == "quick":
            grid = grid[::3]
        for maf, mad, ind_maf, ind_mad, min_ind in grid:
            out = io.StringIO()
            saved = sys.stdout
            sys.stdout = out
            try:
                FS.write_vcf_block("CHR1", start, start + L, ref, bams, maf, mad, ind_maf, ind_mad, min_ind, 20, True, True, True)
            finally:
                sys.stdout = saved
            got = {}
            lines = {}
            for line in out.getvalue().splitlines():
                c = line.split("\t")
                if len(c) > 7 and not line.startswith("#"):
                    got[int(c[1])] = (c[3], c[4], "REFMASKED" in c[7])
                    lines[int(c[1])] = c
            exp = {}
            for p in range(L):
                d = truth[p].astype(float)
                with np.errstate(divide="ignore", invalid="ignore"):
                    fr = d / d.sum(axis=1, keepdims=True)
                keep = ((fr >= ind_maf) & (d >= ind_mad)).sum(axis=0) >= min_ind
                if maf > 0:
                    keep &= fr.mean(axis=0) >= maf
                if mad > 0:
                    keep &= d.sum(axis=0) >= mad
                if keep.sum() < 2:
                    continue
                refb = "ACGT".index(seq[start + p])
                mean = np.where(keep, fr, 0.0).mean(axis=0)
                alts = [a for a in range(4) if keep[a] and a != refb]
                exp[start + p + 1] = (seq[start + p], alts, mean, not keep[refb])
            ev += 1
            nontriv += len(exp) not in (0, L)
            inp = {"maf": maf, "mad": mad, "ind_maf": ind_maf, "ind_mad": ind_mad, "min_ind": min_ind, "depths": truth.tolist()}
            if set(got) != set(exp):
                if len(fails) < 3:
                    fails.append({"key": "rt/find_snvs_positions_emitted", "check": "mchap.application.find_snvs.write_vcf_block", "input": inp, "observed": sorted(got), "expected": sorted(exp), "how": "positions with at least two alleles meeting the individual and population thresholds"})
                continue
            for pos, (refc, alts, mean, masked) in exp.items():
                g = got[pos]
                galts = ["ACGT".index(x) for x in g[1].split(",")] if g[1] != "." else []
                ordered = all(mean[galts[i]] >= mean[galts[i + 1]] - 1e-12 for i in range(len(galts) - 1))
                # reported depths: INFO/AD and every sample's FORMAT/AD are the pileup counts of the listed alleles
                c = lines[pos]
                listed = ["ACGT".index(refc)] + galts
                p_ = pos - start - 1
                info_ad = [x for x in c[7].split(";") if x.startswith("AD=")]
                exp_info = ",".join(str(int(truth[p_, :, a].sum())) for a in listed)
                fmt = c[8].split(":")
                exp_samples = [",".join(str(int(truth[p_, si_, a])) for a in listed) for si_ in range(len(bams))]
                got_samples = [x.split(":")[fmt.index("AD")] for x in c[9:]] if "AD" in fmt else None
                if (not info_ad or info_ad[0] != "AD=" + exp_info or got_samples != exp_samples) and not any(f["key"] == "rt/find_snvs_reported_depths" for f in fails):
                    fails.append({"key": "rt/find_snvs_reported_depths", "check": "mchap.application.find_snvs.write_vcf_block", "input": dict(inp, pos=pos), "observed": {"INFO": info_ad, "samples": got_samples}, "expected": {"INFO": "AD=" + exp_info, "samples": exp_samples}, "how": "INFO/AD and FORMAT/AD of every listed allele vs the counts of the reads written (depths 5/100/10: includes counts that are powers of ten)"})
                if (g[0] != refc or sorted(galts) != sorted(alts) or not ordered or g[2] != masked) and len(fails) < 3:
                    fails.append({"key": "rt/find_snvs_alleles_listed", "check": "mchap.application.find_snvs.write_vcf_block", "input": dict(inp, pos=pos), "observed": {"REF": g[0], "ALT": g[1], "REFMASKED": g[2]}, "expected": {"REF": refc, "ALT (any order among equal means)": ["ACGT"[a] for a in sorted(alts, key=lambda a: -mean[a])], "REFMASKED": bool(masked)}, "how": "allele listed iff individual (ind-maf & ind-mad in the same sample, min-ind samples) and population thresholds are met"})
        samples_out.append({"positions": L, "sample_depths": list(depths_per_sample), "threshold_sets": len(grid)})
    finally:
        shutil.rmtree(tmp, ignore_errors=True)
    return {"bound": "3 synthetic samples (depth 5/100/10) x 12 positions x threshold grid; reported INFO/AD and FORMAT/AD compared on every emitted line", "evaluations": ev, "distinct_nontrivial": nontriv, "failures": fails, "samples": samples_out, "exhaustive": False}


CHECKS = [check_depths, check_count_kernels, check_thresholds]
REPLAY = {}
