"""C14 bounded run-time contracts: posterior summaries are exact functionals of the retained trace
(assemble GenotypeMultiTrace, call GenotypeAllelesMultiTrace and their posterior objects, mset
helpers) against an independently written multiset oracle."""
import itertools
import math
from collections import Counter

import numpy as np

from mchap.assemble import classes as AC
from mchap.calling import classes as CC
from mchap.calling.utils import posterior_as_array
from mchap import mset
from rt.oracles import sorted_genotypes, first_failure

RULE = "seeded random traces (chains<=3 x steps<=8 x ploidy<=4 x sites<=3, incl. 70-site loci) drawn from a small pool so that genotypes repeat, every burn-in, random within-genotype row order; non-trivial = at least two distinct genotypes retained; distinct by (shape, seed)"


def canon_hap_genotype(g):
    return tuple(sorted(tuple(int(x) for x in row) for row in g))


def oracle_posterior(trace, burn):
    kept = [canon_hap_genotype(trace[c, s]) for c in range(trace.shape[0]) for s in range(burn, trace.shape[1])]
    cnt = Counter(kept)
    n = len(kept)
    return {k: v / n for k, v in cnt.items()}


def oracle_support(post):
    sup = {}
    for g, p in post.items():
        sup.setdefault(frozenset(g), 0.0)
        sup[frozenset(g)] += p
    return sup


def oracle_incongruence(chain_posts, threshold, ploidy):
    sets = []
    for post in chain_posts:
        sup = oracle_support(post)
        best = max(sup.values())
        cands = [k for k, v in sup.items() if abs(v - best) < 1e-12]
        if len(cands) > 1:
            return None  # tie: undefined
        if best >= threshold:
            sets.append(cands[0])
    if len(set(sets)) <= 1:
        return 0
    union = set().union(*sets)
    return 2 if len(union) > ploidy else 1


def random_trace(rng, chains, steps, ploidy, n_base, pool_size):
    pool = [rng.integers(0, 2, size=(ploidy, n_base)).astype(np.int8) for _ in range(pool_size)]
    # make some pool members differ only in a leading / trailing site or by a duplicated haplotype
    if pool_size > 1:
        pool[1] = pool[0].copy()
        pool[1][0, 0] ^= 1
    if ploidy > 1:
        # two haplotypes of one genotype that differ only in the leading / trailing site
        pool[0][1] = pool[0][0]
        pool[0][1, 0 if n_base < 3 or rng.random() < 0.7 else n_base - 1] ^= 1
    tr = np.empty((chains, steps, ploidy, n_base), dtype=np.int8)
    for c in range(chains):
        w = rng.dirichlet(np.ones(pool_size) * 0.7)
        for s in range(steps):
            g = pool[int(rng.choice(pool_size, p=w))]
            tr[c, s] = g[rng.permutation(ploidy)]
    return tr


def check_assemble_trace_functionals(tier, seed):
    rng = np.random.default_rng(seed + 14)
    ev = nontriv = 0
    fails = []
    samples = []

    def bad(key, fn, inp, obs, exp, how=""):
        if len(fails) < 6 and not any(f["key"] == key for f in fails):
            fails.append({"key": key, "check": fn, "input": inp, "observed": obs, "expected": exp, "how": how})

    reps = 40 if tier == "quick" else 400
    for rep in range(reps):
        chains = int(rng.integers(1, 4))
        steps = int(rng.integers(2, 9))
        ploidy = int(rng.integers(1, 5))
        n_base = int(rng.choice([1, 2, 3, 70])) if rep % 5 == 0 else int(rng.integers(1, 4))
        tr = random_trace(rng, chains, steps, ploidy, n_base, int(rng.integers(1, 5)))
        burn = int(rng.integers(0, steps))
        if rep % 4 == 1:
            # the most probable genotype is NOT in the best-supported set of haplotypes: {A,B,C} split over dosage variants
            # (3 + 3 steps) outweighs the single genotype AABB (4 steps)
            ploidy, n_base, chains, steps, burn = 4, 2, 1, 10, 0
            A_, B_, C_ = np.array([0, 0], dtype=np.int8), np.array([0, 1], dtype=np.int8), np.array([1, 0], dtype=np.int8)
            seq = [np.array([A_, A_, B_, B_])] * 4 + [np.array([A_, A_, B_, C_])] * 3 + [np.array([A_, B_, B_, C_])] * 3
            tr = np.array([[seq[i][rng.permutation(4)] for i in rng.permutation(10)]], dtype=np.int8)
        if rep % 4 == 2:
            # two diploid chains whose modes are {00,10} and {00,00} (the configuration of known finding F9)
            ploidy, n_base, chains, steps, burn = 2, 2, 2, 4, 0
            g1 = np.array([[0, 0], [1, 0]], dtype=np.int8)
            g2 = np.array([[0, 0], [0, 0]], dtype=np.int8)
            tr = np.array([[g1] * 4, [g2] * 4], dtype=np.int8)
        inp = {"trace": tr.tolist() if n_base < 10 else "shape %r (seed %d rep %d)" % (tr.shape, seed, rep), "burn": burn}
        post = oracle_posterior(tr, burn)
        ev += 1
        nontriv += len(post) > 1
        mt = AC.GenotypeMultiTrace(tr, np.zeros((chains, steps))).burn(burn)
        if mt.genotypes.shape[1] != steps - burn:
            bad("rt/assemble_burn", "mchap.assemble.classes.GenotypeMultiTrace.burn", inp, mt.genotypes.shape[1], steps - burn)
        pd = mt.posterior()
        got = {canon_hap_genotype(g): float(p) for g, p in zip(pd.genotypes, pd.probabilities)}
        if len(got) != len(pd.genotypes) or set(got) != set(post) or any(abs(got[k] - post[k]) > 1e-12 for k in post):
            bad("rt/assemble_posterior", "mchap.assemble.classes.GenotypeMultiTrace.posterior", inp, {str(k): v for k, v in got.items()}, {str(k): v for k, v in post.items()}, "relative frequency of each distinct unordered genotype among retained steps")
            continue
        if any(pd.probabilities[i] < pd.probabilities[i + 1] - 1e-15 for i in range(len(pd.probabilities) - 1)):
            bad("rt/assemble_posterior_sorted", "mchap.assemble.classes.GenotypeMultiTrace.posterior", inp, pd.probabilities.tolist(), "descending")
        g, p = pd.mode()
        if abs(p - max(post.values())) > 1e-12 or abs(post[canon_hap_genotype(g)] - p) > 1e-12:
            bad("rt/assemble_mode", "mchap.assemble.classes.PosteriorGenotypeDistribution.mode", inp, float(p), max(post.values()))
        sup = oracle_support(post)
        best = max(sup.values())
        sd = pd.mode_genotype_support()
        ssum = float(sd.probabilities.sum())
        ssets = {frozenset(canon_hap_genotype(x)) for x in sd.genotypes}
        tie = sum(1 for v in sup.values() if abs(v - best) < 1e-12) > 1
        if abs(ssum - best) > 1e-12 or len(ssets) != 1 or (not tie and abs(sup[next(iter(ssets))] - best) > 1e-12):
            bad("rt/assemble_mode_support", "mchap.assemble.classes.PosteriorGenotypeDistribution.mode_genotype_support", inp, ssum, best, "total probability of genotypes sharing the best-supported set of distinct haplotypes")
        mg, mp = sd.mode_genotype()
        members = [v for k, v in post.items() if frozenset(k) == next(iter(ssets))]
        if abs(mp - max(members)) > 1e-12:
            bad("rt/assemble_support_mode_genotype", "mchap.assemble.classes.GenotypeSupportDistribution.mode_genotype", inp, float(mp), max(members))
        haps, freqs, occ = pd.allele_frequencies()
        _, dos, _ = pd.allele_frequencies(dosage=True)
        efreq, eocc = {}, {}
        for k, v in post.items():
            for h in k:
                efreq[h] = efreq.get(h, 0.0) + v / ploidy
            for h in set(k):
                eocc[h] = eocc.get(h, 0.0) + v
        gotf = {tuple(int(x) for x in h): (float(f), float(o), float(d)) for h, f, o, d in zip(haps, freqs, occ, dos)}
        if set(gotf) != set(efreq) or any(abs(gotf[h][0] - efreq[h]) > 1e-12 or abs(gotf[h][1] - eocc[h]) > 1e-12 or abs(gotf[h][2] - ploidy * efreq[h]) > 1e-12 for h in efreq):
            bad("rt/assemble_allele_frequencies", "mchap.assemble.classes.PosteriorGenotypeDistribution.allele_frequencies", inp, {str(k): v for k, v in gotf.items()}, {str(k): (efreq[k], eocc[k]) for k in efreq})
        # chain incongruence: functional of the per-chain posteriors, independent of chain order
        thr = float(rng.choice([0.3, 0.6, 0.9]))
        chain_posts = [oracle_posterior(tr[c : c + 1], burn) for c in range(chains)]
        exp = oracle_incongruence(chain_posts, thr, ploidy)
        if exp is not None:
            vals = set()
            for perm in itertools.permutations(range(chains)):
                t2 = AC.GenotypeMultiTrace(tr[list(perm)], np.zeros((chains, steps))).burn(burn)
                vals.add(int(t2.replicate_incongruence(thr)))
            if vals != {exp}:
                # the 1-vs-2 ('putative CNV') distinction is reported under its own key (known finding F9);
                # a wrong 0-vs-nonzero decision is a different violation
                only_cnv = exp in (1, 2) and vals <= {1, 2}
                key = "rt/assemble_incongruence_cnv_flag_depends_on_chain_order" if only_cnv else "rt/assemble_replicate_incongruence"
                bad(key, "mchap.assemble.classes.GenotypeMultiTrace.replicate_incongruence", dict(inp, threshold=thr, ploidy=ploidy), sorted(vals), exp, "0 = qualifying chains agree on the set of haplotypes, 1 = they differ, 2 = their union has more haplotypes than the ploidy; evaluated for every order of the chains")
        if len(samples) < 2 and n_base < 10:
            samples.append({"shape": list(tr.shape), "burn": burn, "distinct_genotypes": len(post)})
    return {"bound": "%d seeded random traces" % reps, "evaluations": ev, "distinct_nontrivial": nontriv, "failures": fails, "samples": samples, "exhaustive": False}


def check_call_trace_functionals(tier, seed):
    rng = np.random.default_rng(seed + 141)
    ev = nontriv = 0
    fails = []
    samples = []

    def bad(key, fn, inp, obs, exp, how=""):
        if len(fails) < 6 and not any(f["key"] == key for f in fails):
            fails.append({"key": key, "check": fn, "input": inp, "observed": obs, "expected": exp, "how": how})

    reps = 60 if tier == "quick" else 600
    for rep in range(reps):
        chains = int(rng.integers(1, 4))
        steps = int(rng.integers(2, 10))
        ploidy = int(rng.integers(1, 5))
        n_allele = int(rng.integers(1, 5))
        pool = [np.sort(rng.integers(0, n_allele, size=ploidy)) for _ in range(int(rng.integers(1, 5)))]
        tr = np.empty((chains, steps, ploidy), dtype=np.int64)
        for c in range(chains):
            w = rng.dirichlet(np.ones(len(pool)) * 0.7)
            for s in range(steps):
                tr[c, s] = pool[int(rng.choice(len(pool), p=w))]
        if rep % 3 == 0 and ploidy >= 3:
            # the most probable genotype is NOT in the best-supported allele set:
            # support {0,1} split over several dosages outweighs the single genotype of support {0,2}
            n_allele = max(n_allele, 3)
            chains, steps = 1, 10
            ga = np.sort(np.array([0] * (ploidy - 1) + [2]))
            doses = [np.sort(np.array([0] * k + [1] * (ploidy - k))) for k in range(1, ploidy)]
            seq = [ga] * 4 + [doses[i % len(doses)] for i in range(6)]
            if len(doses) == 2:
                seq = [ga] * 4 + [doses[0]] * 3 + [doses[1]] * 3
            tr = np.array([[seq[i] for i in rng.permutation(10)]], dtype=np.int64)
        burn = int(rng.integers(0, steps))
        inp = {"trace": tr.tolist(), "burn": burn, "n_allele": n_allele}
        kept = [tuple(int(x) for x in tr[c, s]) for c in range(chains) for s in range(burn, steps)]
        n = len(kept)
        post = {k: v / n for k, v in Counter(kept).items()}
        ev += 1
        nontriv += len(post) > 1
        mt = CC.GenotypeAllelesMultiTrace(tr, np.zeros((chains, steps)), n_allele).burn(burn)
        pd = mt.posterior()
        got = {tuple(int(x) for x in g): float(p) for g, p in zip(pd.genotypes, pd.probabilities)}
        if set(got) != set(post) or any(abs(got[k] - post[k]) > 1e-12 for k in post):
            bad("rt/call_posterior", "mchap.calling.classes.GenotypeAllelesMultiTrace.posterior", inp, {str(k): v for k, v in got.items()}, {str(k): v for k, v in post.items()})
            continue
        g, p = pd.mode()
        if abs(p - max(post.values())) > 1e-12:
            bad("rt/call_mode", "mchap.calling.classes.PosteriorGenotypeAllelesDistribution.mode", inp, float(p), max(post.values()))
        sup = {}
        for k, v in post.items():
            sup[frozenset(k)] = sup.get(frozenset(k), 0.0) + v
        best = max(sup.values())
        tie = sum(1 for v in sup.values() if abs(v - best) < 1e-12) > 1
        mg, mp, sp = pd.mode(genotype_support=True)
        ms = frozenset(int(x) for x in mg)
        members = [v for k, v in post.items() if frozenset(k) == ms]
        if abs(sp - best) > 1e-12 or abs(mp - max(members)) > 1e-12 or (not tie and abs(sup[ms] - best) > 1e-12):
            bad("rt/call_mode_support", "mchap.calling.classes.PosteriorGenotypeAllelesDistribution.mode", inp, {"genotype": [int(x) for x in mg], "GPM": float(mp), "SPM": float(sp)}, {"best support probability": best, "members": members}, "mode(genotype_support=True): most probable genotype within the best-supported set of distinct alleles")
        freqs, counts, occ = mt.posterior_frequencies()
        ef = [0.0] * n_allele
        eo = [0.0] * n_allele
        for k, v in post.items():
            for a in k:
                ef[a] += v / ploidy
            for a in set(k):
                eo[a] += v
        if np.abs(np.asarray(freqs) - ef).max() > 1e-12 or np.abs(np.asarray(occ) - eo).max() > 1e-12 or np.abs(np.asarray(counts) - ploidy * np.array(ef)).max() > 1e-12:
            bad("rt/call_posterior_frequencies", "mchap.calling.classes._posterior_frequencies", inp, [np.asarray(freqs).tolist(), np.asarray(occ).tolist()], [ef, eo])
        # the allele functionals do not depend on the order in which the alleles of a step are stored
        tr2 = tr.copy()
        for c in range(chains):
            for s_ in range(steps):
                tr2[c, s_] = tr2[c, s_][rng.permutation(ploidy)]
        f2, c2, o2 = CC.GenotypeAllelesMultiTrace(tr2, np.zeros((chains, steps)), n_allele).burn(burn).posterior_frequencies()
        if np.abs(np.asarray(f2) - ef).max() > 1e-12 or np.abs(np.asarray(o2) - eo).max() > 1e-12 or np.abs(np.asarray(c2) - ploidy * np.array(ef)).max() > 1e-12:
            bad("rt/call_posterior_frequencies_order_independent", "mchap.calling.classes._posterior_frequencies", dict(inp, trace=tr2.tolist()), [np.asarray(f2).tolist(), np.asarray(o2).tolist()], [ef, eo], "alleles of every step stored in a random order")
        arr = pd.as_array(n_allele)
        gens = sorted_genotypes(n_allele, ploidy)
        exp_arr = [post.get(gk, 0.0) for gk in gens]
        if len(arr) != len(exp_arr) or np.abs(np.asarray(arr) - exp_arr).max() > 1e-12:
            bad("rt/call_posterior_as_array", "mchap.calling.utils.posterior_as_array", inp, np.asarray(arr).tolist(), exp_arr, "probabilities in VCF genotype order")
        if len(samples) < 2:
            samples.append({"shape": list(tr.shape), "burn": burn})
    return {"bound": "%d seeded random allele traces" % reps, "evaluations": ev, "distinct_nontrivial": nontriv, "failures": fails, "samples": samples, "exhaustive": False}


def check_mset(tier, seed):
    rng = np.random.default_rng(seed + 142)
    ev = 0
    fails = []
    for rep in range(200 if tier == "quick" else 2000):
        n = int(rng.integers(1, 8))
        w = int(rng.choice([1, 2, 3, 66, 70]))
        pool = rng.integers(0, 2, size=(3, w)).astype(np.int8)
        if w > 64:
            pool[1] = pool[0]
            pool[1][0] ^= 1  # differ only in the leading site
        arr = pool[rng.integers(0, 3, size=n)]
        u, c = mset.unique_counts(arr)
        exp = Counter(tuple(int(x) for x in r) for r in arr)
        got = {tuple(int(x) for x in r): int(k) for r, k in zip(u, c)}
        ev += 1
        if got != dict(exp) and len(fails) < 2:
            fails.append({"key": "rt/mset_unique_counts", "check": "mchap.mset.unique_counts", "input": {"array": arr.tolist() if w < 10 else "width %d" % w}, "observed": str(got)[:300], "expected": str(dict(exp))[:300]})
        cats = pool
        cat = mset.categorize(arr, cats)
        for r, k in zip(arr, cat):
            first = next(i for i in range(len(cats)) if np.array_equal(cats[i], r))
            if not np.array_equal(cats[k], r) and len(fails) < 2:
                fails.append({"key": "rt/mset_categorize", "check": "mchap.mset.categorize", "input": {"width": w}, "observed": int(k), "expected": first})
    return {"bound": "random row multisets, widths {1,2,3,66,70}", "evaluations": ev, "distinct_nontrivial": ev, "failures": fails, "samples": [{"cases": ev}], "exhaustive": False}


def check_pedigree_trace_layout(tier, seed):
    """call-pedigree: the trace the sampler returns stores, for every step and individual, the sorted alleles in the first
    `ploidy` slots and -1 padding behind them (mixed ploidy: 4/4/3, 2/4/3, 6/6/2 ...), so that `individual(i)` and
    every summary computed from it are functionals of the retained genotypes"""
    from mchap.pedigree import mcmc as PM
    from mchap.pedigree.classes import PedigreeAllelesMultiTrace

    rng = np.random.default_rng(seed + 143)
    ev = nontriv = 0
    fails = []
    haplotypes = np.array([[0, 0, 0, 0], [0, 0, 1, 1], [0, 1, 1, 0], [1, 1, 0, 1]], dtype=np.int8)
    n_alleles, n_pos = haplotypes.shape
    # (ploidies, parents, tau): founders then one progeny
    peds = [
        ((4, 4, 3), [[-1, -1], [-1, -1], [0, 1]], [[2, 2], [2, 2], [2, 1]]),
        ((2, 4, 3), [[-1, -1], [-1, -1], [0, 1]], [[1, 1], [2, 2], [1, 2]]),
        ((6, 6, 2), [[-1, -1], [-1, -1], [0, 1]], [[3, 3], [3, 3], [1, 1]]),
        ((4, 2, 2), [[-1, -1], [-1, -1], [1, 1]], [[2, 2], [1, 1], [1, 1]]),
    ]
    if tier != "quick":
        peds += [((6, 4, 5), [[-1, -1], [-1, -1], [0, 1]], [[3, 3], [2, 2], [3, 2]]), ((4, 4, 1), [[-1, -1], [-1, -1], [0, -1]], [[2, 2], [2, 2], [1, 0]])]
    for ploidies, parents, tau in peds:
        ns = len(ploidies)
        mp_ = max(ploidies)
        parents = np.array(parents, dtype=np.int64)
        tau = np.array(tau, dtype=np.int64)
        lam = np.zeros((ns, 2))
        err = np.full((ns, 2), 0.05)
        g0 = np.full((ns, mp_), -1, dtype=np.int64)
        for i, pl in enumerate(ploidies):
            g0[i, :pl] = np.sort(rng.integers(0, n_alleles, size=pl))
        depth = 3
        reads = np.full((ns, depth, n_pos, 2), 0.5)
        for i in range(ns):
            for r in range(depth):
                h = haplotypes[int(rng.integers(0, n_alleles))]
                for j in range(n_pos):
                    reads[i, r, j, h[j]] = 0.9
                    reads[i, r, j, 1 - h[j]] = 0.1
        counts = np.ones((ns, depth), dtype=np.int64)
        logf = np.log(np.full(n_alleles, 1.0 / n_alleles))
        np.random.seed(int(seed) + 5)
        PM.seed_numba(int(seed) + 5) if hasattr(PM, "seed_numba") else None
        steps = 25 if tier == "quick" else 120
        trace = PM.mcmc_sampler(g0, np.array(ploidies, dtype=np.int64), parents, tau, lam, err, reads, counts, haplotypes, logf, n_steps=steps, annealing=0, step_type=int(rng.integers(0, 2)), swap_parental_alleles=True)
        ev += 1
        nontriv += len(set(ploidies)) > 1
        inp = {"ploidies": list(ploidies), "parents": parents.tolist(), "tau": tau.tolist(), "steps": steps}
        ok = trace.shape == (steps, ns, mp_)
        badrow = None
        if ok:
            for t in range(steps):
                for i, pl in enumerate(ploidies):
                    row = trace[t, i]
                    if not (np.all(row[:pl] >= 0) and np.all(row[:pl] < n_alleles) and np.all(np.diff(row[:pl]) >= 0) and np.all(row[pl:] == -1)):
                        ok = False
                        badrow = {"step": t, "individual": i, "ploidy": pl, "row": row.tolist()}
                        break
                if not ok:
                    break
        if not ok:
            if not any(f["key"] == "rt/pedigree_trace_row_layout" for f in fails):
                fails.append({"key": "rt/pedigree_trace_row_layout", "check": "mchap.pedigree.mcmc.mcmc_sampler", "input": inp, "observed": badrow or list(trace.shape), "expected": "sorted alleles in the first `ploidy` slots, -1 behind"})
            continue
        mt = PedigreeAllelesMultiTrace(trace[None, ...], n_allele=n_alleles)
        for i, pl in enumerate(ploidies):
            ind = mt.individual(i)
            kept = [tuple(int(x) for x in trace[t, i, :pl]) for t in range(steps)]
            post = {k: v / steps for k, v in Counter(kept).items()}
            pd = ind.posterior()
            got = {tuple(int(x) for x in g): float(p) for g, p in zip(pd.genotypes, pd.probabilities)}
            if ind.genotypes.shape[-1] != pl or set(got) != set(post) or any(abs(got[k] - post[k]) > 1e-12 for k in post):
                if not any(f["key"] == "rt/pedigree_individual_posterior" for f in fails):
                    fails.append({"key": "rt/pedigree_individual_posterior", "check": "mchap.pedigree.classes.PedigreeAllelesMultiTrace.individual", "input": dict(inp, individual=i), "observed": {str(k): v for k, v in got.items()}, "expected": {str(k): v for k, v in post.items()}})
    return {"bound": "%d mixed-ploidy pedigrees x seeded reads x %s sampler steps" % (len(peds), "25" if tier == "quick" else "120"), "evaluations": ev, "distinct_nontrivial": int(nontriv), "failures": fails, "samples": [], "exhaustive": False}


CHECKS = [check_assemble_trace_functionals, check_call_trace_functionals, check_mset, check_pedigree_trace_layout]
REPLAY = {}
