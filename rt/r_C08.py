"""C08 bounded run-time contracts: records depend only on inputs and seed -- identical across repeated
runs, --cores values, orders / subsets of loci and regardless of earlier RNG use in the process; with
several cores every locus appears exactly once as an intact line; a failing locus makes the run fail."""
import io
import os
import shutil
import sys
import tempfile

import numpy as np

RULE = "programs {assemble, call, call-exact, call-pedigree} on the repository test alignments x --cores {1,2,3} x permuted / subset target lists x repeated runs; in-process fits after arbitrary RNG use; one evaluation per (configuration, locus record); non-trivial = MCMC-based program; distinct by configuration"


def run_to_text(cls, command, tmp):
    """stdout is a real file so that the writer process of the multi-core path writes to it too"""
    path = os.path.join(tmp, "out_%d.vcf" % len(os.listdir(tmp)))
    saved = sys.stdout
    sys.stdout = open(path, "w")
    try:
        cls.cli(command).run_stdout()
    finally:
        sys.stdout.close()
        sys.stdout = saved
    with open(path) as f:
        return f.read()


def split(text):
    header = [l for l in text.splitlines() if l.startswith("#") and not (l.startswith("##fileDate") or l.startswith("##commandline"))]
    records = [l for l in text.splitlines() if l and not l.startswith("#")]
    return header, records


def check_cli_determinism(tier, seed):
    from mchap.application import assemble, call, call_exact, call_pedigree
    import mchap

    data = os.path.join(os.path.dirname(mchap.__file__), "tests", "test_io", "data")
    ref = os.path.join(data, "simple.fasta")
    bams = [os.path.join(data, "simple.sample1.bam"), os.path.join(data, "simple.sample2.deep.bam"), os.path.join(data, "simple.sample3.bam")]
    tmp = tempfile.mkdtemp(prefix="verif_c08_")
    ev = nontriv = 0
    fails = []
    samples = []

    def bad(key, inp, obs, exp, how=""):
        if len(fails) < 6 and not any(f["key"] == key for f in fails):
            fails.append({"key": key, "check": "cli", "input": inp, "observed": obs, "expected": exp, "how": how})

    try:
        bed_lines = open(os.path.join(data, "simple.bed")).read().strip().splitlines()
        beds = {}
        orders = {"original": [0, 1, 2, 3], "reversed": [3, 2, 1, 0], "subset": [2, 0], "single": [1]}
        for k, idx in orders.items():
            p = os.path.join(tmp, "t_%s.bed" % k)
            with open(p, "w") as f:
                f.write("\n".join(bed_lines[i] for i in idx) + "\n")
            beds[k] = p
        asm = ["mchap", "assemble", "--bam"] + bams + ["--ploidy", "4", "--variants", os.path.join(data, "simple.vcf.gz"), "--reference", ref, "--mcmc-steps", "300", "--mcmc-burn", "100", "--mcmc-seed", str(3 + seed), "--mcmc-temperatures", "0.5", "1.0"]
        base = run_to_text(assemble.program, asm + ["--targets", beds["original"]], tmp)
        hb, rb = split(base)
        by_locus = {tuple(r.split("\t")[:3]): r for r in rb}
        if len(by_locus) != 4:
            bad("rt/assemble_locus_count", {"records": len(rb)}, len(by_locus), 4)
        for name, extra in (("repeat", ["--targets", beds["original"]]), ("cores2", ["--targets", beds["original"], "--cores", "2"]), ("cores3", ["--targets", beds["original"], "--cores", "3"]), ("reversed", ["--targets", beds["reversed"]]), ("reversed-cores2", ["--targets", beds["reversed"], "--cores", "2"]), ("subset", ["--targets", beds["subset"]]), ("single", ["--targets", beds["single"]])):
            text = run_to_text(assemble.program, asm + extra, tmp)
            h, r = split(text)
            n_expected = {"subset": 2, "single": 1}.get(name, 4)
            nontriv += 1
            if h != hb:
                bad("rt/header_differs", {"program": "assemble", "variant": name}, [x for x in h if x not in hb][:3], "identical header apart from date and command line")
            if len(r) != n_expected or len(set(r)) != len(r):
                bad("rt/each_locus_exactly_once", {"program": "assemble", "variant": name}, len(r), n_expected, "one intact line per locus")
            for line in r:
                ev += 1
                key = tuple(line.split("\t")[:3])
                if by_locus.get(key) != line:
                    bad("rt/record_depends_on_cores_or_order", {"program": "assemble", "variant": name, "locus": list(key)}, line[:300], (by_locus.get(key) or "")[:300], "record identical across repeated runs, --cores values and orders / subsets of loci")
        # the callers
        hap = os.path.join(data, "simple.output.mixed_depth.assemble.vcf")
        for pname, cls, extra in (("call", call.program, ["--mcmc-steps", "200", "--mcmc-burn", "100"]), ("call-exact", call_exact.program, []), ("call-pedigree", call_pedigree.program, ["--sample-parents", os.path.join(data, "simple.pedigree.132.txt"), "--gamete-error", "0.1", "--mcmc-steps", "200", "--mcmc-burn", "100"])):
            cmd = ["mchap", pname, "--bam"] + bams + ["--ploidy", "4", "--haplotypes", hap] + extra
            t1 = run_to_text(cls, cmd, tmp)
            h1, r1 = split(t1)
            for variant, more in (("repeat", []), ("cores2", ["--cores", "2"])):
                t2 = run_to_text(cls, cmd + more, tmp)
                h2, r2 = split(t2)
                ev += len(r2)
                nontriv += pname != "call-exact"
                if h1 != h2 or sorted(r1) != sorted(r2) or len(set(r2)) != len(r2):
                    bad("rt/record_depends_on_cores_or_order", {"program": pname, "variant": variant}, [x[:200] for x in r2 if x not in r1][:2], "identical records", "repeat / --cores 2")
        # a failing locus must fail the run, also with several cores
        real = assemble.program.call_locus

        def failing(self, locus, sample_bams):
            if locus.name == "CHR2_10_30":
                raise RuntimeError("injected failure")
            return real(self, locus, sample_bams)

        assemble.program.call_locus = failing
        try:
            for cores in ("1", "2"):
                ev += 1
                try:
                    run_to_text(assemble.program, asm + ["--targets", beds["original"], "--cores", cores], tmp)
                    bad("rt/failing_locus_silently_omitted", {"cores": cores}, "run completed", "the program fails (non-zero exit) when a locus fails")
                except Exception:
                    pass
        finally:
            assemble.program.call_locus = real
        samples.append({"loci": sorted("%s:%s" % (k[0], k[1]) for k in by_locus)})
    finally:
        shutil.rmtree(tmp, ignore_errors=True)
    return {"bound": "assemble x {repeat, cores 2/3, reversed, subset, single}; call / call-exact / call-pedigree x {repeat, cores 2}; injected failing locus x cores {1,2}", "evaluations": ev, "distinct_nontrivial": nontriv, "failures": fails, "samples": samples, "exhaustive": False}


def check_fit_independent_of_history(tier, seed):
    """repeated .fit() calls with a seed give the same trace whatever was computed before"""
    from mchap.assemble.mcmc import DenovoMCMC
    from mchap.calling.classes import CallingMCMC
    from mchap.pedigree.classes import PedigreeCallingMCMC
    from mchap import jitutils as J
    from rt.oracles import make_reads

    rng = np.random.default_rng(seed + 8)
    ev = 0
    fails = []
    reads, counts = make_reads(rng, 8, 4, 2, gaps=True)
    H = np.array([[0, 0, 0, 0], [0, 1, 1, 0], [1, 0, 1, 1], [1, 1, 0, 0]], dtype=np.int8)

    def disturb(k):
        np.random.seed(1000 + k)
        J.seed_numba(2000 + k)
        np.random.rand(k + 3)
        J.random_choice(np.array([0.5, 0.5]))

    models = [
        ("DenovoMCMC", lambda: DenovoMCMC(ploidy=4, n_alleles=[2, 2, 2, 2], steps=120, chains=2, random_seed=11, temperatures=(0.4, 1.0), inbreeding=0.1).fit(reads, counts).genotypes),
        ("DenovoMCMC-seed0", lambda: DenovoMCMC(ploidy=4, n_alleles=[2, 2, 2, 2], steps=120, chains=2, random_seed=0, fix_homozygous=1.0).fit(reads, counts).genotypes),
        ("CallingMCMC-seed0", lambda: CallingMCMC(ploidy=4, haplotypes=H, steps=120, chains=2, random_seed=0, inbreeding=0.1).fit(reads, counts).genotypes),
        ("CallingMCMC", lambda: CallingMCMC(ploidy=4, haplotypes=H, steps=120, chains=2, random_seed=11, inbreeding=0.1).fit(reads, counts).genotypes),
        ("CallingMCMC-MH", lambda: CallingMCMC(ploidy=4, haplotypes=H, steps=120, chains=2, random_seed=11, step_type="Metropolis-Hastings").fit(reads, counts).genotypes),
    ]
    parents = np.array([[-1, -1], [-1, -1], [0, 1]])
    sreads = np.array([reads, reads[::-1].copy(), reads.copy()])
    scounts = np.array([counts, counts[::-1].copy(), counts.copy()])
    models.append(("PedigreeCallingMCMC-seed0", lambda: PedigreeCallingMCMC(sample_ploidy=np.array([4, 4, 4]), sample_inbreeding=np.zeros(3), sample_parents=parents, gamete_tau=np.full((3, 2), 2), gamete_lambda=np.zeros((3, 2)), gamete_error=np.full((3, 2), 0.1), haplotypes=H, steps=80, annealing=20, chains=2, random_seed=0).fit(sreads, scounts).genotypes))
    models.append(("PedigreeCallingMCMC", lambda: PedigreeCallingMCMC(sample_ploidy=np.array([4, 4, 4]), sample_inbreeding=np.zeros(3), sample_parents=parents, gamete_tau=np.full((3, 2), 2), gamete_lambda=np.zeros((3, 2)), gamete_error=np.full((3, 2), 0.1), haplotypes=H, steps=80, annealing=20, chains=2, random_seed=11).fit(sreads, scounts).genotypes))
    for name, f in models:
        ref_trace = f()
        for k in range(3):
            disturb(k)
            t = f()
            ev += 1
            if not np.array_equal(t, ref_trace) and len(fails) < 3:
                fails.append({"key": "rt/fit_depends_on_process_history", "check": name + ".fit", "input": {"model": name, "random_seed": 11, "disturbance": k}, "observed": "trace differs from the first fit", "expected": "identical traces for identical inputs and seed"})
    return {"bound": "4 samplers x 3 different RNG histories between fits", "evaluations": ev, "distinct_nontrivial": ev, "failures": fails, "samples": [{"models": [m[0] for m in models]}], "exhaustive": False}


def check_writer_lines_intact(tier, seed):
    """the writer process of a multi-core run: every queued record comes out as exactly one intact line, in order, for
    any number of records (1 ... 250: beyond any batch size)"""
    import io
    import queue as _q
    import sys as _sys
    from mchap.application import baseclass as _B
    from mchap.application import assemble as _A

    ev = 0
    fails = []
    prog = _A.program.__new__(_A.program)
    for n in (1, 2, 99, 100, 101, 200, 250):
        q = _q.Queue()
        lines = ["CHR1\t%d\tL%d\tA\tC\t.\tPASS\tX=%d" % (i + 1, i, i) for i in range(n)]
        for ln in lines:
            q.put(ln)
        q.put(_B.KILL_SIGNAL)
        buf = io.StringIO()
        saved = _sys.stdout
        _sys.stdout = buf
        try:
            prog._writer(q)
        finally:
            _sys.stdout = saved
        ev += 1
        got = buf.getvalue().split("\n")
        if got != lines + [""] and len(fails) < 2:
            bad_i = next((i for i, (a, b) in enumerate(zip(got, lines + [""])) if a != b), min(len(got), len(lines)))
            fails.append({"key": "rt/writer_one_intact_line_per_record", "check": "mchap.application.baseclass.program._writer", "input": {"records": n}, "observed": {"lines": len(got) - 1, "first_difference_at": bad_i, "line": got[bad_i][:120] if bad_i < len(got) else None}, "expected": {"lines": n}})
    return {"bound": "1 .. 250 queued records through program._writer", "evaluations": ev, "distinct_nontrivial": ev, "failures": fails, "samples": [], "exhaustive": False}


CHECKS = [check_cli_determinism, check_fit_independent_of_history, check_writer_lines_intact]
REPLAY = {}
