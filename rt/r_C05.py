"""C05 bounded run-time contracts: the genotype priors are proper and mutually consistent.
Oracle: the exchangeable Polya-urn / independent-draw sequence model (rt/oracles.py)."""
import itertools
import math
from collections import Counter

import numpy as np

from mchap.assemble import prior as AP
from mchap.calling import prior as CP
from mchap import jitutils as J
from rt.oracles import prior_unordered, seq_prob, perms, sorted_genotypes, close, first_failure

RULE = "all sorted genotypes for ploidy x alleles grids (incl. ploidy 12-14 beyond tables, zero frequencies) x inbreeding {0, 0.05, 0.3, 0.8} x frequency vectors {flat, skewed, with zeros}; every genotype is one evaluation; non-trivial = heterozygous genotype; distinct by construction"
TOL = 1e-8


def freq_vectors(n, rng):
    out = [None, np.full(n, 1.0 / n)]
    if n >= 2:
        v = rng.random(n) + 0.05
        out.append(v / v.sum())
        z = v.copy()
        z[rng.integers(0, n)] = 0.0
        out.append(z / z.sum())
    return out


def check_call_prior(tier, seed):
    rng = np.random.default_rng(seed + 5)
    ev = nontriv = 0
    fails = []
    samples = []
    shapes = [(p, a) for p in (1, 2, 3, 4) for a in (1, 2, 3, 4)] + [(6, 3), (12, 2), (13, 2), (14, 2)]
    if tier != "quick":
        shapes += [(5, 4), (6, 4), (8, 3), (16, 2), (12, 3)]

    def bad(key, inp, obs, exp, how=""):
        if len(fails) < 5 and not any(f["key"] == key for f in fails):
            fails.append({"key": key, "check": "mchap.calling.prior.log_genotype_prior", "input": inp, "observed": obs, "expected": exp, "how": how})

    for ploidy, n in shapes:
        gens = sorted_genotypes(n, ploidy)
        for F in (0.0, 0.05, 0.3, 0.8):
            for fr in freq_vectors(n, rng):
                f_or = [1.0 / n] * n if fr is None else fr.tolist()
                tot = 0.0
                for g in gens:
                    ga = np.array(g, dtype=np.int64)
                    lp = float(CP.log_genotype_prior(ga, n, F, fr))
                    exp = prior_unordered(g, f_or, F)
                    got = 0.0 if lp == -math.inf else math.exp(lp)
                    tot += got
                    ev += 1
                    nontriv += len(set(g)) > 1
                    if abs(got - exp) > TOL * max(1e-3, exp):
                        bad("rt/call_prior_is_dirichlet_multinomial", {"genotype": list(g), "n_alleles": n, "inbreeding": F, "frequencies": None if fr is None else fr.tolist()}, got, exp, "exp(log_genotype_prior) vs perms x Polya-urn sequence probability with dispersion freq*(1-F)/F")
                if abs(tot - 1) > 1e-8:
                    bad("rt/call_prior_sums_to_one", {"ploidy": ploidy, "n_alleles": n, "inbreeding": F, "frequencies": None if fr is None else fr.tolist()}, tot, 1.0, "sum over all unordered genotypes")
                # single-allele conditional prior == exact conditional of the genotype prior
                for g in gens[:: max(1, len(gens) // 25)]:
                    for k in range(ploidy):
                        vals = []
                        exps = []
                        for a in range(n):
                            gg = list(g)
                            gg[k] = a
                            ga = np.array(gg, dtype=np.int64)
                            lc = float(CP.log_genotype_allele_prior(ga, k, n, F, fr))
                            vals.append(0.0 if lc == -math.inf else math.exp(lc))
                            exps.append(seq_prob(gg, f_or, F))
                        ev += 1
                        se = sum(exps)
                        if se == 0:
                            continue
                        exps = [e / se for e in exps]
                        if abs(sum(vals) - 1) > 1e-8 or any(abs(v - e) > TOL * max(1e-3, e) for v, e in zip(vals, exps)):
                            bad("rt/allele_conditional_prior", {"genotype": list(g), "position": k, "n_alleles": n, "inbreeding": F, "frequencies": None if fr is None else fr.tolist()}, vals, exps, "log_genotype_allele_prior over all alleles at one position vs the exact conditional of the sequence model")
        if len(samples) < 3:
            samples.append({"ploidy": ploidy, "n_alleles": n, "genotypes": len(gens)})
    return {"bound": "ploidy x alleles %s x F {0,.05,.3,.8} x 2-4 frequency vectors" % (shapes,), "evaluations": ev, "distinct_nontrivial": nontriv, "failures": fails, "samples": samples, "exhaustive": True}


def check_call_prior_many_alleles(tier, seed):
    """log_genotype_prior / log_genotype_allele_prior in log space for many alleles and high ploidy (n_alleles ** ploidy
    far beyond int64 / float range): closed form log(perms) + log Polya-urn sequence probability; flat prior given
    implicitly (frequencies=None) and explicitly must agree"""
    rng = np.random.default_rng(seed + 55)
    ev = nontriv = 0
    fails = []

    def bad(key, inp, obs, exp, how=""):
        if len(fails) < 5 and not any(f["key"] == key for f in fails):
            fails.append({"key": key, "check": "mchap.calling.prior.log_genotype_prior", "input": inp, "observed": obs, "expected": exp, "how": how})

    def log_prior(g, n, F):
        ploidy = len(g)
        cnt = Counter(g)
        lp = math.lgamma(ploidy + 1) - sum(math.lgamma(c + 1) for c in cnt.values())
        if F == 0:
            return lp - ploidy * math.log(n)
        disp = (1 - F) / F
        seen = Counter()
        for i, a in enumerate(g):
            lp += math.log(disp / n + seen[a]) - math.log(disp + i)
            seen[a] += 1
        return lp

    sizes = (235, 256, 1000, 65536, 2 ** 20, 2 ** 31 - 1)
    ploidies = (2, 4, 6, 8, 16, 32) if tier == "quick" else (2, 3, 4, 6, 8, 10, 12, 16, 24, 32, 48, 63)
    for n in sizes:
        for ploidy in ploidies:
            for rep in range(3 if tier == "quick" else 10):
                k = int(rng.integers(1, min(ploidy, 4) + 1))
                pool = rng.integers(0, n, size=k)
                g = tuple(sorted(int(x) for x in rng.choice(pool, size=ploidy)))
                ga = np.array(g, dtype=np.int64)
                for F in (0.0, 0.1, 5e-4, 9e-4):
                    exp = log_prior(g, n, F)
                    got = float(CP.log_genotype_prior(ga, n, F, None))
                    ev += 1
                    nontriv += len(set(g)) > 1
                    inp = {"genotype": list(g), "n_alleles": n, "inbreeding": F, "frequencies": None}
                    if not (abs(got - exp) <= 1e-9 * max(1.0, abs(exp))):
                        bad("rt/call_prior_many_alleles", inp, got, exp, "log_genotype_prior vs log multinomial / Dirichlet-multinomial closed form (n_alleles ** ploidy does not fit int64)")
                    if n <= 65536:
                        fr = np.full(n, 1.0 / n)
                        got2 = float(CP.log_genotype_prior(ga, n, F, fr))
                        if not (abs(got2 - got) <= 1e-7 * max(1.0, abs(got))):
                            bad("rt/call_prior_flat_implicit_vs_explicit", dict(inp, frequencies="flat vector"), got2, got, "frequencies=None vs an explicit flat vector")
                    # single-copy conditional: log P(g) - log P(g minus copy k) in closed form
                    kk = int(rng.integers(0, ploidy))
                    a = g[kk]
                    rest = [x for i_, x in enumerate(g) if i_ != kk]
                    c_rest = rest.count(a)
                    if F == 0:
                        expc = -math.log(n)
                    else:
                        disp = (1 - F) / F
                        expc = math.log(disp / n + c_rest) - math.log(disp + ploidy - 1)
                    gotc = float(CP.log_genotype_allele_prior(ga, kk, n, F, None))
                    if not (abs(gotc - expc) <= 1e-9 * max(1.0, abs(expc))):
                        bad("rt/allele_conditional_prior_many_alleles", dict(inp, position=kk), gotc, expc, "log_genotype_allele_prior vs the Polya-urn conditional")
    return {"bound": "n_alleles %s x ploidy %s x seeded genotypes x F {0, .1, 5e-4, 9e-4}" % (sizes, ploidies), "evaluations": ev, "distinct_nontrivial": int(nontriv), "failures": fails, "samples": [], "exhaustive": False}


def partitions(n, maxpart=None):
    if maxpart is None:
        maxpart = n
    if n == 0:
        yield ()
        return
    for k in range(min(n, maxpart), 0, -1):
        for rest in partitions(n - k, k):
            yield (k,) + rest


def check_assemble_prior(tier, seed):
    ev = nontriv = 0
    fails = []
    samples = []

    def bad(key, inp, obs, exp, how=""):
        if len(fails) < 5 and not any(f["key"] == key for f in fails):
            fails.append({"key": key, "check": "mchap.assemble.prior.log_genotype_prior", "input": inp, "observed": obs, "expected": exp, "how": how})

    ploidies = (1, 2, 3, 4, 6, 8, 12, 13) if tier == "quick" else (1, 2, 3, 4, 5, 6, 8, 10, 12, 13, 16)
    n_snvs = (1, 2, 3, 5, 10, 30, 62, 63, 64, 65, 100, 150)
    for ploidy in ploidies:
        for ns in n_snvs:
            lu = ns * math.log(2.0)  # bi-allelic SNVs: u = 2^ns haplotypes
            for F in (0.0, 0.1, 0.5):
                logs = []
                for part in partitions(ploidy):
                    k = len(part)
                    if ns < 60 and k > 2 ** ns:
                        continue
                    dosage = np.zeros(ploidy, dtype=np.int8)
                    dosage[:k] = part
                    lp = float(AP.log_genotype_prior(dosage, lu, F))
                    ev += 1
                    nontriv += k > 1
                    # oracle: flat Polya urn over u haplotypes, in logs (u can be astronomically large)
                    if F == 0:
                        exp = math.lgamma(ploidy + 1) - sum(math.lgamma(c + 1) for c in part) - ploidy * lu
                    else:
                        la = math.log((1 - F) / F) - lu
                        a = math.exp(la)
                        ua = (1 - F) / F
                        exp = math.lgamma(ploidy + 1) - sum(math.lgamma(c + 1) for c in part)
                        # sequence probability: prod over haplotypes of a(a+1)..(a+c-1) / (ua)(ua+1)..(ua+P-1)
                        for c in part:
                            exp += la + sum(math.log(a + i) for i in range(1, c))
                        exp -= sum(math.log(ua + i) for i in range(ploidy))
                    if not (abs(lp - exp) <= 1e-7 * max(1.0, abs(exp))):
                        bad("rt/assemble_prior_closed_form", {"dosage": dosage.tolist(), "n_snvs": ns, "log_unique_haplotypes": lu, "inbreeding": F}, lp, exp, "assemble log_genotype_prior vs flat (Dirichlet-)multinomial over 2^n_snvs haplotypes (log-space Polya urn)")
                    # number of unordered genotypes with this dosage pattern: u!/((u-k)! prod m_i!)
                    mult = {}
                    for c in part:
                        mult[c] = mult.get(c, 0) + 1
                    if ns < 60:
                        u = 2 ** ns
                        lcount = sum(math.log(u - i) for i in range(k)) - sum(math.lgamma(m + 1) for m in mult.values())
                    else:
                        lcount = k * lu - sum(math.lgamma(m + 1) for m in mult.values())  # u - i ~ u
                    logs.append(lp + lcount)
                m = max(logs)
                tot = sum(math.exp(x - m) for x in logs) * math.exp(m)
                if ns < 60 and abs(tot - 1) > 1e-7:
                    bad("rt/assemble_prior_sums_to_one", {"ploidy": ploidy, "n_snvs": ns, "inbreeding": F}, tot, 1.0, "sum over dosage patterns weighted by the number of genotypes with that pattern")
            # assemble prior == call prior with flat frequencies over u haplotypes (small u)
            if ns <= 3:
                u = 2 ** ns
                for g in sorted_genotypes(u, ploidy)[:60]:
                    ga = np.array(g, dtype=np.int64)
                    d = {}
                    for a in g:
                        d[a] = d.get(a, 0) + 1
                    dosage = np.zeros(ploidy, dtype=np.int8)
                    dosage[: len(d)] = sorted(d.values(), reverse=True)
                    for F in (0.0, 0.3):
                        x = float(AP.log_genotype_prior(dosage, lu, F))
                        y = float(CP.log_genotype_prior(ga, u, F, None))
                        ev += 1
                        if not close(x, y, 1e-8):
                            bad("rt/assemble_equals_call_flat", {"genotype": list(g), "unique_haplotypes": u, "inbreeding": F}, x, y, "assemble prior vs call prior with flat frequencies")
        if len(samples) < 3:
            samples.append({"ploidy": ploidy, "partitions": len(list(partitions(ploidy)))})
    return {"bound": "ploidy %s x n_snvs %s x F {0,.1,.5}: every dosage partition" % (ploidies, n_snvs), "evaluations": ev, "distinct_nontrivial": nontriv, "failures": fails, "samples": samples, "exhaustive": True}


def check_ln_perms(tier, seed):
    ev = nontriv = 0
    fails = []
    for ploidy in range(1, 21):
        for part in partitions(ploidy):
            d = np.zeros(ploidy, dtype=np.int8)
            d[: len(part)] = part
            got = float(J.ln_equivalent_permutations(d))
            exp = math.log(math.factorial(ploidy) // math.prod(math.factorial(c) for c in part))
            ev += 1
            nontriv += len(part) > 1
            if not close(got, exp, 1e-9) and len(fails) < 2:
                fails.append({"key": "rt/ln_equivalent_permutations", "check": "mchap.jitutils.ln_equivalent_permutations", "input": {"dosage": d.tolist()}, "observed": got, "expected": exp})
    return {"bound": "every dosage partition for ploidy 1..20", "evaluations": ev, "distinct_nontrivial": nontriv, "failures": fails, "samples": [{"ploidy": 20}], "exhaustive": True}


CHECKS = [check_call_prior, check_call_prior_many_alleles, check_assemble_prior, check_ln_perms]
REPLAY = {
    "mchap.calling.prior.log_genotype_prior": first_failure(check_call_prior),
    "mchap.calling.prior.log_genotype_allele_prior": first_failure(check_call_prior),
    "mchap.assemble.prior.log_genotype_prior": first_failure(check_assemble_prior),
    "mchap.assemble.prior.log_dirichlet_multinomial_pmf": first_failure(check_assemble_prior),
    "mchap.assemble.prior.log_genotype_null_prior": first_failure(check_assemble_prior),
    "mchap.jitutils.ln_equivalent_permutations": first_failure(check_ln_perms),
}
