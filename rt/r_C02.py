"""C02 bounded run-time contracts: the allele-resampling moves of the `mchap call` sampler target the
exact posterior.  Gibbs vector == exact full conditional; MH vector satisfies detailed balance;
the random scan visits each allele copy once; likelihood cache transparent for many haplotypes."""
import itertools
import math

import numpy as np

from mchap.calling import mcmc as CM
from mchap.calling import likelihood as CL
from mchap import jitutils as J
from rt.oracles import lik, seq_prob, perms, sorted_genotypes, make_reads, close, first_failure, exact_posterior

RULE = "all ordered genotype vectors x all positions for ploidy<=4 x haplotypes<=4 x F {0,.2} x frequencies {None, skewed, with a zero}; non-trivial = genotype with a repeated allele; distinct by construction"
TOL = 1e-8


def setups(tier, seed):
    rng = np.random.default_rng(seed + 2)
    shapes = [(2, 3), (3, 3), (4, 2)] if tier == "quick" else [(2, 4), (3, 4), (4, 3), (5, 2), (6, 2)]
    for ploidy, nh in shapes:
        N = 3
        H = np.array(list(itertools.product((0, 1), repeat=N))[:nh], dtype=np.int8)
        reads, counts = make_reads(rng, 4, N, 2)
        v = rng.random(nh) + 0.1
        v /= v.sum()
        z = v.copy()
        z[-1] = 0.0
        z /= z.sum()
        for F in (0.0, 0.2):
            for fr in (None, v, z):
                yield ploidy, H, reads, counts, F, fr


def log_pi_seq(g, H, reads, counts, F, fr):
    f = [1.0 / len(H)] * len(H) if fr is None else list(fr)
    sp = seq_prob(list(g), f, F)
    l = lik(reads, counts, H[list(g)])
    if sp == 0 or l == -math.inf:
        return -math.inf
    return l + math.log(sp)


def check_gibbs_and_mh(tier, seed):
    ev = nontriv = 0
    fails = []
    samples = []

    def bad(key, fn, inp, obs, exp, how):
        if len(fails) < 5 and not any(f["key"] == key for f in fails):
            fails.append({"key": key, "check": fn, "input": inp, "observed": obs, "expected": exp, "how": how})

    for ploidy, H, reads, counts, F, fr in setups(tier, seed):
        nh = len(H)
        llks = np.empty(nh)
        lpr = np.empty(nh)
        pv = np.empty(nh)
        states = list(itertools.product(range(nh), repeat=ploidy))
        mh = {}
        for g in states:
            if fr is not None and any(fr[a] == 0 for a in g):
                continue  # zero-prior states are outside the support
            for k in range(ploidy):
                ga = np.array(g, dtype=np.int64)
                CM.gibbs_options(ga, k, H, reads, counts, F, llks, lpr, pv, fr, None)
                got = pv.copy()
                w = []
                for a in range(nh):
                    gg = list(g)
                    gg[k] = a
                    lp = log_pi_seq(gg, H, reads, counts, F, fr)
                    w.append(0.0 if lp == -math.inf else math.exp(lp))
                tot = sum(w)
                exp = [x / tot for x in w]
                ev += 1
                nontriv += len(set(g)) < ploidy
                inp = {"genotype": list(g), "position": k, "haplotypes": H.tolist(), "inbreeding": F, "frequencies": None if fr is None else fr.tolist(), "reads": reads.tolist(), "read_counts": counts.tolist()}
                if not np.array_equal(ga, np.array(g)):
                    bad("rt/gibbs_options_state_not_restored", "mchap.calling.mcmc.gibbs_options", inp, ga.tolist(), list(g), "genotype must be restored")
                if any(abs(x - y) > TOL * max(1e-3, y) for x, y in zip(got, exp)):
                    bad("rt/gibbs_is_full_conditional", "mchap.calling.mcmc.gibbs_options", inp, got.tolist(), exp, "Gibbs vector vs exact full conditional of one allele copy (lik x sequence prior, normalised)")
                CM.mh_options(ga, k, H, reads, counts, F, llks, lpr, pv, fr, None)
                mh[(g, k)] = pv.copy()
                if abs(pv.sum() - 1) > 1e-9 or (pv < -1e-12).any():
                    bad("rt/mh_not_a_distribution", "mchap.calling.mcmc.mh_options", inp, pv.tolist(), "non-negative, sums to one", "")
        for (g, k), p in mh.items():
            for a in range(nh):
                if a == g[k]:
                    continue
                g2 = list(g)
                g2[k] = a
                g2 = tuple(g2)
                if (g2, k) not in mh:
                    if p[a] > 1e-12:
                        bad("rt/mh_moves_to_zero_prior_state", "mchap.calling.mcmc.mh_options", {"genotype": list(g), "position": k, "to": a}, float(p[a]), 0.0, "allele with zero prior frequency proposed with positive probability")
                    continue
                q = mh[(g2, k)]
                l1 = log_pi_seq(g, H, reads, counts, F, fr)
                l2 = log_pi_seq(g2, H, reads, counts, F, fr)
                lhs = l1 + math.log(max(p[a], 1e-300))
                rhs = l2 + math.log(max(q[g[k]], 1e-300))
                ev += 1
                if abs(lhs - rhs) > TOL * max(1.0, abs(lhs)):
                    bad("rt/mh_detailed_balance", "mchap.calling.mcmc.mh_options", {"genotype": list(g), "position": k, "to_allele": a, "haplotypes": H.tolist(), "inbreeding": F, "frequencies": None if fr is None else fr.tolist(), "reads": reads.tolist(), "read_counts": counts.tolist()}, {"lhs": lhs, "rhs": rhs}, "pi(g) p(g->g') == pi(g') p(g'->g)", "MH vectors for all states; target = lik x sequence prior")
        if len(samples) < 3:
            samples.append({"ploidy": ploidy, "haplotypes": nh, "inbreeding": F, "states": len(states)})
    return {"bound": "ploidy x haplotypes grid, all ordered states x positions, F {0,.2}, 3 frequency settings", "evaluations": ev, "distinct_nontrivial": nontriv, "failures": fails, "samples": samples, "exhaustive": True}


def check_random_scan(tier, seed):
    """compound_step resamples every allele copy exactly once, sorts, and returns the llk of the final state"""
    rng = np.random.default_rng(seed + 22)
    ev = 0
    fails = []
    visited = []

    def rec(genotype_alleles, variable_allele, haplotypes, reads, read_counts, inbreeding, llks_array, lpriors_array, probabilities_array, frequencies=None, llk_cache=None):
        visited.append(int(variable_allele))
        return real_gibbs(genotype_alleles, variable_allele, haplotypes, reads, read_counts, inbreeding, llks_array, lpriors_array, probabilities_array, frequencies, llk_cache)

    real_gibbs = CM.gibbs_options
    CM.gibbs_options = rec
    try:
        for rep in range(30 if tier == "quick" else 200):
            ploidy = int(rng.integers(1, 7))
            H = np.array(list(itertools.product((0, 1), repeat=3))[: int(rng.integers(2, 6))], dtype=np.int8)
            reads, counts = make_reads(rng, 4, 3, 2)
            g = np.sort(rng.integers(0, len(H), size=ploidy)).astype(np.int64)
            del visited[:]
            np.random.seed(seed + rep)
            llk = CM.compound_step.py_func(g, H, reads, counts, 0.1, None, None, 0)
            ev += 1
            ok = sorted(visited) == list(range(ploidy)) and list(g) == sorted(g) and close(float(llk), float(CL.log_likelihood_alleles(reads, counts, H, g)))
            if not ok and len(fails) < 3:
                fails.append({"key": "rt/call_compound_step_scan", "check": "mchap.calling.mcmc.compound_step", "input": {"ploidy": ploidy, "n_haplotypes": len(H), "rep": rep}, "observed": {"positions": visited[:], "genotype": g.tolist(), "llk": float(llk)}, "expected": "each position once; sorted genotype; llk of the final genotype"})
    finally:
        CM.gibbs_options = real_gibbs
    return {"bound": "random ploidy<=6 x haplotypes<=5, 30+ scans (py_func with recorder)", "evaluations": ev, "distinct_nontrivial": ev, "failures": fails, "samples": [{"scans": ev}], "exhaustive": False}


def check_cache_many_haplotypes(tier, seed):
    """likelihood cache keyed by genotype index: transparent also for odd ploidy and > 32 haplotypes"""
    from numba.typed import Dict
    from numba import types

    rng = np.random.default_rng(seed + 222)
    ev = nontriv = 0
    fails = []
    for ploidy, nh in ((3, 40), (1, 70), (2, 50), (7, 24), (4, 20)):
        N = 7
        H = np.unique(rng.integers(0, 2, size=(400, N)).astype(np.int8), axis=0)[:nh]
        nh = len(H)
        reads, counts = make_reads(rng, 5, N, 2, gaps=False)
        cache = Dict.empty(key_type=types.int64, value_type=types.float64)
        cache[-1] = np.nan
        llks = np.empty(nh)
        lpr = np.empty(nh)
        p1 = np.empty(nh)
        p2 = np.empty(nh)
        for rep in range(40 if tier == "quick" else 300):
            g = rng.integers(max(0, nh - 8), nh, size=ploidy).astype(np.int64) if rep % 2 else rng.integers(0, nh, size=ploidy).astype(np.int64)
            k = int(rng.integers(0, ploidy))
            CM.gibbs_options(g.copy(), k, H, reads, counts, 0.15, llks, lpr, p1, None, cache)
            CM.gibbs_options(g.copy(), k, H, reads, counts, 0.15, llks, lpr, p2, None, None)
            ev += 1
            nontriv += 1
            if np.abs(p1 - p2).max() > 1e-9 and len(fails) < 2:
                fails.append({"key": "rt/call_cache_not_transparent", "check": "mchap.calling.likelihood.log_likelihood_alleles_cached", "input": {"ploidy": ploidy, "n_haplotypes": nh, "genotype": g.tolist(), "position": k}, "observed": float(np.abs(p1 - p2).max()), "expected": "Gibbs vector identical with and without the likelihood cache", "how": "shared typed-dict cache across 40+ calls"})
    return {"bound": "(ploidy, haplotypes) in (3,40),(1,70),(2,50),(7,24),(4,20); 40+ cached vs uncached Gibbs vectors each", "evaluations": ev, "distinct_nontrivial": nontriv, "failures": fails, "samples": [{"ploidy": 3, "haplotypes": 40}], "exhaustive": False}


def check_fit_without_reads(tier, seed):
    """CallingMCMC.fit on a sample WITHOUT reads at a locus with several haplotypes: the posterior is the prior, so the
    sampler's long-run genotype frequencies must match call-exact's enumeration for inbred samples too (loose, > 5 sigma
    Monte-Carlo tolerance; a stochastic stand-in for the exact kernel checks above at the level of the fitted class)"""
    from mchap.calling.classes import CallingMCMC
    from mchap.calling.exact import genotype_likelihoods, genotype_posteriors

    H = np.array([[0, 0, 0, 0], [0, 0, 1, 1], [0, 1, 0, 1], [1, 1, 1, 0]], dtype=np.int8)
    reads = np.empty((0, 4, 2), dtype=float)
    counts = np.array([], dtype=np.int64)
    ev = 0
    fails = []
    skew = np.array([0.5, 0.3, 0.15, 0.05])
    cases = [(4, 0.4, skew, "Gibbs"), (4, 0.25, None, "Gibbs"), (2, 0.4, skew, "Metropolis-Hastings")]
    if tier != "quick":
        cases += [(6, 0.6, skew, "Gibbs"), (4, 0.0, skew, "Gibbs"), (4, 0.4, None, "Metropolis-Hastings")]
    for k, (ploidy, F, fr, step) in enumerate(cases):
        got = CallingMCMC(ploidy=ploidy, haplotypes=H, inbreeding=F, frequencies=fr, steps=6000, chains=2, random_seed=int(seed) + 11 + k, step_type=step).fit(reads, counts).burn(1000).posterior().as_array(len(H))
        llks = genotype_likelihoods(reads=reads, read_counts=counts, ploidy=ploidy, haplotypes=H).astype(np.float64)
        exact = np.asarray(genotype_posteriors(llks, ploidy=ploidy, n_alleles=len(H), inbreeding=F, frequencies=fr), dtype=float)
        ev += 1
        d = float(np.abs(np.asarray(got) - exact).max())
        if d > 0.06 and len(fails) < 2:
            fails.append({"key": "rt/call_fit_without_reads_matches_exact_prior", "check": "mchap.calling.classes.CallingMCMC.fit", "input": {"ploidy": ploidy, "inbreeding": F, "frequencies": None if fr is None else fr.tolist(), "step_type": step, "reads": 0}, "observed": {"max_abs_difference": d}, "expected": "<= 0.06 (Monte-Carlo error of 2 x 5000 retained steps is below 0.02)"})
    return {"bound": "%d (ploidy, inbreeding, prior, step type) settings, no reads, 2 chains x 6000 steps" % len(cases), "evaluations": ev, "distinct_nontrivial": ev, "failures": fails, "samples": [], "exhaustive": False}


CHECKS = [check_gibbs_and_mh, check_random_scan, check_cache_many_haplotypes, check_fit_without_reads]
REPLAY = {
    "mchap.calling.mcmc.gibbs_options": first_failure(check_gibbs_and_mh),
    "mchap.calling.mcmc.mh_options": first_failure(check_gibbs_and_mh),
    "mchap.calling.mcmc.compound_step": first_failure(check_random_scan),
    "mchap.calling.likelihood.log_likelihood_alleles_cached": first_failure(check_cache_many_haplotypes),
}
