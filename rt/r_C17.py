"""C17 bounded run-time contracts: trio_log_pmf is a proper distribution over progeny genotypes and
equals the brute-force inheritance model; gamete_log_pmf sums to one; with zero parent error the
probability is positive exactly when trio_valid / duo_valid accept the trio."""
import itertools
import math

import numpy as np

from mchap.pedigree import prior as PP
from mchap.pedigree import validation as PV
from rt.ped_oracle import trio_pmf_table, gamete_dist, multisets
from rt.oracles import first_failure

RULE = "all parental genotype multisets over <=3 alleles x ploidy {2,4} (thorough: 6) x tau pairs (balanced, unbalanced, clonal, unknown parents) x lambda {0,.3} x error {0,.1,1} x frequency vectors; one evaluation per (configuration, progeny genotype); non-trivial = positive probability below one; distinct by construction"
TOL = 1e-9


def pad(g, n):
    return np.array(list(g) + [-1] * (n - len(g)), dtype=np.int64)


def code_trio_pmf(prog, pp, pq, tau_p, tau_q, lam_p, lam_q, err_p, err_q, logf, width):
    sc = [np.zeros(width, dtype=np.int64) for _ in range(7)]
    dlf = np.zeros(width)
    ploidy_p = 0 if pp is None else len(pp)
    ploidy_q = 0 if pq is None else len(pq)
    a = pad(prog, width)
    b = pad(pp or (), width)
    c = pad(pq or (), width)
    return float(PP.trio_log_pmf(a, b, c, ploidy_p, ploidy_q, tau_p, tau_q, lam_p, lam_q, 1.0 if pp is None else err_p, 1.0 if pq is None else err_q, logf, sc[0], sc[1], sc[2], sc[3], sc[4], sc[5], sc[6], dlf))


def configs(tier):
    n_alleles = 3
    ploidies = (2, 4) if tier == "quick" else (2, 4, 6)
    for Pp in ploidies:
        for Pq in ploidies:
            taus = {(Pp // 2, Pq // 2)}
            if Pp == 4 and Pq == 4:
                taus |= {(3, 1), (1, 3), (2, 1), (1, 2), (4, 0), (0, 4), (0, 2)}
            if Pp == 4 and Pq == 2:
                taus |= {(2, 2), (3, 1)}
            if Pp == 2 and Pq == 2:
                taus |= {(2, 0), (0, 2), (2, 2), (1, 2)}
            if Pp == 6:
                taus |= {(4, 2)} if Pq >= 4 else set()
            for tau_p, tau_q in sorted(taus):
                if tau_p > Pp or tau_q > Pq or tau_p + tau_q == 0:
                    continue
                yield Pp, Pq, tau_p, tau_q


def check_trio_pmf(tier, seed):
    rng = np.random.default_rng(seed + 17)
    n_alleles = 3
    ev = nontriv = 0
    fails = []
    samples = []
    fvecs = [np.array([1 / 3.0] * 3), np.array([0.6, 0.3, 0.1])]

    def bad(key, fn, inp, obs, exp, how=""):
        if len(fails) < 6 and not any(f["key"] == key for f in fails):
            fails.append({"key": key, "check": fn, "input": inp, "observed": obs, "expected": exp, "how": how})

    for Pp, Pq, tau_p, tau_q in configs(tier):
        width = max(Pp, Pq, tau_p + tau_q)
        parents_p = multisets(n_alleles, Pp)
        parents_q = multisets(n_alleles, Pq)
        if tier == "quick":
            parents_p = parents_p[:: max(1, len(parents_p) // 6)]
            parents_q = parents_q[:: max(1, len(parents_q) // 5)]
        progeny_all = multisets(n_alleles, tau_p + tau_q)
        lam_opts_p = (0.0, 0.3) if tau_p == 2 else (0.0,)
        lam_opts_q = (0.0, 0.3) if tau_q == 2 else (0.0,)
        for freqs in fvecs:
            logf = np.log(freqs)
            for known in ((True, True), (True, False), (False, True), (False, False)):
                for pp in (parents_p if known[0] else [None]):
                    for pq in (parents_q if known[1] else [None]):
                        for lam_p in lam_opts_p:
                            for lam_q in lam_opts_q:
                                for err_p, err_q in ((0.0, 0.0), (0.1, 0.05), (1.0, 0.0), (0.0, 1.0)):
                                    if (err_p, err_q) != (0.0, 0.0) and rng.random() < (0.7 if tier == "quick" else 0.3):
                                        continue
                                    table = trio_pmf_table(pp, pq, tau_p, tau_q, lam_p, lam_q, err_p, err_q, freqs.tolist())
                                    tot = 0.0
                                    inp0 = {"parent_p": None if pp is None else list(pp), "parent_q": None if pq is None else list(pq), "tau": [tau_p, tau_q], "lambda": [lam_p, lam_q], "error": [err_p, err_q], "frequencies": freqs.tolist()}
                                    for prog in progeny_all:
                                        lp = code_trio_pmf(prog, pp, pq, tau_p, tau_q, lam_p, lam_q, err_p, err_q, logf, width)
                                        got = 0.0 if lp == -math.inf else math.exp(lp)
                                        exp = table.get(tuple(prog), 0.0)
                                        tot += got
                                        ev += 1
                                        nontriv += 0 < exp < 1
                                        if abs(got - exp) > TOL * max(1e-3, exp):
                                            bad("rt/trio_pmf_equals_inheritance_model", "mchap.pedigree.prior.trio_log_pmf", dict(inp0, progeny=list(prog)), got, exp, "exp(trio_log_pmf) vs brute-force union of gametes")
                                        if err_p == 0.0 and err_q == 0.0 and pp is not None and pq is not None:
                                            v = bool(PV.trio_valid(np.array(prog, dtype=np.int64), np.array(pp, dtype=np.int64), np.array(pq, dtype=np.int64), tau_p, tau_q, lam_p, lam_q)) if tau_p > 0 and tau_q > 0 else None
                                            if v is not None and v != (exp > 0):
                                                bad("rt/trio_valid_iff_positive", "mchap.pedigree.validation.trio_valid", dict(inp0, progeny=list(prog)), v, exp > 0, "Mendelian validity vs positivity of the zero-error probability")
                                        if err_p == 0.0 and pp is not None and pq is None and tau_p > 0 and lam_q == 0.0:
                                            v = bool(PV.duo_valid(np.array(prog, dtype=np.int64), np.array(pp, dtype=np.int64), tau_p, lam_p))
                                            if v != (exp > 0):
                                                bad("rt/duo_valid_iff_positive", "mchap.pedigree.validation.duo_valid", dict(inp0, progeny=list(prog)), v, exp > 0, "duo validity vs positivity")
                                    if abs(tot - 1) > 1e-8:
                                        bad("rt/trio_pmf_sums_to_one", "mchap.pedigree.prior.trio_log_pmf", inp0, tot, 1.0, "sum over all unordered progeny genotypes")
        if len(samples) < 3:
            samples.append({"ploidy_p": Pp, "ploidy_q": Pq, "tau": [tau_p, tau_q], "progeny_genotypes": len(progeny_all)})
    return {"bound": "3 alleles; parental ploidy {2,4}%s; tau pairs incl. unbalanced/clonal; known/unknown parents; lambda {0,.3}; error grids; 2 frequency vectors" % ("" if tier == "quick" else ",6"), "evaluations": ev, "distinct_nontrivial": nontriv, "failures": fails, "samples": samples, "exhaustive": tier != "quick"}


def check_gamete_pmf(tier, seed):
    ev = nontriv = 0
    fails = []
    n_alleles = 3
    for P in (2, 4, 6):
        for parent in multisets(n_alleles, P):
            for tau in range(1, P + 1):
                for lam in ((0.0, 0.3) if tau == 2 else (0.0,)):
                    table = gamete_dist(parent, tau, lam, 0.0, [1 / 3.0] * 3)
                    tot = 0.0
                    for g in multisets(n_alleles, tau):
                        # the kernel works on dosages aligned to the unique gamete alleles
                        alleles = sorted(set(g))
                        gd = np.array([g.count(a) for a in alleles] + [0] * (P - len(alleles)), dtype=np.int64)
                        pd = np.array([parent.count(a) for a in alleles] + [0] * (P - len(alleles)), dtype=np.int64)
                        lp = float(PP.gamete_log_pmf(gd, tau, pd, P, lam))
                        got = 0.0 if lp == -math.inf else math.exp(lp)
                        tot += got
                        ev += 1
                        nontriv += 0 < got < 1
                        if abs(got - table.get(g, 0.0)) > 1e-9 and len(fails) < 2:
                            fails.append({"key": "rt/gamete_pmf", "check": "mchap.pedigree.prior.gamete_log_pmf", "input": {"parent": list(parent), "gamete": list(g), "lambda": lam}, "observed": got, "expected": table.get(g, 0.0)})
                    if abs(tot - 1) > 1e-9 and len(fails) < 2:
                        fails.append({"key": "rt/gamete_pmf_sums_to_one", "check": "mchap.pedigree.prior.gamete_log_pmf", "input": {"parent": list(parent), "tau": tau, "lambda": lam}, "observed": tot, "expected": 1.0})
    return {"bound": "all parents over 3 alleles, ploidy 2/4/6, every tau, lambda {0,.3} for tau 2", "evaluations": ev, "distinct_nontrivial": nontriv, "failures": fails, "samples": [{"ploidy": 6}], "exhaustive": True}


def check_pederr(tier, seed):
    """PEDERR (trace incongruence) uses the validity test with the right parent / tau column"""
    from mchap.pedigree.classes import _trace_incongruence

    rng = np.random.default_rng(seed + 171)
    ev = 0
    fails = []
    n_alleles = 3
    for rep in range(60 if tier == "quick" else 400):
        P = 4
        layout = int(rng.integers(0, 3))  # 0: both known, 1: only p known, 2: only q known
        tau = [(2, 2), (1, 3), (3, 1), (0, 4), (4, 0), (1, 2), (2, 1)][int(rng.integers(0, 7))]
        prog_ploidy = tau[0] + tau[1]
        width = 4
        g = [list(rng.integers(0, n_alleles, size=4)), list(rng.integers(0, n_alleles, size=4)), list(rng.integers(0, n_alleles, size=prog_ploidy))]
        trace = np.full((1, 3, width), -1, dtype=np.int16)
        for i, x in enumerate(g):
            trace[0, i, : len(x)] = sorted(x)
        ploidy = np.array([4, 4, prog_ploidy], dtype=np.int64)
        parents = np.array([[-1, -1], [-1, -1], [0, 1]], dtype=np.int64)
        if layout == 1:
            parents[2] = [0, -1]
        if layout == 2:
            parents[2] = [-1, 1]
        gt = np.array([[2, 2], [2, 2], list(tau)], dtype=np.int64)
        lam = np.zeros((3, 2))
        try:
            out = _trace_incongruence(trace, ploidy, parents, gt, lam)
        except Exception as ex:
            out = "raised %r" % (ex,)
        pp = tuple(sorted(g[0])) if parents[2, 0] >= 0 else None
        pq = tuple(sorted(g[1])) if parents[2, 1] >= 0 else None
        table = trio_pmf_table(pp, pq, tau[0], tau[1], 0.0, 0.0, 0.0, 0.0, [1 / 3.0] * 3)
        exp = 0.0 if table.get(tuple(sorted(g[2])), 0.0) > 0 else 1.0
        ev += 1
        got = out if isinstance(out, str) else float(out[2])
        if got != exp and len(fails) < 3:
            fails.append({"key": "rt/pederr_matches_zero_error_positivity", "check": "mchap.pedigree.classes._trace_incongruence", "input": {"parents": parents[2].tolist(), "tau": list(tau), "parent_p": None if pp is None else list(pp), "parent_q": None if pq is None else list(pq), "progeny": sorted(int(x) for x in g[2])}, "observed": got, "expected": exp, "how": "PEDERR of a one-step trace vs positivity of the zero-error inheritance probability"})
    return {"bound": "random tetraploid parents x 7 tau pairs x {trio, duo p, duo q}", "evaluations": ev, "distinct_nontrivial": ev, "failures": fails, "samples": [{"cases": ev}], "exhaustive": False}


CHECKS = [check_trio_pmf, check_gamete_pmf, check_pederr]
REPLAY = {"mchap.pedigree.prior.trio_log_pmf": first_failure(check_trio_pmf), "mchap.pedigree.prior.gamete_log_pmf": first_failure(check_gamete_pmf)}
