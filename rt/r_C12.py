"""C12 bounded run-time contracts: haplotype encode/decode round trip on generated records, and the
assemble -> call / call-exact pipeline on the repository's small test alignments (several regions
and thresholds so that REFMASKED, ALT-less (NOA) and last-base-SNV records occur)."""
import io
import itertools
import os
import shutil
import sys
import tempfile

import numpy as np
import pysam

from mchap.io import LocusPrior
from mchap.io.loci import Locus, SNP

RULE = "generated fixed-length records (length<=6, <=3 ALTs over ACGT, SNVs at every offset incl. first and last base) for the round trip; assemble outputs for a grid of regions x thresholds piped through call-exact and call; non-trivial = record with >=2 SNVs or a REFMASKED/NOA record; distinct by construction"

HEADER = """##fileformat=VCFv4.3
##contig=<ID=CHR1,length=1000>
##INFO=<ID=SNVPOS,Number=.,Type=Integer,Description="s">
##INFO=<ID=REFMASKED,Number=0,Type=Flag,Description="m">
#CHROM\tPOS\tID\tREF\tALT\tQUAL\tFILTER\tINFO
"""


def check_round_trip(tier, seed):
    rng = np.random.default_rng(seed + 12)
    tmp = tempfile.mkdtemp(prefix="verif_c12_")
    ev = nontriv = 0
    fails = []
    samples = []

    def bad(key, fn, inp, obs, exp, how=""):
        if len(fails) < 5 and not any(f["key"] == key for f in fails):
            fails.append({"key": key, "check": fn, "input": inp, "observed": obs, "expected": exp, "how": how})

    try:
        recs = []
        # every single-SNV offset (incl. first and last base), then random multi-SNV records
        for L in (1, 2, 4, 6):
            ref = "ACGTAC"[:L]
            for off in range(L):
                alt = list(ref)
                alt[off] = "T" if ref[off] != "T" else "G"
                recs.append((ref, ["".join(alt)]))
        for _ in range(150 if tier == "quick" else 1500):
            L = int(rng.integers(1, 7))
            ref = "".join(rng.choice(list("ACGT"), size=L))
            alts = []
            for _ in range(int(rng.integers(0, 4))):
                a = list(ref)
                for p in range(L):
                    if rng.random() < 0.4:
                        a[p] = str(rng.choice(list("ACGT")))
                a = "".join(a)
                if a != ref and a not in alts:
                    alts.append(a)
            if rng.random() < 0.25:
                # soft-masked input: some columns (or all) in lower case, consistently in REF and every ALT
                cols = [p for p in range(L) if rng.random() < 0.6]
                lc = lambda x: "".join(ch.lower() if p in cols else ch for p, ch in enumerate(x))
                ref, alts = lc(ref), [lc(a) for a in alts]
            recs.append((ref, alts))
        path = os.path.join(tmp, "in.vcf")
        with open(path, "w") as f:
            f.write(HEADER)
            for i, (ref, alts) in enumerate(recs):
                f.write("CHR1\t%d\tR%d\t%s\t%s\t.\t.\t.\n" % (10 + 10 * i, i, ref, ",".join(alts) if alts else "."))
        with pysam.VariantFile(path) as vf:
            records = list(vf.fetch())
        for (ref, alts), rec in zip(recs, records):
            inp = {"REF": ref, "ALT": alts}
            ev += 1
            strings = [ref] + alts
            poly = [p for p in range(len(ref)) if len({s[p] for s in strings}) > 1]
            nontriv += len(poly) >= 2
            try:
                locus = LocusPrior.from_variant_record(rec)
                H = locus.encode_haplotypes()
                back = locus.format_haplotypes(H)
            except Exception as ex:
                bad("rt/round_trip_raises", "mchap.io.loci.LocusPrior", inp, repr(ex), "round trip")
                continue
            if list(back) != strings:
                bad("rt/encode_decode_round_trip", "mchap.io.loci.Locus.format_haplotypes", inp, list(back), strings, "format_haplotypes(encode_haplotypes()) reproduces REF/ALT exactly")
            pos = [p - locus.start for p in locus.positions]
            if pos != poly:
                bad("rt/snv_positions_polymorphic", "mchap.io.loci.LocusPrior.from_variant_record", inp, pos, poly, "SNV positions recovered from the sequences = polymorphic columns")
            # first-appearance allele numbering with REF = 0
            for j, p in enumerate(poly):
                order = []
                for s in strings:
                    if s[p] not in order:
                        order.append(s[p])
                if [order.index(s[p]) for s in strings] != [int(x) for x in H[:, j]]:
                    bad("rt/allele_numbering_first_appearance", "mchap.io.loci.LocusPrior.encode_haplotypes", inp, H[:, j].tolist(), [order.index(s[p]) for s in strings])
            if len(samples) < 2:
                samples.append(inp)
    finally:
        shutil.rmtree(tmp, ignore_errors=True)
    return {"bound": "all single-SNV offsets for lengths 1,2,4,6 + seeded random records (length<=6, <=3 ALTs)", "evaluations": ev, "distinct_nontrivial": nontriv, "failures": fails, "samples": samples, "exhaustive": False}


def _run(program_cls, command):
    out = io.StringIO()
    saved = sys.stdout
    sys.stdout = out
    try:
        program_cls.cli(command).run_stdout()
    finally:
        sys.stdout = saved
    return out.getvalue()


def _records(text):
    rows = []
    for line in text.splitlines():
        if line.startswith("#") or not line.strip():
            continue
        c = line.split("\t")
        rows.append({"key": (c[0], c[1], c[3], c[4]), "filter": c[6], "info": c[7], "format": c[8].split(":"), "samples": [x.split(":") for x in c[9:]]})
    return rows


def check_pipeline(tier, seed):
    from mchap.application import assemble, call, call_exact
    import mchap

    data = os.path.join(os.path.dirname(mchap.__file__), "tests", "test_io", "data")
    bams = [os.path.join(data, "simple.sample%d.bam" % i) for i in (1, 2, 3)]
    if not all(os.path.exists(b) for b in bams):
        return {"bound": "repository test alignments not found", "evaluations": 0, "distinct_nontrivial": 0, "failures": [{"key": "rt/pipeline_test_data_missing", "check": "pipeline", "input": {"dir": data}, "observed": "missing", "expected": "simple.sample[1-3].bam"}], "samples": [], "exhaustive": False}
    tmp = tempfile.mkdtemp(prefix="verif_c12p_")
    ev = nontriv = 0
    fails = []
    samples = []

    def bad(key, fn, inp, obs, exp, how=""):
        if len(fails) < 5 and not any(f["key"] == key for f in fails):
            fails.append({"key": key, "check": fn, "input": inp, "observed": obs, "expected": exp, "how": how})

    try:
        configs = []
        base = ["--bam"] + bams + ["--ploidy", "4", "--variants", os.path.join(data, "simple.vcf.gz"), "--reference", os.path.join(data, "simple.fasta"), "--mcmc-steps", "300", "--mcmc-burn", "100", "--mcmc-seed", str(11 + seed)]
        configs.append(("targets", ["--targets", os.path.join(data, "simple.bed.gz")], []))
        configs.append(("targets-strict", ["--targets", os.path.join(data, "simple.bed.gz")], ["--haplotype-posterior-threshold", "0.9"]))
        configs.append(("noa", ["--targets", os.path.join(data, "simple.bed.gz")], ["--mapping-quality", "61", "--haplotype-posterior-threshold", "0.9"]))
        for reg in ("CHR1:5-23", "CHR1:7-25", "CHR1:5-25", "CHR2:10-30", "CHR1:6-18"):
            configs.append(("region " + reg, ["--region", reg], []))
        if tier == "quick":
            configs = configs[:5]
        for name, loc_args, extra in configs:
            cmd = ["mchap", "assemble"] + base + loc_args + extra
            inp = {"assemble": " ".join(a if "/" not in a else os.path.basename(a) for a in cmd[1:])}
            ev += 1
            try:
                text = _run(assemble.program, cmd)
            except Exception as ex:
                bad("rt/pipeline_assemble_raises", "mchap.application.assemble", inp, repr(ex) + " <- " + repr(ex.__cause__), "assemble output")
                continue
            path = os.path.join(tmp, "asm_%d.vcf" % ev)
            with open(path, "w") as f:
                f.write(text)
            arows = _records(text)
            nontriv += any("REFMASKED" in r["info"] or r["key"][3] == "." for r in arows)
            for cls, pname, kw in ((call_exact.program, "call-exact", []), (call.program, "call", ["--mcmc-steps", "200", "--mcmc-burn", "100"])):
                ccmd = ["mchap", pname, "--bam"] + bams + ["--ploidy", "4", "--haplotypes", path] + kw
                try:
                    ctext = _run(cls, ccmd)
                except Exception as ex:
                    bad("rt/pipeline_%s_rejects_assemble_output" % pname, "mchap.application.%s" % pname.replace("-", "_"), dict(inp, records=[r["key"] for r in arows]), repr(ex) + " <- " + repr(getattr(ex, "__cause__", None)), "assemble output is valid call input")
                    continue
                crows = _records(ctext)
                if [r["key"] for r in crows] != [r["key"] for r in arows]:
                    bad("rt/pipeline_%s_changes_records" % pname, "mchap.application.%s" % pname.replace("-", "_"), inp, [r["key"] for r in crows], [r["key"] for r in arows], "same CHROM/POS/REF/ALT")
                for r in crows:
                    gi = r["format"].index("GT")
                    incomplete = any("." in s[gi].replace("|", "/").split("/") for s in r["samples"])
                    flagged = any(x in r["filter"] for x in ("NOA", "AF0"))
                    n_alt = 0 if r["key"][3] == "." else len(r["key"][3].split(","))
                    masked = "REFMASKED" in r["info"]
                    bad_allele = any(a not in (".",) and (int(a) > n_alt or (masked and int(a) == 0)) for s in r["samples"] for a in s[gi].replace("|", "/").split("/"))
                    if (incomplete and not flagged) or bad_allele:
                        bad("rt/pipeline_%s_genotypes" % pname, "mchap.application.%s" % pname.replace("-", "_"), dict(inp, record=r["key"]), [s[gi] for s in r["samples"]], "complete genotypes over the listed (unmasked) alleles unless NOA/AF0")
            if len(samples) < 2:
                samples.append({"config": name, "records": [r["key"] for r in arows][:3]})
    finally:
        shutil.rmtree(tmp, ignore_errors=True)
    return {"bound": "%d assemble configurations (targets/regions/thresholds) x {call-exact, call}" % len(configs), "evaluations": ev, "distinct_nontrivial": nontriv, "failures": fails, "samples": samples, "exhaustive": False}


CHECKS = [check_round_trip, check_pipeline]
REPLAY = {}
