"""C01 bounded run-time contracts: every elementary move of the assemble sampler satisfies detailed
balance w.r.t. (likelihood x prior)^t over unordered genotypes, on exhaustively enumerated small
state spaces.  The probability vector handed to random_choice is captured by running the real
move's .py_func with the module-level random_choice replaced; likelihood and prior oracles are
written here from the property statement (not the sampler's code)."""
import itertools
import math

import numpy as np

from mchap.assemble import mutation, structural, tempering
from mchap.assemble import mcmc as AMC
from mchap import jitutils as J

RULE = "all ordered genotypes of small instances (ploidy x sites x alleles) x inbreeding {0, 0.3} x inverse temperature {1, 0.6}; every (state, move parameter) pair is one evaluation; non-trivial = state with a duplicated haplotype or heated chain; distinct by construction"
TOL = 1e-8


# ---------------------------------------------------------------- independent oracles
def lik(reads, counts, G):
    P = len(G)
    tot = 0.0
    for r in range(len(reads)):
        s = 0.0
        for h in range(P):
            p = 1.0
            for j in range(G.shape[1]):
                v = reads[r, j, G[h, j]]
                if not np.isnan(v):
                    p *= float(v)
            s += p / P
        tot += int(counts[r]) * math.log(s)
    return tot


def dosages(G):
    d = {}
    for row in G.tolist():
        d[tuple(row)] = d.get(tuple(row), 0) + 1
    return d


def log_perms(G):
    return math.lgamma(len(G) + 1) - sum(math.lgamma(c + 1) for c in dosages(G).values())


def log_prior(G, u, F):
    """prior over UNORDERED genotypes: multinomial (F=0) / Dirichlet-multinomial with flat frequencies
    over u haplotypes and dispersion (1/u)(1-F)/F"""
    P = len(G)
    d = dosages(G)
    if F == 0:
        return log_perms(G) - P * math.log(u)
    a = (1.0 / u) * (1 - F) / F
    out = math.lgamma(P + 1) + math.lgamma(u * a) - math.lgamma(P + u * a)
    for c in d.values():
        out += math.lgamma(c + a) - math.lgamma(c + 1) - math.lgamma(a)
    return out


def canon(G):
    return tuple(sorted(tuple(r) for r in G.tolist()))


class Instance:
    def __init__(self, rng, P, n_alleles, F, t, n_reads=4):
        self.P = P
        self.n_alleles = np.array(n_alleles, dtype=np.int8)
        self.N = len(n_alleles)
        self.F = F
        self.t = t
        A = max(n_alleles)
        reads = rng.random((n_reads, self.N, A)) * 0.9 + 0.05
        for j, n in enumerate(n_alleles):
            reads[:, j, n:] = 0.0
        reads /= reads.sum(axis=-1, keepdims=True)
        reads[0, 0, :] = np.nan  # a gap
        self.reads = reads
        self.counts = rng.integers(1, 4, size=n_reads).astype(np.int64)
        self.u = int(np.prod(n_alleles))
        self.lu = float(np.log(self.n_alleles.astype(float)).sum())
        haps = list(itertools.product(*[range(n) for n in n_alleles]))
        self.states = [np.array(s, dtype=np.int8) for s in itertools.product(haps, repeat=P)]
        self._logU = {}

    def logU(self, G):
        """log( (likelihood x prior_unordered)^t ) up to a constant"""
        k = canon(G)
        if k not in self._logU:
            self._logU[k] = self.t * (lik(self.reads, self.counts, G) + log_prior(G, self.u, self.F))
        return self._logU[k]

    def log_pi_ordered(self, G):
        # the lift of the unordered target to ordered representations
        return self.logU(G) - log_perms(G)


def capture_base_step(inst, G, h, j):
    got = {}

    def fake(p):
        got["p"] = np.array(p, dtype=float)
        return int(G[h, j])

    real = mutation.random_choice
    mutation.random_choice = fake
    try:
        g = G.copy()
        llk = lik(inst.reads, inst.counts, G)
        mutation.base_step.py_func(g, inst.reads, llk, h, j, int(inst.n_alleles[j]), inst.lu, inst.F, inst.t, inst.counts, None)
    finally:
        mutation.random_choice = real
    return got["p"]


def check_base_step_detailed_balance(tier, seed):
    rng = np.random.default_rng(seed + 101)
    ev = nontriv = 0
    fails = []
    samples = []
    configs = [(3, (2, 3)), (2, (2, 2, 2))] if tier == "quick" else [(3, (2, 3)), (2, (2, 2, 2)), (4, (2, 2)), (3, (3, 3))]
    for P, n_alleles in configs:
        for F in (0.0, 0.3):
            for t in (1.0, 0.6):
                inst = Instance(rng, P, n_alleles, F, t)
                index = {s.tobytes(): i for i, s in enumerate(inst.states)}
                pv = {}
                for G in inst.states:
                    for h in range(P):
                        for j in range(inst.N):
                            p = capture_base_step(inst, G, h, j)
                            pv[(G.tobytes(), h, j)] = p
                            ev += 1
                            nontriv += (len(dosages(G)) < P) or t < 1
                            if (abs(p.sum() - 1) > 1e-9 or (p < -1e-12).any()) and len(fails) < 3:
                                fails.append({"key": "rt/base_step_not_a_distribution", "check": "mchap.assemble.mutation.base_step", "input": {"genotype": G.tolist(), "h": h, "j": j, "inbreeding": F, "temp": t}, "observed": p.tolist(), "expected": "non-negative, sums to one"})
                for G in inst.states:
                    for h in range(P):
                        for j in range(inst.N):
                            p = pv[(G.tobytes(), h, j)]
                            cur = int(G[h, j])
                            for a in range(int(inst.n_alleles[j])):
                                if a == cur:
                                    continue
                                G2 = G.copy()
                                G2[h, j] = a
                                q = pv[(G2.tobytes(), h, j)]
                                lhs = inst.log_pi_ordered(G) + math.log(max(p[a], 1e-300))
                                rhs = inst.log_pi_ordered(G2) + math.log(max(q[cur], 1e-300))
                                if abs(lhs - rhs) > TOL * max(1.0, abs(lhs)) and len(fails) < 3:
                                    fails.append({"key": "rt/base_step_detailed_balance", "check": "mchap.assemble.mutation.base_step", "input": {"genotype": G.tolist(), "h": h, "j": j, "to_allele": a, "n_alleles": list(n_alleles), "inbreeding": F, "temp": t, "reads": inst.reads.tolist(), "read_counts": inst.counts.tolist()}, "observed": {"log pi(G)+log p(G->G')": lhs, "log pi(G')+log p(G'->G)": rhs}, "expected": "equal (detailed balance w.r.t. (lik x prior)^t over unordered genotypes)", "how": "probability vectors captured from base_step.py_func; oracle lik/prior written from the property statement"})
                if len(samples) < 2:
                    samples.append({"ploidy": P, "n_alleles": list(n_alleles), "inbreeding": F, "temp": t, "states": len(inst.states)})
    return {"bound": "ploidy/alleles %s x F {0,0.3} x t {1,0.6}: all ordered states x all (h,j)" % (configs,), "evaluations": ev, "distinct_nontrivial": nontriv, "failures": fails, "samples": samples, "exhaustive": True}


def capture_interval_step(inst, G, interval, step_type):
    """returns list of (probability, resulting unordered genotype)"""
    got = {}

    def fake(p):
        got["p"] = np.array(p, dtype=float)
        return len(p) - 1  # 'no move' is always the last entry

    real = structural.random_choice
    structural.random_choice = fake
    try:
        g = G.copy()
        llk = lik(inst.reads, inst.counts, G)
        structural.interval_step.py_func(g, inst.reads, llk, inst.lu, inst.F, interval, step_type, inst.t, inst.counts, None)
    finally:
        structural.random_choice = real
    if "p" not in got:  # no options: stays with probability one
        return [(1.0, canon(G))]
    p = got["p"]
    labels = structural.haplotype_segment_labels(G, interval)
    opts = structural.recombination_step_options(labels) if step_type == 0 else structural.dosage_step_options(labels)
    out = []
    for i in range(len(opts)):
        g2 = G.copy()
        J.structural_change(g2, opts[i, :, 0].copy(), interval)
        out.append((float(p[i]), canon(g2)))
    out.append((float(p[-1]), canon(G)))
    return out


def check_interval_step_detailed_balance(tier, seed):
    rng = np.random.default_rng(seed + 202)
    ev = nontriv = 0
    fails = []
    samples = []
    configs = [(3, (2, 2, 2))] if tier == "quick" else [(3, (2, 2, 2)), (4, (2, 2, 2)), (3, (2, 3, 2))]
    for P, n_alleles in configs:
        N = len(n_alleles)
        intervals = [np.array(iv) for iv in ([0, 1], [1, N], [0, N], [1, 2])]
        for F in (0.0, 0.3):
            for t in (1.0, 0.6):
                inst = Instance(rng, P, n_alleles, F, t)
                classes = {}
                for G in inst.states:
                    classes.setdefault(canon(G), []).append(G)
                for step_type in (0, 1):
                    for iv in intervals:
                        T = {}
                        for k, reps in classes.items():
                            dists = []
                            for G in reps:
                                d = {}
                                for pr, k2 in capture_interval_step(inst, G, iv, step_type):
                                    d[k2] = d.get(k2, 0.0) + pr
                                dists.append(d)
                                ev += 1
                                nontriv += (len(dosages(G)) < P) or t < 1
                            ref = dists[0]
                            for d in dists[1:]:
                                keys = set(ref) | set(d)
                                if any(abs(ref.get(x, 0) - d.get(x, 0)) > 1e-9 for x in keys) and len(fails) < 3:
                                    fails.append({"key": "rt/interval_step_depends_on_row_order", "check": "mchap.assemble.structural.interval_step", "input": {"genotype_class": [list(r) for r in k], "interval": iv.tolist(), "step_type": step_type, "inbreeding": F, "temp": t}, "observed": "move distribution differs between two orderings of the same multiset", "expected": "depends on the genotype only as a multiset"})
                            if abs(sum(ref.values()) - 1) > 1e-9 and len(fails) < 3:
                                fails.append({"key": "rt/interval_step_not_a_distribution", "check": "mchap.assemble.structural.interval_step", "input": {"genotype_class": [list(r) for r in k], "interval": iv.tolist(), "step_type": step_type}, "observed": sum(ref.values()), "expected": 1.0})
                            T[k] = ref
                        for k, d in T.items():
                            Gk = np.array(k, dtype=np.int8)
                            for k2, pr in d.items():
                                if k2 == k:
                                    continue
                                back = T[k2].get(k, 0.0)
                                G2 = np.array(k2, dtype=np.int8)
                                lhs = inst.logU(Gk) + math.log(max(pr, 1e-300))
                                rhs = inst.logU(G2) + math.log(max(back, 1e-300))
                                if abs(lhs - rhs) > TOL * max(1.0, abs(lhs)) and len(fails) < 3:
                                    fails.append({"key": "rt/interval_step_detailed_balance", "check": "mchap.assemble.structural.interval_step", "input": {"from": [list(r) for r in k], "to": [list(r) for r in k2], "interval": iv.tolist(), "step_type": step_type, "inbreeding": F, "temp": t, "n_alleles": list(n_alleles), "reads": inst.reads.tolist(), "read_counts": inst.counts.tolist()}, "observed": {"log pi(G)+log P(G->G')": lhs, "log pi(G')+log P(G'->G)": rhs, "P(G->G')": pr, "P(G'->G)": back}, "expected": "equal (detailed balance over unordered genotypes w.r.t. (lik x prior)^t)", "how": "probability vectors captured from interval_step.py_func over all orderings of every multiset"})
                if len(samples) < 2:
                    samples.append({"ploidy": P, "n_alleles": list(n_alleles), "inbreeding": F, "temp": t, "classes": len(classes)})
    return {"bound": "ploidy/alleles %s x F {0,0.3} x t {1,0.6} x both step types x 4 intervals: all ordered states" % (configs,), "evaluations": ev, "distinct_nontrivial": nontriv, "failures": fails, "samples": samples, "exhaustive": True}


def check_chain_swap(tier, seed):
    rng = np.random.default_rng(seed + 303)
    ev = nontriv = 0
    fails = []
    samples = []
    n = 300 if tier == "quick" else 3000
    for _ in range(n):
        li, lj = -rng.random(2) * 40
        pi_, pj = -rng.random(2) * 10
        tj, ti = np.sort(rng.random(2) * 0.98 + 0.01)
        if ti <= tj:
            continue
        a = float(tempering.chain_swap_acceptance(li, pi_, ti, lj, pj, tj))
        exp = min(1.0, math.exp(((lj + pj) - (li + pi_)) * (ti - tj)))
        ev += 1
        nontriv += 1
        if abs(a - exp) > 1e-9 * max(1, abs(exp)) and len(fails) < 3:
            fails.append({"key": "rt/chain_swap_acceptance", "check": "mchap.assemble.tempering.chain_swap_acceptance", "input": {"llk_i": li, "prior_i": pi_, "temp_i": ti, "llk_j": lj, "prior_j": pj, "temp_j": tj}, "observed": a, "expected": exp})
    # the step swaps genotype AND llk together, or neither, and uses the prior of the given inbreeding
    for rep in range(40 if tier == "quick" else 300):
        inst = Instance(rng, 3, (2, 2), float(rng.choice([0.0, 0.3])), 1.0)
        Gi = inst.states[int(rng.integers(len(inst.states)))].copy()
        Gj = inst.states[int(rng.integers(len(inst.states)))].copy()
        li, lj = lik(inst.reads, inst.counts, Gi), lik(inst.reads, inst.counts, Gj)
        ti, tj = 0.9, 0.4
        J.seed_numba(seed + rep)
        gi, gj = Gi.copy(), Gj.copy()
        ni, nj = tempering.chain_swap_step(gi, li, ti, gj, lj, tj, inst.lu, inst.F)
        swapped = not np.array_equal(gi, Gi) or not np.array_equal(gj, Gj)
        ev += 1
        ok = (np.array_equal(gi, Gj) and np.array_equal(gj, Gi) and ni == lj and nj == li) if swapped else (ni == li and nj == lj and np.array_equal(gi, Gi) and np.array_equal(gj, Gj))
        if canon(Gi) == canon(Gj):
            ok = ok or (abs(ni - li) < 1e-12 and abs(nj - lj) < 1e-12)
        if not ok and len(fails) < 3:
            fails.append({"key": "rt/chain_swap_step_state", "check": "mchap.assemble.tempering.chain_swap_step", "input": {"genotype_i": Gi.tolist(), "genotype_j": Gj.tolist(), "llk_i": li, "llk_j": lj}, "observed": {"genotype_i": gi.tolist(), "genotype_j": gj.tolist(), "llks": [float(ni), float(nj)]}, "expected": "genotypes and likelihoods exchanged together, or nothing changed"})
    samples.append({"acceptance_cases": n})
    return {"bound": "%d random (llk, prior, temperature) tuples; 40+ swap steps on 3-ploid instances" % n, "evaluations": ev, "distinct_nontrivial": nontriv, "failures": fails, "samples": samples, "exhaustive": False}


def check_orchestration(tier, seed):
    """_denovo_assembler passes each chain its own temperature and the same inbreeding /
    log_unique_haplotypes to every move, including the exchange step"""
    rng = np.random.default_rng(seed + 404)
    fails = []
    ev = 0
    rec = []

    def rec_mut(genotype, reads, llk, n_alleles, log_unique_haplotypes, inbreeding=0, temp=1, read_counts=None, cache=None):
        rec.append(("mutation", float(temp), float(inbreeding), float(log_unique_haplotypes), read_counts is not None))
        return llk, cache

    def rec_struct(genotype, reads, llk, intervals, log_unique_haplotypes, inbreeding=0, step_type=0, randomize=True, temp=1, read_counts=None, cache=None):
        rec.append(("structural%d" % step_type, float(temp), float(inbreeding), float(log_unique_haplotypes), read_counts is not None))
        return llk, cache

    def rec_swap(genotype_i, llk_i, temp_i, genotype_j, llk_j, temp_j, log_unique_haplotypes, inbreeding=0):
        rec.append(("swap", float(temp_i), float(temp_j), float(inbreeding), float(log_unique_haplotypes)))
        return llk_i, llk_j

    saved = (mutation.compound_step, structural.compound_step, AMC.chain_swap_step)
    mutation.compound_step, structural.compound_step, AMC.chain_swap_step = rec_mut, rec_struct, rec_swap
    try:
        for F in (0.0, 0.25):
            for temps in ((1.0,), (0.3, 0.7, 1.0)):
                del rec[:]
                inst = Instance(rng, 3, (2, 3, 2), F, 1.0)
                np.random.seed(seed)
                AMC._denovo_assembler.py_func(genotype=inst.states[5].copy(), inbreeding=F, reads=inst.reads, read_counts=inst.counts, n_alleles=inst.n_alleles.astype(np.int64), steps=4, break_dist=np.array([0.5, 0.5]), recombination_step_probability=1.0, partial_dosage_step_probability=1.0, dosage_step_probability=1.0, temperatures=np.array(temps), return_heated_trace=False, llk_cache_threshold=-1)
                ev += len(rec)
                bad = []
                for r in rec:
                    if r[0] == "swap":
                        if not (r[1] in temps and r[2] in temps and temps.index(r[1]) == temps.index(r[2]) + 1 and abs(r[3] - F) < 1e-15 and abs(r[4] - inst.lu) < 1e-9):
                            bad.append(r)
                    else:
                        if not (r[1] in temps and abs(r[2] - F) < 1e-15 and abs(r[3] - inst.lu) < 1e-9 and r[4]):
                            bad.append(r)
                n_mut = {t: sum(1 for r in rec if r[0] == "mutation" and r[1] == t) for t in temps}
                if any(v != 4 for v in n_mut.values()):
                    bad.append(("mutation sweeps per temperature", n_mut))
                if bad and len(fails) < 3:
                    fails.append({"key": "rt/denovo_orchestration_arguments", "check": "mchap.assemble.mcmc._denovo_assembler", "input": {"inbreeding": F, "temperatures": list(temps), "log_unique_haplotypes": inst.lu}, "observed": [list(map(str, b)) for b in bad[:4]], "expected": "every move of chain t receives temperatures[t], the configured inbreeding, log_unique_haplotypes and read counts; the exchange gets (T_t, T_t-1) and the same prior parameters", "how": "_denovo_assembler.py_func with the move functions replaced by recorders"})
    finally:
        mutation.compound_step, structural.compound_step, AMC.chain_swap_step = saved
    return {"bound": "F {0,0.25} x {cold, 3 temperatures}, 4 steps, all move calls recorded", "evaluations": ev, "distinct_nontrivial": ev, "failures": fails, "samples": [{"recorded_calls": ev}], "exhaustive": False}


def check_option_functions(tier, seed):
    """The ASSUMED contracts of the structural label / option helpers, on the real functions: every label matrix
    with entries in [0, P) for P <= 3 (quick) / 4 (thorough) plus seeded ones up to ploidy 6: option arrays have shape
    (n, P, 2) with n == the matching n_options, entries stay labels, every option differs from the current labels,
    has at least one way back (n_options(option) >= 1) and lists the current labels among its own options;
    haplotype_segment_labels: two haplotypes share a label iff they are equal on that segment."""
    rng = np.random.default_rng(seed + 101)
    ev = nontriv = 0
    fails = []

    def bad(key, fn, inp, obs, exp, how=""):
        if len(fails) < 5 and not any(f["key"] == key for f in fails):
            fails.append({"key": key, "check": fn, "input": inp, "observed": obs, "expected": exp, "how": how})

    def rows(L):
        return sorted(map(tuple, L.tolist()))

    def mats():
        for P in ((1, 2, 3) if tier == "quick" else (1, 2, 3, 4)):
            for flat in itertools.product(range(P), repeat=2 * P):
                yield np.array(flat, dtype=np.int8).reshape(P, 2)
        for _ in range(300 if tier == "quick" else 3000):
            P = int(rng.integers(4, 7))
            yield rng.integers(0, P, size=(P, 2)).astype(np.int8)

    for L in mats():
        P = len(L)
        for name, fo, fn in (("recombination", structural.recombination_step_options, structural.recombination_step_n_options), ("dosage", structural.dosage_step_options, structural.dosage_step_n_options)):
            opts = fo(L)
            n = int(fn(L))
            ev += 1
            nontriv += n > 0
            inp = {"labels": L.tolist(), "step": name}
            if opts.shape != (n, P, 2):
                bad("rt/options_shape_vs_n_options", "mchap.assemble.structural.%s_step_options" % name, inp, list(opts.shape), [n, P, 2], "len(options) == n_options")
                continue
            if n and (opts.min() < 0 or opts.max() >= P):
                bad("rt/options_entries_are_labels", "mchap.assemble.structural.%s_step_options" % name, inp, [int(opts.min()), int(opts.max())], [0, P - 1])
            for o in opts:
                if rows(o) == rows(L):
                    bad("rt/option_is_a_change", "mchap.assemble.structural.%s_step_options" % name, inp, o.tolist(), "a genotype different from the current one")
                if not np.array_equal(o[:, 1], L[:, 1]):
                    bad("rt/option_keeps_outside_segment", "mchap.assemble.structural.%s_step_options" % name, inp, o.tolist(), "column 1 unchanged")
                nb = int(fn(o))
                if nb < 1:
                    bad("rt/option_has_a_way_back", "mchap.assemble.structural.%s_step_n_options" % name, dict(inp, option=o.tolist()), nb, ">= 1", "reverse proposal count of an option")
                back = fo(o)
                if not any(rows(b) == rows(L) for b in back):
                    bad("rt/option_neighbourhood_symmetric", "mchap.assemble.structural.%s_step_options" % name, dict(inp, option=o.tolist()), [b.tolist() for b in back][:4], "the current labels among the options of the option")
    # haplotype_segment_labels
    for _ in range(400 if tier == "quick" else 4000):
        P = int(rng.integers(1, 7))
        N = int(rng.integers(1, 6))
        G = rng.integers(0, 2, size=(P, N)).astype(np.int8)
        lo = int(rng.integers(0, N + 1))
        hi = int(rng.integers(lo, N + 1))
        for interval in (None, np.array([lo, hi])):
            Lb = structural.haplotype_segment_labels(G, interval)
            ev += 1
            a, b = (0, N) if interval is None else (lo, hi)
            ok = Lb.shape == (P, 2) and Lb.min() >= 0 and Lb.max() < P
            for x in range(P):
                for y in range(P):
                    same_in = bool((G[x, a:b] == G[y, a:b]).all())
                    same_out = bool((np.delete(G[x], np.s_[a:b]) == np.delete(G[y], np.s_[a:b])).all())
                    ok = ok and ((Lb[x, 0] == Lb[y, 0]) == same_in) and ((Lb[x, 1] == Lb[y, 1]) == same_out)
            if not ok:
                bad("rt/segment_labels", "mchap.assemble.structural.haplotype_segment_labels", {"genotype": G.tolist(), "interval": None if interval is None else interval.tolist()}, Lb.tolist(), "equal label <=> equal segment, labels in [0, ploidy)")
    return {"bound": "all label matrices over [0,P) for P <= %d + seeded up to ploidy 6; seeded genotypes x intervals" % (3 if tier == "quick" else 4), "evaluations": ev, "distinct_nontrivial": int(nontriv), "failures": fails, "samples": [], "exhaustive": False}


def _first_failure(chk):
    def f(model, seed, given):
        r = chk("quick", seed)
        if r["failures"]:
            x = r["failures"][0]
            return {"found": True, "input": x["input"], "observed": x["observed"], "expected": x["expected"], "how": x.get("how", ""), "failed_clause": x["key"]}
        return {"found": False}

    return f


CHECKS = [check_base_step_detailed_balance, check_interval_step_detailed_balance, check_chain_swap, check_orchestration, check_option_functions]
REPLAY = {
    "mchap.assemble.mutation.base_step": _first_failure(check_base_step_detailed_balance),
    "mchap.assemble.structural.interval_step": _first_failure(check_interval_step_detailed_balance),
    "mchap.assemble.tempering.chain_swap_acceptance": _first_failure(check_chain_swap),
    "mchap.assemble.tempering.chain_swap_step": _first_failure(check_chain_swap),
    "mchap.assemble.mcmc._denovo_assembler": _first_failure(check_orchestration),
    "mchap.assemble.structural.recombination_step_options": _first_failure(check_option_functions),
    "mchap.assemble.structural.dosage_step_options": _first_failure(check_option_functions),
    "mchap.assemble.structural.recombination_step_n_options": _first_failure(check_option_functions),
    "mchap.assemble.structural.dosage_step_n_options": _first_failure(check_option_functions),
    "mchap.assemble.structural.haplotype_segment_labels": _first_failure(check_option_functions),
}
