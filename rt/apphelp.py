"""Helpers to drive the application layer (program.call_sample_genotypes) on synthetic, fully
known inputs without BAM/VCF files: a stand-in locus object and LocusAssemblyData builder."""
import numpy as np

import mchap.io.vcf.formatfields as FORMAT
import mchap.io.vcf.infofields as INFO
import mchap.io.vcf.columns as COLUMN
from mchap.application.baseclass import LocusAssemblyData

BASES = "ACGT"


class FakeLocusPrior:
    """quacks like mchap.io.LocusPrior for call_sample_genotypes: known integer haplotypes
    (row 0 = reference), prior frequencies, optional reference mask"""

    def __init__(self, haplotypes, frequencies=None, mask_reference_allele=False, n_alleles=None):
        self.haplotypes = np.asarray(haplotypes, dtype=np.int8)
        n = len(self.haplotypes)
        self.frequencies = np.full(n, 1.0 / n) if frequencies is None else np.asarray(frequencies, dtype=float)
        self.mask_reference_allele = mask_reference_allele
        strings = ["".join(BASES[a] for a in row) for row in self.haplotypes]
        self.sequence = strings[0]
        self.alts = tuple(strings[1:])
        self.contig = "CHR1"
        self.start = 10
        self.stop = 10 + self.haplotypes.shape[1]
        self.name = "locus"
        self.variants = ()

    def encode_haplotypes(self):
        return self.haplotypes.copy()


def make_data(locus, samples, ploidy, inbreeding, reads, counts, formatfields, infofields=()):
    """reads/counts: dict sample -> arrays"""
    calls = {}
    for s in samples:
        r = reads[s]
        c = np.full(r.shape[:2], -1, dtype=np.int8)
        if r.size:
            ok = ~np.isnan(r).all(axis=-1)
            c[ok] = np.nanargmax(np.where(np.isnan(r), -1, r), axis=-1)[ok]
        calls[s] = c
    data = LocusAssemblyData(
        locus=locus,
        samples=list(samples),
        sample_bams={s: [] for s in samples},
        sample_ploidy=dict(ploidy),
        sample_inbreeding=dict(inbreeding),
        read_calls=calls,
        read_dists=dict(reads),
        read_counts=dict(counts),
        infofields=list(infofields),
        formatfields=list(formatfields),
        columndata={},
        infodata={},
        sampledata={},
    )
    for name in dir(FORMAT):
        f = getattr(FORMAT, name)
        if name.isupper() and hasattr(f, "id"):
            data.sampledata[f] = {}
    data.columndata[COLUMN.FILTER] = []
    return data


def make_program(cls, samples, ploidy, inbreeding, format_fields, info_fields=(), **kw):
    return cls(vcf="", ref="", samples=list(samples), sample_bams={s: [] for s in samples}, sample_ploidy=dict(ploidy), sample_inbreeding=dict(inbreeding), info_fields=list(info_fields), format_fields=list(format_fields), **kw)
