"""python -m rt.replay <PROP>            : stdin = {function, obligation, model, seed}; search for a real
                                           failing input of `function` (model values first, then the
                                           bounded domain of rt/r_<PROP>.py REPLAY[function]).
   python -m rt.replay <PROP> --file F   : re-run a stored replay file against the real code; exit 1 if
                                           the failure reproduces, 0 if it no longer does."""
import importlib
import json
import sys
import traceback


def main():
    prop = sys.argv[1]
    try:
        mod = importlib.import_module("rt.r_" + prop)
    except ModuleNotFoundError:
        mod = None
    if len(sys.argv) > 3 and sys.argv[2] == "--file":
        rec = json.load(open(sys.argv[3]))
        fn = rec.get("function") or rec.get("check")
        rep = rec.get("replay") or rec
        f = getattr(mod, "REPLAY", {}).get(fn) if mod else None
        if f is None:
            print("no replay routine for %s; stored record:\n%s" % (fn, json.dumps(rec, indent=1)[:3000]))
            return 1
        r = f(rep.get("model_used") or rec.get("solver_model") or {}, 0, rep.get("input"))
        print(json.dumps(r, indent=1, default=str))
        return 1 if r.get("found") else 0
    req = json.loads(sys.stdin.read())
    f = getattr(mod, "REPLAY", {}).get(req["function"]) if mod else None
    if f is None:
        print(json.dumps({"found": False, "note": "no replay/search routine registered for %s" % req["function"]}))
        return 0
    try:
        r = f(req.get("model") or {}, req.get("seed", 0), None)
    except Exception:
        r = {"found": False, "error": traceback.format_exc()}
    print(json.dumps(r, default=str))
    return 0


if __name__ == "__main__":
    sys.exit(main())
