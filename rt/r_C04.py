"""C04 bounded run-time contracts: the real likelihood kernels (numba) against an independent
pure-Python evaluation of the documented mixture formula, plus the symmetry clauses."""
import itertools
import math

import numpy as np

from mchap.assemble import likelihood as AL
from mchap.calling import likelihood as CL
from mchap.pedigree import likelihood as PL
from mchap import jitutils as J

RULE = "seeded random read tensors over enumerated shapes (reads<=4 x snvs<=4 x alleles<=3, ploidy<=4) with NaN gaps, zero-probability cells, exact 0/1 calls and counts 0..3; non-trivial = heterozygous genotype and at least one informative read; distinct by (shape, seed)"
TOL = 1e-9


def oracle(reads, counts, G):
    """sum_r c_r * log( (1/P) sum_h prod_j f(reads[r,j,G[h,j]]) ), f(NaN) = 1; -inf for impossible reads"""
    P = len(G)
    tot = 0.0
    for r in range(len(reads)):
        c = 1 if counts is None else int(counts[r])
        if c == 0:
            continue
        s = 0.0
        for h in range(P):
            p = 1.0
            for j in range(G.shape[1]):
                v = reads[r, j, G[h, j]]
                if not np.isnan(v):
                    p *= float(v)
            s += p / P
        if s == 0.0:
            return -math.inf
        tot += c * math.log(s)
    return tot


def close(a, b):
    if a == b:
        return True
    if math.isinf(a) or math.isinf(b) or math.isnan(a) or math.isnan(b):
        return False
    return abs(a - b) <= TOL * max(1.0, abs(a), abs(b))


def gen_case(rng, n_reads, n_base, n_all, ploidy, flavour):
    reads = rng.random((n_reads, n_base, n_all))
    reads /= reads.sum(axis=-1, keepdims=True)
    if flavour == 1:  # gaps
        reads[rng.random((n_reads, n_base)) < 0.3] = np.nan
    if flavour == 2:  # exact calls: some cells exactly 0 / 1
        for r in range(n_reads):
            for j in range(n_base):
                if rng.random() < 0.6:
                    a = rng.integers(0, n_all)
                    reads[r, j] = 0.0
                    reads[r, j, a] = 1.0
    if flavour == 3:  # zero-probability non-alleles at the top allele
        reads[:, :, n_all - 1] = 0.0
    G = rng.integers(0, n_all, size=(ploidy, n_base)).astype(np.int8)
    counts = rng.integers(1, 4, size=n_reads).astype(np.int64)
    return reads, counts, G


def cases(tier, seed):
    rng = np.random.default_rng(seed + 4)
    reps = 2 if tier == "quick" else 12
    for n_reads, n_base, n_all, ploidy in itertools.product((1, 2, 4), (1, 2, 4), (2, 3), (1, 2, 4)):
        for flavour in range(4):
            for _ in range(reps):
                yield gen_case(rng, n_reads, n_base, n_all, ploidy, flavour), rng


def _fail(key, fn, inp, obs, exp, how):
    return {"key": key, "check": fn, "input": inp, "observed": obs, "expected": exp, "how": how}


def _inp(reads, counts, G, **kw):
    d = {"reads": np.asarray(reads).tolist(), "read_counts": None if counts is None else np.asarray(counts).tolist(), "genotype": np.asarray(G).tolist()}
    d.update(kw)
    return d


def check_mixture_and_symmetries(tier, seed):
    ev = nontriv = 0
    fails = []
    samples = []

    def bad(key, fn, inp, obs, exp, how):
        if len(fails) < 4 and not any(f["key"] == key for f in fails):
            fails.append(_fail(key, fn, inp, obs, exp, how))

    for (reads, counts, G), rng in cases(tier, seed):
        ev += 1
        nontriv += len({tuple(r) for r in G.tolist()}) > 1
        exp = oracle(reads, counts, G)
        exp1 = oracle(reads, None, G)
        got = float(AL.log_likelihood(reads, G, read_counts=counts))
        got1 = float(AL.log_likelihood(reads, G))
        if not close(got, exp) or not close(got1, exp1):
            bad("rt/log_likelihood_formula", "mchap.assemble.likelihood.log_likelihood", _inp(reads, counts, G), [got, got1], [exp, exp1], "numba log_likelihood vs pure-Python mixture formula (with and without counts)")
        # haplotype order
        perm = rng.permutation(len(G))
        gp = float(AL.log_likelihood(reads, G[perm].copy(), read_counts=counts))
        if not close(gp, got):
            bad("rt/haplotype_order_invariance", "mchap.assemble.likelihood.log_likelihood", _inp(reads, counts, G, perm=perm.tolist()), gp, got, "permuting haplotype rows")
        # read order
        rp = rng.permutation(len(reads))
        gr = float(AL.log_likelihood(reads[rp].copy(), G, read_counts=counts[rp].copy()))
        if not close(gr, got):
            bad("rt/read_order_invariance", "mchap.assemble.likelihood.log_likelihood", _inp(reads, counts, G, perm=rp.tolist()), gr, got, "permuting (read, count) pairs together")
        # count k == k copies
        rep = np.repeat(np.arange(len(reads)), counts)
        gk = float(AL.log_likelihood(reads[rep].copy(), G))
        if not close(gk, got):
            bad("rt/count_equals_copies", "mchap.assemble.likelihood.log_likelihood", _inp(reads, counts, G), gk, got, "count k vs k identical rows")
        # structural rearrangement == likelihood of rearranged genotype
        P, N = G.shape
        idx = rng.integers(0, P, size=P).astype(np.int8)
        lo = int(rng.integers(0, N + 1))
        hi = int(rng.integers(lo, N + 1))
        for interval in (None, np.array([lo, hi])):
            G2 = G.copy()
            J.structural_change(G2, idx, interval)
            a = float(AL.log_likelihood_structural_change(reads, G, idx, interval=interval, read_counts=counts))
            b = oracle(reads, counts, G2)
            ref = G.copy()
            l, h_ = (0, N) if interval is None else (lo, hi)
            for hh in range(P):
                for jj in range(l, h_):
                    ref[hh, jj] = G[idx[hh], jj]
            if not close(a, b) or not np.array_equal(ref, G2):
                bad("rt/structural_change_likelihood", "mchap.assemble.likelihood.log_likelihood_structural_change", _inp(reads, counts, G, idx=idx.tolist(), interval=None if interval is None else [lo, hi]), [a, G2.tolist()], [b, ref.tolist()], "llk of proposal vs llk of rearranged genotype; structural_change vs definition")
        # calling: alleles index known haplotypes
        H = np.unique(G, axis=0)
        alleles = rng.integers(0, len(H), size=P).astype(np.int64)
        c = float(CL.log_likelihood_alleles(reads, counts, H, alleles))
        if not close(c, oracle(reads, counts, H[alleles])):
            bad("rt/log_likelihood_alleles", "mchap.calling.likelihood.log_likelihood_alleles", _inp(reads, counts, H, alleles=alleles.tolist()), c, oracle(reads, counts, H[alleles]), "gather of known haplotypes")
        # pedigree wrapper: zero counts anywhere (interleaved padding) are ignored; cache transparent
        zc = counts.copy()
        zc[rng.random(len(zc)) < 0.4] = 0
        if zc.sum() == 0:
            zc[0] = 1
        sa = np.sort(alleles)
        from numba.typed import Dict
        from numba import types

        cache = Dict.empty(key_type=types.UniTuple(types.int64, 2), value_type=types.float64)
        e0 = oracle(reads, zc, H[sa])
        p0 = float(PL.log_likelihood_alleles_cached(reads, zc, H, 0, sa, None))
        p1 = float(PL.log_likelihood_alleles_cached(reads, zc, H, 0, sa, cache))
        p2 = float(PL.log_likelihood_alleles_cached(reads, zc, H, 0, sa, cache))
        if not (close(p0, e0) and close(p1, e0) and close(p2, e0)):
            bad("rt/pedigree_llk_zero_counts", "mchap.pedigree.likelihood.log_likelihood_alleles_cached", _inp(reads, zc, H, alleles=sa.tolist()), [p0, p1, p2], e0, "zero-count rows ignored; uncached == cache miss == cache hit")
        if len(samples) < 2:
            samples.append({"shape": list(reads.shape), "ploidy": int(P), "llk": got})
    return {"bound": "reads {1,2,4} x snvs {1,2,4} x alleles {2,3} x ploidy {1,2,4} x 4 flavours x reps", "evaluations": ev, "distinct_nontrivial": nontriv, "failures": fails, "samples": samples, "exhaustive": False}


def _replay_any(model, seed, given):
    r = check_mixture_and_symmetries("quick", seed)
    if r["failures"]:
        f = r["failures"][0]
        return {"found": True, "input": f["input"], "observed": f["observed"], "expected": f["expected"], "how": f["how"], "failed_clause": f["key"]}
    return {"found": False}


CHECKS = [check_mixture_and_symmetries]
REPLAY = {
    "mchap.assemble.likelihood.log_likelihood": _replay_any,
    "mchap.assemble.likelihood.log_likelihood_structural_change": _replay_any,
    "mchap.jitutils.structural_change": _replay_any,
    "mchap.calling.likelihood.log_likelihood_alleles": _replay_any,
}
