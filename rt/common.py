"""Run-time side of the contracts (back end R, DESIGN.md 2): the SAME sidecar contract text
is evaluated concretely on the REAL functions (jitted and .py_func) over enumerated bounded
domains.  Runs under the repository's interpreter (/venv/bin/python).  Bounded, never 'proved'."""
import ast
import copy
import functools
import glob
import importlib
import math
import os
import sys

import numpy as np

ROOT = os.path.dirname(os.path.dirname(os.path.abspath(__file__)))
sys.path.insert(0, ROOT)
from pyvc import contracts as C  # noqa  (pure stdlib)


class _Ones:
    def __getitem__(self, k):
        return 1


class _Sub:
    def __getitem__(self, k):
        return self


class _Rewrite(ast.NodeTransformer):
    """implies(a,b) -> (not a) or b ; ite(c,a,b) -> a if c else b ; old(e) -> __old__(lambda: e)"""

    def visit_Call(self, node):
        self.generic_visit(node)
        if isinstance(node.func, ast.Name):
            n = node.func.id
            if n == "implies" and len(node.args) == 2:
                return ast.BoolOp(op=ast.Or(), values=[ast.UnaryOp(op=ast.Not(), operand=node.args[0]), node.args[1]])
            if n == "ite" and len(node.args) == 3:
                return ast.IfExp(test=node.args[0], body=node.args[1], orelse=node.args[2])
            if n == "old" and len(node.args) == 1:
                return ast.Call(func=ast.Name(id="__old__", ctx=ast.Load()), args=[ast.Constant(value=ast.unparse(node.args[0]))], keywords=[])
        return node


def _forall(*args, **kw):
    if len(args) == 3:
        lo, hi, f = args
        return all(f(k) for k in range(int(lo), int(hi)))
    raise NotImplementedError("unbounded forall cannot be evaluated at run time")


def _exists(f, witness=None):
    return True  # existential ghost results are not evaluated at run time


def _log(x):
    x = float(x)
    return -math.inf if x == 0 else math.log(x)


BASE_NS = {
    "np": np,
    "math": math,
    "forall": _forall,
    "exists": _exists,
    "isnan": lambda x: bool(np.isnan(x)),
    "isninf": lambda x: x == -math.inf,
    "finite": lambda x: bool(np.isfinite(x)),
    "real": float,
    "val": lambda x: x,
    "log": _log,
    "exp": lambda x: math.exp(x),
    "lgamma": lambda x: math.lgamma(x),
    "decreases": lambda *a: None,
    "ones_if_none": lambda x: _Ones() if x is None else x,
    "A": _Sub(),
    "Opt": _Sub(),
    "Tup": _Sub(),
    "ArrayMap": None,
    "NoneT": None,
}
for _n in ("i1", "i2", "i4", "i8", "u1", "b1", "f8", "f4"):
    BASE_NS[_n] = _n


class RT:
    def __init__(self):
        self.db = C.ContractDB()
        self.db.load_dir(os.path.join(ROOT, "contracts"))
        self.ns = dict(BASE_NS)
        self.ns["spec"] = lambda f: functools.lru_cache(maxsize=None)(f) if _hashable_spec(f) else f
        self.ns["lemma"] = lambda *a, **k: (a[0] if a and callable(a[0]) and not k else (lambda f: f))
        self.ns["contract"] = lambda *a, **k: (lambda f: f)
        for fn in self.db.files:
            tree = ast.parse(open(fn).read(), fn)
            # keep only @spec functions (executable); contracts/lemmas are evaluated clause-wise
            keep = []
            for node in tree.body:
                if isinstance(node, ast.FunctionDef) and node.decorator_list and isinstance(node.decorator_list[0], ast.Name) and node.decorator_list[0].id in ("spec", "spec_inline"):
                    node.returns = None
                    for a in node.args.args:
                        a.annotation = None
                    node.decorator_list = []
                    keep.append(node)
                elif isinstance(node, ast.FunctionDef) and node.decorator_list and isinstance(node.decorator_list[0], ast.Name) and node.decorator_list[0].id == "spec_abstract":
                    node.returns = None
                    for a in node.args.args:
                        a.annotation = None
                    node.decorator_list = []
                    node.body = [ast.Raise(exc=ast.Call(func=ast.Name(id="NotImplementedError", ctx=ast.Load()), args=[], keywords=[]), cause=None)]
                    keep.append(node)
            tree.body = keep
            tree = _Rewrite().visit(tree)
            ast.fix_missing_locations(tree)
            exec(compile(tree, fn, "exec"), self.ns)
        # memoise int-only specs
        for n, sd in self.db.specs.items():
            if all(t[0] in ("int", "bool") for _, t in sd.params):
                self.ns[n] = functools.lru_cache(maxsize=None)(self.ns[n])
                # recursion inside the spec must hit the memoised version
        self.compiled = {}

    def expr(self, node):
        key = id(node)
        if key not in self.compiled:
            e = ast.Expression(body=_Rewrite().visit(copy.deepcopy(node)))
            ast.fix_missing_locations(e)
            self.compiled[key] = compile(e, "<contract>", "eval")
        return self.compiled[key]

    def eval(self, node, ns, old_ns=None):
        g = dict(self.ns)
        g.update(ns)
        if old_ns is not None:
            og = dict(self.ns)
            og.update(old_ns)
            g["__old__"] = lambda src: eval(compile(_prep(src), "<old>", "eval"), og)
        else:
            g["__old__"] = lambda src: eval(compile(_prep(src), "<old>", "eval"), g)
        return eval(self.expr(node), g)

    def check_call(self, qualname, func, args, label=""):
        """evaluate requires -> call the real function -> evaluate raises/ensures.
        returns (status, detail): status in {'skip','ok','fail'}"""
        cd = self.db.contracts[qualname]
        ns = dict(args)
        for r in cd.requires:
            try:
                if not self.eval(r, ns):
                    return "skip", None
            except NotImplementedError:
                pass
        old_ns = {k: (v.copy() if isinstance(v, np.ndarray) else copy.deepcopy(v)) for k, v in args.items()}
        must_raise = bool(self.eval(cd.raises, ns)) if cd.raises is not None else False
        try:
            result = func(**args)
        except Exception as ex:  # noqa
            if must_raise:
                return "ok", None
            return "fail", {"clause": "raise-unreachable", "exception": repr(ex)}
        if must_raise:
            return "fail", {"clause": "raises", "detail": "expected an exception, got %r" % (result,)}
        ns["result"] = result
        for i, e in enumerate(cd.ensures):
            try:
                ok = self.eval(e, ns, old_ns)
            except NotImplementedError:
                continue
            if not ok:
                return "fail", {"clause": "ensures%d" % i, "text": ast.unparse(e), "result": _js(result)}
        return "ok", None


def _hashable_spec(f):
    return False


def _prep(src):
    e = ast.parse(src, mode="eval")
    e = _Rewrite().visit(e)
    ast.fix_missing_locations(e)
    return e


def _js(x):
    if isinstance(x, np.ndarray):
        return x.tolist()
    if isinstance(x, (np.integer,)):
        return int(x)
    if isinstance(x, (np.floating,)):
        return float(x)
    if isinstance(x, tuple):
        return [_js(i) for i in x]
    return x


def resolve(qualname):
    mod, fn = qualname.rsplit(".", 1)
    return getattr(importlib.import_module(mod), fn)
