"""C11 bounded run-time contracts + replay search (real jitted functions vs math.comb / explicit
colex enumeration)."""
import itertools
import math

import numpy as np

from mchap import jitutils as J
from mchap import combinatorics as CB
from mchap.calling import utils as CU

RULE = "grid enumeration of (n,k) with C(n,k) < 2^53 / all sorted allele tuples for ploidy x alleles; a case is non-trivial when the coefficient is > 1 resp. the genotype is heterozygous; all cases are distinct by construction"
LIM = 2 ** 53


def _comb_cases(nmax):
    for n in range(0, nmax + 1):
        for k in range(0, n + 3 if n >= 40 else n + 25):
            if math.comb(n, k) < LIM:
                yield n, k


def _call(f, *a):
    try:
        return int(f(*a))
    except Exception as ex:  # an exception on a valid input is a failure, not a crash of the check
        return "raised %r" % (ex,)


def _search_comb(model, seed, given, nmax=140):
    cands = []
    if given:
        cands.append((int(given["n"]), int(given["k"])))
    try:
        ns = [int(v) for kx, v in model.items() if kx.startswith("n!")]
        ks = [int(v) for kx, v in model.items() if kx.startswith("k!")]
        for n in ns:
            for k in ks:
                if 0 <= n < 5000 and 0 <= k < 5000 and math.comb(n, k) < LIM:
                    cands.append((n, k))
    except Exception:
        pass
    tried = 0
    for n, k in itertools.chain(cands, _comb_cases(nmax)):
        tried += 1
        got = _call(J._comb, n, k)
        if got == math.comb(n, k):
            got = _call(J.comb, n, k)
        exp = math.comb(n, k)
        if got != exp:
            return {"found": True, "input": {"n": n, "k": k}, "observed": got, "expected": exp, "how": "mchap.jitutils._comb(n,k) (numba) vs math.comb(n,k); C(n,k) < 2^53", "tried": tried}
    return {"found": False, "tried": tried}


def check_comb_grid(tier, seed):
    nmax = 160 if tier == "quick" else 700
    ev = 0
    nontriv = 0
    fails = []
    samples = []
    for n, k in _comb_cases(nmax):
        exp = math.comb(n, k)
        got = _call(J.comb, n, k)
        got2 = _call(J._comb, n, k)
        ev += 1
        nontriv += exp > 1
        if got != exp or got2 != exp:
            if len(fails) < 3:
                fails.append({"key": "rt/comb_grid", "check": "mchap.jitutils._comb", "input": {"n": n, "k": k}, "observed": [got, got2], "expected": exp, "how": "jitutils.comb/_comb vs math.comb"})
        if ev % 4001 == 1:
            samples.append({"n": n, "k": k, "comb": got})
    # multiset coefficients (n >= 1 or k >= 1: the code documents cwr(0,0) = 0)
    for n in range(0, (60 if tier == "quick" else 200)):
        for k in range(0, 20):
            if n == 0 and k == 0:
                continue
            exp = math.comb(n + k - 1, k) if n + k - 1 >= 0 else 0
            if exp >= LIM:
                continue
            got = _call(J.comb_with_replacement, n, k)
            ev += 1
            nontriv += exp > 1
            if got != exp and len(fails) < 3:
                fails.append({"key": "rt/cwr_grid", "check": "mchap.jitutils.comb_with_replacement", "input": {"n": n, "k": k}, "observed": got, "expected": exp})
    return {"bound": "n <= %d, all k <= n+2 with C(n,k) < 2^53; cwr n<%d,k<20" % (nmax, 60 if tier == "quick" else 200), "evaluations": ev, "distinct_nontrivial": nontriv, "failures": fails, "samples": samples, "exhaustive": True}


def _tup(f, *a):
    try:
        return tuple(int(x) for x in f(*a))
    except Exception as ex:
        return "raised %r" % (ex,)


def check_index_sampled(tier, seed):
    """random sorted tuples with large allele numbers (beyond the tables): index by exact Python
    integers, then both directions of the mapping"""
    rng = np.random.default_rng(seed + 11)
    n = 3000 if tier == "quick" else 30000
    ev = nontriv = 0
    fails = []
    samples = []
    seen = set()
    for _ in range(n):
        ploidy = int(rng.integers(1, 9))
        amax = int(rng.choice([5, 20, 99, 100, 101, 150, 1000, 5000]))
        t = tuple(sorted(int(x) for x in rng.integers(0, amax + 1, size=ploidy)))
        N = math.comb(t[-1] + ploidy, ploidy)
        if N >= LIM or t in seen:
            continue
        seen.add(t)
        idx = sum(math.comb(a + i, i + 1) for i, a in enumerate(t))
        ev += 1
        nontriv += len(set(t)) > 1
        got = _call(J.genotype_alleles_as_index, np.array(t, dtype=np.int64))
        back = _tup(J.index_as_genotype_alleles, idx, ploidy)
        if (got != idx or back != t) and len(fails) < 3:
            fails.append({"key": "rt/index_sampled", "check": "mchap.jitutils.index_as_genotype_alleles", "input": {"genotype": list(t), "index": idx}, "observed": {"as_index": got, "as_alleles": back}})
        if len(samples) < 2:
            samples.append({"genotype": list(t), "index": idx})
    return {"bound": "%d seeded random sorted tuples, ploidy 1..8, alleles up to 5000, N < 2^53" % n, "evaluations": ev, "distinct_nontrivial": nontriv, "failures": fails, "samples": samples, "exhaustive": False}


def _colex(n_alleles, ploidy):
    """sorted tuples in VCF (colex) order, generated independently of the code under test"""
    tuples = [t for t in itertools.combinations_with_replacement(range(n_alleles), ploidy)]
    tuples.sort(key=lambda t: tuple(reversed(t)))
    return tuples


def check_index_bijection(tier, seed):
    pmax, amax = (5, 7) if tier == "quick" else (8, 9)
    ev = 0
    nontriv = 0
    fails = []
    samples = []
    shapes = [(p, a) for p in range(1, pmax + 1) for a in range(1, amax + 1)]
    # beyond the 100 x 12 coefficient tables: many alleles at low ploidy, high ploidy with few alleles
    shapes += [(1, 260), (2, 130), (3, 30), (12, 2), (13, 3), (14, 2)] if tier == "quick" else [(1, 400), (2, 200), (3, 45), (12, 3), (13, 3), (14, 3), (20, 2)]
    for ploidy, n_alleles in shapes:
        if True:
            N = math.comb(n_alleles + ploidy - 1, ploidy)
            if N > (9000 if tier == "quick" else 40000):
                continue
            order = _colex(n_alleles, ploidy)
            assert len(order) == N
            g = np.zeros(ploidy, dtype=np.int64)
            for idx, t in enumerate(order):
                arr = np.array(t, dtype=np.int64)
                ev += 1
                nontriv += len(set(t)) > 1
                bad = None
                if _call(J.genotype_alleles_as_index, arr) != idx:
                    bad = "genotype_alleles_as_index"
                elif _tup(J.index_as_genotype_alleles, idx, ploidy) != t:
                    bad = "index_as_genotype_alleles"
                elif tuple(int(x) for x in g) != t:
                    bad = "increment_genotype order"
                if bad and len(fails) < 3:
                    fails.append({"key": "rt/index_bijection/" + bad, "check": "mchap.jitutils." + bad.split()[0], "input": {"genotype": list(t), "index": idx, "ploidy": ploidy, "n_alleles": n_alleles}, "observed": {"as_index": _call(J.genotype_alleles_as_index, arr), "as_alleles": _tup(J.index_as_genotype_alleles, idx, ploidy), "enumerator": [int(x) for x in g]}})
                J.increment_genotype(g)
            if len(samples) < 3 and ploidy == 3:
                samples.append({"ploidy": ploidy, "n_alleles": n_alleles, "N": N, "last": list(order[-1])})
            if int(CB.count_unique_genotypes(n_alleles, ploidy)) != N and len(fails) < 3:
                fails.append({"key": "rt/count_unique_genotypes", "check": "mchap.combinatorics.count_unique_genotypes", "input": {"n_alleles": n_alleles, "ploidy": ploidy}, "observed": int(CB.count_unique_genotypes(n_alleles, ploidy)), "expected": N})
    return {"bound": "ploidy <= %d x alleles <= %d (N bounded), every sorted tuple" % (pmax, amax), "evaluations": ev, "distinct_nontrivial": nontriv, "failures": fails, "samples": samples, "exhaustive": True}


CHECKS = [check_comb_grid, check_index_bijection, check_index_sampled]
REPLAY = {
    "mchap.jitutils._comb": _search_comb,
    "mchap.jitutils.comb": _search_comb,
}
