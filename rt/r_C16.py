"""C16 bounded run-time contracts: input allele filtering and prior-frequency options.
Real pysam.VariantRecords are parsed from generated VCF text; LocusPrior.from_variant_record,
parse/apply_allele_filter and the call / call-exact call_sample_genotypes are checked against the
option semantics written out here."""
import itertools
import math
import os
import shutil
import tempfile

import numpy as np
import pysam

from mchap.io import LocusPrior
from mchap.io.filter_alleles import parse_allele_filter, apply_allele_filter
from mchap.application import call as CALL
from mchap.application import call_exact as CALLX
import mchap.io.vcf.formatfields as FORMAT
import mchap.io.vcf.infofields as INFO
import mchap.io.vcf.columns as COLUMN
from rt.apphelp import make_data, make_program
from rt.oracles import make_reads

RULE = "generated haplotype records (1-4 alleles, R-length Float/Integer and A-length INFO fields, REFMASKED) x filter operators {>,>=,<,<=,=,==,!=} x thresholds on/around the values (integer and decimal literals) x frequency tags; non-trivial = at least one allele removed or masked; distinct by (record, filter)"

HEADER = """##fileformat=VCFv4.3
##contig=<ID=CHR1,length=1000>
##INFO=<ID=AFP,Number=R,Type=Float,Description="f">
##INFO=<ID=ACP,Number=R,Type=Float,Description="c">
##INFO=<ID=AC,Number=A,Type=Integer,Description="ac">
##INFO=<ID=PF,Number=R,Type=Integer,Description="pf">
##INFO=<ID=REFMASKED,Number=0,Type=Flag,Description="m">
##INFO=<ID=SNVPOS,Number=.,Type=Integer,Description="s">
#CHROM\tPOS\tID\tREF\tALT\tQUAL\tFILTER\tINFO
"""

OPS = {">": lambda a, b: a > b, ">=": lambda a, b: a >= b, "<": lambda a, b: a < b, "<=": lambda a, b: a <= b, "=": lambda a, b: a == b, "==": lambda a, b: a == b, "!=": lambda a, b: a != b}


def gen_records(rng, n):
    recs = []
    seqs_pool = ["ACGTACGT", "ACGTACGA", "ACCTACGT", "TCGTACGT", "ACGTTCGA"]
    for i in range(n):
        k = int(rng.integers(1, 5))
        seqs = [seqs_pool[0]] + list(rng.choice(seqs_pool[1:], size=k - 1, replace=False))
        afp = rng.integers(0, 9, size=k) / 8.0
        if rng.random() < 0.15:
            afp[:] = 0
        acp = rng.integers(0, 9, size=k) / 2.0
        ac = rng.integers(0, 4, size=max(k - 1, 0))
        pf = rng.integers(0, 4, size=k)
        masked = rng.random() < 0.25
        info = "AFP=%s;ACP=%s;PF=%s" % (",".join("%g" % x for x in afp), ",".join("%g" % x for x in acp), ",".join(str(int(x)) for x in pf))
        if k > 1:
            info += ";AC=%s" % ",".join(str(int(x)) for x in ac)
        if masked:
            info += ";REFMASKED"
        recs.append({"pos": 10 + 20 * i, "seqs": seqs, "AFP": afp.tolist(), "ACP": acp.tolist(), "AC": ac.tolist(), "PF": pf.tolist(), "masked": masked, "info": info})
    return recs


def write_vcf(path, recs):
    with open(path, "w") as f:
        f.write(HEADER)
        for r in recs:
            alt = ",".join(r["seqs"][1:]) if len(r["seqs"]) > 1 else "."
            f.write("CHR1\t%d\tR%d\t%s\t%s\t.\t.\t%s\n" % (r["pos"], r["pos"], r["seqs"][0], alt, r["info"]))


def expected_locus(r, tag, flt):
    """(sequences kept, frequencies, masked) from the option semantics"""
    n = len(r["seqs"])
    masked = r["masked"]
    keep = [True] * n
    if flt is not None:
        field, op, val = flt
        obs = r[field]
        if field == "AC":  # A-length: reference exempt
            for i, o in enumerate(obs):
                keep[1 + i] = bool(OPS[op](o, val))
        else:
            for i, o in enumerate(obs):
                keep[i] = bool(OPS[op](o, val))
        if not keep[0]:
            masked = True
            keep[0] = True
    fr = np.array(r[tag], dtype=float) if tag else np.ones(n) / n
    if masked:
        fr[0] = 0
    fr = fr[np.array(keep)]
    seqs = [s for s, k in zip(r["seqs"], keep) if k]
    tot = fr.sum()
    fr = fr / tot if tot > 0 else np.full(len(fr), np.nan)
    return seqs, fr, masked


def check_locus_prior(tier, seed):
    rng = np.random.default_rng(seed + 16)
    tmp = tempfile.mkdtemp(prefix="verif_c16_")
    ev = nontriv = 0
    fails = []
    samples = []

    def bad(key, fn, inp, obs, exp, how=""):
        if len(fails) < 6 and not any(f["key"] == key for f in fails):
            fails.append({"key": key, "check": fn, "input": inp, "observed": obs, "expected": exp, "how": how})

    try:
        recs = gen_records(rng, 20 if tier == "quick" else 120)
        path = os.path.join(tmp, "in.vcf")
        write_vcf(path, recs)
        filters = [None]
        for field, vals in (("AFP", ["0", "0.0", "0.25", "0.5", "1", "0.125"]), ("ACP", ["1", "1.0", "1.5", "2", "0"]), ("AC", ["0", "1", "2"]), ("PF", ["0", "1", "2"])):
            for op in OPS:
                for v in vals:
                    filters.append((field, op, v))
        with pysam.VariantFile(path) as vf:
            records = list(vf.fetch())
        for r, rec in zip(recs, records):
            for tag in (None, "AFP", "PF"):
                for flt in filters if tier != "quick" else filters[:: 3]:
                    fstr = None if flt is None else "%s%s%s" % flt
                    fl = None if flt is None else (flt[0], flt[1], float(flt[2]))
                    inp = {"record": {k: r[k] for k in ("seqs", "AFP", "ACP", "AC", "PF", "masked")}, "prior_frequencies": tag, "filter": fstr}
                    ev += 1
                    if flt is not None and flt[0] == "AC" and len(r["seqs"]) == 1:
                        continue  # AC absent on ALT-less records
                    if flt is not None:
                        f_, func, val = parse_allele_filter(fstr)
                        if f_ != flt[0] or float(val) != float(flt[2]) or bool(func(1.0, 2.0)) != OPS[flt[1]](1.0, 2.0) or bool(func(2.0, 2.0)) != OPS[flt[1]](2.0, 2.0):
                            bad("rt/parse_allele_filter", "mchap.io.filter_alleles.parse_allele_filter", inp, [f_, str(func), val], list(flt))
                    try:
                        locus = LocusPrior.from_variant_record(rec, frequency_tag=tag, allele_filter=fstr)
                    except Exception as ex:
                        bad("rt/from_variant_record_raises", "mchap.io.loci.LocusPrior.from_variant_record", inp, repr(ex), "a LocusPrior")
                        continue
                    eseqs, efr, emask = expected_locus(r, tag, fl)
                    nontriv += len(eseqs) < len(r["seqs"]) or emask
                    got_seqs = [locus.sequence] + list(locus.alts)
                    if got_seqs != eseqs:
                        bad("rt/filter_removes_exactly_failing_alts", "mchap.io.loci.LocusPrior.from_variant_record", inp, got_seqs, eseqs, "exactly the ALT alleles failing the predicate disappear; a failing reference is kept (masked)")
                    if bool(locus.mask_reference_allele) != emask:
                        bad("rt/reference_masked_not_removed", "mchap.io.loci.LocusPrior.from_variant_record", inp, bool(locus.mask_reference_allele), emask)
                    gf = np.asarray(locus.frequencies, dtype=float)
                    if len(gf) != len(efr) or not np.allclose(gf, efr, rtol=1e-12, atol=0, equal_nan=True):
                        bad("rt/prior_frequencies_normalised", "mchap.io.loci.LocusPrior.from_variant_record", inp, gf.tolist(), efr.tolist(), "named INFO values normalised over the retained alleles (masked reference 0; NaN when all zero)")
            if len(samples) < 2:
                samples.append({"alleles": len(r["seqs"]), "masked": r["masked"]})
    finally:
        shutil.rmtree(tmp, ignore_errors=True)
    return {"bound": "generated records x 3 frequency tags x (field, operator, literal) grid", "evaluations": ev, "distinct_nontrivial": nontriv, "failures": fails, "samples": samples, "exhaustive": False}


class Loc:
    """stand-in LocusPrior with prescribed integer haplotypes"""

    def __init__(self, H, fr, masked):
        self.H = np.asarray(H, dtype=np.int8)
        self.frequencies = np.asarray(fr, dtype=float)
        self.mask_reference_allele = masked
        self.sequence = "A" * self.H.shape[1]
        self.alts = tuple("".join("AC"[a] for a in row) for row in self.H[1:])
        self.contig, self.start, self.stop, self.name, self.variants = "CHR1", 10, 10 + self.H.shape[1], "L", ()

    def encode_haplotypes(self):
        return self.H.copy()


def check_masked_alleles_never_called(tier, seed):
    """call / call-exact: masked or zero-prior alleles never occur in GT and get zero posterior (AFP stays
    R-length); records without a usable allele get NOA/AF0 and missing calls instead of aborting"""
    rng = np.random.default_rng(seed + 161)
    ev = nontriv = 0
    fails = []
    samples = []

    def bad(key, fn, inp, obs, exp, how=""):
        if len(fails) < 6 and not any(f["key"] == key for f in fails):
            fails.append({"key": key, "check": fn, "input": inp, "observed": obs, "expected": exp, "how": how})

    H = np.array([[0, 0, 0], [0, 1, 1], [1, 0, 1], [1, 1, 0]], dtype=np.int8)
    reps = 6 if tier == "quick" else 40
    for rep in range(reps):
        for zero_at in (None, 0, 1, 2, 3, "all"):
            for masked in (False, True):
                fr = rng.random(4) + 0.2
                if zero_at == "all":
                    fr[:] = 0
                elif zero_at is not None:
                    fr[zero_at] = 0
                if masked:
                    fr[0] = 0
                tot = fr.sum()
                fr = fr / tot if tot > 0 else np.full(4, np.nan)
                names = ["S0", "S1"]
                ploidy = {"S0": 4, "S1": 2}
                for F in (0.0, 0.3):
                    inb = {s: F for s in names}
                    reads, counts = {}, {}
                    for s in names:
                        # reads support the zero-prior / masked allele strongly
                        z = 0 if (masked or zero_at in (None, "all")) else zero_at
                        r = np.full((6, 3, 2), 0.02)
                        for k in range(6):
                            # S0: every read supports the unusable allele; S1: four of six
                            h = H[z] if (k < 4 or s == "S0") else H[(z + 1) % 4]
                            for j in range(3):
                                r[k, j, h[j]] = 0.98
                        reads[s] = r
                        counts[s] = np.ones(6, dtype=np.int64)
                    for cls, kw, name in ((CALL.program, dict(mcmc_steps=120, mcmc_burn=60, mcmc_chains=1), "call"), (CALLX.program, {}, "call-exact")):
                        fields = [FORMAT.GT, FORMAT.GPM, FORMAT.SPM, FORMAT.AFP, FORMAT.ACP, FORMAT.AOP, FORMAT.MCI]
                        prog = make_program(cls, names, ploidy, inb, fields, info_fields=[INFO.AFPRIOR, INFO.REFMASKED], **kw)
                        data = make_data(Loc(H, fr, masked), names, ploidy, inb, reads, counts, fields, [INFO.AFPRIOR, INFO.REFMASKED])
                        inp = {"program": name, "frequencies": fr.tolist(), "refmasked": masked, "inbreeding": F}
                        ev += 1
                        try:
                            data = prog.call_sample_genotypes(data)
                        except Exception as ex:
                            bad("rt/%s_aborts" % name, "mchap.application.%s.program.call_sample_genotypes" % name.replace("-", "_"), inp, repr(ex) + " <- " + repr(ex.__cause__), "a record (NOA/AF0 with missing calls when no allele is usable)")
                            continue
                        unusable = np.isnan(fr).any() or (fr > 0).sum() == 0
                        filt = list(data.columndata[COLUMN.FILTER])
                        nontriv += 1
                        for s in names:
                            gt = [int(x) for x in data.sampledata[FORMAT.GT][s]]
                            afp = np.asarray(data.sampledata[FORMAT.AFP][s], dtype=float)
                            if unusable:
                                if not filt or any(a >= 0 for a in gt):
                                    bad("rt/%s_unusable_record" % name, "mchap.application.%s.program.call_sample_genotypes" % name.replace("-", "_"), inp, {"FILTER": [str(x) for x in filt], "GT": gt}, "NOA/AF0 filter and missing calls")
                                continue
                            zero = [i for i in range(4) if fr[i] == 0]
                            if any(a in zero for a in gt) or any(a < 0 or a > 3 for a in gt):
                                bad("rt/%s_gt_uses_masked_or_zero_prior_allele" % name, "mchap.application.%s.program.call_sample_genotypes" % name.replace("-", "_"), dict(inp, sample=s), gt, "no allele among %r" % zero)
                            if len(afp) != 4 or any(afp[i] != 0 for i in zero) or abs(afp.sum() - 1) > 1e-6:
                                bad("rt/%s_afp_of_masked_alleles" % name, "mchap.application.%s.program.call_sample_genotypes" % name.replace("-", "_"), dict(inp, sample=s), afp.tolist(), "R-length (4), zero for %r, sums to one" % zero, "posterior allele frequencies")
        if len(samples) < 2:
            samples.append({"rep": rep})
    return {"bound": "4 haplotypes x zero-prior position {none,0,1,2,3,all} x REFMASKED {F,T} x inbreeding {0,.3} x {call, call-exact}, %d read sets" % reps, "evaluations": ev, "distinct_nontrivial": nontriv, "failures": fails, "samples": samples, "exhaustive": False}


def check_program_loci(tier, seed):
    """the loci that call / call-exact / call-pedigree actually iterate over (program.loci(), options given on the real
    command line) carry the filtered allele list, the masked flag and the normalised prior -- also for ALT-less records"""
    import mchap
    from mchap.application import call_pedigree as CALLP

    rng = np.random.default_rng(seed + 162)
    tmp = tempfile.mkdtemp(prefix="verif_c16p_")
    ev = nontriv = 0
    fails = []
    data = os.path.join(os.path.dirname(mchap.__file__), "tests", "test_io", "data")
    bams = [os.path.join(data, "simple.sample1.bam"), os.path.join(data, "simple.sample2.deep.bam"), os.path.join(data, "simple.sample3.bam")]
    try:
        recs = gen_records(rng, 30 if tier == "quick" else 120)
        path = os.path.join(tmp, "in.vcf")
        write_vcf(path, recs)
        progs = (("call", CALL.program, []), ("call-exact", CALLX.program, []), ("call-pedigree", CALLP.program, ["--sample-parents", os.path.join(data, "simple.pedigree.132.txt")]))
        for tag, flt in ((None, None), ("AFP", None), (None, ("AFP", ">=", "0.25")), ("AFP", ("AFP", ">", "0")), ("PF", ("PF", ">=", "1")), (None, ("ACP", ">", "1.5"))):
            fstr = None if flt is None else "%s%s%s" % flt
            fl = None if flt is None else (flt[0], flt[1], float(flt[2]))
            for name, cls, extra in progs:
                cmd = ["mchap", name, "--bam"] + bams + ["--ploidy", "4", "--haplotypes", path] + extra
                if tag:
                    cmd += ["--prior-frequencies", tag]
                if fstr:
                    cmd += ["--filter-input-haplotypes", fstr]
                try:
                    loci = list(cls.cli(cmd).loci())
                except Exception as ex:
                    ev += 1
                    if len(fails) < 4:
                        fails.append({"key": "rt/program_loci_raises", "check": "mchap.application.call_baseclass.program.loci", "input": {"program": name, "prior_frequencies": tag, "filter": fstr}, "observed": repr(ex), "expected": "loci"})
                    continue
                for r, locus in zip(recs, loci):
                    ev += 1
                    eseqs, efr, emask = expected_locus(r, tag, fl)
                    nontriv += len(eseqs) < len(r["seqs"]) or emask
                    gf = np.asarray(locus.frequencies, dtype=float)
                    got = ([locus.sequence] + list(locus.alts), bool(locus.mask_reference_allele))
                    if got != (eseqs, emask) or len(gf) != len(efr) or not np.allclose(gf, efr, rtol=1e-12, atol=0, equal_nan=True):
                        if len(fails) < 4 and not any(f["key"] == "rt/program_loci_filtered_and_masked" for f in fails):
                            fails.append({"key": "rt/program_loci_filtered_and_masked", "check": "mchap.application.call_baseclass.program.loci", "input": {"program": name, "record": {k: r[k] for k in ("seqs", "AFP", "ACP", "AC", "PF", "masked")}, "prior_frequencies": tag, "filter": fstr}, "observed": {"alleles": got[0], "masked": got[1], "frequencies": gf.tolist()}, "expected": {"alleles": eseqs, "masked": emask, "frequencies": np.asarray(efr).tolist()}, "how": "exactly the failing ALT alleles removed, a failing reference masked (also on ALT-less records), prior normalised over the retained alleles"})
    finally:
        shutil.rmtree(tmp, ignore_errors=True)
    return {"bound": "generated records + ALT-less records x 6 (prior tag, filter) settings x {call, call-exact, call-pedigree} through the CLI parser and program.loci()", "evaluations": ev, "distinct_nontrivial": int(nontriv), "failures": fails, "samples": [], "exhaustive": False}


CHECKS = [check_locus_prior, check_masked_alleles_never_called, check_program_loci]
REPLAY = {}
