"""Independent oracles written from the property statements (pure Python, no mchap code)."""
import itertools
import math

import numpy as np


def lik(reads, counts, G):
    """sum_r c_r log( mean_h prod_j f(reads[r,j,G[h,j]]) ), NaN -> 1;  -inf for an impossible read"""
    P = len(G)
    tot = 0.0
    for r in range(len(reads)):
        c = 1 if counts is None else int(counts[r])
        if c == 0:
            continue
        s = 0.0
        for h in range(P):
            p = 1.0
            for j in range(G.shape[1]):
                v = reads[r, j, G[h, j]]
                if not np.isnan(v):
                    p *= float(v)
            s += p / P
        if s == 0.0:
            return -math.inf
        tot += c * math.log(s)
    return tot


def perms(genotype):
    d = {}
    for a in genotype:
        d[a] = d.get(a, 0) + 1
    out = math.factorial(len(genotype))
    for c in d.values():
        out //= math.factorial(c)
    return out


def seq_prob(genotype, freqs, F):
    """probability of the ORDERED allele sequence under the exchangeable model: independent draws
    (F = 0) or a Polya urn with initial weights freq * (1-F)/F (Dirichlet-multinomial)"""
    p = 1.0
    if F == 0:
        for a in genotype:
            p *= freqs[a]
        return p
    w = [f * (1 - F) / F for f in freqs]
    tot = sum(w)
    seen = {}
    for k, a in enumerate(genotype):
        num = w[a] + seen.get(a, 0)
        p *= num / (tot + k)
        seen[a] = seen.get(a, 0) + 1
    return p


def prior_unordered(genotype, freqs, F):
    return perms(genotype) * seq_prob(genotype, freqs, F)


def sorted_genotypes(n_alleles, ploidy):
    """all sorted allele tuples in VCF (colex) order"""
    t = list(itertools.combinations_with_replacement(range(n_alleles), ploidy))
    t.sort(key=lambda g: tuple(reversed(g)))
    return t


def exact_posterior(reads, counts, haplotypes, ploidy, freqs, F):
    gens = sorted_genotypes(len(haplotypes), ploidy)
    w = []
    for g in gens:
        l = lik(reads, counts, haplotypes[list(g)])
        pr = prior_unordered(g, freqs, F)
        w.append(0.0 if (l == -math.inf or pr == 0) else math.exp(l) * pr)
    tot = sum(w)
    return gens, [x / tot for x in w]


def make_reads(rng, n_reads, n_base, n_all, gaps=True, lo=0.05):
    reads = rng.random((n_reads, n_base, n_all)) * (1 - lo) + lo
    reads /= reads.sum(axis=-1, keepdims=True)
    if gaps:
        reads[rng.random((n_reads, n_base)) < 0.2] = np.nan
    counts = rng.integers(1, 4, size=n_reads).astype(np.int64)
    return reads, counts


def close(a, b, tol=1e-9):
    if a == b:
        return True
    if math.isnan(a) or math.isnan(b) or math.isinf(a) or math.isinf(b):
        return False
    return abs(a - b) <= tol * max(1.0, abs(a), abs(b))


def first_failure(chk):
    def f(model, seed, given):
        r = chk("quick", seed)
        if r["failures"]:
            x = r["failures"][0]
            return {"found": True, "input": x["input"], "observed": x["observed"], "expected": x["expected"], "how": x.get("how", ""), "failed_clause": x["key"]}
        return {"found": False}

    return f
