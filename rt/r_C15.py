"""C15 bounded run-time contracts: sweep coverage of mutation.compound_step (recorder in place of
base_step, real compound_step.py_func), random_breaks partitions, structural compound_step interval
coverage, homozygosity screen and fixed-site re-insertion of DenovoMCMC._mcmc."""
import itertools

import numpy as np

from mchap.assemble import mutation, structural
from mchap.assemble import mcmc as amcmc
from mchap.assemble import snpcalling

RULE = "grid of (ploidy, n_snv) shapes incl. > 127 SNVs / all (n, breaks) pairs with seeded repetitions; a case is non-trivial when ploidy*n_snv > 1 resp. breaks >= 1; all cases distinct by construction"


def _sweep_once(ploidy, n_base, seed):
    """run the real compound_step body (py_func) with base_step replaced by a recorder"""
    calls = []

    def recorder(genotype, reads, llk, h, j, n_alleles, log_unique_haplotypes, inbreeding=0, temp=1, read_counts=None, cache=None):
        calls.append((int(h), int(j), int(n_alleles)))
        return llk, cache

    real = mutation.base_step
    mutation.base_step = recorder
    try:
        np.random.seed(seed)
        genotype = np.zeros((ploidy, n_base), dtype=np.int8)
        reads = np.zeros((1, n_base, 2))
        n_alleles = (np.arange(n_base) % 3 + 2).astype(np.int64)
        mutation.compound_step.py_func(genotype, reads, 0.0, n_alleles, 0.0)
    finally:
        mutation.base_step = real
    expect = sorted((h, j, int(n_alleles[j])) for h in range(ploidy) for j in range(n_base))
    return sorted(calls) == expect, calls, n_alleles


def _sweep_shapes(tier):
    shapes = [(p, n) for p in (1, 2, 3, 4, 6) for n in (1, 2, 3, 5, 8, 13)]
    shapes += [(2, 127), (2, 128), (2, 129), (2, 200), (4, 33), (4, 40), (6, 24), (1, 300), (8, 17), (2, 64), (2, 65)]
    if tier != "quick":
        shapes += [(p, n) for p in (2, 4, 6, 8) for n in (100, 130, 256, 257, 400)]
    return shapes


def _search_sweep(model, seed, given):
    cands = []
    if given:
        cands.append((int(given["ploidy"]), int(given["n_base"])))
    try:
        p = [int(v) for k, v in model.items() if k.startswith("genotype_shape0")]
        n = [int(v) for k, v in model.items() if k.startswith("genotype_shape1")]
        for a in p:
            for b in n:
                if 1 <= a <= 16 and 1 <= b <= 2000:
                    cands.append((a, b))
    except Exception:
        pass
    for ploidy, n_base in cands + _sweep_shapes("quick"):
        ok, calls, n_alleles = _sweep_once(ploidy, n_base, seed)
        if not ok:
            from collections import Counter

            cnt = Counter((h, j) for h, j, _ in calls)
            missing = [(h, j) for h in range(ploidy) for j in range(n_base) if cnt[(h, j)] == 0][:5]
            twice = [k for k, v in cnt.items() if v > 1][:5]
            return {"found": True, "input": {"ploidy": ploidy, "n_base": n_base}, "observed": {"pairs_never_attempted": missing, "pairs_attempted_more_than_once": twice, "n_calls": len(calls)}, "expected": "every (h, j) pair exactly once with n_alleles[j]", "how": "mutation.compound_step.py_func with base_step replaced by a recorder"}
    return {"found": False}


def check_sweep(tier, seed):
    ev = nontriv = 0
    fails = []
    samples = []
    for ploidy, n_base in _sweep_shapes(tier):
        ok, calls, _ = _sweep_once(ploidy, n_base, seed + ev)
        ev += 1
        nontriv += ploidy * n_base > 1
        if not ok and len(fails) < 3:
            r = _search_sweep({}, seed, {"ploidy": ploidy, "n_base": n_base})
            r.update({"key": "rt/sweep_each_pair_once", "check": "mchap.assemble.mutation.compound_step"})
            fails.append(r)
        if len(samples) < 2:
            samples.append({"ploidy": ploidy, "n_base": n_base, "first_calls": calls[:4]})
    return {"bound": "%d (ploidy, n_snv) shapes up to %d SNVs" % (ev, max(n for _, n in _sweep_shapes(tier))), "evaluations": ev, "distinct_nontrivial": nontriv, "failures": fails, "samples": samples, "exhaustive": False}


def _breaks_ok(iv, breaks, n):
    iv = np.asarray(iv)
    if iv.shape != (breaks + 1, 2):
        return False
    if iv[0, 0] != 0 or iv[-1, 1] != n:
        return False
    for i in range(breaks + 1):
        if not iv[i, 0] < iv[i, 1]:
            return False
        if i < breaks and iv[i, 1] != iv[i + 1, 0]:
            return False
    return True


def check_random_breaks(tier, seed):
    nmax, reps = (14, 6) if tier == "quick" else (40, 25)
    ev = nontriv = 0
    fails = []
    samples = []
    for n in list(range(1, nmax + 1)) + [130, 300]:
        for breaks in range(0, n) if n <= nmax else (0, 1, 5, n - 1):
            for r in range(reps):
                np.random.seed(seed * 1000 + n * 131 + breaks * 17 + r)
                structural.seed = None
                from mchap.jitutils import seed_numba

                seed_numba(seed * 1000 + n * 131 + breaks * 17 + r)
                iv = structural.random_breaks(breaks, n)
                ev += 1
                nontriv += breaks >= 1
                if not _breaks_ok(iv, breaks, n) and len(fails) < 3:
                    fails.append({"key": "rt/random_breaks_partition", "check": "mchap.assemble.structural.random_breaks", "input": {"breaks": breaks, "n": n, "rep": r}, "observed": np.asarray(iv).tolist(), "expected": "contiguous non-empty intervals partitioning [0,n)"})
                if len(samples) < 2 and breaks == 2:
                    samples.append({"n": n, "breaks": breaks, "intervals": np.asarray(iv).tolist()})
    return {"bound": "n <= %d (and 130, 300), every breaks < n, %d seeds each" % (nmax, reps), "evaluations": ev, "distinct_nontrivial": nontriv, "failures": fails, "samples": samples, "exhaustive": False}


def _search_breaks(model, seed, given):
    r = check_random_breaks("quick", seed)
    if r["failures"]:
        f = r["failures"][0]
        return {"found": True, "input": f["input"], "observed": f["observed"], "expected": f["expected"], "how": "structural.random_breaks (numba) on seeded RNG"}
    return {"found": False}


CHECKS = [check_sweep, check_random_breaks]
REPLAY = {
    "mchap.assemble.mutation.compound_step": _search_sweep,
    "mchap.assemble.structural.random_breaks": _search_breaks,
}
