"""C15 bounded run-time contracts: sweep coverage of mutation.compound_step (recorder in place of
base_step, real compound_step.py_func), random_breaks partitions, structural compound_step interval
coverage, homozygosity screen and fixed-site re-insertion of DenovoMCMC._mcmc."""
import itertools

import numpy as np

from mchap.assemble import mutation, structural
from mchap.assemble import mcmc as amcmc
from mchap.assemble import snpcalling

RULE = "grid of (ploidy, n_snv) shapes incl. > 127 SNVs / all (n, breaks) pairs with seeded repetitions; a case is non-trivial when ploidy*n_snv > 1 resp. breaks >= 1; all cases distinct by construction"


def _sweep_once(ploidy, n_base, seed):
    """run the real compound_step body (py_func) with base_step replaced by a recorder"""
    calls = []

    def recorder(genotype, reads, llk, h, j, n_alleles, log_unique_haplotypes, inbreeding=0, temp=1, read_counts=None, cache=None):
        calls.append((int(h), int(j), int(n_alleles)))
        return llk, cache

    real = mutation.base_step
    mutation.base_step = recorder
    try:
        np.random.seed(seed)
        genotype = np.zeros((ploidy, n_base), dtype=np.int8)
        reads = np.zeros((1, n_base, 2))
        n_alleles = (np.arange(n_base) % 3 + 2).astype(np.int64)
        mutation.compound_step.py_func(genotype, reads, 0.0, n_alleles, 0.0)
    finally:
        mutation.base_step = real
    expect = sorted((h, j, int(n_alleles[j])) for h in range(ploidy) for j in range(n_base))
    return sorted(calls) == expect, calls, n_alleles


def _sweep_shapes(tier):
    shapes = [(p, n) for p in (1, 2, 3, 4, 6) for n in (1, 2, 3, 5, 8, 13)]
    shapes += [(2, 127), (2, 128), (2, 129), (2, 200), (4, 33), (4, 40), (6, 24), (1, 300), (8, 17), (2, 64), (2, 65)]
    if tier != "quick":
        shapes += [(p, n) for p in (2, 4, 6, 8) for n in (100, 130, 256, 257, 400)]
    return shapes


def _search_sweep(model, seed, given):
    cands = []
    if given:
        cands.append((int(given["ploidy"]), int(given["n_base"])))
    try:
        p = [int(v) for k, v in model.items() if k.startswith("genotype_shape0")]
        n = [int(v) for k, v in model.items() if k.startswith("genotype_shape1")]
        for a in p:
            for b in n:
                if 1 <= a <= 16 and 1 <= b <= 2000:
                    cands.append((a, b))
    except Exception:
        pass
    for ploidy, n_base in cands + _sweep_shapes("quick"):
        ok, calls, n_alleles = _sweep_once(ploidy, n_base, seed)
        if not ok:
            from collections import Counter

            cnt = Counter((h, j) for h, j, _ in calls)
            missing = [(h, j) for h in range(ploidy) for j in range(n_base) if cnt[(h, j)] == 0][:5]
            twice = [k for k, v in cnt.items() if v > 1][:5]
            return {"found": True, "input": {"ploidy": ploidy, "n_base": n_base}, "observed": {"pairs_never_attempted": missing, "pairs_attempted_more_than_once": twice, "n_calls": len(calls)}, "expected": "every (h, j) pair exactly once with n_alleles[j]", "how": "mutation.compound_step.py_func with base_step replaced by a recorder"}
    return {"found": False}


def check_sweep(tier, seed):
    ev = nontriv = 0
    fails = []
    samples = []
    for ploidy, n_base in _sweep_shapes(tier):
        ok, calls, _ = _sweep_once(ploidy, n_base, seed + ev)
        ev += 1
        nontriv += ploidy * n_base > 1
        if not ok and len(fails) < 3:
            r = _search_sweep({}, seed, {"ploidy": ploidy, "n_base": n_base})
            r.update({"key": "rt/sweep_each_pair_once", "check": "mchap.assemble.mutation.compound_step"})
            fails.append(r)
        if len(samples) < 2:
            samples.append({"ploidy": ploidy, "n_base": n_base, "first_calls": calls[:4]})
    return {"bound": "%d (ploidy, n_snv) shapes up to %d SNVs" % (ev, max(n for _, n in _sweep_shapes(tier))), "evaluations": ev, "distinct_nontrivial": nontriv, "failures": fails, "samples": samples, "exhaustive": False}


def _breaks_ok(iv, breaks, n):
    iv = np.asarray(iv)
    if iv.shape != (breaks + 1, 2):
        return False
    if iv[0, 0] != 0 or iv[-1, 1] != n:
        return False
    for i in range(breaks + 1):
        if not iv[i, 0] < iv[i, 1]:
            return False
        if i < breaks and iv[i, 1] != iv[i + 1, 0]:
            return False
    return True


def check_random_breaks(tier, seed):
    nmax, reps = (14, 6) if tier == "quick" else (40, 25)
    ev = nontriv = 0
    fails = []
    samples = []
    for n in list(range(1, nmax + 1)) + [130, 300]:
        for breaks in range(0, n) if n <= nmax else (0, 1, 5, n - 1):
            for r in range(reps):
                np.random.seed(seed * 1000 + n * 131 + breaks * 17 + r)
                structural.seed = None
                from mchap.jitutils import seed_numba

                seed_numba(seed * 1000 + n * 131 + breaks * 17 + r)
                iv = structural.random_breaks(breaks, n)
                ev += 1
                nontriv += breaks >= 1
                if not _breaks_ok(iv, breaks, n) and len(fails) < 3:
                    fails.append({"key": "rt/random_breaks_partition", "check": "mchap.assemble.structural.random_breaks", "input": {"breaks": breaks, "n": n, "rep": r}, "observed": np.asarray(iv).tolist(), "expected": "contiguous non-empty intervals partitioning [0,n)"})
                if len(samples) < 2 and breaks == 2:
                    samples.append({"n": n, "breaks": breaks, "intervals": np.asarray(iv).tolist()})
    return {"bound": "n <= %d (and 130, 300), every breaks < n, %d seeds each" % (nmax, reps), "evaluations": ev, "distinct_nontrivial": nontriv, "failures": fails, "samples": samples, "exhaustive": False}


def _search_breaks(model, seed, given):
    r = check_random_breaks("quick", seed)
    if r["failures"]:
        f = r["failures"][0]
        return {"found": True, "input": f["input"], "observed": f["observed"], "expected": f["expected"], "how": "structural.random_breaks (numba) on seeded RNG"}
    return {"found": False}


def check_fixed_sites(tier, seed):
    """SNVs are held fixed exactly when their single-SNV posterior probability of being homozygous reaches
    fix_homozygous, and fixed SNVs reappear in the trace in the right column with the right allele"""
    from rt.oracles import exact_posterior

    rng = np.random.default_rng(seed + 15)
    ev = nontriv = 0
    fails = []
    samples = []

    def bad(key, fn, inp, obs, exp, how=""):
        if len(fails) < 4 and not any(f["key"] == key for f in fails):
            fails.append({"key": key, "check": fn, "input": inp, "observed": obs, "expected": exp, "how": how})

    real = amcmc._denovo_assembler
    captured = {}

    def recorder(**kw):
        captured.update(kw)
        g = kw["genotype"]
        steps = kw["steps"]
        # recognisable trace: column c of the variable sites carries (c % n_alleles) in haplotype 0, 0 elsewhere
        tr = np.zeros((1, steps) + g.shape, dtype=np.int8)
        for c in range(g.shape[1]):
            tr[0, :, 0, c] = (c + 1) % int(kw["n_alleles"][c])
        return tr, np.zeros((1, steps))

    amcmc._denovo_assembler = recorder
    try:
        for rep in range(40 if tier == "quick" else 400):
            n_base = int(rng.integers(1, 6))
            ploidy = int(rng.choice([2, 4]))
            n_alleles = rng.integers(2, 4, size=n_base)
            A = int(n_alleles.max())
            F = float(rng.choice([0.0, 0.0, 0.2, 0.5]))
            n_reads = int(rng.integers(1, 7))
            reads = np.zeros((n_reads, n_base, A))
            hom_sites = rng.random(n_base) < 0.5
            for j in range(n_base):
                n = int(n_alleles[j])
                fav = int(rng.integers(0, n))
                for r in range(n_reads):
                    e = float(rng.choice([0.001, 0.02, 0.2]))
                    a = fav if (hom_sites[j] or rng.random() < 0.5) else int(rng.integers(0, n))
                    reads[r, j, :n] = e / max(n - 1, 1)
                    reads[r, j, a] = 1 - e
                    if rng.random() < 0.1:
                        reads[r, j, :] = np.nan
            counts = rng.integers(1, 4, size=n_reads).astype(np.int64)
            thr = float(rng.choice([0.5, 0.9, 0.999, 1.0]))
            # independent single-SNV posteriors
            exp_fixed = {}
            margin = 1.0
            for j in range(n_base):
                n = int(n_alleles[j])
                Hs = np.arange(n, dtype=np.int8)[:, None]
                gens, post = exact_posterior(reads[:, j : j + 1, :], counts, Hs, ploidy, [1.0 / n] * n, F)
                for a in range(n):
                    p = post[gens.index(tuple([a] * ploidy))]
                    margin = min(margin, abs(p - thr))
                    if p >= thr:
                        exp_fixed[j] = a
            # the screen's own probabilities against the independent posterior
            hp = amcmc._homozygosity_probabilities(reads, n_alleles.astype(np.int8), ploidy, inbreeding=F, read_counts=counts)
            for j in range(n_base):
                n = int(n_alleles[j])
                Hs = np.arange(n, dtype=np.int8)[:, None]
                gens, post = exact_posterior(reads[:, j : j + 1, :], counts, Hs, ploidy, [1.0 / n] * n, F)
                for a in range(n):
                    p = post[gens.index(tuple([a] * ploidy))]
                    if abs(float(hp[j, a]) - p) > 1e-7:
                        bad("rt/homozygosity_probability", "mchap.assemble.mcmc._homozygosity_probabilities", {"reads_site": reads[:, j, :].tolist(), "read_counts": counts.tolist(), "n_alleles_site": n, "array_width": A, "ploidy": ploidy, "inbreeding": F, "allele": a}, float(hp[j, a]), p, "single-SNV posterior probability of being homozygous for the allele (exact enumeration)")
            # "reaches": a threshold EQUAL to a site's homozygosity probability fixes that site.  Decided with the screen's
            # own probabilities (validated above against the enumeration), so rounding plays no part.
            cand = [(j, a) for j in range(n_base) for a in range(int(n_alleles[j])) if float(hp[j, a]) > 0.5]
            if cand:
                j0, a0 = cand[int(rng.integers(0, len(cand)))]
                thr_eq = float(hp[j0, a0])
                exp_eq = {j: a for j in range(n_base) for a in range(int(n_alleles[j])) if float(hp[j, a]) >= thr_eq}
                model = amcmc.DenovoMCMC(ploidy=ploidy, n_alleles=[int(x) for x in n_alleles], inbreeding=F, steps=5, chains=1, fix_homozygous=thr_eq, random_seed=1)
                captured.clear()
                np.random.seed(rep)
                model._mcmc(reads, counts)
                ev += 1
                got_cols = captured["reads"].shape[1] if captured else 0
                if got_cols != n_base - len(exp_eq):
                    bad("rt/fixed_when_probability_equals_threshold", "mchap.assemble.mcmc.DenovoMCMC._mcmc", {"reads": reads.tolist(), "read_counts": counts.tolist(), "n_alleles": n_alleles.tolist(), "ploidy": ploidy, "inbreeding": F, "fix_homozygous": thr_eq, "site_at_threshold": j0}, {"variable_sites_passed_to_sampler": got_cols}, {"variable_sites": n_base - len(exp_eq)}, "a site whose homozygosity probability equals --mcmc-fix-homozygous is fixed (>=)")
            if margin < 1e-9:
                continue  # exactly at the threshold: rounding decides
            model = amcmc.DenovoMCMC(ploidy=ploidy, n_alleles=[int(x) for x in n_alleles], inbreeding=F, steps=5, chains=1, fix_homozygous=thr, random_seed=1)
            captured.clear()
            np.random.seed(rep)
            gt, llk = model._mcmc(reads, counts)
            ev += 1
            nontriv += 0 < len(exp_fixed) < n_base
            inp = {"reads": reads.tolist(), "read_counts": counts.tolist(), "n_alleles": n_alleles.tolist(), "ploidy": ploidy, "inbreeding": F, "fix_homozygous": thr}
            var_cols = [j for j in range(n_base) if j not in exp_fixed]
            if captured:
                got_cols = captured["reads"].shape[1]
                if got_cols != len(var_cols) or [int(x) for x in captured["n_alleles"]] != [int(n_alleles[j]) for j in var_cols]:
                    bad("rt/fixed_iff_homozygous_posterior_reaches_threshold", "mchap.assemble.mcmc.DenovoMCMC._mcmc", inp, {"variable_sites_passed_to_sampler": got_cols, "n_alleles": [int(x) for x in captured["n_alleles"]]}, {"variable_sites": var_cols}, "independent single-SNV posterior (exact enumeration, flat prior over the SNV's alleles)")
                    continue
            elif var_cols:
                bad("rt/fixed_iff_homozygous_posterior_reaches_threshold", "mchap.assemble.mcmc.DenovoMCMC._mcmc", inp, "all sites fixed", {"variable_sites": var_cols})
                continue
            # fixed columns restored with the right allele, variable columns in order
            ok = gt.shape == (5, ploidy, n_base)
            for j, a in exp_fixed.items():
                ok = ok and bool((gt[:, :, j] == a).all())
            for c, j in enumerate(var_cols):
                ok = ok and bool((gt[:, 0, j] == (c + 1) % int(n_alleles[j])).all()) and bool((gt[:, 1:, j] == 0).all())
            if not ok:
                bad("rt/fixed_sites_reinserted", "mchap.assemble.mcmc.DenovoMCMC._mcmc", inp, gt[0].tolist(), {"fixed": {str(k): v for k, v in exp_fixed.items()}, "variable_columns": var_cols}, "trace columns: fixed allele at fixed sites, sampler columns in order elsewhere")
            if len(samples) < 2:
                samples.append({"n_base": n_base, "fixed": {str(k): v for k, v in exp_fixed.items()}, "threshold": thr})
    finally:
        amcmc._denovo_assembler = real
    return {"bound": "seeded random loci (<=5 SNVs, 2-3 alleles, ploidy 2/4, F {0,.2,.5}) x thresholds {.5,.9,.999,1}", "evaluations": ev, "distinct_nontrivial": nontriv, "failures": fails, "samples": samples, "exhaustive": False}


CHECKS = [check_sweep, check_random_breaks, check_fixed_sites]
REPLAY = {
    "mchap.assemble.mutation.compound_step": _search_sweep,
    "mchap.assemble.structural.random_breaks": _search_breaks,
}
