#!/usr/bin/env python3
"""Scratch-copy mutation self-test of the verifier (DESIGN.md 2.7): every deliberately broken body in
selftest/mutants.json must make at least one obligation of the named unit(s) fail (not 'unsat'); a
mutant that still verifies exposes an unsound engine or a too-weak contract.  Run with python3-vt."""
import json
import multiprocessing as mp
import os
import shutil
import sys
import tempfile

ROOT = os.path.dirname(os.path.dirname(os.path.abspath(__file__)))
sys.path.insert(0, ROOT)


def run_mutant(m):
    d = tempfile.mkdtemp(prefix="pyvc_mut_")
    try:
        shutil.copytree("/repo/mchap", os.path.join(d, "mchap"), ignore=shutil.ignore_patterns("tests", "__pycache__"))
        if m.get("contract_file"):
            # probe of the verifier itself: a FALSE ghost claim inserted into a sidecar contract must not be provable
            shutil.copytree(os.path.join(ROOT, "contracts"), os.path.join(d, "contracts"))
            os.environ["PYVC_CONTRACTS"] = os.path.join(d, "contracts")
            p = os.path.join(d, m["contract_file"])
        else:
            os.environ.pop("PYVC_CONTRACTS", None)
            p = os.path.join(d, m["file"])
        src = open(p).read()
        if src.count(m["find"]) < 1:
            return m["id"], "STALE", "pattern not found"
        open(p, "w").write(src.replace(m["find"], m["replace"], 1))
        os.environ["PYVC_REPO"] = d
        from pyvc import run as R

        db = R.load_db()
        bad = []
        err = []
        for u in R.list_units(db):
            if u[0] == "contract" and u[1] in m["units"]:
                r = R.verify_unit(u, int(os.environ.get("SELFTEST_TIMEOUT_MS", "8000")))
                if r["error"]:
                    err.append(r["error"].strip().splitlines()[-1][:150])
                bad += [o["id"].split("/", 1)[1][:70] + ":" + o["status"] for o in r["obligations"] if o["status"] != "unsat"]
        if bad:
            return m["id"], "KILLED", "; ".join(bad[:3])
        if err:
            return m["id"], "ERROR", "; ".join(err[:2])
        return m["id"], "SURVIVED", ""
    finally:
        shutil.rmtree(d, ignore_errors=True)


def main():
    ms = json.load(open(os.path.join(ROOT, "selftest", "mutants.json")))
    if len(sys.argv) > 1:
        ms = [m for m in ms if any(a in m["id"] for a in sys.argv[1:])]
    # one fresh process per mutant: the contract database is cached per process and contract probes replace it
    with mp.Pool(min(16, len(ms)), maxtasksperchild=1) as pool:
        res = pool.map(run_mutant, ms, chunksize=1)
    rc = 0
    exp = {m["id"]: m.get("expect", "killed") for m in ms}
    for i, st, det in res:
        flag = ""
        if st == "SURVIVED" and exp[i] == "killed":
            flag = "   <<<<<< UNSOUND OR WEAK"
            rc = 1
        if st == "STALE":
            rc = 1
        print("%-28s %-9s %s%s" % (i, st, det, flag))
    return rc


if __name__ == "__main__":
    sys.exit(main())
